package main

import (
	"go/token"
	"fmt"
	"go/ast"
	"go/types"
	"strings"
)

// nilAfterErrorSites: `x, err := f(...)` whose failure does not leave the region
// (error logged and execution continues, or error assigned to _) and whose
// pointer/map/interface result x is dereferenced afterwards.
func nilAfterErrorSites(v *FnView) []string {
	var out []string
	ast.Inspect(v.Decl.Body, func(n ast.Node) bool {
		as, ok := n.(*ast.AssignStmt)
		if !ok || len(as.Rhs) != 1 || len(as.Lhs) < 2 {
			return true
		}
		call, ok := as.Rhs[0].(*ast.CallExpr)
		if !ok || !lastResultIsError(v, call) {
			return true
		}
		errLhs, _ := as.Lhs[len(as.Lhs)-1].(*ast.Ident)
		if errLhs == nil {
			return true
		}
		kind := ""
		if errLhs.Name == "_" {
			kind = "blank"
		} else {
			k, _ := v.failArm(call)
			if k == "fallthrough" || k == "untested" {
				kind = k
			}
		}
		if kind == "" {
			return true
		}
		for _, l := range as.Lhs[:len(as.Lhs)-1] {
			id, ok := l.(*ast.Ident)
			if !ok || id.Name == "_" {
				continue
			}
			obj := v.Info.ObjectOf(id)
			if obj == nil {
				continue
			}
			switch obj.Type().Underlying().(type) {
			case *types.Pointer, *types.Map, *types.Interface:
			default:
				continue
			}
			// dereference after the assignment
			var use ast.Node
			ast.Inspect(v.Decl.Body, func(m ast.Node) bool {
				if use != nil {
					return false
				}
				switch x := m.(type) {
				case *ast.SelectorExpr:
					if xi, ok := x.X.(*ast.Ident); ok && v.Info.ObjectOf(xi) == obj && x.Pos() > as.End() && v.reaches(as, x) {
						// guarded by a nil test of x?
						guarded := false
						for _, f := range v.FactsAt(x, false) {
							if c, ok := factCmp(f); ok && v.objOf(c.L) == obj && isNilIdent(v.Info, c.R) && c.Op == "!=" {
								guarded = true
							}
						}
						if !guarded {
							use = x
						}
					}
				case *ast.StarExpr:
					if xi, ok := x.X.(*ast.Ident); ok && v.Info.ObjectOf(xi) == obj && x.Pos() > as.End() && v.reaches(as, x) {
						use = x
					}
				}
				return true
			})
			if use != nil {
				out = append(out, fmt.Sprintf("%s %s %s := %s; error %s; dereferenced at %s", v.pos(as), funcID(v.Obj), id.Name, exprString(call.Fun), kind, v.pos(use)))
			}
		}
		return true
	})
	return out
}

var divMethods = map[string]bool{"Quo": true, "QuoInt": true, "QuoInt64": true, "QuoRaw": true, "QuoTruncate": true, "QuoRoundUp": true, "QuoMut": true, "Div": true, "Mod": true, "Rem": true, "QuoRem": true, "QuoUint64": true}

type divSite struct {
	v       *FnView
	node    ast.Node
	divisor ast.Expr
	what    string
}

// divisionSites lists divisions with a non-constant divisor in a function.
func divisionSites(v *FnView) []divSite {
	var out []divSite
	ast.Inspect(v.Decl.Body, func(n ast.Node) bool {
		switch x := n.(type) {
		case *ast.BinaryExpr:
			if x.Op.String() == "/" || x.Op.String() == "%" {
				if v.constOf(x.Y) != nil {
					return true
				}
				if b, ok := v.Info.TypeOf(x.Y).Underlying().(*types.Basic); ok && b.Info()&types.IsInteger != 0 {
					out = append(out, divSite{v, x, x.Y, "integer " + x.Op.String()})
				}
			}
		case *ast.CallExpr:
			recv, name, args, ok := methodCall(x)
			if !ok || !divMethods[name] || len(args) != 1 {
				return true
			}
			rt := v.Info.TypeOf(recv)
			if rt == nil {
				return true
			}
			ts := rt.String()
			if !(strings.Contains(ts, "math.Int") || strings.Contains(ts, "LegacyDec") || strings.Contains(ts, "big.Int") || strings.Contains(ts, "types.Dec") || strings.Contains(ts, "DecCoins") || strings.Contains(ts, "types.Int")) {
				return true
			}
			if v.constOf(args[0]) != nil {
				return true
			}
			out = append(out, divSite{v, x, args[0], name})
		}
		return true
	})
	return out
}

// divisorGuarded: a fact at the division says the divisor is non-zero/positive,
// or the divisor is a constructor of a positive constant.
func divisorGuarded(d divSite) (bool, string) {
	v := d.v
	ds := exprString(d.divisor)
	// positive literal constructors: NewInt(10), LegacyNewDec(100), NewIntWithDecimal(1, k), 10^k helpers
	for _, def := range v.resolveDefs(d.divisor, 0) {
		if name, args, ok := funcCallName(def); ok {
			switch name {
			case "NewInt", "LegacyNewDec", "NewDec", "NewUint", "LegacyNewDecWithPrec", "NewDecWithPrec", "NewIntWithDecimal", "LegacyNewDecFromInt":
				if len(args) >= 1 {
					if cv := v.constOf(args[0]); cv != nil && cv.ExactString() != "0" && !strings.HasPrefix(cv.ExactString(), "-") {
						return true, "positive constant"
					}
				}
			case "Exp":
				return true, "10^k"
			}
		}
	}
	// sub-expressions of the divisor that a zero test may be about: conversions such
	// as LegacyNewDec(x) / NewDecFromBigInt(x.BigInt()) are zero iff x is zero.
	subs := map[string]bool{ds: true}
	if c, ok := stripParens(d.divisor).(*ast.CallExpr); ok {
		if name, _, ok := funcCallName(c); ok && (strings.Contains(name, "NewDec") || strings.Contains(name, "NewInt") || strings.Contains(name, "FromBigInt") || strings.Contains(name, "FromInt")) {
			ast.Inspect(c, func(n ast.Node) bool {
				switch x := n.(type) {
				case *ast.Ident:
					if _, isVar := v.Info.ObjectOf(x).(*types.Var); isVar {
						subs[x.Name] = true
					}
				case *ast.SelectorExpr:
					subs[exprString(x)] = true
				}
				return true
			})
		}
	}
	for _, f := range v.FactsAt(d.node, false) {
		s := exprString(f.Atom)
		if c, ok := stripParens(f.Atom).(*ast.CallExpr); ok {
			if recv, name, _, ok := methodCall(c); ok && subs[exprString(recv)] {
				if (name == "IsZero" && !f.Truth) || (name == "IsPositive" && f.Truth) || (name == "IsNil" && false) {
					return true, "guarded by " + s
				}
			}
		}
		if cm, ok := factCmp(f); ok && subs[exprString(cm.L)] {
			r := exprString(cm.R)
			if (cm.Op == "!=" && r == "0") || (cm.Op == ">" && r == "0") || (cm.Op == ">=" && r == "1") {
				return true, "guarded by " + s
			}
		}
	}
	return false, ""
}

func init() { register("C11", runC11) }

// audited nil-after-error sites (function|variable): reason.
var nilAfterAudit = map[string]string{
	"x/feedistribution/keeper.Keeper.AllocateTokensToValidator|ops": "the validator's operator address comes from the operator registry (reverse lookup -> ValidatorByConsAddrForChainID) and operator records are never deleted, so OperatorInfo cannot miss",
	"x/oracle.AppModule.EndBlock|pubKey":                            "the protobuf public key is the one dogfood stored in its own ValidatorUpdates this block (built by ToTmProtoKey)",
}

// audited Must*Bech32 sites: the string was stored by the module itself.
var mustBech32Audit = map[string]string{
	"x/delegation/keeper.Keeper.EndBlock":                           "record.OperatorAddr of an undelegation record the module stored (written from AccAddress.String())",
	"x/assets/keeper.Keeper.GetStakerSpecifiedAssetInfo":            "operator key of a delegation-info map built from the delegation store's own keys",
	"x/delegation/keeper.Keeper.AllDelegatedInfoForStakerAsset":     "operator address parsed from the delegation store's own keys",
	"x/delegation/keeper.Keeper.TotalDelegatedAmountForStakerAsset": "operator address parsed from the delegation store's own keys",
}

// audited divisors: validated non-zero at their only writers.
var divisorAudit = map[string]string{
	"x/oracle/keeper/aggregator.AggregatorContext.PrepareRoundEndBlock|feeder.Interval": "TokenFeeder.Interval < 1 is rejected by the feeder validation (witnessed by C11.R3w) and RegisterNewTokenAndSetTokenFeeder substitutes a positive default",
}

// audited parse sites on unrecovered paths.
var parseAudit = map[string]string{
	"x/oracle/keeper/aggregator.aggregator.fillPrice": "on the unrecovered path (EndBlock recache) only messages from the persisted recent-message log are replayed; each of them went through this same code in DeliverTx, where a non-numeric price panics and the message is rejected before it is logged (the DeliverTx side is C09/C14's subject)",
	"x/oracle/keeper/aggregator.calculator.fillPrice": "same as aggregator.fillPrice: replay of messages already accepted by the same code in DeliverTx",
}

func runC11(r *Run) {
	w := r.W
	r.Explain = "Static decision of structural necessary conditions of C11 (chain liveness) on the UNRECOVERED paths only - functions reachable from Begin/EndBlock, the wired epoch hooks and the staking-interface callbacks that the SDK's slashing/evidence/gov modules invoke from their Begin/EndBlockers: (R1) every explicit panic, Must* call and unchecked type assertion there belongs to an accepted class (codec of the module's own store values, addresses the module stored itself, exhaustive type switches) or is reported; (R2) no pointer/map/interface result is dereferenced after its error was merely logged or discarded; (R3) every division has a divisor that is a positive constant, is dominated by a non-zero test, or is validated non-zero at its writers; (R5) parse results (SetString) are checked."
	r.NotDec = []string{"integer overflow panics inside sdk.Int, allocation blow-ups, infinite loops, nil map writes", "panics inside dependencies", "DeliverTx/CheckTx paths (recovered by baseapp.runTx - trusted base)", "feasibility of the audited sites is argued by reading"}
	r.Assume = []string{"baseapp recovers panics in runTx only", "gov.EndBlocker -> Tally calls StakingKeeper.IterateDelegations and TotalBondedTokens (cosmos-sdk v0.47 x/gov/keeper/tally.go)"}
	r.rule("C11.R1", "explicit panics / Must* / unchecked type assertions reachable from unrecovered roots are of an accepted class", 90)
	r.rule("C11.R2", "no dereference of a pointer/map/interface result after its error was logged-and-continued or discarded", 2)
	r.rule("C11.R3", "every division reachable from unrecovered roots has a non-zero divisor by construction, by a dominating test, or by validation at its writers", 8)
	r.rule("C11.R3w", "witnesses for the audited divisor: TokenFeeder validation rejects Interval < 1; every writer of oracle params validates or constructs non-zero intervals", 4)
	r.rule("C11.R5", "the ok result of big.Int.SetString / NewIntFromString is checked before the value is used on unrecovered paths", 2)
	r.rule("C11.R6", "arithmetic that panics on a negative result in block processing stays non-negative by construction: the fee-distribution remainder (C17.R3/R4 obligations) and the slashed-undelegation clamp (C04.R2)", 8)
	r.rule("C11.R7", "every index/slice expression on an unrecovered path whose bounds check the Go compiler cannot eliminate is dominated by a length test, is of a safe shape (range index, sort comparator, parsed-n, split-first), or is audited", 40)
	r.rule("C11.R8", "no write to an entry of a nil map: map fields of the repository's structs that are written by index are initialised at every construction site (or by the writer itself); an inner map is created under a presence test before it is written", 8)
	c11MapFields(r)
	c11NestedMapWrites(r)
	c11Bounds(r)
	if r.Prop == "C11" {
		sub := NewRun(r.W, "C17", r.Tier, r.Seed)
		runC17(sub)
		n := 0
		for _, o := range sub.Obs {
			if o.Rule != "C17.R3" && o.Rule != "C17.R4" {
				continue
			}
			n++
			if o.Status == "ok" {
				r.ok("C11.R6", o.Key, o.Pos, o.Desc)
			} else {
				r.bad("C11.R6", o.Key, o.Pos, o.Desc, o.Detail)
			}
		}
		if n == 0 {
			r.bad("C11.R6", "remainder|none", "-", "C17.R3 obligations present", "no obligations")
		}
		// a slashed undelegation never goes below zero (its completed amount becomes a coin amount in the
		// delegation EndBlock, where a negative value panics): the clamp of C04.R2
		sub4 := NewRun(r.W, "C04", r.Tier, r.Seed)
		runC04(sub4)
		for _, o := range sub4.Obs {
			if o.Rule != "C04.R2" {
				continue
			}
			if o.Status == "ok" {
				r.ok("C11.R6", "slash|"+o.Key, o.Pos, o.Desc)
			} else {
				r.bad("C11.R6", "slash|"+o.Key, o.Pos, o.Desc, o.Detail)
			}
		}
	}

	br := blockReachable(w)
	skip := func(f *types.Func) bool {
		id := funcID(f)
		return strings.HasPrefix(id, "x/appchain") || strings.HasPrefix(id, "x/evm") || strings.HasSuffix(id, ".InitGenesis") || strings.HasSuffix(id, ".ExportGenesis") || strings.HasPrefix(id, "x/reward")
	}
	for f, path := range br {
		v := w.ViewOf(f)
		if v == nil || skip(f) {
			continue
		}
		r.saw(funcID(f))
		id := funcID(f)
		nth := map[string]int{}
		for _, c := range allCalls(v.Decl.Body) {
			name := ""
			if idt, ok := c.Fun.(*ast.Ident); ok && idt.Name == "panic" {
				if _, isB := v.Info.Uses[idt].(*types.Builtin); isB {
					name = "panic"
				}
			} else if n := v.calleeName(c); strings.HasPrefix(n, "Must") {
				name = n
			}
			if name == "" {
				continue
			}
			nth[name]++
			key := fmt.Sprintf("%s|%s#%d", id, name, nth[name])
			switch {
			case strings.HasPrefix(name, "MustMarshal"), strings.HasPrefix(name, "MustUnmarshal"), name == "MustLengthPrefix", name == "MustSortJSON":
				r.ok("C11.R1", key, v.pos(c), "codec of a value of the module's own store / fixed-size key prefixing")
			case strings.HasSuffix(name, "FromBech32"):
				if why, ok := mustBech32Audit[id]; ok {
					r.ok("C11.R1", key, v.pos(c), "audited: "+why)
				} else {
					r.bad("C11.R1", key, v.pos(c), "Must*FromBech32 on unrecovered path", "a malformed address string panics in block processing; path: "+path)
				}
			case name == "panic":
				// panic(err) under a failed Unmarshal of the module's own store bytes
				okClass := false
				for _, ft := range v.FactsAt(c, false) {
					if o := v.outcome(ft); o != nil && !o.Success && (o.Callee.Name() == "Unmarshal" || o.Callee.Name() == "Marshal") {
						okClass = true
					}
				}
				// default arm of an exhaustive type switch over a parameter
				if !okClass {
					okClass = v.exhaustiveTypeSwitchDefault(c)
				}
				if okClass {
					r.ok("C11.R1", key, v.pos(c), "panic on failed (un)marshal of the module's own store value / unreachable default of an exhaustive type switch")
				} else {
					r.bad("C11.R1", key, v.pos(c), "explicit panic on unrecovered path", "panic reachable from block processing halts the chain; path: "+path)
				}
			default:
				r.bad("C11.R1", key, v.pos(c), "Must* call on unrecovered path", name+" panics on failure; path: "+path)
			}
		}
		ast.Inspect(v.Decl.Body, func(n ast.Node) bool {
			if ta, ok := n.(*ast.TypeAssertExpr); ok && ta.Type != nil {
				if as, ok := v.parent(ta).(*ast.AssignStmt); !ok || len(as.Lhs) != 2 {
					if vs, ok := v.parent(ta).(*ast.ValueSpec); !ok || len(vs.Names) != 2 {
						r.bad("C11.R1", id+"|type-assertion|"+exprString(ta), v.pos(ta), "unchecked type assertion on unrecovered path", "x.(T) without the ok form panics on a type mismatch")
					}
				}
			}
			return true
		})
		// R2
		for _, as := range nilAfterErrorAssigns(v) {
			key := id + "|" + as.varName
			if why, ok := nilAfterAudit[key]; ok {
				r.ok("C11.R2", key, as.pos, "audited: "+why)
				continue
			}
			r.bad("C11.R2", key, as.pos, "nil-after-error", as.desc+" (a nil dereference in block processing halts the chain)")
		}
		// R3
		for _, d := range divisionSites(v) {
			ok, why := divisorGuarded(d)
			key := id + "|" + exprString(d.divisor)
			if !ok {
				if a, isAud := divisorAudit[key]; isAud {
					ok, why = true, "audited: "+a
				}
			}
			r.check(ok, "C11.R3", key, v.pos(d.node), "divisor of "+d.what+" is non-zero: "+why, "division ("+d.what+") by "+exprString(d.divisor)+" without a dominating non-zero test, on a path reachable from block processing: a zero divisor panics and halts the chain")
		}
		// R5
		for _, c := range allCalls(v.Decl.Body) {
			n := v.calleeName(c)
			if n != "SetString" && n != "NewIntFromString" {
				continue
			}
			tested := false
			if as, ok := v.parent(c).(*ast.AssignStmt); ok && len(as.Lhs) == 2 {
				if idt, ok := as.Lhs[1].(*ast.Ident); ok && idt.Name != "_" {
					tested = true
				}
			}
			if ifs, ok := v.parent(v.parent(c)).(*ast.IfStmt); ok && ifs.Init != nil && within(c, ifs.Init) {
				tested = true
			}
			if !tested {
				// value nil-tested in the next statement (`v, _ := NewIntFromString(s); if v.IsNil() || … {`)
				if as, ok := v.parent(c).(*ast.AssignStmt); ok && len(as.Lhs) >= 1 {
					vobj := v.objOf(as.Lhs[0])
					list := stmtListOf(v.parent(as))
					for i, st := range list {
						if st == ast.Stmt(as) && i+1 < len(list) {
							if ifs, ok := list[i+1].(*ast.IfStmt); ok && v.terminates(ifs.Body) {
								for _, dj := range disjuncts(ifs.Cond) {
									if recv, nm, _, ok := methodCall(dj); ok && nm == "IsNil" && v.objOf(recv) == vobj {
										tested = true
									}
								}
							}
						}
					}
				}
			}
			if why, ok := parseAudit[id]; ok && !tested {
				r.ok("C11.R5", id+"|"+n, v.pos(c), "audited: "+why)
				continue
			}
			r.check(tested, "C11.R5", id+"|"+n, v.pos(c), "parse result checked", "the ok result of "+n+" is discarded: a non-numeric string yields a nil/zero big.Int that panics when used")
		}
	}
	// R3w
	found := false
	if p := w.Pkg("x/oracle/types"); p != nil {
		for _, f := range p.Syntax {
			ast.Inspect(f, func(n ast.Node) bool {
				ifs, ok := n.(*ast.IfStmt)
				if !ok {
					return true
				}
				for _, dj := range disjuncts(ifs.Cond) {
					if be, ok := stripParens(dj).(*ast.BinaryExpr); ok && be.Op.String() == "<" && lastField(be.X) == "Interval" && exprString(be.Y) == "1" {
						for _, s := range ifs.Body.List {
							if rs, ok := s.(*ast.ReturnStmt); ok && len(rs.Results) > 0 && strings.Contains(exprString(rs.Results[len(rs.Results)-1]), "ErrInvalidParams") {
								found = true
							}
						}
					}
				}
				return true
			})
		}
	}
	r.check(found, "C11.R3w", "oracle|TokenFeeder.Interval>=1", "-", "TokenFeeder validation rejects Interval < 1", "no validation `Interval < 1 -> ErrInvalidParams` found in x/oracle/types: feeder.Interval can be zero and PrepareRoundEndBlock divides by it in EndBlock")
	// writer side: every function that stores oracle params either validated them on the way, or gives every
	// feeder it constructs a non-zero interval by construction (positive constant, or a variable that an
	// unconditional `if x == 0 { x = <positive constant> }` fixed up before and that is not assigned after)
	for _, fv := range w.allViews() {
		if !strings.HasPrefix(fv.ID(), "x/oracle") {
			continue
		}
		var sets []*ast.CallExpr
		for _, c := range fv.CallsNamed("SetParams") {
			if cal := fv.callee(c); cal != nil && cal.Pkg() != nil && strings.HasSuffix(cal.Pkg().Path(), "x/oracle/keeper") && len(c.Args) == 2 {
				sets = append(sets, c)
			}
		}
		if len(sets) == 0 || fv.Decl.Name.Name == "SetParams" {
			continue
		}
		r.saw(fv.ID())
		lits := fv.compositeLits(fv.Decl.Body, "TokenFeeder")
		assigns := fv.assignmentsToField(fv.Decl.Body, "Interval")
		for i, c := range sets {
			key := fmt.Sprintf("oracle|params-writer|%s#%d", fv.ID(), i+1)
			validated := false
			for _, f := range fv.FactsAt(c, false) {
				if o := fv.outcome(f); o != nil && (o.Callee.Name() == "Validate" || o.Callee.Name() == "ValidateBasic") && o.Success {
					validated = true
				}
			}
			if fv.Decl.Name.Name == "InitGenesis" {
				validated = true // genesis state is validated by ValidateGenesis before InitGenesis (module manager contract)
			}
			if validated {
				r.ok("C11.R3w", key, fv.pos(c), "params are validated (Interval >= 1) before they are stored")
				continue
			}
			okAll := true
			why := ""
			for _, cl := range lits {
				iv := compositeField(cl, "Interval")
				if iv == nil {
					okAll, why = false, "a TokenFeeder literal at "+fv.pos(cl)+" has no Interval"
					continue
				}
				if cv := fv.constOf(iv); cv != nil {
					if cv.ExactString() == "0" {
						okAll, why = false, "a TokenFeeder literal has Interval 0"
					}
					continue
				}
				obj := fv.objOf(iv)
				fixed := false
				if obj != nil {
					var fix *ast.IfStmt
					for _, st := range fv.Decl.Body.List {
						ifs, isIf := st.(*ast.IfStmt)
						if !isIf || ifs.Pos() > cl.Pos() || ifs.Else != nil || len(ifs.Body.List) != 1 {
							continue
						}
						b, isB := stripParens(ifs.Cond).(*ast.BinaryExpr)
						as, isAs := ifs.Body.List[0].(*ast.AssignStmt)
						if isB && isAs && b.Op == token.EQL && fv.objOf(b.X) == obj && exprString(b.Y) == "0" && len(as.Lhs) == 1 && fv.objOf(as.Lhs[0]) == obj {
							if cv := fv.constOf(as.Rhs[0]); cv != nil && cv.ExactString() != "0" && !strings.HasPrefix(cv.ExactString(), "-") {
								fix = ifs
							}
						}
					}
					if fix != nil {
						fixed = true
						// not assigned again between the fix-up and the literal
						ast.Inspect(fv.Decl.Body, func(n ast.Node) bool {
							if as, ok := n.(*ast.AssignStmt); ok && as.Pos() > fix.End() && as.Pos() < cl.Pos() {
								for _, l := range as.Lhs {
									if fv.objOf(l) == obj {
										fixed = false
									}
								}
							}
							return true
						})
					}
					for _, f := range fv.FactsAt(cl, false) {
						if cm, ok := factCmp(f); ok && fv.objOf(cm.L) == obj && ((cm.Op == "!=" && exprString(cm.R) == "0") || (cm.Op == ">" && exprString(cm.R) == "0") || (cm.Op == ">=" && exprString(cm.R) == "1")) {
							fixed = true
						}
					}
				}
				if !fixed {
					okAll, why = false, "the TokenFeeder literal at "+fv.pos(cl)+" takes Interval from "+exprString(iv)+", which is not made non-zero before"
				}
			}
			for _, as := range assigns {
				// feeder.Interval = x: only under x > 0
				okA := false
				for _, f := range fv.FactsAt(as, false) {
					if cm, ok := factCmp(f); ok && cm.Op == ">" && exprString(cm.R) == "0" && sameExpr(cm.L, as.Rhs[0]) {
						okA = true
					}
				}
				if !okA {
					okAll, why = false, "Interval is assigned at "+fv.pos(as)+" without a positivity test"
				}
			}
			r.check(okAll, "C11.R3w", key, fv.pos(c), "params stored without validation only contain feeders whose interval is non-zero by construction", fv.ID()+" stores oracle params without validating them and "+why+": PrepareRoundEndBlock divides by the interval in EndBlock (chain halt)")
		}
	}
}

type nilAfter struct{ varName, pos, desc string }

func nilAfterErrorAssigns(v *FnView) []nilAfter {
	var out []nilAfter
	for _, s := range nilAfterErrorSites(v) {
		// "pos func var := call; error kind; dereferenced at pos"
		parts := strings.SplitN(s, " ", 4)
		if len(parts) < 4 {
			continue
		}
		out = append(out, nilAfter{varName: parts[2], pos: parts[0], desc: parts[3]})
	}
	return out
}

// exhaustiveTypeSwitchDefault: the call sits in the default clause of a type
// switch over a parameter, and every call site of the function passes a value
// whose static type is one of the case types.
func (v *FnView) exhaustiveTypeSwitchDefault(c *ast.CallExpr) bool {
	var cc *ast.CaseClause
	var ts *ast.TypeSwitchStmt
	for p := v.parent(c); p != nil; p = v.parent(p) {
		if x, ok := p.(*ast.CaseClause); ok && cc == nil {
			cc = x
		}
		if x, ok := p.(*ast.TypeSwitchStmt); ok {
			ts = x
			break
		}
	}
	if cc == nil || ts == nil || cc.List != nil {
		return false
	}
	caseTypes := map[string]bool{}
	for _, s := range ts.Body.List {
		for _, e := range s.(*ast.CaseClause).List {
			caseTypes[v.Info.TypeOf(e).String()] = true
		}
	}
	// the switched parameter
	var param types.Object
	ast.Inspect(ts.Assign, func(n ast.Node) bool {
		if ta, ok := n.(*ast.TypeAssertExpr); ok {
			param = v.objOf(ta.X)
		}
		return true
	})
	if param == nil {
		return false
	}
	idx := -1
	k := 0
	for _, fl := range v.Decl.Type.Params.List {
		for _, n := range fl.Names {
			if v.Info.ObjectOf(n) == param {
				idx = k
			}
			k++
		}
	}
	if idx < 0 {
		return false
	}
	// all call sites in the repo
	n := 0
	for _, p := range v.W.Pkgs {
		for _, f := range p.Syntax {
			ok := true
			ast.Inspect(f, func(nd ast.Node) bool {
				ce, isCall := nd.(*ast.CallExpr)
				if !isCall || idx >= len(ce.Args) {
					return true
				}
				var callee types.Object
				switch fn := ce.Fun.(type) {
				case *ast.SelectorExpr:
					callee = p.TypesInfo.ObjectOf(fn.Sel)
				case *ast.Ident:
					callee = p.TypesInfo.ObjectOf(fn)
				}
				if callee != types.Object(v.Obj) {
					return true
				}
				n++
				if t := p.TypesInfo.TypeOf(ce.Args[idx]); t == nil || !caseTypes[t.String()] {
					ok = false
				}
				return true
			})
			if !ok {
				return false
			}
		}
	}
	return n > 0
}
