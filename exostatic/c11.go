package main

import (
	"fmt"
	"go/ast"
	"go/token"
	"go/types"
	"strings"
)

// nilAfterErrorSites: `x, err := f(...)` whose failure does not leave the region
// (error logged and execution continues, or error assigned to _) and whose
// pointer/map/interface result x is dereferenced afterwards.
func nilAfterErrorSites(v *FnView) []string {
	var out []string
	ast.Inspect(v.Decl.Body, func(n ast.Node) bool {
		as, ok := n.(*ast.AssignStmt)
		if !ok || len(as.Rhs) != 1 || len(as.Lhs) < 2 {
			return true
		}
		call, ok := as.Rhs[0].(*ast.CallExpr)
		if !ok || !lastResultIsError(v, call) {
			return true
		}
		errLhs, _ := as.Lhs[len(as.Lhs)-1].(*ast.Ident)
		if errLhs == nil {
			return true
		}
		kind := ""
		if errLhs.Name == "_" {
			kind = "blank"
		} else {
			k, _ := v.failArm(call)
			if k == "fallthrough" || k == "untested" {
				kind = k
			}
		}
		if kind == "" {
			return true
		}
		for _, l := range as.Lhs[:len(as.Lhs)-1] {
			id, ok := l.(*ast.Ident)
			if !ok || id.Name == "_" {
				continue
			}
			obj := v.Info.ObjectOf(id)
			if obj == nil {
				continue
			}
			switch obj.Type().Underlying().(type) {
			case *types.Pointer, *types.Map, *types.Interface:
			default:
				// sdkmath.Int / LegacyDec (or a struct carrying one): the zero value wraps a nil *big.Int and every
				// method but IsNil dereferences it
				if hasMathValue(obj.Type()) && v.W.zeroOnError(v, call, idxOf(as.Lhs, l)) {
					if use := v.mathUseAfterError(as, call, obj, errLhs); use != nil {
						out = append(out, fmt.Sprintf("%s %s %s := %s; error %s; zero sdkmath value used at %s", v.pos(as), funcID(v.Obj), id.Name, exprString(call.Fun), kind, v.pos(use)))
					}
				}
				continue
			}
			// dereference after the assignment
			var use ast.Node
			ast.Inspect(v.Decl.Body, func(m ast.Node) bool {
				if use != nil {
					return false
				}
				switch x := m.(type) {
				case *ast.SelectorExpr:
					if xi, ok := x.X.(*ast.Ident); ok && v.Info.ObjectOf(xi) == obj && x.Pos() > as.End() && v.reaches(as, x) {
						// guarded by a nil test of x?
						guarded := false
						for _, f := range v.FactsAt(x, false) {
							if c, ok := factCmp(f); ok && v.objOf(c.L) == obj && isNilIdent(v.Info, c.R) && c.Op == "!=" {
								guarded = true
							}
						}
						if !guarded {
							use = x
						}
					}
				case *ast.StarExpr:
					if xi, ok := x.X.(*ast.Ident); ok && v.Info.ObjectOf(xi) == obj && x.Pos() > as.End() && v.reaches(as, x) {
						use = x
					}
				}
				return true
			})
			if use != nil {
				out = append(out, fmt.Sprintf("%s %s %s := %s; error %s; dereferenced at %s", v.pos(as), funcID(v.Obj), id.Name, exprString(call.Fun), kind, v.pos(use)))
			}
		}
		return true
	})
	return out
}

var divMethods = map[string]bool{"Quo": true, "QuoInt": true, "QuoInt64": true, "QuoRaw": true, "QuoTruncate": true, "QuoRoundUp": true, "QuoMut": true, "Div": true, "Mod": true, "Rem": true, "QuoRem": true, "QuoUint64": true}

type divSite struct {
	v       *FnView
	node    ast.Node
	divisor ast.Expr
	what    string
}

// divisionSites lists divisions with a non-constant divisor in a function.
func divisionSites(v *FnView) []divSite {
	var out []divSite
	ast.Inspect(v.Decl.Body, func(n ast.Node) bool {
		switch x := n.(type) {
		case *ast.BinaryExpr:
			if x.Op.String() == "/" || x.Op.String() == "%" {
				if v.constOf(x.Y) != nil {
					return true
				}
				if b, ok := v.Info.TypeOf(x.Y).Underlying().(*types.Basic); ok && b.Info()&types.IsInteger != 0 {
					out = append(out, divSite{v, x, x.Y, "integer " + x.Op.String()})
				}
			}
		case *ast.CallExpr:
			recv, name, args, ok := methodCall(x)
			if !ok || !divMethods[name] || len(args) != 1 {
				return true
			}
			rt := v.Info.TypeOf(recv)
			if rt == nil {
				return true
			}
			ts := rt.String()
			if !(strings.Contains(ts, "math.Int") || strings.Contains(ts, "LegacyDec") || strings.Contains(ts, "big.Int") || strings.Contains(ts, "types.Dec") || strings.Contains(ts, "DecCoins") || strings.Contains(ts, "types.Int")) {
				return true
			}
			if v.constOf(args[0]) != nil {
				return true
			}
			out = append(out, divSite{v, x, args[0], name})
		}
		return true
	})
	return out
}

// divisorGuarded: a fact at the division says the divisor is non-zero/positive,
// or the divisor is a constructor of a positive constant.
func divisorGuarded(d divSite) (bool, string) {
	v := d.v
	ds := exprString(d.divisor)
	// positive literal constructors: NewInt(10), LegacyNewDec(100), NewIntWithDecimal(1, k), 10^k helpers
	for _, def := range v.resolveDefs(d.divisor, 0) {
		if name, args, ok := funcCallName(def); ok {
			switch name {
			case "NewInt", "LegacyNewDec", "NewDec", "NewUint", "LegacyNewDecWithPrec", "NewDecWithPrec", "NewIntWithDecimal", "LegacyNewDecFromInt":
				if len(args) >= 1 {
					if cv := v.constOf(args[0]); cv != nil && cv.ExactString() != "0" && !strings.HasPrefix(cv.ExactString(), "-") {
						return true, "positive constant"
					}
				}
			case "Exp":
				return true, "10^k"
			}
		}
	}
	// sub-expressions of the divisor that a zero test may be about: conversions such
	// as LegacyNewDec(x) / NewDecFromBigInt(x.BigInt()) are zero iff x is zero.
	subs := map[string]bool{ds: true}
	if c, ok := stripParens(d.divisor).(*ast.CallExpr); ok {
		if name, _, ok := funcCallName(c); ok && (strings.Contains(name, "NewDec") || strings.Contains(name, "NewInt") || strings.Contains(name, "FromBigInt") || strings.Contains(name, "FromInt")) {
			ast.Inspect(c, func(n ast.Node) bool {
				switch x := n.(type) {
				case *ast.Ident:
					if _, isVar := v.Info.ObjectOf(x).(*types.Var); isVar {
						subs[x.Name] = true
					}
				case *ast.SelectorExpr:
					subs[exprString(x)] = true
				}
				return true
			})
		}
	}
	for _, f := range v.FactsAt(d.node, false) {
		s := exprString(f.Atom)
		if c, ok := stripParens(f.Atom).(*ast.CallExpr); ok {
			if recv, name, _, ok := methodCall(c); ok && subs[exprString(recv)] {
				if (name == "IsZero" && !f.Truth) || (name == "IsPositive" && f.Truth) || (name == "IsNil" && false) {
					return true, "guarded by " + s
				}
			}
		}
		if cm, ok := factCmp(f); ok && subs[exprString(cm.L)] {
			r := exprString(cm.R)
			if (cm.Op == "!=" && r == "0") || (cm.Op == ">" && r == "0") || (cm.Op == ">=" && r == "1") {
				return true, "guarded by " + s
			}
		}
	}
	return false, ""
}

func init() { register("C11", runC11) }

// audited nil-after-error sites (function|variable): reason.
var nilAfterAudit = map[string]string{
	"x/avs/keeper.EpochsHooksWrapper.AfterEpochEnd|power":           "GetOperatorOptedUSDValue fails only for an operator that is opted in and has no value record; OptIn creates the record (InitOperatorUSDValue) before it marks the operator opted in and OptOut deletes it together with the opted-in mark (C05.R6 obligations), the only other deleter (DeleteAllOperatorsUSDValueForAVS) sits behind a nil/failed asset set, which GetAVSSupportedAssets never produces for a registered AVS (C05.R3 never-nil; the deleters, their callers, the delete-all condition and the validation of stored asset lists are decided by C11.R2w); a deregistered AVS gives avsAddr \"\", for which IsOptedIn is false and zeros are returned",
	"x/feedistribution/keeper.Keeper.AllocateTokensToValidator|ops": "the validator's operator address comes from the operator registry (reverse lookup -> ValidatorByConsAddrForChainID) and operator records are never deleted (decided by C11.R2w operator-record|never-deleted), so OperatorInfo cannot miss",
	"x/oracle.AppModule.EndBlock|pubKey":                            "the protobuf public key is the one dogfood stored in its own ValidatorUpdates this block (built by ToTmProtoKey)",
}

// audited Must*Bech32 sites: the string was stored by the module itself.
var mustBech32Audit = map[string]string{
	"x/delegation/keeper.Keeper.EndBlock":                           "record.OperatorAddr of an undelegation record the module stored (written from AccAddress.String())",
	"x/assets/keeper.Keeper.GetStakerSpecifiedAssetInfo":            "operator key of a delegation-info map built from the delegation store's own keys",
	"x/delegation/keeper.Keeper.AllDelegatedInfoForStakerAsset":     "operator address parsed from the delegation store's own keys",
	"x/delegation/keeper.Keeper.TotalDelegatedAmountForStakerAsset": "operator address parsed from the delegation store's own keys",
}

// audited divisors: validated non-zero at their only writers.
var divisorAudit = map[string]string{
	"x/oracle/keeper/aggregator.AggregatorContext.PrepareRoundEndBlock|feeder.Interval": "TokenFeeder.Interval < 1 is rejected by the feeder validation (witnessed by C11.R3w) and RegisterNewTokenAndSetTokenFeeder substitutes a positive default",
}

// audited parse sites on unrecovered paths.
var parseAudit = map[string]string{
	"x/oracle/keeper/aggregator.aggregator.fillPrice": "on the unrecovered path (EndBlock recache) only messages from the persisted recent-message log are replayed; each of them went through this same code in DeliverTx, where a non-numeric price panics and the message is rejected before it is logged (the DeliverTx side is C09/C14's subject)",
	"x/oracle/keeper/aggregator.calculator.fillPrice": "same as aggregator.fillPrice: replay of messages already accepted by the same code in DeliverTx",
}

func runC11(r *Run) {
	w := r.W
	r.Explain = "Static decision of structural necessary conditions of C11 (chain liveness) on the UNRECOVERED paths only - functions reachable from Begin/EndBlock, the wired epoch hooks and the staking-interface callbacks that the SDK's slashing/evidence/gov modules invoke from their Begin/EndBlockers: (R1) every explicit panic, Must* call and unchecked type assertion there belongs to an accepted class (codec of the module's own store values, addresses the module stored itself, exhaustive type switches) or is reported; (R2) no pointer/map/interface result is dereferenced after its error was merely logged or discarded; (R3) every division has a divisor that is a positive constant, is dominated by a non-zero test, or is validated non-zero at its writers; (R5) parse results (SetString) are checked."
	r.NotDec = []string{"integer overflow panics inside sdk.Int, allocation blow-ups, infinite loops, nil map writes", "panics inside dependencies", "DeliverTx/CheckTx paths (recovered by baseapp.runTx - trusted base)", "feasibility of the audited sites is argued by reading"}
	r.Assume = []string{"baseapp recovers panics in runTx only", "gov.EndBlocker -> Tally calls StakingKeeper.IterateDelegations and TotalBondedTokens (cosmos-sdk v0.47 x/gov/keeper/tally.go)"}
	r.rule("C11.R1", "explicit panics / Must* / unchecked type assertions reachable from unrecovered roots are of an accepted class", 90)
	r.rule("C11.R2", "no dereference of a pointer/map/interface result after its error was logged-and-continued or discarded", 2)
	r.rule("C11.R2w", "witnesses for the audited nil-after-error site of the AVS epoch hook: who deletes operator value records and under which condition; asset lists stored in an AVS info were accepted by ValidateAssetIDs; operator records are never deleted", 7)
	c11HookWitnesses(r)
	r.rule("C11.R3", "every division reachable from unrecovered roots has a non-zero divisor by construction, by a dominating test, or by validation at its writers", 8)
	r.rule("C11.R3w", "witnesses for the audited divisor: TokenFeeder validation rejects Interval < 1; every writer of oracle params validates or constructs non-zero intervals", 4)
	r.rule("C11.R5", "the ok result of big.Int.SetString / NewIntFromString is checked before the value is used on unrecovered paths", 2)
	r.rule("C11.R6", "arithmetic that panics on a negative result in block processing stays non-negative by construction: the fee-distribution remainder (C17.R3/R4 obligations) the slashed-undelegation clamp (C04.R2) and the commission rate bounded by one where operator records are created", 9)
	r.rule("C11.R7", "every index/slice expression on an unrecovered path whose bounds check the Go compiler cannot eliminate is dominated by a length test, is of a safe shape (range index, sort comparator, parsed-n, split-first), or is audited", 40)
	r.rule("C11.R7p", "constant-index reads of decoded precompile arguments are dominated by a length test that covers the index (a panic there is recovered by baseapp, but it is a panic during transaction delivery)", 10)
	c11PrecompileIndexes(r)
	r.rule("C11.R8", "no write to an entry of a nil map: map fields of the repository's structs that are written by index are initialised at every construction site (or by the writer itself); an inner map is created under a presence test before it is written", 8)
	c11MapFields(r)
	c11NestedMapWrites(r)
	r.rule("C11.R9", "a dogfood parameter update cannot store a zero maximum validator count, unbonding period or history size (zero validators = an empty validator set, which CometBFT refuses): a submitted zero is replaced by the stored value before SetParams, and genesis validation rejects zero", 6)
	c11DogfoodParams(r)
	r.rule("C11.R10", "powers of ten built as 256-bit integers (NewIntWithDecimal) have an exponent that is a sum of asset and price decimals, and both are bounded where they are stored (MaxDecimal + MaxTokenDecimal <= 77)", 9)
	c11Exponents(r)
	c11Bounds(r)
	if r.Prop == "C11" {
		sub := NewRun(r.W, "C17", r.Tier, r.Seed)
		runC17(sub)
		n := 0
		for _, o := range sub.Obs {
			if o.Rule != "C17.R3" && o.Rule != "C17.R4" && o.Rule != "C17.R6" {
				continue
			}
			n++
			if o.Status == "ok" {
				r.ok("C11.R6", o.Key, o.Pos, o.Desc)
			} else {
				r.bad("C11.R6", o.Key, o.Pos, o.Desc, o.Detail)
			}
		}
		if n == 0 {
			r.bad("C11.R6", "remainder|none", "-", "C17.R3 obligations present", "no obligations")
		}
		// the validator split is tokens - tokens*rate: non-negative only for a commission rate of at most one, which
		// is checked where an operator record is created (the SDK's Commission.Validate bounds MaxRate by 1 and
		// Rate by MaxRate)
		if vv := r.W.View("x/operator/types", "OperatorInfo.ValidateBasic"); vv == nil {
			r.bad("C11.R6", "commission|rate-at-most-one", "-", "anchor", "OperatorInfo.ValidateBasic not found")
		} else {
			okV := vv.rejectsWhen(vv.Decl.Body, func(f Fact) bool {
				o := vv.outcome(f)
				if o == nil || o.Success || o.Callee.Name() != "Validate" || o.Callee.Pkg() == nil || !strings.HasSuffix(o.Callee.Pkg().Path(), "cosmos-sdk/x/staking/types") {
					return false
				}
				recv, _, _, isM := methodCall(o.Call)
				return isM && lastField(recv) == "Commission"
			}, nil)
			okMsg := false
			if mv := r.W.View("x/operator/types", "RegisterOperatorReq.ValidateBasic"); mv != nil {
				ast.Inspect(mv.Decl.Body, func(n ast.Node) bool {
					rs, isR := n.(*ast.ReturnStmt)
					if isR && len(rs.Results) == 1 && mv.calleeName2(rs.Results[0]) == "ValidateBasic" && strings.HasSuffix(exprString(rs.Results[0]), ".Info.ValidateBasic()") {
						okMsg = true
					}
					return true
				})
			}
			r.check(okV && okMsg, "C11.R6", "commission|rate-at-most-one", vv.pos(vv.Decl), "an operator record is created only with commission rates accepted by the SDK's Commission.Validate (MaxRate <= 1, Rate <= MaxRate)", fmt.Sprintf("OperatorInfo.ValidateBasic rejects on Commission.Validate(): %v; the register message validates its info: %v - with a rate above one the validator split tokens - tokens*rate is negative and AllocateTokensToValidator panics in BeginBlock", okV, okMsg))
		}
		// a slashed undelegation never goes below zero (its completed amount becomes a coin amount in the
		// delegation EndBlock, where a negative value panics): the clamp of C04.R2
		sub4 := NewRun(r.W, "C04", r.Tier, r.Seed)
		runC04(sub4)
		for _, o := range sub4.Obs {
			if o.Rule != "C04.R2" {
				continue
			}
			if o.Status == "ok" {
				r.ok("C11.R6", "slash|"+o.Key, o.Pos, o.Desc)
			} else {
				r.bad("C11.R6", "slash|"+o.Key, o.Pos, o.Desc, o.Detail)
			}
		}
	}

	br := blockReachable(w)
	skip := func(f *types.Func) bool {
		id := funcID(f)
		return strings.HasPrefix(id, "x/appchain") || strings.HasPrefix(id, "x/evm") || strings.HasSuffix(id, ".InitGenesis") || strings.HasSuffix(id, ".ExportGenesis") || strings.HasPrefix(id, "x/reward")
	}
	for f, path := range br {
		v := w.ViewOf(f)
		if v == nil || skip(f) {
			continue
		}
		r.saw(funcID(f))
		id := funcID(f)
		nth := map[string]int{}
		for _, c := range allCalls(v.Decl.Body) {
			name := ""
			if idt, ok := c.Fun.(*ast.Ident); ok && idt.Name == "panic" {
				if _, isB := v.Info.Uses[idt].(*types.Builtin); isB {
					name = "panic"
				}
			} else if n := v.calleeName(c); strings.HasPrefix(n, "Must") {
				name = n
			}
			if name == "" {
				continue
			}
			nth[name]++
			key := fmt.Sprintf("%s|%s#%d", id, name, nth[name])
			switch {
			case strings.HasPrefix(name, "MustMarshal"), strings.HasPrefix(name, "MustUnmarshal"), name == "MustLengthPrefix", name == "MustSortJSON":
				r.ok("C11.R1", key, v.pos(c), "codec of a value of the module's own store / fixed-size key prefixing")
			case strings.HasSuffix(name, "FromBech32"):
				if why, ok := mustBech32Audit[id]; ok {
					r.ok("C11.R1", key, v.pos(c), "audited: "+why)
				} else {
					r.bad("C11.R1", key, v.pos(c), "Must*FromBech32 on unrecovered path", "a malformed address string panics in block processing; path: "+path)
				}
			case name == "panic":
				// panic(err) under a failed Unmarshal of the module's own store bytes
				okClass := false
				for _, ft := range v.FactsAt(c, false) {
					if o := v.outcome(ft); o != nil && !o.Success && (o.Callee.Name() == "Unmarshal" || o.Callee.Name() == "Marshal") {
						okClass = true
					}
				}
				// default arm of an exhaustive type switch over a parameter
				if !okClass {
					okClass = v.exhaustiveTypeSwitchDefault(c)
				}
				if okClass {
					r.ok("C11.R1", key, v.pos(c), "panic on failed (un)marshal of the module's own store value / unreachable default of an exhaustive type switch")
				} else {
					r.bad("C11.R1", key, v.pos(c), "explicit panic on unrecovered path", "panic reachable from block processing halts the chain; path: "+path)
				}
			default:
				r.bad("C11.R1", key, v.pos(c), "Must* call on unrecovered path", name+" panics on failure; path: "+path)
			}
		}
		ast.Inspect(v.Decl.Body, func(n ast.Node) bool {
			if ta, ok := n.(*ast.TypeAssertExpr); ok && ta.Type != nil {
				if as, ok := v.parent(ta).(*ast.AssignStmt); !ok || len(as.Lhs) != 2 {
					if vs, ok := v.parent(ta).(*ast.ValueSpec); !ok || len(vs.Names) != 2 {
						r.bad("C11.R1", id+"|type-assertion|"+exprString(ta), v.pos(ta), "unchecked type assertion on unrecovered path", "x.(T) without the ok form panics on a type mismatch")
					}
				}
			}
			return true
		})
		// R2
		for _, as := range nilAfterErrorAssigns(v) {
			key := id + "|" + as.varName
			if why, ok := nilAfterAudit[key]; ok {
				r.ok("C11.R2", key, as.pos, "audited: "+why)
				continue
			}
			r.bad("C11.R2", key, as.pos, "nil-after-error", as.desc+" (a nil dereference in block processing halts the chain)")
		}
		// R3
		for _, d := range divisionSites(v) {
			ok, why := divisorGuarded(d)
			key := id + "|" + exprString(d.divisor)
			if !ok {
				if a, isAud := divisorAudit[key]; isAud {
					ok, why = true, "audited: "+a
				}
			}
			r.check(ok, "C11.R3", key, v.pos(d.node), "divisor of "+d.what+" is non-zero: "+why, "division ("+d.what+") by "+exprString(d.divisor)+" without a dominating non-zero test, on a path reachable from block processing: a zero divisor panics and halts the chain")
		}
		// R5
		for _, c := range allCalls(v.Decl.Body) {
			n := v.calleeName(c)
			if n != "SetString" && n != "NewIntFromString" {
				continue
			}
			tested := false
			if as, ok := v.parent(c).(*ast.AssignStmt); ok && len(as.Lhs) == 2 {
				if idt, ok := as.Lhs[1].(*ast.Ident); ok && idt.Name != "_" {
					tested = true
				}
			}
			if ifs, ok := v.parent(v.parent(c)).(*ast.IfStmt); ok && ifs.Init != nil && within(c, ifs.Init) {
				tested = true
			}
			if !tested {
				// value nil-tested in the next statement (`v, _ := NewIntFromString(s); if v.IsNil() || … {`)
				if as, ok := v.parent(c).(*ast.AssignStmt); ok && len(as.Lhs) >= 1 {
					vobj := v.objOf(as.Lhs[0])
					list := stmtListOf(v.parent(as))
					for i, st := range list {
						if st == ast.Stmt(as) && i+1 < len(list) {
							if ifs, ok := list[i+1].(*ast.IfStmt); ok && v.terminates(ifs.Body) {
								for _, dj := range disjuncts(ifs.Cond) {
									if recv, nm, _, ok := methodCall(dj); ok && nm == "IsNil" && v.objOf(recv) == vobj {
										tested = true
									}
								}
							}
						}
					}
				}
			}
			if why, ok := parseAudit[id]; ok && !tested {
				r.ok("C11.R5", id+"|"+n, v.pos(c), "audited: "+why)
				continue
			}
			r.check(tested, "C11.R5", id+"|"+n, v.pos(c), "parse result checked", "the ok result of "+n+" is discarded: a non-numeric string yields a nil/zero big.Int that panics when used")
		}
	}
	// R3w
	found := false
	if p := w.Pkg("x/oracle/types"); p != nil {
		for _, f := range p.Syntax {
			ast.Inspect(f, func(n ast.Node) bool {
				ifs, ok := n.(*ast.IfStmt)
				if !ok {
					return true
				}
				for _, dj := range disjuncts(ifs.Cond) {
					if be, ok := stripParens(dj).(*ast.BinaryExpr); ok && be.Op.String() == "<" && lastField(be.X) == "Interval" && exprString(be.Y) == "1" {
						for _, s := range ifs.Body.List {
							if rs, ok := s.(*ast.ReturnStmt); ok && len(rs.Results) > 0 && strings.Contains(exprString(rs.Results[len(rs.Results)-1]), "ErrInvalidParams") {
								found = true
							}
						}
					}
				}
				return true
			})
		}
	}
	r.check(found, "C11.R3w", "oracle|TokenFeeder.Interval>=1", "-", "TokenFeeder validation rejects Interval < 1", "no validation `Interval < 1 -> ErrInvalidParams` found in x/oracle/types: feeder.Interval can be zero and PrepareRoundEndBlock divides by it in EndBlock")
	// writer side: every function that stores oracle params either validated them on the way, or gives every
	// feeder it constructs a non-zero interval by construction (positive constant, or a variable that an
	// unconditional `if x == 0 { x = <positive constant> }` fixed up before and that is not assigned after)
	for _, fv := range w.allViews() {
		if !strings.HasPrefix(fv.ID(), "x/oracle") {
			continue
		}
		var sets []*ast.CallExpr
		for _, c := range fv.CallsNamed("SetParams") {
			if cal := fv.callee(c); cal != nil && cal.Pkg() != nil && strings.HasSuffix(cal.Pkg().Path(), "x/oracle/keeper") && len(c.Args) == 2 {
				sets = append(sets, c)
			}
		}
		if len(sets) == 0 || fv.Decl.Name.Name == "SetParams" {
			continue
		}
		r.saw(fv.ID())
		lits := fv.compositeLits(fv.Decl.Body, "TokenFeeder")
		assigns := fv.assignmentsToField(fv.Decl.Body, "Interval")
		for i, c := range sets {
			key := fmt.Sprintf("oracle|params-writer|%s#%d", fv.ID(), i+1)
			validated := false
			for _, f := range fv.FactsAt(c, false) {
				if o := fv.outcome(f); o != nil && (o.Callee.Name() == "Validate" || o.Callee.Name() == "ValidateBasic") && o.Success {
					validated = true
				}
			}
			if fv.Decl.Name.Name == "InitGenesis" {
				validated = true // genesis state is validated by ValidateGenesis before InitGenesis (module manager contract)
			}
			if validated {
				r.ok("C11.R3w", key, fv.pos(c), "params are validated (Interval >= 1) before they are stored")
				continue
			}
			okAll := true
			why := ""
			for _, cl := range lits {
				iv := compositeField(cl, "Interval")
				if iv == nil {
					okAll, why = false, "a TokenFeeder literal at "+fv.pos(cl)+" has no Interval"
					continue
				}
				if cv := fv.constOf(iv); cv != nil {
					if cv.ExactString() == "0" {
						okAll, why = false, "a TokenFeeder literal has Interval 0"
					}
					continue
				}
				obj := fv.objOf(iv)
				fixed := false
				if obj != nil {
					var fix *ast.IfStmt
					for _, st := range fv.Decl.Body.List {
						ifs, isIf := st.(*ast.IfStmt)
						if !isIf || ifs.Pos() > cl.Pos() || ifs.Else != nil || len(ifs.Body.List) != 1 {
							continue
						}
						b, isB := stripParens(ifs.Cond).(*ast.BinaryExpr)
						as, isAs := ifs.Body.List[0].(*ast.AssignStmt)
						if isB && isAs && b.Op == token.EQL && fv.objOf(b.X) == obj && exprString(b.Y) == "0" && len(as.Lhs) == 1 && fv.objOf(as.Lhs[0]) == obj {
							if cv := fv.constOf(as.Rhs[0]); cv != nil && cv.ExactString() != "0" && !strings.HasPrefix(cv.ExactString(), "-") {
								fix = ifs
							}
						}
					}
					if fix != nil {
						fixed = true
						// not assigned again between the fix-up and the literal
						ast.Inspect(fv.Decl.Body, func(n ast.Node) bool {
							if as, ok := n.(*ast.AssignStmt); ok && as.Pos() > fix.End() && as.Pos() < cl.Pos() {
								for _, l := range as.Lhs {
									if fv.objOf(l) == obj {
										fixed = false
									}
								}
							}
							return true
						})
					}
					for _, f := range fv.FactsAt(cl, false) {
						if cm, ok := factCmp(f); ok && fv.objOf(cm.L) == obj && ((cm.Op == "!=" && exprString(cm.R) == "0") || (cm.Op == ">" && exprString(cm.R) == "0") || (cm.Op == ">=" && exprString(cm.R) == "1")) {
							fixed = true
						}
					}
				}
				if !fixed {
					okAll, why = false, "the TokenFeeder literal at "+fv.pos(cl)+" takes Interval from "+exprString(iv)+", which is not made non-zero before"
				}
			}
			for _, as := range assigns {
				// feeder.Interval = x: only under x > 0
				okA := false
				for _, f := range fv.FactsAt(as, false) {
					if cm, ok := factCmp(f); ok && cm.Op == ">" && exprString(cm.R) == "0" && sameExpr(cm.L, as.Rhs[0]) {
						okA = true
					}
				}
				if !okA {
					okAll, why = false, "Interval is assigned at "+fv.pos(as)+" without a positivity test"
				}
			}
			r.check(okAll, "C11.R3w", key, fv.pos(c), "params stored without validation only contain feeders whose interval is non-zero by construction", fv.ID()+" stores oracle params without validating them and "+why+": PrepareRoundEndBlock divides by the interval in EndBlock (chain halt)")
		}
	}
}

type nilAfter struct{ varName, pos, desc string }

func nilAfterErrorAssigns(v *FnView) []nilAfter {
	var out []nilAfter
	for _, s := range nilAfterErrorSites(v) {
		// "pos func var := call; error kind; dereferenced at pos"
		parts := strings.SplitN(s, " ", 4)
		if len(parts) < 4 {
			continue
		}
		out = append(out, nilAfter{varName: parts[2], pos: parts[0], desc: parts[3]})
	}
	return out
}

// exhaustiveTypeSwitchDefault: the call sits in the default clause of a type
// switch over a parameter, and every call site of the function passes a value
// whose static type is one of the case types.
func (v *FnView) exhaustiveTypeSwitchDefault(c *ast.CallExpr) bool {
	var cc *ast.CaseClause
	var ts *ast.TypeSwitchStmt
	for p := v.parent(c); p != nil; p = v.parent(p) {
		if x, ok := p.(*ast.CaseClause); ok && cc == nil {
			cc = x
		}
		if x, ok := p.(*ast.TypeSwitchStmt); ok {
			ts = x
			break
		}
	}
	if cc == nil || ts == nil || cc.List != nil {
		return false
	}
	caseTypes := map[string]bool{}
	for _, s := range ts.Body.List {
		for _, e := range s.(*ast.CaseClause).List {
			caseTypes[v.Info.TypeOf(e).String()] = true
		}
	}
	// the switched parameter
	var param types.Object
	ast.Inspect(ts.Assign, func(n ast.Node) bool {
		if ta, ok := n.(*ast.TypeAssertExpr); ok {
			param = v.objOf(ta.X)
		}
		return true
	})
	if param == nil {
		return false
	}
	idx := -1
	k := 0
	for _, fl := range v.Decl.Type.Params.List {
		for _, n := range fl.Names {
			if v.Info.ObjectOf(n) == param {
				idx = k
			}
			k++
		}
	}
	if idx < 0 {
		return false
	}
	// all call sites in the repo
	n := 0
	for _, p := range v.W.Pkgs {
		for _, f := range p.Syntax {
			ok := true
			ast.Inspect(f, func(nd ast.Node) bool {
				ce, isCall := nd.(*ast.CallExpr)
				if !isCall || idx >= len(ce.Args) {
					return true
				}
				var callee types.Object
				switch fn := ce.Fun.(type) {
				case *ast.SelectorExpr:
					callee = p.TypesInfo.ObjectOf(fn.Sel)
				case *ast.Ident:
					callee = p.TypesInfo.ObjectOf(fn)
				}
				if callee != types.Object(v.Obj) {
					return true
				}
				n++
				if t := p.TypesInfo.TypeOf(ce.Args[idx]); t == nil || !caseTypes[t.String()] {
					ok = false
				}
				return true
			})
			if !ok {
				return false
			}
		}
	}
	return n > 0
}

func c11DogfoodParams(r *Run) {
	w := r.W
	fields := []string{"EpochsUntilUnbonded", "MaxValidators", "HistoricalEntries"}
	uv := w.View("x/dogfood/keeper", "Keeper.UpdateParams")
	if uv == nil {
		r.bad("C11.R9", "anchor|UpdateParams", "-", "anchor", "x/dogfood/keeper.Keeper.UpdateParams not found")
	} else {
		r.saw(uv.ID())
		var sets []*ast.CallExpr
		for _, c := range uv.CallsNamed("SetParams") {
			sets = append(sets, c)
		}
		var stored types.Object
		if len(sets) == 1 && len(sets[0].Args) == 2 {
			stored = uv.objOf(sets[0].Args[1])
		}
		r.check(stored != nil, "C11.R9", "update|single-store", uv.pos(uv.Decl), "one SetParams call stores a local params value", "UpdateParams does not store a single local params value")
		for _, f := range fields {
			ok := false
			if stored != nil {
				for _, st := range uv.Decl.Body.List {
					ifs, isIf := st.(*ast.IfStmt)
					if !isIf || ifs.Pos() > sets[0].Pos() || ifs.Else != nil {
						continue
					}
					// body: stored.F = <previous>.F where <previous> comes from the store
					assigns := false
					for _, b := range ifs.Body.List {
						as, isAs := b.(*ast.AssignStmt)
						if !isAs || len(as.Lhs) != 1 || len(as.Rhs) != 1 {
							continue
						}
						l, lok := stripParens(as.Lhs[0]).(*ast.SelectorExpr)
						rr, rok := stripParens(as.Rhs[0]).(*ast.SelectorExpr)
						if lok && rok && l.Sel.Name == f && rr.Sel.Name == f && uv.objOf(l.X) == stored && resolvesToCallV(uv, rr.X, "GetDogfoodParams") {
							assigns = true
						}
					}
					if !assigns {
						continue
					}
					// condition: exactly "the submitted value of this field is zero"
					var fs []Fact
					decompose(ifs.Cond, true, ifs, &fs)
					if len(fs) != 1 {
						continue
					}
					for _, ft := range mirrorFacts(uv.expandBoolAliases(fs)) {
						c, isC := factCmp(ft)
						if !isC || c.Op != "==" || exprString(c.R) != "0" {
							continue
						}
						if sel, isSel := stripParens(c.L).(*ast.SelectorExpr); isSel && sel.Sel.Name == f && uv.objOf(sel.X) == stored {
							ok = true
						}
					}
				}
			}
			r.check(ok, "C11.R9", "update|zero-keeps-previous|"+f, uv.pos(uv.Decl), "a submitted "+f+" of zero is replaced by the stored value before the params are written", "UpdateParams can store "+f+" = 0: the override is missing or tests something other than the submitted value (MaxValidators = 0 makes the next epoch end remove every validator, which CometBFT refuses)")
		}
	}
	if pv := w.View("x/dogfood/types", "Params.Validate"); pv == nil {
		r.bad("C11.R9", "anchor|Params.Validate", "-", "anchor", "x/dogfood/types.Params.Validate not found")
	} else {
		recv := ""
		if pv.Decl.Recv != nil && len(pv.Decl.Recv.List) == 1 && len(pv.Decl.Recv.List[0].Names) == 1 {
			recv = pv.Decl.Recv.List[0].Names[0].Name
		}
		for _, f := range fields {
			ok := false
			for _, c := range pv.CallsNamed("ValidatePositiveUint32") {
				if len(c.Args) == 1 && exprString(c.Args[0]) == recv+"."+f {
					if k, _ := pv.failArm(c); k == "return" {
						ok = true
					}
				}
			}
			r.check(ok, "C11.R9", "genesis|positive|"+f, pv.pos(pv.Decl), "genesis validation rejects "+f+" = 0", "Params.Validate does not reject a zero "+f)
		}
	}
}

func idxOf(list []ast.Expr, e ast.Expr) int {
	for i, x := range list {
		if x == e {
			return i
		}
	}
	return -1
}

func isMathNamed(t types.Type) bool {
	n, ok := t.(*types.Named)
	if !ok || n.Obj().Pkg() == nil {
		return false
	}
	p := n.Obj().Pkg().Path()
	return (p == "cosmossdk.io/math" || strings.HasSuffix(p, "cosmos-sdk/types")) && (n.Obj().Name() == "Int" || n.Obj().Name() == "LegacyDec" || n.Obj().Name() == "Dec" || n.Obj().Name() == "Uint")
}

// hasMathValue: t is sdkmath.Int / LegacyDec by value, or a struct with such a field (by value).
func hasMathValue(t types.Type) bool {
	if isMathNamed(t) {
		return true
	}
	if st, ok := t.Underlying().(*types.Struct); ok {
		for i := 0; i < st.NumFields(); i++ {
			if isMathNamed(st.Field(i).Type()) {
				return true
			}
		}
	}
	return false
}

// zeroOnError: some implementation of the called function returns the zero value (T{} or an unassigned
// variable) in result position idx together with a non-nil error.
func (w *World) zeroOnError(v *FnView, call *ast.CallExpr, idx int) bool {
	if idx < 0 {
		return false
	}
	name := ""
	switch f := call.Fun.(type) {
	case *ast.SelectorExpr:
		name = f.Sel.Name
	case *ast.Ident:
		name = f.Name
	}
	if name == "" {
		return false
	}
	var cands []*FnView
	if fo := v.callee(call); fo != nil && w.declOf[fo] != nil {
		if cv := w.ViewOf(fo); cv != nil {
			cands = append(cands, cv)
		}
	} else {
		for _, cv := range w.allViews() {
			if cv.Decl.Name.Name == name && cv.Decl.Recv != nil && inScopeFile(w.relFile(cv.Decl.Pos())) {
				cands = append(cands, cv)
			}
		}
	}
	for _, cv := range cands {
		zero := false
		ast.Inspect(cv.Decl.Body, func(n ast.Node) bool {
			if _, isLit := n.(*ast.FuncLit); isLit {
				return false
			}
			rs, ok := n.(*ast.ReturnStmt)
			if !ok || len(rs.Results) <= idx || !returnsErr(cv, rs) {
				return true
			}
			switch x := stripParens(rs.Results[idx]).(type) {
			case *ast.CompositeLit:
				if len(x.Elts) == 0 {
					zero = true
				}
			case *ast.Ident:
				if o := cv.objOf(x); o != nil && len(cv.defsOf(o)) == 0 && !isParamObj(cv, o) {
					zero = true
				}
			}
			return true
		})
		if zero {
			return true
		}
	}
	return false
}

// mathUseAfterError: the first use of obj (or of a math-typed field of it) as a method receiver other than
// IsNil, or as an argument of a method of a math value, that is reachable from the assignment without the
// error having been found nil.
func (v *FnView) mathUseAfterError(as *ast.AssignStmt, call *ast.CallExpr, obj types.Object, errID *ast.Ident) ast.Node {
	errObj := v.Info.ObjectOf(errID)
	var use ast.Node
	refers := func(e ast.Expr) bool {
		e = stripParens(e)
		if sel, ok := e.(*ast.SelectorExpr); ok && isMathNamed(v.Info.TypeOf(sel)) {
			e = stripParens(sel.X)
		}
		id, ok := e.(*ast.Ident)
		return ok && v.Info.ObjectOf(id) == obj && isMathOrHolder(v.Info.TypeOf(e))
	}
	ast.Inspect(v.Decl.Body, func(n ast.Node) bool {
		if use != nil {
			return false
		}
		c, ok := n.(*ast.CallExpr)
		if !ok || c.Pos() < as.End() || !v.reaches(as, c) {
			return true
		}
		sel, isSel := c.Fun.(*ast.SelectorExpr)
		if !isSel || !isMathNamed(v.Info.TypeOf(sel.X)) || sel.Sel.Name == "IsNil" {
			return true
		}
		hit := refers(sel.X)
		for _, a := range c.Args {
			if refers(a) {
				hit = true
			}
		}
		if !hit {
			return true
		}
		if v.replacedOnFailure(as, call, obj, c) {
			return true
		}
		if errObj != nil && errID.Name != "_" {
			// the fact must be about THIS call having succeeded (a stale `err == nil` of an earlier call that used
			// the same variable does not count)
			for _, f := range v.FactsAt(c, false) {
				if o := v.outcome(f); o != nil && o.Call == call && o.Success {
					return true
				}
			}
		}
		use = c
		return false
	})
	return use
}

func isMathOrHolder(t types.Type) bool { return t != nil && hasMathValue(t) }

// replacedOnFailure: between the assignment and the use there is a statement `if <call failed> { obj = <call> }`
// in a block that encloses the use: on the failure path the zero value has been replaced by a constructed one.
func (v *FnView) replacedOnFailure(as *ast.AssignStmt, call *ast.CallExpr, obj types.Object, use ast.Node) bool {
	found := false
	ast.Inspect(v.Decl.Body, func(n ast.Node) bool {
		ifs, ok := n.(*ast.IfStmt)
		if !ok || found || ifs.Pos() < as.End() || ifs.End() > use.Pos() || ifs.Else != nil {
			return true
		}
		blk, isBlk := v.parent(ifs).(*ast.BlockStmt)
		if !isBlk || !(blk.Pos() <= use.Pos() && use.End() <= blk.End()) {
			return true
		}
		var fs []Fact
		decompose(ifs.Cond, true, ifs, &fs)
		if len(fs) != 1 {
			return true
		}
		if o := v.outcome(fs[0]); o == nil || o.Call != call || o.Success {
			return true
		}
		for _, st := range ifs.Body.List {
			a, isAs := st.(*ast.AssignStmt)
			if !isAs || a.Tok != token.ASSIGN || len(a.Lhs) != 1 || len(a.Rhs) != 1 || v.objOf(a.Lhs[0]) != obj {
				continue
			}
			if _, isCall := stripParens(a.Rhs[0]).(*ast.CallExpr); isCall {
				found = true
			}
		}
		return true
	})
	return found
}
