package main

import (
	"bufio"
	"bytes"
	"fmt"
	"go/ast"
	"go/token"
	"go/types"
	"os"
	"os/exec"
	"sort"
	"strconv"
	"strings"
)

// bceSite: an index or slice expression for which the Go compiler's prove pass could not eliminate the
// bounds check (-gcflags=-d=ssa/check_bce/debug=1). Compiling is not executing: the list is a static fact about
// the current tree.
type bceSite struct {
	File      string // repo-relative
	Line, Col int
	Kind      string // IsInBounds | IsSliceInBounds
}

func compilerUnprovenBounds(repo string) ([]bceSite, error) {
	cmd := exec.Command("go", "build", "-gcflags=-d=ssa/check_bce/debug=1", "./x/...", "./app/...", "./precompiles/...", "./utils/...", "./types/...")
	cmd.Dir = repo
	cmd.Env = append(os.Environ(), "GOFLAGS=-mod=mod", "GOPROXY=off", "GOSUMDB=off", "GOTOOLCHAIN=local")
	var out bytes.Buffer
	cmd.Stdout = &out
	cmd.Stderr = &out
	err := cmd.Run()
	var sites []bceSite
	sc := bufio.NewScanner(&out)
	sc.Buffer(make([]byte, 1<<20), 1<<24)
	n := 0
	for sc.Scan() {
		l := sc.Text()
		i := strings.Index(l, ": Found Is")
		if i < 0 {
			continue
		}
		n++
		pos := l[:i]
		parts := strings.Split(pos, ":")
		if len(parts) < 3 || strings.HasPrefix(parts[0], "/") || strings.HasSuffix(parts[0], ".pb.go") || strings.HasSuffix(parts[0], ".pb.gw.go") {
			continue
		}
		ln, _ := strconv.Atoi(parts[1])
		cl, _ := strconv.Atoi(parts[2])
		sites = append(sites, bceSite{File: parts[0], Line: ln, Col: cl, Kind: strings.TrimPrefix(l[i+2:], "Found ")})
	}
	if n == 0 {
		if err != nil {
			return nil, fmt.Errorf("go build failed: %v: %s", err, firstLines(out.String(), 5))
		}
		return nil, fmt.Errorf("the compiler reported no bounds-check sites at all (diagnostic flag not honoured?)")
	}
	return sites, nil
}

func firstLines(s string, n int) string {
	ls := strings.Split(s, "\n")
	if len(ls) > n {
		ls = ls[:n]
	}
	return strings.Join(ls, " | ")
}

// boundsGuarded: the index/slice expression at the site is dominated by a fact that bounds it by the length of
// the indexed value, or is of a shape that cannot fail given such facts.
func (v *FnView) boundsGuarded(n ast.Node) (bool, string) {
	var base, idx, hi ast.Expr
	switch x := n.(type) {
	case *ast.IndexExpr:
		base, idx = x.X, x.Index
	case *ast.SliceExpr:
		base, idx, hi = x.X, x.Low, x.High
	default:
		return false, "not an index expression"
	}
	bs := exprString(base)
	lenOfBase := func(e ast.Expr) bool {
		c, ok := stripParens(e).(*ast.CallExpr)
		return ok && exprString(c.Fun) == "len" && len(c.Args) == 1 && exprString(c.Args[0]) == bs
	}
	constInt := func(e ast.Expr) (int64, bool) {
		if e == nil {
			return 0, false
		}
		if cv := v.constOf(e); cv != nil {
			if i, err := strconv.ParseInt(cv.ExactString(), 10, 64); err == nil {
				return i, true
			}
		}
		return 0, false
	}
	facts := v.FactsAt(n, false)
	// the largest constant k such that len(base) >= k is known
	minLen := int64(-1)
	for _, f := range facts {
		c, ok := factCmp(f)
		if !ok || !lenOfBase(c.L) {
			continue
		}
		if k, isC := constInt(c.R); isC {
			switch c.Op {
			case ">=", "==":
				if k > minLen {
					minLen = k
				}
			case ">":
				if k+1 > minLen {
					minLen = k + 1
				}
			}
		}
	}
	need := func(e ast.Expr, strict bool) (bool, string) {
		if e == nil {
			return true, ""
		}
		if k, isC := constInt(e); isC {
			lim := k
			if strict {
				lim = k + 1
			}
			if minLen >= lim {
				return true, ""
			}
			return false, fmt.Sprintf("constant %d is not covered by a length test of %s (known length >= %d)", k, bs, minLen)
		}
		// symbolic: a fact e < len(base) (or <= for slice bounds)
		es := exprString(e)
		for _, f := range facts {
			c, ok := factCmp(f)
			if !ok || exprString(c.L) != es || !lenOfBase(c.R) {
				continue
			}
			if c.Op == "<" || (!strict && c.Op == "<=") {
				return true, ""
			}
		}
		// len(base)-k with known minLen
		if b, ok := stripParens(e).(*ast.BinaryExpr); ok && b.Op == token.SUB && lenOfBase(b.X) {
			if k, isC := constInt(b.Y); isC && minLen >= k {
				return true, ""
			}
		}
		return false, es + " is not bounded by len(" + bs + ") on this path"
	}
	if idx != nil {
		_, isSlice := n.(*ast.SliceExpr)
		if ok, why := need(idx, !isSlice); !ok {
			return false, why
		}
	}
	if hi != nil {
		if ok, why := need(hi, false); !ok {
			return false, why
		}
	}
	return true, ""
}

// nodeAt: the innermost index/slice expression of v that starts at or contains line:col.
func (v *FnView) indexNodeAt(fset *token.FileSet, line, col int) ast.Node {
	var best ast.Node
	ast.Inspect(v.Decl, func(n ast.Node) bool {
		switch x := n.(type) {
		case *ast.IndexExpr:
			p := fset.Position(x.Lbrack)
			if p.Line == line && p.Column == col {
				best = x
			}
		case *ast.SliceExpr:
			p := fset.Position(x.Lbrack)
			if p.Line == line && p.Column == col {
				best = x
			}
		}
		return true
	})
	return best
}

func dumpBCE(w *World, repo string) {
	sites, err := compilerUnprovenBounds(repo)
	if err != nil {
		fmt.Println("error:", err)
		return
	}
	br := blockReachable(w)
	type fnRange struct {
		v          *FnView
		file       string
		start, end int
	}
	var rs []fnRange
	for fo := range br {
		v := w.ViewOf(fo)
		if v == nil {
			continue
		}
		ps, pe := w.Prog.Fset.Position(v.Decl.Pos()), w.Prog.Fset.Position(v.Decl.End())
		rs = append(rs, fnRange{v, w.relFile(v.Decl.Pos()), ps.Line, pe.Line})
	}
	sort.Slice(sites, func(i, j int) bool {
		if sites[i].File != sites[j].File {
			return sites[i].File < sites[j].File
		}
		return sites[i].Line < sites[j].Line
	})
	n := 0
	for _, s := range sites {
		for _, fr := range rs {
			if fr.file == s.File && s.Line >= fr.start && s.Line <= fr.end {
				n++
				nd := fr.v.indexNodeAt(w.Prog.Fset, s.Line, s.Col)
				verdict := "no-node"
				if nd != nil {
					cls, _ := fr.v.bceClass(nd)
					if cls != "" {
						continue
					}
					_, why := fr.v.boundsGuarded(nd)
					verdict = why
					if e, isE := nd.(ast.Expr); isE {
						verdict = exprString(e) + " => " + verdict
					}
				}
				fmt.Printf("%s:%d:%d %s %s  %s\n", s.File, s.Line, s.Col, s.Kind, fr.v.ID(), verdict)
			}
		}
	}
	fmt.Println(len(sites), "unproven sites in the repository,", n, "in block-reachable functions")
	_ = types.Typ
}

// bceClass: automatic classification of an unproven bounds check; "" means it needs an audit entry.
func (v *FnView) bceClass(nd ast.Node) (string, string) {
	if nd == nil {
		return "", ""
	}
	if ok, _ := v.boundsGuarded(nd); ok {
		return "guarded", "dominated by a length test of the indexed value"
	}
	var base, idx ast.Expr
	switch x := nd.(type) {
	case *ast.IndexExpr:
		base, idx = x.X, x.Index
	case *ast.SliceExpr:
		base, idx = x.X, x.Low
	}
	// comparator of a sort over the same slice: the sort package only passes valid indices
	if fl := v.enclosingFuncLit(nd); fl != nil {
		if c, ok := v.parent(fl).(*ast.CallExpr); ok && strings.HasPrefix(exprString(c.Fun), "sort.Slice") && len(c.Args) == 2 && fl.Type.Params != nil {
			var ps []types.Object
			for _, f := range fl.Type.Params.List {
				for _, nm := range f.Names {
					ps = append(ps, v.Info.ObjectOf(nm))
				}
			}
			isParam := func(e ast.Expr) bool {
				o := v.objOf(e)
				for _, p := range ps {
					if o != nil && o == p {
						return true
					}
				}
				return false
			}
			if idx != nil && isParam(idx) && sameExpr(base, c.Args[0]) {
				return "sort-comparator", "index handed in by sort.Slice for the slice being sorted"
			}
		}
	}
	// element 0 of strings.Split: Split never returns an empty slice for a non-empty separator
	if idx != nil {
		if cv := v.constOf(idx); cv != nil && cv.ExactString() == "0" {
			for _, d := range v.resolveDefs(base, 0) {
				if name, args, ok := funcCallName(d); ok && name == "Split" && len(args) == 2 {
					if sv := v.constOf(args[1]); sv != nil && sv.ExactString() != `""` {
						return "split-first", "strings.Split with a non-empty separator returns at least one element"
					}
				}
			}
		}
	}
	// element k < n of ParseJoinedStoreKey(key, n) after its error was checked
	if idx != nil {
		if cv := v.constOf(idx); cv != nil {
			if k, err := strconv.ParseInt(cv.ExactString(), 10, 64); err == nil {
				for _, d := range v.resolveDefs(base, 0) {
					if c, ok := stripParens(d).(*ast.CallExpr); ok && v.calleeName(c) == "ParseJoinedStoreKey" && len(c.Args) == 2 {
						if nv := v.constOf(c.Args[1]); nv != nil {
							if n, err := strconv.ParseInt(nv.ExactString(), 10, 64); err == nil && k < n {
								for _, f := range v.FactsAt(nd, false) {
									if o := v.outcome(f); o != nil && o.Call == c && o.Success {
										return "parsed-n", "ParseJoinedStoreKey(key, n) succeeded, so the result has exactly n parts"
									}
								}
							}
						}
					}
				}
			}
		}
	}
	// slicing s[:i] / s[i+1:] with the index of a range over s
	if se, ok := nd.(*ast.SliceExpr); ok {
		if lp, isL := v.innermostLoop(nd).(*ast.RangeStmt); isL && lp.Key != nil && sameExpr(lp.X, se.X) {
			okLow, okHigh := se.Low == nil, se.High == nil
			ko := v.objOf(lp.Key)
			isKey := func(e ast.Expr) bool {
				if v.objOf(e) == ko {
					return true
				}
				if b, isB := stripParens(e).(*ast.BinaryExpr); isB && b.Op == token.ADD && v.objOf(b.X) == ko && exprString(b.Y) == "1" {
					return true
				}
				return false
			}
			if se.Low != nil && isKey(se.Low) {
				okLow = true
			}
			if se.High != nil && isKey(se.High) {
				okHigh = true
			}
			if okLow && okHigh {
				return "range-index", "slice bounds i / i+1 with i the index of a range over the same slice"
			}
		}
	}
	// i ranges over the same slice (for i := range s / for i := 0; i < len(s); i++)
	if idx != nil {
		if lp, ok := v.innermostLoop(nd).(*ast.RangeStmt); ok && lp.Key != nil && v.objOf(lp.Key) != nil && v.objOf(lp.Key) == v.objOf(idx) && sameExpr(lp.X, base) {
			return "range-index", "index of a range over the same slice"
		}
	}
	return "", ""
}

// audited unproven bounds checks on unrecovered paths: "function|expression" -> why the index is in range.
// Every entry was confirmed by reading the producer of the indexed value.
var c11BoundsAudit = map[string]string{
	"utils.SortByPower|powers[indices[i]]":                                           "indices holds 0..len(powers)-1 (filled by the loop above); sort.Slice passes i, j < len(indices)",
	"utils.SortByPower|powers[indices[j]]":                                           "as above",
	"utils.SortByPower|operatorAddrs[indices[i]]":                                    "the three slices are built in lockstep by the only caller (dogfood EndBlock: one key and one power per active operator)",
	"utils.SortByPower|operatorAddrs[indices[j]]":                                    "as above",
	"utils.SortByPower|operatorAddrs[idx]":                                           "idx ranges over indices (0..n-1); the slices have equal length (lockstep)",
	"utils.SortByPower|pubKeys[idx]":                                                 "as above",
	"utils.SortByPower|powers[idx]":                                                  "idx < len(powers) by construction of indices",
	"utils.SortByPower|sortedOperatorAddrs[i]":                                       "made with len(operatorAddrs) == len(indices)",
	"utils.SortByPower|sortedPubKeys[i]":                                             "made with len(pubKeys) == len(indices)",
	"x/assets/keeper.Keeper.IterateAssetsForOperator|keys[1]":                        "keys of the operator-asset store are written by GetJoinedStoreKey(operator, assetID): two parts",
	"x/operator/keeper.Keeper.IterateOperatorsForAVS|keys[1]":                        "keys of the USD-value store are written by GetJoinedStoreKey(avs, operator): two parts",
	"x/dogfood/keeper.Keeper.EndBlock|powers[i]":                                     "GetVotePowerForChainID returns one power per operator handed in (or an error, handled before)",
	"x/dogfood/keeper.Keeper.EndBlock|keys[i]":                                       "GetActiveOperatorsForChainID appends one key per active operator",
	"x/operator/keeper.Keeper.GetActiveOperatorsForChainID|pks[i]":                   "GetOperatorsForChainID appends one key per operator address",
	"x/operator/keeper.Keeper.GetOperatorsForChainID|iterator.Key()[len(prefix):]":   "the iterator was opened on that prefix, every key starts with it",
	"x/oracle/keeper/aggregator.aggregator.fillPrice|pSource.Prices[0]":              "sanityCheck rejects a source without prices before the message is aggregated or logged for replay",
	"x/oracle/keeper/aggregator.filter.addPSource|pSource.Prices[0]":                 "as above",
	"x/oracle/keeper/aggregator.AggregatorContext.FillPrice|msg.Prices[0]":           "sanityCheck rejects a message without prices",
	"x/oracle/keeper/aggregator.AggregatorContext.FillPrice|msg.Prices[0].Prices[0]": "sanityCheck rejects a source without prices",
	"x/oracle/keeper/cache.cacheMsgs.commit|index.Index[i:]":                         "i <= len(index.Index) when the pruning loop ends",
	"x/oracle/keeper/cache.cacheParams.commit|index.Index[i:]":                       "i < len(index.Index) or the index is empty (i == 0) when the pruning loop ends",
	"x/oracle/keeper/cache.cacheParams.commit|index.Index[i]":                        "inside the loop i+1 < len(index.Index)",
	"x/oracle/keeper/common.BigIntList.Median|b[l / 2]":                              "called with at least one value: a report exists only after a validator submitted a price, the final median only after the threshold was exceeded",
	"x/oracle/keeper/common.BigIntList.Median|b[l / 2 - 1]":                          "even length >= 2 on this arm",
	"x/oracle/keeper.parseBalanceChange|rawData[:32]":                                "UpdateNSTByBalanceChange, the only caller, rejects len(rawData) < 32",
	"x/oracle/keeper.parseBalanceChange|rawData[32:]":                                "as above",
	"x/oracle/types.Params.GetTokenInfo|p.Tokens[v.TokenID]":                         "Params.Validate requires every feeder's TokenID to index an existing token",
}

// audited bounds checks that the compiler reports inside inlined library calls: "function" -> reason
var c11InlinedAudit = map[string]string{
	"x/avs/types.GenerateAVSAddr":                            "slices a 32-byte Keccak hash",
	"x/delegation/keeper.Keeper.GetUndelegationHoldCount":    "decodes an 8-byte value written by the module itself (Uint64ToBigEndian)",
	"x/dogfood/keeper.Keeper.ExportGenesis":                  "hex encoding of a public key (not on an unrecovered path in practice: export)",
	"x/oracle/keeper/aggregator.AggregatorContext.FillPrice": "inlined Params.GetTokenInfo: feeder and token ids validated by Params.Validate",
	"x/oracle/keeper/aggregator.newWorker":                   "inlined Params.GetTokenInfo: feeder and token ids validated by Params.Validate",
	"x/oracle/keeper.Keeper.GetPriceTRLatest":                "decodes the 8-byte next-round id written by the module itself",
	"x/oracle/keeper.Keeper.GetNextRoundID":                  "decodes the 8-byte next-round id written by the module itself",
	"x/oracle/keeper.Keeper.GetForceSealBlock":               "decodes the 8-byte height written by SetForceSealBlock (Uint64ToBigEndian), the family's only writer",
}

func c11Bounds(r *Run) {
	w := r.W
	sites, err := compilerUnprovenBounds(w.Repo)
	if err != nil {
		r.undecided("C11.R7", "compiler", "-", "the compiler's bounds-check report is available", err.Error())
		return
	}
	br := blockReachable(w)
	type fnRange struct {
		v          *FnView
		file       string
		start, end int
	}
	var rs []fnRange
	for fo := range br {
		v := w.ViewOf(fo)
		if v == nil || strings.HasPrefix(funcID(fo), "x/evm") || strings.HasPrefix(funcID(fo), "x/appchain") || strings.HasPrefix(funcID(fo), "x/reward") {
			continue
		}
		ps, pe := w.Prog.Fset.Position(v.Decl.Pos()), w.Prog.Fset.Position(v.Decl.End())
		rs = append(rs, fnRange{v, w.relFile(v.Decl.Pos()), ps.Line, pe.Line})
	}
	sort.Slice(sites, func(i, j int) bool {
		if sites[i].File != sites[j].File {
			return sites[i].File < sites[j].File
		}
		if sites[i].Line != sites[j].Line {
			return sites[i].Line < sites[j].Line
		}
		return sites[i].Col < sites[j].Col
	})
	// witnesses for audited entries whose reason is a check made elsewhere
	if uv := w.View("x/oracle/keeper", "Keeper.UpdateNSTByBalanceChange"); uv == nil {
		r.bad("C11.R7", "witness|rawData-length", "-", "anchor", "UpdateNSTByBalanceChange not found")
	} else {
		p2 := paramName(uv, 2)
		ok := uv.rejectsWhen(uv.Decl.Body, func(f Fact) bool {
			c, isC := factCmp(f)
			return isC && c.Op == "<" && exprString(c.L) == "len("+p2+")" && exprString(c.R) == "32"
		}, nil)
		only := true
		if fn := w.Fn("x/oracle/keeper", "parseBalanceChange"); fn != nil {
			if node := w.CG.Nodes[fn]; node != nil {
				for _, in := range node.In {
					if w.fnInScope(in.Caller.Func) && !strings.HasSuffix(fnName(in.Caller.Func), "UpdateNSTByBalanceChange") {
						only = false
					}
				}
			}
		}
		r.check(ok && only, "C11.R7", "witness|rawData-length", uv.pos(uv.Decl), "the only caller of parseBalanceChange rejects reports shorter than the 32-byte bitmap", "UpdateNSTByBalanceChange no longer rejects len(rawData) < 32 before parseBalanceChange slices rawData[:32], or parseBalanceChange has another caller")
	}
	if sv := w.View("x/oracle/keeper/aggregator", "AggregatorContext.sanityCheck"); sv == nil {
		r.bad("C11.R7", "witness|prices-non-empty", "-", "anchor", "sanityCheck not found")
	} else {
		mp := paramName(sv, 0)
		okMsg := sv.rejectsWhen(sv.Decl.Body, func(f Fact) bool {
			c, isC := factCmp(f)
			return isC && c.Op == "==" && exprString(c.L) == "len("+mp+".Prices)" && exprString(c.R) == "0"
		}, nil)
		okSrc := false
		ast.Inspect(sv.Decl.Body, func(n ast.Node) bool {
			lp, isL := n.(*ast.RangeStmt)
			if !isL || exprString(lp.X) != mp+".Prices" {
				return true
			}
			src := sv.objOf(lp.Value)
			if sv.rejectsWhen(lp.Body, func(f Fact) bool {
				c, isC := factCmp(f)
				if !isC || c.Op != "==" || exprString(c.R) != "0" {
					return false
				}
				cc, isCall := stripParens(c.L).(*ast.CallExpr)
				return isCall && exprString(cc.Fun) == "len" && len(cc.Args) == 1 && lastField(cc.Args[0]) == "Prices" && sv.objOf(rootIdent(cc.Args[0])) == src
			}, nil) {
				okSrc = true
			}
			return true
		})
		r.check(okMsg && okSrc, "C11.R7", "witness|prices-non-empty", sv.pos(sv.Decl), "a message without prices, or with a source without prices, is rejected before it is aggregated or logged for replay", "sanityCheck no longer rejects len(msg.Prices) == 0 / len(source.Prices) == 0: FillPrice and fillPrice index Prices[0] (also when the logged message is replayed in BeginBlock/EndBlock)")
	}
	if pv := w.View("x/oracle/types", "Params.Validate"); pv == nil {
		r.bad("C11.R7", "witness|token-id-in-range", "-", "anchor", "Params.Validate not found")
	} else {
		ok := pv.rejectsWhen(pv.Decl.Body, func(f Fact) bool {
			c, isC := factCmp(f)
			return isC && c.Op == ">=" && lastField(c.L) == "TokenID" && strings.Contains(exprString(c.R), "len(") && strings.Contains(exprString(c.R), "Tokens")
		}, func(f Fact) bool {
			c, isC := factCmp(f)
			return isC && strings.Contains(strings.ToLower(exprString(c.L)), "fid") // the reserved feeder 0 is skipped
		})
		r.check(ok, "C11.R7", "witness|token-id-in-range", pv.pos(pv.Decl), "params whose feeder names a token beyond the token list are rejected", "Params.Validate no longer rejects feeder.TokenID >= len(p.Tokens): GetTokenInfo indexes p.Tokens[v.TokenID] in block processing")
	}
	seen := map[string]int{}
	for _, s := range sites {
		for _, fr := range rs {
			if fr.file != s.File || s.Line < fr.start || s.Line > fr.end {
				continue
			}
			v := fr.v
			r.saw(v.ID())
			nd := v.indexNodeAt(w.Prog.Fset, s.Line, s.Col)
			pos := fmt.Sprintf("%s:%d", s.File, s.Line)
			if nd == nil {
				seen[v.ID()+"|inlined"]++
				key := fmt.Sprintf("bounds|%s|inlined#%d", v.ID(), seen[v.ID()+"|inlined"])
				if why, ok := c11InlinedAudit[v.ID()]; ok {
					r.ok("C11.R7", key, pos, "audited (bounds check inside an inlined library call): "+why)
				} else {
					r.bad("C11.R7", key, pos, "every index on an unrecovered path is provably in range", "the compiler cannot prove a bounds check inside an inlined call in "+v.ID()+" ("+s.Kind+"), reachable from block processing ("+br[v.Obj]+"), and the site is not audited: an out-of-range value panics and halts the chain")
				}
				continue
			}
			ex := exprString(nd.(ast.Expr))
			seen[v.ID()+"|"+ex]++
			key := fmt.Sprintf("bounds|%s|%s#%d", v.ID(), ex, seen[v.ID()+"|"+ex])
			if cls, why := v.bceClass(nd); cls != "" {
				r.ok("C11.R7", key, pos, cls+": "+why)
				continue
			}
			if why, ok := c11BoundsAudit[v.ID()+"|"+ex]; ok {
				r.ok("C11.R7", key, pos, "audited: "+why)
				continue
			}
			_, why := v.boundsGuarded(nd)
			r.bad("C11.R7", key, pos, "every index on an unrecovered path is provably in range", ex+" in "+v.ID()+": "+why+"; reachable from block processing ("+br[v.Obj]+"): an out-of-range index panics and halts the chain")
		}
	}
}
