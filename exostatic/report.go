package main

import (
	"encoding/json"
	"fmt"
	"os"
	"path/filepath"
	"sort"
	"strings"
	"time"
)

type Obligation struct {
	Rule   string `json:"rule"`
	Key    string `json:"key"` // stable: rule|resolved construct, never a line number
	Pos    string `json:"pos"`
	Desc   string `json:"desc"`
	Status string `json:"status"` // ok | violated | known | undecided
	Detail string `json:"detail,omitempty"`
}

type RuleInfo struct {
	ID        string `json:"id"`
	Text      string `json:"text"`
	Floor     int    `json:"instance_floor"`
	Instances int    `json:"instances"`
	Violated  int    `json:"violated"`
}

type Finding struct {
	Property     string `json:"property"`
	Rule         string `json:"rule"`
	Key          string `json:"key"`
	Status       string `json:"status"` // known | fixed
	Commit       string `json:"commit,omitempty"`
	WhatFails    string `json:"what_fails"`
	FailingInput string `json:"failing_input,omitempty"`
}

type Run struct {
	W        *World
	Prop     string
	Tier     string
	Seed     int
	Start    time.Time
	Obs      []*Obligation
	rules    map[string]*RuleInfo
	ruleSeq  []string
	Notes    []string
	Assume   []string
	Explain  string
	NotDec   []string
	keysSeen map[string]bool
	analysed map[string]bool // functions looked at
}

func NewRun(w *World, prop, tier string, seed int) *Run {
	return &Run{W: w, Prop: prop, Tier: tier, Seed: seed, Start: time.Now(),
		rules: map[string]*RuleInfo{}, keysSeen: map[string]bool{}, analysed: map[string]bool{}}
}

// rule declares a rule with its text and the hand-confirmed instance floor.
func (r *Run) rule(id, text string, floor int) {
	if _, ok := r.rules[id]; ok {
		return
	}
	r.rules[id] = &RuleInfo{ID: id, Text: text, Floor: floor}
	r.ruleSeq = append(r.ruleSeq, id)
}

func (r *Run) add(rule, key, pos, desc, status, detail string) {
	if _, ok := r.rules[rule]; !ok {
		panic("undeclared rule " + rule)
	}
	full := rule + "|" + key
	if r.keysSeen[full] {
		// same construct reported twice (e.g. two call sites of the same pair):
		// keep the worst status.
		for _, o := range r.Obs {
			if o.Rule+"|"+o.Key == full {
				if status != "ok" && o.Status == "ok" {
					o.Status, o.Detail, o.Pos = status, detail, pos
				}
				return
			}
		}
	}
	r.keysSeen[full] = true
	r.Obs = append(r.Obs, &Obligation{Rule: rule, Key: key, Pos: pos, Desc: desc, Status: status, Detail: detail})
}

func (r *Run) ok(rule, key, pos, desc string) { r.add(rule, key, pos, desc, "ok", "") }
func (r *Run) bad(rule, key, pos, desc, detail string) {
	r.add(rule, key, pos, desc, "violated", detail)
}
func (r *Run) undecided(rule, key, pos, desc, detail string) {
	r.add(rule, key, pos, desc, "undecided", detail)
}

// check is ok/bad in one call.
func (r *Run) check(cond bool, rule, key, pos, desc, detail string) bool {
	if cond {
		r.ok(rule, key, pos, desc)
	} else {
		r.bad(rule, key, pos, desc, detail)
	}
	return cond
}

func (r *Run) note(format string, a ...any) { r.Notes = append(r.Notes, fmt.Sprintf(format, a...)) }
func (r *Run) saw(fn string)                { r.analysed[fn] = true }

func loadFindings(path string) ([]Finding, error) {
	b, err := os.ReadFile(path)
	if err != nil {
		if os.IsNotExist(err) {
			return nil, nil
		}
		return nil, err
	}
	var doc struct {
		Findings []Finding `json:"findings"`
	}
	if err := json.Unmarshal(b, &doc); err != nil {
		return nil, err
	}
	return doc.Findings, nil
}

// Finish applies instance floors and known findings, writes evidence and replay
// files, prints the report lines and returns the exit code.
func (r *Run) Finish(evidencePath, findingsPath string) int {
	findings, err := loadFindings(findingsPath)
	if err != nil {
		fmt.Printf("cannot read findings file %s: %v\n", findingsPath, err)
		return 2
	}
	known := map[string]Finding{}
	for _, f := range findings {
		if f.Property == r.Prop && f.Status == "known" {
			known[f.Rule+"|"+f.Key] = f
		}
	}
	// instance floors
	for _, o := range r.Obs {
		ri := r.rules[o.Rule]
		ri.Instances++
	}
	for _, id := range r.ruleSeq {
		ri := r.rules[id]
		if ri.Instances < ri.Floor {
			r.Obs = append(r.Obs, &Obligation{Rule: id, Key: "instance-floor", Pos: "-",
				Desc:   fmt.Sprintf("rule matched %d instances, hand-confirmed floor is %d", ri.Instances, ri.Floor),
				Status: "violated", Detail: "the rule's anchors moved or vanished; the rule would pass vacuously"})
			ri.Instances++
		}
	}
	sort.SliceStable(r.Obs, func(i, j int) bool {
		if r.Obs[i].Rule != r.Obs[j].Rule {
			return ruleLess(r.Obs[i].Rule, r.Obs[j].Rule)
		}
		return r.Obs[i].Key < r.Obs[j].Key
	})
	nViol, nKnown, nOK := 0, 0, 0
	var lines []string
	vdir := filepath.Join(filepath.Dir(evidencePath), "violations")
	for _, o := range r.Obs {
		switch o.Status {
		case "ok":
			nOK++
		case "violated", "undecided":
			if f, ok := known[o.Rule+"|"+o.Key]; ok && o.Status == "violated" {
				o.Status = "known"
				nKnown++
				lines = append(lines, fmt.Sprintf("KNOWN-FINDING: property=%s %s [%s %s at %s]", r.Prop, f.WhatFails, o.Rule, o.Key, o.Pos))
				continue
			}
			nViol++
			r.rules[o.Rule].Violated++
			os.MkdirAll(vdir, 0o755)
			rp := filepath.Join(vdir, fmt.Sprintf("%s-%d.json", r.Prop, nViol))
			b, _ := json.MarshalIndent(map[string]any{"property": r.Prop, "rule": o.Rule, "rule_text": r.rules[o.Rule].Text,
				"key": o.Key, "pos": o.Pos, "desc": o.Desc, "status": o.Status, "detail": o.Detail,
				"replay": fmt.Sprintf("/verif/run.sh %s %s", r.Prop, r.Tier)}, "", " ")
			os.WriteFile(rp, b, 0o644)
			lines = append(lines, fmt.Sprintf("VIOLATION property=%s replay=%s", r.Prop, rp))
			lines = append(lines, fmt.Sprintf("  %s  %s  %s  [%s] %s -- %s", o.Pos, o.Rule, o.Status, o.Key, o.Desc, o.Detail))
		}
	}
	// evidence
	var rules []*RuleInfo
	for _, id := range r.ruleSeq {
		rules = append(rules, r.rules[id])
	}
	var samples []any
	for i, o := range r.Obs {
		if i%maxInt(1, len(r.Obs)/12) == 0 || o.Status != "ok" {
			samples = append(samples, o)
		}
		if len(samples) >= 40 {
			break
		}
	}
	if len(samples) == 0 {
		samples = append(samples, "no obligations generated")
	}
	var fns []string
	for f := range r.analysed {
		fns = append(fns, f)
	}
	sort.Strings(fns)
	ev := map[string]any{
		"property_id": r.Prop,
		"tier":        r.Tier,
		"seed":        r.Seed,
		"level":       "other",
		"coverage": map[string]any{
			"explanation":            r.Explain,
			"obligations":            len(r.Obs),
			"discharged":             nOK,
			"known_findings_matched": nKnown,
			"rules":                  rules,
			"all_obligations":        r.Obs,
			"samples":                samples,
			"packages_loaded":        len(r.W.Pkgs),
			"ssa_functions":          len(r.W.AllFuncs),
			"source_functions":       r.W.nFuncsIn,
			"functions_analysed":     fns,
			"not_decided":            r.NotDec,
			"notes":                  r.Notes,
			"exhaustive":             false,
			"checker_cmd":            fmt.Sprintf("/verif/run.sh %s %s", r.Prop, r.Tier),
		},
		"assumptions": r.Assume,
		"wall_s":      time.Since(r.Start).Seconds(),
		"violations":  nViol,
	}
	b, _ := json.MarshalIndent(ev, "", " ")
	os.MkdirAll(filepath.Dir(evidencePath), 0o755)
	if err := os.WriteFile(evidencePath, b, 0o644); err != nil {
		fmt.Printf("cannot write evidence: %v\n", err)
		return 2
	}
	fmt.Printf("exostatic %s tier=%s: %d packages, %d SSA functions; %d rules, %d obligations: %d discharged, %d known findings, %d violated/undecided (%.1fs)\n",
		r.Prop, r.Tier, len(r.W.Pkgs), len(r.W.AllFuncs), len(r.ruleSeq), len(r.Obs), nOK, nKnown, nViol, time.Since(r.Start).Seconds())
	for _, id := range r.ruleSeq {
		ri := r.rules[id]
		fmt.Printf("  %-8s instances=%-3d floor=%-3d violated=%d\n", ri.ID, ri.Instances, ri.Floor, ri.Violated)
	}
	for _, l := range lines {
		fmt.Println(l)
	}
	if nViol > 0 {
		return 1
	}
	return 0
}

func maxInt(a, b int) int {
	if a > b {
		return a
	}
	return b
}

func ruleLess(a, b string) bool {
	// "C10.R5" vs "C10.R12": numeric on the trailing number
	pa, pb := strings.LastIndex(a, "R"), strings.LastIndex(b, "R")
	if pa > 0 && pb > 0 && a[:pa] == b[:pb] {
		var x, y int
		fmt.Sscanf(a[pa+1:], "%d", &x)
		fmt.Sscanf(b[pb+1:], "%d", &y)
		if x != y {
			return x < y
		}
	}
	return a < b
}
