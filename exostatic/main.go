package main

import (
	"flag"
	"fmt"
	"os"
	"runtime/debug"
	"sort"
	"strconv"
	"strings"
)

type propFn func(r *Run)

var props = map[string]propFn{}

func register(id string, f propFn) { props[id] = f }

func main() {
	repo := flag.String("repo", "/repo", "repository root")
	prop := flag.String("prop", "", "property id (C01..C20)")
	tier := flag.String("tier", "quick", "quick|thorough")
	evidence := flag.String("evidence", "", "evidence file to write")
	findings := flag.String("findings", "/verif/known_findings.json", "known findings file")
	dump := flag.String("dump", "", "debug: families|entries|effects:<func>")
	flag.Parse()

	seed := 0
	if s := os.Getenv("VERIF_SEED"); s != "" {
		seed, _ = strconv.Atoi(s)
	}
	code := 2
	func() {
		defer func() {
			if p := recover(); p != nil {
				fmt.Printf("exostatic: analyser panic: %v\n%s\n", p, debug.Stack())
				code = 2
			}
		}()
		w, err := LoadWorld(*repo, *tier)
		if err != nil {
			fmt.Printf("exostatic: cannot analyse the tree: %v\n", err)
			code = 2
			return
		}
		if *dump != "" {
			doDump(w, *dump)
			code = 0
			return
		}
		f, ok := props[*prop]
		if !ok {
			fmt.Printf("exostatic: unknown property %q\n", *prop)
			code = 2
			return
		}
		r := NewRun(w, *prop, *tier, seed)
		f(r)
		ev := *evidence
		if ev == "" {
			ev = "/verif/evidence/" + *prop + ".json"
		}
		code = r.Finish(ev, *findings)
	}()
	os.Exit(code)
}

func doDump(w *World, what string) {
	switch {
	case what == "families":
		e := computeEffects(w)
		var lines []string
		for f, accs := range e.Direct {
			if !w.fnInScope(f) {
				continue
			}
			for _, a := range accs {
				lines = append(lines, fmt.Sprintf("%-28s %s %-60s %s", w.pos(a.Instr.Pos()), a.Kind, strings.Join(a.Families, ","), fnName(f)))
			}
		}
		sort.Strings(lines)
		for _, l := range lines {
			fmt.Println(l)
		}
	case strings.HasPrefix(what, "effects:"):
		e := computeEffects(w)
		name := strings.TrimPrefix(what, "effects:")
		for f := range e.Sum {
			if strings.Contains(fnName(f), name) {
				fmt.Println(fnName(f))
				for _, k := range e.List(f, "RWDI") {
					fmt.Println("   ", k)
				}
			}
		}
	case what == "entries":
		c := catalogue(w)
		c.print(w)
	}
}
