package main

import (
	"flag"
	"fmt"
	"go/ast"
	"go/types"
	"os"
	"runtime/debug"
	"sort"
	"strconv"
	"strings"
)

type propFn func(r *Run)

var props = map[string]propFn{}

func register(id string, f propFn) { props[id] = f }

func main() {
	repo := flag.String("repo", "/repo", "repository root")
	prop := flag.String("prop", "", "property id (C01..C20)")
	tier := flag.String("tier", "quick", "quick|thorough")
	evidence := flag.String("evidence", "", "evidence file to write")
	findings := flag.String("findings", "/verif/known_findings.json", "known findings file")
	dump := flag.String("dump", "", "debug: families|entries|effects:<func>")
	flag.Parse()

	seed := 0
	if s := os.Getenv("VERIF_SEED"); s != "" {
		seed, _ = strconv.Atoi(s)
	}
	code := 2
	func() {
		defer func() {
			if p := recover(); p != nil {
				fmt.Printf("exostatic: analyser panic: %v\n%s\n", p, debug.Stack())
				code = 2
			}
		}()
		w, err := LoadWorld(*repo, *tier)
		if err != nil {
			fmt.Printf("exostatic: cannot analyse the tree: %v\n", err)
			code = 2
			return
		}
		if *dump != "" {
			doDump(w, *dump)
			code = 0
			return
		}
		f, ok := props[*prop]
		if !ok {
			fmt.Printf("exostatic: unknown property %q\n", *prop)
			code = 2
			return
		}
		r := NewRun(w, *prop, *tier, seed)
		f(r)
		ev := *evidence
		if ev == "" {
			ev = "/verif/evidence/" + *prop + ".json"
		}
		code = r.Finish(ev, *findings)
	}()
	os.Exit(code)
}

func doDump(w *World, what string) {
	switch {
	case what == "families":
		e := computeEffects(w)
		var lines []string
		for f, accs := range e.Direct {
			if !w.fnInScope(f) {
				continue
			}
			for _, a := range accs {
				lines = append(lines, fmt.Sprintf("%-28s %s %-60s %s", w.pos(a.Instr.Pos()), a.Kind, strings.Join(a.Families, ","), fnName(f)))
			}
		}
		sort.Strings(lines)
		for _, l := range lines {
			fmt.Println(l)
		}
	case strings.HasPrefix(what, "effects:"):
		e := computeEffects(w)
		name := strings.TrimPrefix(what, "effects:")
		for f := range e.Sum {
			if strings.Contains(fnName(f), name) {
				fmt.Println(fnName(f))
				for _, k := range e.List(f, "RWDI") {
					fmt.Println("   ", k)
				}
			}
		}
	case what == "wbf":
		a := newWBF(w)
		for _, t := range precompileTable(w) {
			done := map[*types.Func]bool{}
			for _, m := range t.Methods {
				if !m.IsTx || !m.Swallow || done[m.HandlerObj] {
					continue
				}
				done[m.HandlerObj] = true
				fmt.Printf("== %s.%s (%s)\n", t.Name, m.ABIName, m.HandlerObj.Name())
				for _, p := range a.After(m.HandlerObj) {
					fmt.Println("   ", p.String())
				}
			}
		}
	case what == "mapranges":
		dumpMapRanges(w)
	case what == "nondet":
		dumpNondet(w)
	case what == "exportfilters":
		dumpExportFilters(w)
	case what == "bce":
		dumpBCE(w, w.Repo)
	case what == "mapfields":
		dumpMapFields(w)
	case what == "blockloops":
		br := blockReachable(w)
		var names []string
		for f := range br {
			names = append(names, funcID(f))
		}
		sort.Strings(names)
		fmt.Println(len(names), "block-reachable source functions")
		for f := range br {
			v := w.ViewOf(f)
			if v == nil {
				continue
			}
			ast.Inspect(v.Decl.Body, func(n ast.Node) bool {
				var body *ast.BlockStmt
				switch x := n.(type) {
				case *ast.ForStmt:
					body = x.Body
				case *ast.RangeStmt:
					body = x.Body
				default:
					return true
				}
				var ws, fs []string
				for _, c := range allCalls(body) {
					if v.innermostLoop(c) != n {
						continue
					}
					if v.callWrites(c) {
						ws = append(ws, fmt.Sprintf("%s@%s", exprString(c.Fun), v.pos(c)))
					}
					if lastResultIsError(v, c) {
						k, _ := v.failArm(c)
						fs = append(fs, fmt.Sprintf("%s:%s", exprString(c.Fun), k))
					}
				}
				if len(ws) > 0 {
					fmt.Printf("%s loop@%s\n   writes=%v\n   fallible=%v\n", funcID(f), v.pos(n), ws, fs)
				}
				return true
			})
		}
	case what == "blockswallow":
		br := blockReachable(w)
		a := newWBF(w)
		n := 0
		for f := range br {
			v := w.ViewOf(f)
			if v == nil || strings.HasPrefix(funcID(f), "x/appchain") {
				continue
			}
			for _, c := range allCalls(v.Decl.Body) {
				if !lastResultIsError(v, c) {
					continue
				}
				k, _ := v.failArm(c)
				if k == "return" || k == "panic" {
					continue
				}
				for _, t := range v.targetsOf(c) {
					fo, _ := t.Object().(*types.Func)
					if fo == nil {
						continue
					}
					for _, p := range a.After(fo) {
						n++
						fmt.Printf("%s swallows(%s) %s @%s :: %s\n", funcID(f), k, fo.Name(), v.pos(c), p.String())
					}
				}
			}
		}
		fmt.Println(n, "pairs")
	case what == "famkeys":
		e := computeEffects(w)
		agg := map[string]map[string][]string{}
		for f, accs := range e.Direct {
			if !w.fnInScope(f) {
				continue
			}
			for _, a := range accs {
				kc := e.R.keyCtor(accessKey(a.Instr), 0)
				for _, fam := range a.Families {
					if agg[fam] == nil {
						agg[fam] = map[string][]string{}
					}
					agg[fam][a.Kind+" "+kc] = append(agg[fam][a.Kind+" "+kc], f.Name())
				}
			}
		}
		var fams []string
		for f := range agg {
			fams = append(fams, f)
		}
		sort.Strings(fams)
		for _, f := range fams {
			fmt.Println(e.R.famName(f))
			var ks []string
			for k := range agg[f] {
				ks = append(ks, k)
			}
			sort.Strings(ks)
			for _, k := range ks {
				fmt.Printf("    %-70s %v\n", k, agg[f][k])
			}
		}
	case strings.HasPrefix(what, "callees:"):
		name := strings.TrimPrefix(what, "callees:")
		for f := range w.AllFuncs {
			if fnName(f) != name {
				continue
			}
			for _, c := range calls(f) {
				if c.Common().IsInvoke() {
					var vt, ch []string
					for _, t := range w.siteOut[c] {
						vt = append(vt, fnName(t))
					}
					if n := w.CHA.Nodes[f]; n != nil {
						for _, e := range n.Out {
							if e.Site == c {
								ch = append(ch, fnName(e.Callee.Func))
							}
						}
					}
					fmt.Printf("%s %s.%s\n   vta=%v\n   cha=%v\n", w.pos(c.Pos()), c.Common().Value.Type(), c.Common().Method.Name(), vt, ch)
				}
			}
		}
	case what == "blockpanics":
		br := blockReachable(w)
		for f, path := range br {
			v := w.ViewOf(f)
			if v == nil || strings.HasPrefix(funcID(f), "x/appchain") {
				continue
			}
			for _, c := range allCalls(v.Decl.Body) {
				name := ""
				if id, ok := c.Fun.(*ast.Ident); ok && id.Name == "panic" {
					name = "panic"
				} else if n := v.calleeName(c); strings.HasPrefix(n, "Must") {
					name = n
				}
				if name != "" {
					fmt.Printf("%-28s %-36s %s  <= %s\n", v.pos(c), name, funcID(f), path)
				}
			}
			ast.Inspect(v.Decl.Body, func(n ast.Node) bool {
				if ta, ok := n.(*ast.TypeAssertExpr); ok && ta.Type != nil {
					if as, ok := v.parent(ta).(*ast.AssignStmt); !ok || len(as.Lhs) != 2 {
						if _, isSw := v.parent(ta).(*ast.TypeSwitchStmt); !isSw {
							fmt.Printf("%-28s %-36s %s\n", v.pos(ta), "unchecked type assertion", funcID(f))
						}
					}
				}
				return true
			})
		}
	case what == "nilafter":
		br := blockReachable(w)
		for f := range br {
			v := w.ViewOf(f)
			if v == nil || strings.HasPrefix(funcID(f), "x/appchain") || strings.HasPrefix(funcID(f), "x/evm") {
				continue
			}
			for _, site := range nilAfterErrorSites(v) {
				fmt.Println(site)
			}
		}
	case what == "divs":
		br := blockReachable(w)
		for f := range br {
			v := w.ViewOf(f)
			if v == nil || strings.HasPrefix(funcID(f), "x/appchain") || strings.HasPrefix(funcID(f), "x/evm") {
				continue
			}
			for _, d := range divisionSites(v) {
				ok, why := divisorGuarded(d)
				fmt.Printf("%-34s %-55s %-12s divisor=%-40s guarded=%v %s\n", v.pos(d.node), funcID(f), d.what, exprString(d.divisor), ok, why)
			}
		}
	case what == "ledger":
		for _, spec := range [][2]string{{"x/delegation/keeper", "Keeper.delegateTo"}, {"x/delegation/keeper", "Keeper.RemoveShareFromOperator"}, {"x/delegation/keeper", "Keeper.RemoveShare"},
			{"x/delegation/keeper", "Keeper.UndelegateFrom"}, {"x/delegation/keeper", "Keeper.EndBlock"}, {"x/assets/keeper", "Keeper.PerformDepositOrWithdraw"},
			{"x/delegation/keeper", "Keeper.UpdateNSTBalance"}, {"x/delegation/keeper", "Keeper.AssociateOperatorWithStaker"}, {"x/delegation/keeper", "Keeper.DissociateOperatorFromStaker"}} {
			v := w.View(spec[0], spec[1])
			if v == nil {
				fmt.Println("missing", spec)
				continue
			}
			fmt.Println("==", spec[1])
			for _, t := range v.ledgerTerms() {
				fmt.Printf("   %-40s @%s  conds=%v\n", t.String(), v.pos(t.Node), t.Conds)
			}
		}
	case what == "entries":
		c := catalogue(w)
		c.print(w)
	}
}
