package main

import (
	"go/ast"
	"go/types"
	"strings"
)

// iteratorWriteBackRule: for every iterator helper with an `isUpdate bool` parameter and a
// callback parameter, the write-back of the (possibly modified) element happens whenever
// isUpdate holds and the callback returned without an error -- nothing else stands between
// the callback and the store write (no `if isBreak { break }` before it, no extra
// condition), and what is written is the element that was handed to the callback, under
// the key it was read from.
// names: helper names this property cares about (nil = all).
func iteratorWriteBackRule(r *Run, rule string, names map[string]bool) {
	w := r.W
	n := 0
	for _, v := range w.allViews() {
		if names != nil && !names[v.Decl.Name.Name] {
			continue
		}
		var upd types.Object
		var cbs []types.Object
		for _, fl := range v.Decl.Type.Params.List {
			for _, nm := range fl.Names {
				o := v.Info.ObjectOf(nm)
				if nm.Name == "isUpdate" {
					if b, ok := o.Type().Underlying().(*types.Basic); ok && b.Kind() == types.Bool {
						upd = o
					}
				}
				if _, isFn := o.Type().Underlying().(*types.Signature); isFn {
					cbs = append(cbs, o)
				}
			}
		}
		if upd == nil || len(cbs) == 0 {
			continue
		}
		n++
		r.saw(v.ID())
		key := "iterator-writeback|" + v.ID()
		// the callback call inside the loop
		var cbCall *ast.CallExpr
		for _, c := range allCalls(v.Decl.Body) {
			for _, cb := range cbs {
				if v.objOf(c.Fun) == cb {
					cbCall = c
				}
			}
		}
		var setCall *ast.CallExpr
		for _, c := range v.CallsNamed("Set") {
			if cbCall != nil && c.Pos() > cbCall.Pos() {
				setCall = c
			}
		}
		if cbCall == nil || setCall == nil || len(setCall.Args) != 2 {
			r.bad(rule, key, v.pos(v.Decl), "callback then write-back", "no callback call followed by a store write in "+v.ID())
			continue
		}
		// facts at the write that do not already hold at the callback
		atCb := map[string]bool{}
		for _, f := range v.FactsAt(cbCall, false) {
			atCb[exprString(f.Atom)+"|"+boolStr(f.Truth)] = true
		}
		var extra []string
		sawUpd := false
		for _, f := range v.FactsAt(setCall, false) {
			k := exprString(f.Atom) + "|" + boolStr(f.Truth)
			if atCb[k] {
				continue
			}
			if id, ok := stripParens(f.Atom).(*ast.Ident); ok && v.objOf(id) == upd && f.Truth {
				sawUpd = true
				continue
			}
			if o := v.outcome(f); o != nil && o.Call == cbCall && o.Success {
				continue
			}
			// `err != nil` is false where err is the callback's own result (the callee is a function value,
			// so the generic call-outcome resolution does not apply)
			if b, ok := stripParens(f.Atom).(*ast.BinaryExpr); ok && !f.Truth && b.Op.String() == "!=" && isNilIdent(v.Info, b.Y) {
				fromCb := false
				for _, d := range v.defsOf(v.objOf(b.X)) {
					if stripParens(d) == ast.Expr(cbCall) {
						fromCb = true
					}
				}
				if fromCb {
					continue
				}
			}
			extra = append(extra, ifNot(f.Truth)+exprString(f.Atom))
		}
		// nothing between the callback and the write-back leaves the iteration early or removes the element
		// (a test over the element whose negation is a disjunction yields no fact, so the fact comparison
		// above cannot see `if a && b { delete; continue }`)
		ast.Inspect(v.Decl.Body, func(m ast.Node) bool {
			if m == nil || m.Pos() <= cbCall.End() || m.Pos() >= setCall.Pos() {
				return true
			}
			switch x := m.(type) {
			case *ast.BranchStmt:
				extra = append(extra, x.Tok.String()+" at "+v.pos(x)+" before the write-back")
			case *ast.CallExpr:
				if v.calleeName(x) == "Delete" {
					extra = append(extra, "Delete at "+v.pos(x)+" before the write-back")
				}
			case *ast.ReturnStmt:
				if !returnsErr(v, x) {
					extra = append(extra, "return without an error at "+v.pos(x)+" before the write-back")
				}
			}
			return true
		})
		okCond := sawUpd && len(extra) == 0
		// the written value is the element handed to the callback, the key is the key that was read
		okVal := false
		var elem types.Object
		for _, a := range cbCall.Args {
			e := stripParens(a)
			if u, ok := e.(*ast.UnaryExpr); ok {
				e = u.X
			}
			if o := v.objOf(e); o != nil {
				if _, isBasic := o.Type().Underlying().(*types.Basic); !isBasic {
					elem = o
				}
			}
		}
		if elem != nil {
			for _, d := range v.resolveDefs(setCall.Args[1], 0) {
				if _, nm, args, ok := methodCall(d); ok && nm == "MustMarshal" && len(args) == 1 && v.usesObj(args[0], elem) {
					okVal = true
				}
			}
		}
		okKey := false
		ks := exprString(setCall.Args[0])
		if ds := v.resolveDefs(setCall.Args[0], 0); len(ds) == 1 {
			ks = exprString(ds[0]) // a local holding iterator.Key()
		}
		if strings.HasSuffix(ks, ".Key()") {
			okKey = true
		} else if strings.HasSuffix(ks, ".Value()") {
			// secondary index: the value of the index entry is the primary key; the element must have been loaded from that key
			for _, c := range v.CallsNamed("Get") {
				if len(c.Args) == 1 && exprString(c.Args[0]) == ks && c.Pos() < cbCall.Pos() {
					okKey = true
				}
			}
		}
		// the decode target is declared inside the loop: gogoproto's Unmarshal does not reset its target, so a
		// struct reused across iterations keeps the previous element's values in fields the next one leaves unset
		if elem != nil {
			lp := v.innermostLoop(cbCall)
			fresh := lp != nil && elem.Pos() > lp.Pos() && elem.Pos() < lp.End()
			r.check(fresh, rule, "iterator-fresh-element|"+v.ID(), v.pos(cbCall), "each element is decoded into a fresh value", v.ID()+" decodes every record into one variable declared outside the loop: zero-valued fields of a record keep the previous record's values (and are written back)")
		}
		iteratorVisitsAll(r, rule, v, cbCall)
		r.check(okCond && okVal && okKey, rule, key, v.pos(setCall), "a modified element is always written back (under its own key) when isUpdate is set and the callback succeeded", describeWB(v, okCond, okVal, okKey, extra))
	}
	if n == 0 {
		r.bad(rule, "iterator-writeback|none", "-", "iterator helpers present", "no iterator helper with an isUpdate flag found")
	}
}

func describeWB(v *FnView, okCond, okVal, okKey bool, extra []string) string {
	var parts []string
	if !okCond {
		if len(extra) > 0 {
			parts = append(parts, "the write-back additionally depends on "+strings.Join(extra, ", ")+" (the element on which the iteration stops is modified in memory only)")
		} else {
			parts = append(parts, "the write-back is not guarded by isUpdate")
		}
	}
	if !okVal {
		parts = append(parts, "the written value is not the element handed to the callback")
	}
	if !okKey {
		parts = append(parts, "the write does not use the key the element was read from")
	}
	return v.ID() + ": " + strings.Join(parts, "; ")
}

func boolStr(b bool) string {
	if b {
		return "T"
	}
	return "F"
}

func ifNot(truth bool) string {
	if truth {
		return ""
	}
	return "!"
}

// rmwOnlyFields: the store write `set` stores a value that was loaded from the same key in the same function and
// of which only the named fields were assigned in between.
func (v *FnView) rmwOnlyFields(set *ast.CallExpr, fields map[string]bool) (bool, string) {
	if len(set.Args) != 2 {
		return false, "not a Set(key, value)"
	}
	var valObj types.Object
	for _, d := range v.resolveDefs(set.Args[1], 0) {
		if _, nm, args, ok := methodCall(d); ok && nm == "MustMarshal" && len(args) == 1 {
			e := stripParens(args[0])
			if u, ok := e.(*ast.UnaryExpr); ok {
				e = u.X
			}
			valObj = v.objOf(e)
		}
	}
	if valObj == nil {
		return false, "the stored bytes are not MustMarshal(&x) of a local value"
	}
	if !declaredWithin(valObj, v.innermostLoopOrBody(set)) {
		return false, "the stored value " + valObj.Name() + " is built once outside the per-element step, not loaded per element"
	}
	// loaded from the same key
	loaded := false
	for _, c := range v.CallsNamed("MustUnmarshal", "Unmarshal") {
		if len(c.Args) == 2 && v.usesObj(c.Args[1], valObj) && c.Pos() < set.Pos() {
			for _, d := range v.resolveDefs(c.Args[0], 0) {
				if _, nm, args, ok := methodCall(d); ok && nm == "Get" && len(args) == 1 && sameExpr(args[0], set.Args[0]) {
					loaded = true
				}
			}
		}
	}
	if !loaded {
		return false, "the stored value is not loaded from the key it is written to"
	}
	bad := ""
	ast.Inspect(v.Decl.Body, func(n ast.Node) bool {
		as, ok := n.(*ast.AssignStmt)
		if !ok {
			return true
		}
		for _, l := range as.Lhs {
			if sel, ok := stripParens(l).(*ast.SelectorExpr); ok && v.objOf(sel.X) == valObj && !fields[sel.Sel.Name] {
				bad = sel.Sel.Name
			}
			if v.objOf(l) == valObj && as.Pos() > valObj.Pos() {
				if _, isLit := stripParens(as.Rhs[0]).(*ast.CompositeLit); !isLit || as.Pos() != valObj.Pos() {
					// whole-value re-assignment after the declaration
					if as.Tok.String() == "=" {
						bad = "(whole value)"
					}
				}
			}
		}
		return true
	})
	if bad != "" {
		return false, "field " + bad + " of the loaded value is overwritten as well"
	}
	return true, ""
}

func declaredWithin(o types.Object, n ast.Node) bool {
	return n != nil && o.Pos() >= n.Pos() && o.Pos() <= n.End()
}

func (v *FnView) innermostLoopOrBody(n ast.Node) ast.Node {
	if l := v.innermostLoop(n); l != nil {
		return l
	}
	return v.Decl.Body
}

// shareZeroingRule: SetStakerShareToZero rewrites each staker's delegation state by read-modify-write and
// assigns only UndelegatableShare.
func shareZeroingRule(r *Run, rule string) {
	v := r.W.View("x/delegation/keeper", "Keeper.SetStakerShareToZero")
	if v == nil {
		r.bad(rule, "share-zeroing|anchor", "-", "anchor", "SetStakerShareToZero not found")
		return
	}
	r.saw(v.ID())
	sets := v.CallsNamed("Set")
	if len(sets) != 1 {
		r.bad(rule, "share-zeroing|writes", v.pos(v.Decl), "one store write per staker", "unexpected number of store writes in SetStakerShareToZero")
		return
	}
	ok, why := v.rmwOnlyFields(sets[0], map[string]bool{"UndelegatableShare": true})
	r.check(ok, rule, "share-zeroing|only-undelegatable-share", v.pos(sets[0]), "zeroing the shares after a pool-emptying slash leaves every other field (the pending undelegation amount) as it was", "SetStakerShareToZero: "+why+": pending undelegations of the stakers can no longer be released")
}

func isParamObj(v *FnView, o types.Object) bool {
	for _, fl := range v.Decl.Type.Params.List {
		for _, nm := range fl.Names {
			if v.Info.ObjectOf(nm) == o {
				return true
			}
		}
	}
	return false
}

// iteratorVisitsAll: every stored element reaches the callback -- before it, the loop is left only with an
// error, and an element is skipped only by a filter over the helper's parameters and the element itself;
// after it, the loop is left early only with an error or because the callback asked to stop.
func iteratorVisitsAll(r *Run, rule string, v *FnView, cbCall *ast.CallExpr) {
	lp := v.innermostLoop(cbCall)
	if lp == nil {
		r.bad(rule, "iterator-visits-all|"+v.ID(), v.pos(cbCall), "callback inside the iteration", "the callback of "+v.ID()+" is not called inside a loop")
		return
	}
	// the callback's boolean result(s): `stop := fn(…)`, `isBreak, err := fn(…)`, or the call used as a condition
	stopObjs := map[types.Object]bool{}
	if as, ok := v.parent(cbCall).(*ast.AssignStmt); ok {
		for _, l := range as.Lhs {
			if o := v.objOf(l); o != nil {
				if b, isB := o.Type().Underlying().(*types.Basic); isB && b.Kind() == types.Bool {
					stopObjs[o] = true
				}
			}
		}
	}
	askedToStop := func(n ast.Node) bool {
		for _, f := range v.FactsAt(n, false) {
			if !f.Truth {
				continue
			}
			a := stripParens(f.Atom)
			if a == ast.Expr(cbCall) || (v.objOf(a) != nil && stopObjs[v.objOf(a)]) {
				return true
			}
		}
		return false
	}
	var early []string
	ast.Inspect(lp, func(n ast.Node) bool {
		if _, isLit := n.(*ast.FuncLit); isLit {
			return false
		}
		if n == nil {
			return true
		}
		before := n.Pos() < cbCall.Pos()
		switch x := n.(type) {
		case *ast.ReturnStmt:
			if !returnsErr(v, x) && !(!before && askedToStop(x)) {
				early = append(early, "return without an error at "+v.pos(x))
			}
		case *ast.BranchStmt:
			if v.innermostLoop(x) != lp {
				return true
			}
			if x.Tok.String() != "continue" {
				if before || !askedToStop(x) {
					early = append(early, x.Tok.String()+" at "+v.pos(x)+" that the callback did not ask for")
				}
				return true
			}
			if !before {
				return true
			}
			for _, f := range v.factsAt(x, false) {
				if f.LoopCond || f.At == nil || f.At.Pos() < lp.Pos() || f.At.Pos() > lp.End() {
					continue
				}
				ast.Inspect(f.Atom, func(m ast.Node) bool {
					id, isID := m.(*ast.Ident)
					if !isID {
						return true
					}
					o, isVar := v.Info.Uses[id].(*types.Var)
					if !isVar || o.IsField() || o.Pkg() == nil || isParamObj(v, o) {
						return true
					}
					if o.Pos() < lp.Pos() || o.Pos() > lp.End() {
						early = append(early, "continue at "+v.pos(x)+" depends on "+o.Name()+", which outlives the iteration")
					}
					return true
				})
			}
		}
		return true
	})
	r.check(len(early) == 0, rule, "iterator-visits-all|"+v.ID(), v.pos(lp), "every stored element that passes the caller's filter reaches the callback", v.ID()+" can leave or skip elements: "+strings.Join(early, "; "))
}

// iteratorVisitsAllRule applies iteratorVisitsAll to the named callback iterators (helpers without a
// write-back flag), and checks that each element is decoded into a fresh value.
func iteratorVisitsAllRule(r *Run, rule string, names map[string]bool) {
	seen := map[string]bool{}
	for _, v := range r.W.allViews() {
		if !names[v.ID()] {
			continue
		}
		var cbs []types.Object
		for _, fl := range v.Decl.Type.Params.List {
			for _, nm := range fl.Names {
				if o := v.Info.ObjectOf(nm); o != nil {
					if _, isFn := o.Type().Underlying().(*types.Signature); isFn {
						cbs = append(cbs, o)
					}
				}
			}
		}
		var cbCall *ast.CallExpr
		for _, c := range allCalls(v.Decl.Body) {
			for _, cb := range cbs {
				if v.objOf(c.Fun) == cb {
					cbCall = c
				}
			}
		}
		if cbCall == nil {
			r.bad(rule, "iterator-visits-all|"+v.ID(), v.pos(v.Decl), "callback call", v.ID()+" does not call its callback")
			continue
		}
		seen[v.ID()] = true
		r.saw(v.ID())
		iteratorVisitsAll(r, rule, v, cbCall)
	}
	for nm := range names {
		if !seen[nm] {
			r.bad(rule, "iterator-visits-all|"+nm, "-", "anchor", nm+" not found (moved or renamed)")
		}
	}
}
