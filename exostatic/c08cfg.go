package main

import (
	"fmt"
	"go/ast"
	"go/types"
	"sort"
	"strings"

	"golang.org/x/tools/go/ssa"
)

// Node-local configuration (values read from servertypes.AppOptions, i.e. app.toml / command-line flags of one
// node) must not influence block execution. The taint is followed through the SSA form: through library calls
// (cast.ToUint64), call arguments into repository functions, stores into struct fields and loads from those
// fields anywhere in the program. The result is the set of struct fields that carry node-local values.
func nodeLocalFields(w *World) (map[*types.Var]string, []string) {
	fields := map[*types.Var]string{} // field -> how it got tainted
	var trace []string
	seen := map[ssa.Value]bool{}
	var work []ssa.Value
	push := func(v ssa.Value) {
		if v != nil && !seen[v] {
			seen[v] = true
			work = append(work, v)
		}
	}
	// sources: results of AppOptions.Get(...)
	for fn := range w.AllFuncs {
		if fn.Blocks == nil || !w.fnInScope(fn) {
			continue
		}
		for _, b := range fn.Blocks {
			for _, in := range b.Instrs {
				c, ok := in.(*ssa.Call)
				if !ok {
					continue
				}
				if c.Call.IsInvoke() && c.Call.Method != nil && c.Call.Method.Name() == "Get" {
					rt := c.Call.Value.Type().String()
					if strings.HasSuffix(rt, "types.AppOptions") {
						push(c)
						trace = append(trace, "source "+w.pos(c.Pos())+" "+fnName(fn))
					}
				}
			}
		}
	}
	fieldOf := func(fa *ssa.FieldAddr) *types.Var {
		t := fa.X.Type().Underlying()
		if p, ok := t.(*types.Pointer); ok {
			t = p.Elem().Underlying()
		}
		if st, ok := t.(*types.Struct); ok && fa.Field < st.NumFields() {
			return st.Field(fa.Field)
		}
		return nil
	}
	taintField := func(f *types.Var, why string) {
		if f == nil {
			return
		}
		if _, done := fields[f]; done {
			return
		}
		fields[f] = why
		// every load of this field anywhere becomes tainted
		for fn := range w.AllFuncs {
			if fn.Blocks == nil {
				continue
			}
			for _, b := range fn.Blocks {
				for _, in := range b.Instrs {
					switch x := in.(type) {
					case *ssa.FieldAddr:
						if fieldOf(x) == f {
							for _, r := range *x.Referrers() {
								if u, ok := r.(*ssa.UnOp); ok {
									push(u)
								}
							}
						}
					case *ssa.Field:
						t := x.X.Type().Underlying()
						if st, ok := t.(*types.Struct); ok && x.Field < st.NumFields() && st.Field(x.Field) == f {
							push(x)
						}
					}
				}
			}
		}
	}
	for len(work) > 0 {
		v := work[len(work)-1]
		work = work[:len(work)-1]
		refs := v.Referrers()
		if refs == nil {
			continue
		}
		for _, r := range *refs {
			switch x := r.(type) {
			case *ssa.Call:
				callee := x.Call.StaticCallee()
				if callee != nil && w.fnInScope(callee) && callee.Blocks != nil {
					for i, a := range x.Call.Args {
						if a == v && i < len(callee.Params) {
							push(callee.Params[i])
						}
					}
				} else {
					// library call (cast.ToUint64, fmt...): its result carries the value
					push(x)
				}
			case *ssa.Store:
				if x.Val != v {
					continue
				}
				if fa, ok := x.Addr.(*ssa.FieldAddr); ok {
					f := fieldOf(fa)
					taintField(f, "stored at "+w.pos(x.Pos()))
				} else if al, ok := x.Addr.(*ssa.Alloc); ok {
					// local variable: loads of it
					for _, rr := range *al.Referrers() {
						if u, ok := rr.(*ssa.UnOp); ok {
							push(u)
						}
					}
				}
			case *ssa.MakeInterface, *ssa.ChangeType, *ssa.Convert, *ssa.ChangeInterface, *ssa.TypeAssert, *ssa.Phi, *ssa.Extract, *ssa.UnOp, *ssa.BinOp:
				if val, ok := r.(ssa.Value); ok {
					push(val)
				}
			case *ssa.Return:
				// results flow to call sites of the function
				fn := x.Parent()
				if node := w.CG.Nodes[fn]; node != nil {
					for _, in := range node.In {
						if cv, ok := in.Site.(ssa.Value); ok {
							push(cv)
						}
					}
				}
			}
		}
	}
	return fields, trace
}

func c08NodeLocalConfig(r *Run) {
	w := r.W
	fields, trace := nodeLocalFields(w)
	for _, t := range trace {
		r.note("C08.R5 %s", t)
	}
	if len(trace) == 0 {
		r.bad("C08.R5", "sources|none", "-", "AppOptions reads found", "no servertypes.AppOptions.Get call found in the repository: the rule has nothing to follow")
		return
	}
	reach := consensusReachable(w)
	var fs []*types.Var
	for f := range fields {
		fs = append(fs, f)
	}
	sort.Slice(fs, func(i, j int) bool { return fs[i].Pos() < fs[j].Pos() })
	n := 0
	for _, f := range fs {
		owner := "?"
		if f.Pkg() != nil {
			owner = rel(f.Pkg().Path())
		}
		name := owner + "." + f.Name()
		if why, ok := c08ConfigAudit[name]; ok {
			r.ok("C08.R5", "config-field|"+name, w.pos(f.Pos()), "audited: "+why)
			n++
			continue
		}
		// every use of the field in consensus-reachable code is dominated by ctx.IsCheckTx()
		uses := 0
		for fo := range reach {
			v := w.ViewOf(fo)
			if v == nil {
				continue
			}
			ast.Inspect(v.Decl.Body, func(nd ast.Node) bool {
				sel, ok := nd.(*ast.SelectorExpr)
				if !ok || v.Info.ObjectOf(sel.Sel) != types.Object(f) {
					return true
				}
				// a store into the field is wiring, not a use
				if as, ok := v.parent(sel).(*ast.AssignStmt); ok {
					for _, l := range as.Lhs {
						if l == ast.Expr(sel) {
							return true
						}
					}
				}
				uses++
				n++
				guarded := false
				for _, fct := range v.FactsAt(sel, false) {
					if o := v.outcome(fct); o != nil && (o.Callee.Name() == "IsCheckTx" || o.Callee.Name() == "IsReCheckTx") && o.Success {
						guarded = true
					}
				}
				r.check(guarded, "C08.R5", fmt.Sprintf("config-use|%s|%s#%d", name, v.ID(), uses), v.pos(sel), "a value from this node's configuration ("+name+") is used only while checking transactions for the mempool", "block execution reads "+name+", which comes from this node's own configuration ("+fields[f]+"): nodes with different settings compute different results (gas wanted/used, state)")
				return true
			})
		}
		if uses == 0 {
			r.ok("C08.R5", "config-field|"+name, w.pos(f.Pos()), "carries a node-local value but is not read by consensus-reachable code")
			n++
		}
	}
	if n == 0 {
		r.bad("C08.R5", "fields|none", "-", "configuration-carrying fields found", "the node-local values reach no struct field: the propagation is broken")
	}
}

// audited configuration fields that consensus code may read, with the reason they cannot change results
var c08ConfigAudit = map[string]string{
	"x/evm/keeper.tracer": "selects the EVM tracer implementation; tracers observe execution and do not change gas or state",
}
