package main

import (
	"fmt"
	"go/ast"
	"go/token"
	"go/types"
	"strings"
)

// C19.R9 -- an Ethereum message is executed only behind the Ethereum ante chain.
//
// Everything C19 says about an included Ethereum transaction (nonce, fee purchase, refund) is enforced by the EVM
// ante chain; the message server itself only executes and refunds. A MsgEthereumTx that enters through the Cosmos
// route (directly, or wrapped in an authz MsgExec at any depth) would run with no gas bought and no nonce check.
// Decided here, on the shape of the code:
//   - both Cosmos ante chains contain RejectMessagesDecorator and an AuthzLimiterDecorator constructed with the
//     type URL of MsgEthereumTx;
//   - RejectMessagesDecorator rejects a tx as soon as one of its messages is a MsgEthereumTx;
//   - AuthzLimiterDecorator.AnteHandle checks all messages of the tx and rejects on error; checkDisabledMsgs
//     recurses into the messages of a MsgExec with the inner flag set to the constant true and returns the
//     recursion's error; its default arm rejects exactly when the flag is set and the type is disabled;
//     isDisabledMsg answers true when an element of the list equals the URL.
func c19Authz(r *Run) {
	w := r.W
	// chains
	nChains := 0
	for _, name := range []string{"newCosmosAnteHandler", "newLegacyCosmosAnteHandlerEip712"} {
		v := w.View("app/ante", name)
		if v == nil {
			continue
		}
		nChains++
		r.saw(v.ID())
		rej, lim := false, false
		for _, c := range v.CallsNamed("ChainAnteDecorators") {
			for _, a := range c.Args {
				a = stripParens(a)
				if cl, ok := a.(*ast.CompositeLit); ok {
					if nt := namedOf(v.Info.TypeOf(cl)); nt != nil && nt.Obj().Name() == "RejectMessagesDecorator" && strings.HasSuffix(nt.Obj().Pkg().Path(), "exocore/app/ante/cosmos") {
						rej = true
					}
				}
				if call, ok := a.(*ast.CallExpr); ok && v.calleeName(call) == "NewAuthzLimiterDecorator" {
					if fo := v.callee(call); fo != nil && fo.Pkg() != nil && strings.HasSuffix(fo.Pkg().Path(), "exocore/app/ante/cosmos") {
						for _, arg := range call.Args {
							if ac, isC := stripParens(arg).(*ast.CallExpr); isC && v.calleeName(ac) == "MsgTypeURL" && len(ac.Args) == 1 {
								if nt := namedOf(v.Info.TypeOf(ac.Args[0])); nt != nil && nt.Obj().Name() == "MsgEthereumTx" {
									lim = true
								}
							}
						}
					}
				}
			}
		}
		r.check(rej, "C19.R9", "cosmos-chain|"+name+"|rejects-eth-msg", v.pos(v.Decl), "the Cosmos ante chain contains RejectMessagesDecorator", name+" does not chain the repository's RejectMessagesDecorator: a MsgEthereumTx in a plain Cosmos tx is executed with no gas bought and no nonce check")
		r.check(lim, "C19.R9", "cosmos-chain|"+name+"|authz-limited", v.pos(v.Decl), "the Cosmos ante chain contains an AuthzLimiterDecorator that disables MsgEthereumTx", name+" does not chain NewAuthzLimiterDecorator(sdk.MsgTypeURL(&MsgEthereumTx{}), ...): a MsgEthereumTx wrapped in an authz MsgExec is executed with no gas bought and no nonce check")
	}
	if nChains < 2 {
		r.bad("C19.R9", "cosmos-chain|anchor", "-", "both Cosmos ante chains found", fmt.Sprintf("only %d of newCosmosAnteHandler/newLegacyCosmosAnteHandlerEip712 found", nChains))
	}
	// RejectMessagesDecorator
	if v := w.View("app/ante/cosmos", "RejectMessagesDecorator.AnteHandle"); v == nil {
		r.bad("C19.R9", "reject|anchor", "-", "anchor", "RejectMessagesDecorator.AnteHandle not found")
	} else {
		r.saw(v.ID())
		ok := false
		ast.Inspect(v.Decl.Body, func(n ast.Node) bool {
			rs, isR := n.(*ast.RangeStmt)
			if !isR || !resolvesToMethod(v, rs.X, "GetMsgs") || v.nestedConditionally(rs, v.Decl.Body) {
				return true
			}
			// if _, ok := msg.(*MsgEthereumTx); ok { return ctx, err } as a direct statement of the loop body
			for _, st := range rs.Body.List {
				ifs, isIf := st.(*ast.IfStmt)
				if !isIf || ifs.Init == nil {
					break // anything before the test (a continue, say) could skip it
				}
				as, isAs := ifs.Init.(*ast.AssignStmt)
				if !isAs || len(as.Rhs) != 1 || len(as.Lhs) != 2 {
					break
				}
				ta, isTA := stripParens(as.Rhs[0]).(*ast.TypeAssertExpr)
				if !isTA || ta.Type == nil {
					break
				}
				nt := namedOf(v.Info.TypeOf(ta.Type))
				okVar, isID := stripParens(ifs.Cond).(*ast.Ident)
				if nt != nil && nt.Obj().Name() == "MsgEthereumTx" && isID && v.Info.ObjectOf(okVar) == v.objOf(as.Lhs[1]) && v.objOf(ta.X) == v.objOf(rs.Value) && v.blockEndKind(ifs.Body) == "return" {
					ok = true
				}
				break
			}
			return true
		})
		r.check(ok, "C19.R9", "reject|every-message", v.pos(v.Decl), "a tx is rejected as soon as one of its messages is a MsgEthereumTx (first statement of an unconditional loop over all messages)", "RejectMessagesDecorator does not reject on the first MsgEthereumTx among tx.GetMsgs()")
	}
	// AuthzLimiterDecorator
	av := w.View("app/ante/cosmos", "AuthzLimiterDecorator.AnteHandle")
	cv := w.View("app/ante/cosmos", "AuthzLimiterDecorator.checkDisabledMsgs")
	dv := w.View("app/ante/cosmos", "AuthzLimiterDecorator.isDisabledMsg")
	if av == nil || cv == nil || dv == nil {
		r.bad("C19.R9", "authz|anchor", "-", "anchor", "AuthzLimiterDecorator methods not found")
		return
	}
	r.saw(av.ID())
	r.saw(cv.ID())
	r.saw(dv.ID())
	{
		ok := false
		for _, c := range av.CallsNamed("checkDisabledMsgs") {
			if len(c.Args) == 3 && resolvesToMethod(av, c.Args[0], "GetMsgs") && !av.nestedConditionally(av.parentStmt(c), av.Decl.Body) {
				if av.rejectsWhen(av.Decl.Body, func(f Fact) bool {
					o := av.outcome(f)
					return o != nil && o.Call == c && !o.Success
				}, nil) {
					ok = true
				}
			}
		}
		r.check(ok, "C19.R9", "authz|all-messages-checked", av.pos(av.Decl), "the decorator checks all messages of the tx and rejects the tx when the check fails", "AuthzLimiterDecorator.AnteHandle does not reject every tx for which checkDisabledMsgs(tx.GetMsgs(), ...) fails")
	}
	var flag types.Object
	if ps := cv.Decl.Type.Params.List; len(ps) >= 2 {
		for _, fl := range ps {
			for _, n := range fl.Names {
				if b, ok := cv.Info.TypeOf(fl.Type).Underlying().(*types.Basic); ok && b.Kind() == types.Bool {
					flag = cv.Info.ObjectOf(n)
				}
			}
		}
	}
	{
		// the recursion
		nRec, okRec := 0, true
		why := ""
		for _, c := range cv.CallsNamed("checkDisabledMsgs") {
			nRec++
			if len(c.Args) != 3 {
				okRec = false
				continue
			}
			if id, isID := stripParens(c.Args[1]).(*ast.Ident); !isID || id.Name != "true" || cv.Info.Uses[id] != types.Universe.Lookup("true") {
				okRec, why = false, "the inner flag passed down is `"+exprString(c.Args[1])+"`, not true"
			}
			if !resolvesToMethod(cv, c.Args[0], "GetMessages") {
				okRec, why = false, "the messages passed down are not msg.GetMessages()"
			}
			// inside the MsgExec arm, unconditionally, error returned
			cc := cv.enclosingCase(c)
			isExec := false
			if cc != nil {
				for _, t := range cc.List {
					if nt := namedOf(cv.Info.TypeOf(t)); nt != nil && nt.Obj().Name() == "MsgExec" {
						isExec = true
					}
				}
			}
			if !isExec {
				okRec, why = false, "the recursion is not in the MsgExec arm"
			} else if !cv.rejectsWhen(cc, func(f Fact) bool {
				o := cv.outcome(f)
				return o != nil && o.Call == c && !o.Success
			}, func(f Fact) bool {
				o := cv.outcome(f)
				return o != nil && o.Callee.Name() == "GetMessages"
			}) {
				okRec, why = false, "a failure of the recursion does not always fail the check"
			}
		}
		r.check(nRec == 1 && okRec, "C19.R9", "authz|exec-inner-flag", cv.pos(cv.Decl), "the messages of a MsgExec are checked with the inner flag set to true and a failure fails the whole check", "checkDisabledMsgs: "+why+fmt.Sprintf(" (%d recursive calls): a disabled message type (MsgEthereumTx) inside an authz MsgExec is admitted through the Cosmos route, where no gas is bought and no nonce is checked", nRec))
	}
	{
		// default arm: rejected exactly when inner && disabled
		var def *ast.CaseClause
		ast.Inspect(cv.Decl.Body, func(n ast.Node) bool {
			if cc, ok := n.(*ast.CaseClause); ok && cc.List == nil {
				if _, isTS := cv.parent(cv.parent(cc)).(*ast.TypeSwitchStmt); isTS {
					def = cc
				}
			}
			return true
		})
		ok := false
		if def != nil && flag != nil {
			sawFlag, sawDis := false, false
			ok = cv.rejectsWhen(def, func(f Fact) bool {
				if id, isID := stripParens(f.Atom).(*ast.Ident); isID && cv.Info.ObjectOf(id) == flag && f.Truth {
					sawFlag = true
					return true
				}
				return false
			}, func(f Fact) bool {
				if o := cv.outcome(f); o != nil && o.Callee.Name() == "isDisabledMsg" && o.Success && len(o.Call.Args) == 1 && resolvesToCallV(cv, o.Call.Args[0], "MsgTypeURL") {
					sawDis = true
					return true
				}
				return false
			}) && sawFlag && sawDis
		}
		r.check(ok, "C19.R9", "authz|inner-disabled-rejected", cv.pos(cv.Decl), "an inner message is rejected exactly when its type URL is disabled", "the default arm of checkDisabledMsgs does not reject every message with isAuthzInnerMsg && isDisabledMsg(sdk.MsgTypeURL(msg))")
	}
	{
		// isDisabledMsg: true when an element equals the URL
		var url types.Object
		if ps := dv.Decl.Type.Params.List; len(ps) == 1 && len(ps[0].Names) == 1 {
			url = dv.Info.ObjectOf(ps[0].Names[0])
		}
		ok := false
		ast.Inspect(dv.Decl.Body, func(n ast.Node) bool {
			rs, isR := n.(*ast.RangeStmt)
			if !isR || lastField(rs.X) != "disabledMsgTypes" || dv.nestedConditionally(rs, dv.Decl.Body) || len(rs.Body.List) == 0 {
				return true
			}
			ifs, isIf := rs.Body.List[0].(*ast.IfStmt)
			if !isIf || ifs.Init != nil {
				return true
			}
			b, isB := stripParens(ifs.Cond).(*ast.BinaryExpr)
			if !isB || b.Op != token.EQL {
				return true
			}
			l, rr := dv.objOf(b.X), dv.objOf(b.Y)
			el := dv.objOf(rs.Value)
			if url != nil && el != nil && ((l == url && rr == el) || (l == el && rr == url)) && len(ifs.Body.List) == 1 {
				if ret, isRet := ifs.Body.List[0].(*ast.ReturnStmt); isRet && len(ret.Results) == 1 && exprString(ret.Results[0]) == "true" {
					ok = true
				}
			}
			return true
		})
		r.check(ok, "C19.R9", "authz|disabled-by-equality-scan", dv.pos(dv.Decl), "a type URL is disabled when an element of the configured list equals it", "isDisabledMsg does not answer true for every URL equal to an element of disabledMsgTypes")
	}
}

func (v *FnView) enclosingCase(n ast.Node) *ast.CaseClause {
	for p := v.parent(n); p != nil; p = v.parent(p) {
		if cc, ok := p.(*ast.CaseClause); ok {
			return cc
		}
	}
	return nil
}

// parentStmt: the outermost statement that holds n below a block (the if-statement for a call in its Init).
func (v *FnView) parentStmt(n ast.Node) ast.Node {
	cur := n
	for p := v.parent(n); p != nil; cur, p = p, v.parent(p) {
		if _, ok := p.(*ast.BlockStmt); ok {
			return cur
		}
	}
	return n
}
