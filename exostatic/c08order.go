package main

import (
	"fmt"
	"sort"
	"strings"
)

// endBlockOrderRule: a store family that one module's EndBlock writes and another module's EndBlock only reads is
// produced before it is consumed: the writer precedes the reader in SetOrderEndBlockers. A reader that runs first
// sees the previous block's value in a long-running process, while a process restarted between the two blocks
// rebuilds its memory from the store and sees the new one (C08: independence from restarts; C14 for the oracle).
// Pairs where today's order is reader-first are listed in endBlockStaleReads with the reason they are harmless.
var endBlockStaleReads = map[string]string{}

func endBlockOrderRule(r *Run, rule string) {
	w := r.W
	e := effects(w)
	cat := catalogue(w)
	av := w.View("app", "NewExocoreApp")
	var order []string
	if av != nil {
		for _, c := range av.CallsNamed("SetOrderEndBlockers") {
			for _, a := range c.Args {
				if cv := av.constOf(a); cv != nil {
					order = append(order, strings.Trim(cv.ExactString(), "\""))
				}
			}
		}
	}
	idx := map[string]int{}
	for i, m := range order {
		idx[m] = i
	}
	type acc struct{ r, w bool }
	fam := map[string]map[string]*acc{} // family -> module -> access
	for _, en := range cat.Cat("endblock") {
		mod := strings.TrimPrefix(en.Name, "endblock:")
		for k := range e.Sum[en.Fn] {
			if len(k) < 3 {
				continue
			}
			f := k[2:]
			if fam[f] == nil {
				fam[f] = map[string]*acc{}
			}
			if fam[f][mod] == nil {
				fam[f][mod] = &acc{}
			}
			switch k[0] {
			case 'R', 'I':
				fam[f][mod].r = true
			case 'W', 'D':
				fam[f][mod].w = true
			}
		}
	}
	var fams []string
	for f := range fam {
		fams = append(fams, f)
	}
	sort.Strings(fams)
	n := 0
	for _, f := range fams {
		var writers, readers []string
		for m, a := range fam[f] {
			if a.w {
				writers = append(writers, m)
			} else if a.r {
				readers = append(readers, m)
			}
		}
		sort.Strings(writers)
		sort.Strings(readers)
		for _, wm := range writers {
			for _, rm := range readers {
				n++
				key := "endblock-order|" + f + "|" + wm + "<" + rm
				iw, okw := idx[wm]
				ir, okr := idx[rm]
				if okw && okr && iw < ir {
					r.ok(rule, key, "-", fmt.Sprintf("%s's EndBlock writes %s before %s's EndBlock reads it", wm, f, rm))
					continue
				}
				if why, aud := endBlockStaleReads[f+"|"+wm+"<"+rm]; aud {
					r.ok(rule, key, "-", "audited: "+why)
					continue
				}
				r.bad(rule, key, "-", fmt.Sprintf("%s's EndBlock writes %s before %s's EndBlock reads it", wm, f, rm),
					fmt.Sprintf("SetOrderEndBlockers runs %s (reads %s) before %s (writes it): a running process acts on the previous block's value, a process restarted in between rebuilds its memory from the store and acts on the new one", rm, f, wm))
			}
		}
	}
	if n < 3 {
		r.bad(rule, "endblock-order|matcher", "-", "at least 3 writer/reader pairs between EndBlockers", fmt.Sprintf("only %d found", n))
	}
}
