package main

import (
	"fmt"
	"go/ast"
	"go/token"
	"go/types"
	"sort"
	"strings"
)

func init() { register("C12", runC12) }

// thresholdFact: fact says ExceedsThreshold(<powerExpr>, <totalExpr>) == true
func thresholdFact(v *FnView, at ast.Node, powerSuffix string) bool {
	for _, f := range v.FactsAt(at, false) {
		c, ok := stripParens(f.Atom).(*ast.CallExpr)
		if !ok || !f.Truth || v.calleeName(c) != "ExceedsThreshold" || len(c.Args) != 2 {
			continue
		}
		p, t := exprString(c.Args[0]), exprString(c.Args[1])
		if strings.HasSuffix(p, powerSuffix) && strings.Contains(strings.ToLower(t), "totalpower") {
			return true
		}
	}
	return false
}

func runC12(r *Run) {
	w := r.W
	e := effects(w)
	r.Explain = "Static decision of structural necessary conditions of C12 (oracle rounds): the threshold test is the cross-multiplied strict comparison power*B > total*A with no division; a final price and a confirmed source-round value are assigned only under that test applied to the accumulated power and the total power; a sealed worker rejects further submissions and aggregation results are memoised; a round's price is stored only under the expected next round id, which is then advanced by exactly one; the price family has four writers; EndBlock seals every block, carries the previous price forward for every failed token id, clears nonces for every sealed feeder id, and prepares the next round afterwards, force-sealing exactly when the validator set changed; the expired round deleted is nextRoundID - MaxSizePrices under a guard equivalent to nextRoundID > MaxSizePrices; the median sorts before indexing."
	r.NotDec = []string{"that the recorded value is the median of the right multiset", "window timing as a temporal statement", "power bookkeeping across validator-set changes"}
	r.Assume = []string{"big.Int Mul/Cmp semantics"}
	r.rule("C12.R1", "ExceedsThreshold = (power x ThresholdB).Cmp(total x ThresholdA) > 0, cross-multiplied, no division", 1)
	r.rule("C12.R2", "finalPrice / confirmed round price are assigned only under ExceedsThreshold(accumulated power, total power); the round is sealed only with a non-nil final price", 3)
	r.rule("C12.R3", "at most once: a sealed worker is rejected before anything is counted; aggregate() returns the memoised price first", 3)
	r.rule("C12.R4", "round ids: the price is stored only when RoundID equals the expected next id, which is then increased by exactly one; the price family has the four known writers; carry-forward stores RoundID+1", 5)
	r.rule("C12.R5", "every round closes: EndBlock seals unconditionally, grows the round of every failed TOKEN id, clears the nonces of every sealed FEEDER id, prepares the next round afterwards; force-seal iff validator updates are non-empty; no feeder or round is skipped by an early loop exit; committed params reach the running context", 10)
	r.rule("C12.R6", "retention: the deleted round is nextRoundID - MaxSizePrices, guarded by a test equivalent to nextRoundID > MaxSizePrices", 2)
	r.rule("C12.R7", "the median sorts the list before indexing", 1)
	r.rule("C12.R8", "aggregation arithmetic is side-effect free and complete: the per-source round list can hold MaxDetID ids of every validator; the median does not modify the values it is given; a validator-set update replaces the stored set and total", 4)
	if cv := w.View("x/oracle/keeper/aggregator", "calculator.newRoundPricesList"); cv == nil {
		r.bad("C12.R8", "anchor|newRoundPricesList", "-", "anchor", "not found")
	} else {
		r.saw(cv.ID())
		okCap := false
		for _, c := range allCalls(cv.Decl.Body) {
			if exprString(c.Fun) == "make" && len(c.Args) == 3 {
				prod := false
				ast.Inspect(c.Args[2], func(n ast.Node) bool {
					if b, ok := n.(*ast.BinaryExpr); ok && b.Op == token.MUL {
						x := exprString(b)
						if strings.Contains(x, "MaxDetID") && strings.Contains(x, "validatorLength") {
							prod = true
						}
					}
					return true
				})
				if prod {
					okCap = true
				}
			}
		}
		r.check(okCap, "C12.R8", "calculator|round-list-capacity", cv.pos(cv.Decl), "every validator's MaxDetID source rounds fit: capacity = MaxDetID x number of validators", "the per-source round list is not sized MaxDetID x validatorLength: once it is full, a report for a new source round is attributed to the last stored round and its power counts towards a foreign value")
	}
	if mv := w.View("x/oracle/keeper/common", "BigIntList.Median"); mv == nil {
		r.bad("C12.R8", "anchor|Median", "-", "anchor", "not found")
	} else {
		r.saw(mv.ID())
		recv := mv.Info.ObjectOf(mv.Decl.Recv.List[0].Names[0])
		mut := ""
		for _, c := range allCalls(mv.Decl.Body) {
			rc, nm, _, isM := methodCall(c)
			if !isM {
				continue
			}
			switch nm {
			case "Add", "Sub", "Mul", "Div", "Quo", "Rem", "Mod", "Set", "SetInt64", "SetUint64", "SetString", "Neg", "Abs", "Lsh", "Rsh", "Exp", "Sqrt":
				// in place if the receiver of the big.Int method is an element of the list (or an alias of one)
				for _, d := range mv.resolveDefs(rc, 0) {
					if ix, ok := stripParens(d).(*ast.IndexExpr); ok && mv.objOf(rootIdent(ix.X)) == recv {
						mut = mv.pos(c) + " " + exprString(c)
					}
				}
			}
		}
		r.check(mut == "", "C12.R8", "median|does-not-modify-inputs", mv.pos(mv.Decl), "the median is computed without changing the reported values (they are shared between reports)", "Median modifies an element of the list in place at "+mut+": a confirmed source price shared by several validators' reports is corrupted for the others and for the final median")
	}
	if sv := w.View("x/oracle/keeper/aggregator", "AggregatorContext.SetValidatorPowers"); sv == nil {
		r.bad("C12.R8", "anchor|SetValidatorPowers", "-", "anchor", "not found")
	} else {
		r.saw(sv.ID())
		var loop *ast.RangeStmt
		ast.Inspect(sv.Decl.Body, func(n ast.Node) bool {
			if rs, ok := n.(*ast.RangeStmt); ok && loop == nil {
				loop = rs
			}
			return true
		})
		okMap, okTot := false, false
		for _, as := range sv.assignmentsToField(sv.Decl.Body, "validatorsPower") {
			if name, _, isC := funcCallName(as.Rhs[0]); isC && name == "make" && loop != nil && as.Pos() < loop.Pos() && !sv.nestedConditionally(as, sv.Decl.Body) {
				okMap = true
			}
			if isParamOf(sv, as.Rhs[0]) && !sv.nestedConditionally(as, sv.Decl.Body) {
				okMap = true // taking over the given map wholesale is a replacement as well
			}
		}
		for _, as := range sv.assignmentsToField(sv.Decl.Body, "totalPower") {
			if loop != nil && as.Pos() < loop.Pos() && !sv.nestedConditionally(as, sv.Decl.Body) {
				s0 := exprString(as.Rhs[0])
				if strings.HasSuffix(s0, "NewInt(0)") || strings.Contains(s0, "new(big.Int)") && !strings.Contains(s0, "totalPower") {
					okTot = true
				}
			}
		}
		r.check(okMap, "C12.R8", "validators|set-replaced", sv.pos(sv.Decl), "a validator-set update replaces the stored set (a removed validator is gone)", "SetValidatorPowers fills the existing map without replacing it: a removed validator keeps its old power, still passes the sender check and counts against the smaller total")
		r.check(okTot, "C12.R8", "validators|total-recomputed", sv.pos(sv.Decl), "the total power restarts from zero before it is accumulated", "SetValidatorPowers does not reset totalPower before accumulating")
	}

	need := func(rel, name string) *FnView {
		v := w.View(rel, name)
		if v == nil {
			r.bad("C12.R1", "anchor|"+name, "-", "anchor", rel+"."+name+" not found")
		} else {
			r.saw(v.ID())
		}
		return v
	}
	// ---- R1
	if v := need("x/oracle/keeper/common", "ExceedsThreshold"); v != nil {
		var pPow, pTot types.Object
		if ps := v.Decl.Type.Params.List; len(ps) >= 1 {
			var objs []types.Object
			for _, fl := range ps {
				for _, n := range fl.Names {
					objs = append(objs, v.Info.ObjectOf(n))
				}
			}
			if len(objs) == 2 {
				pPow, pTot = objs[0], objs[1]
			}
		}
		ok := false
		nRet := 0
		ast.Inspect(v.Decl.Body, func(n ast.Node) bool {
			rs, isRet := n.(*ast.ReturnStmt)
			if !isRet || len(rs.Results) != 1 {
				return true
			}
			nRet++
			be, isBin := stripParens(rs.Results[0]).(*ast.BinaryExpr)
			if !isBin {
				return true
			}
			l, rr, op := be.X, be.Y, be.Op
			// normal forms: X.Cmp(Y) > 0 | X.Cmp(Y) == 1 | X.Cmp(Y) >= 1 | 0 < X.Cmp(Y)
			if exprString(l) == "0" && op == token.LSS {
				l, rr, op = rr, l, token.GTR
			}
			strict := (op == token.GTR && exprString(rr) == "0") || (op == token.EQL && exprString(rr) == "1") || (op == token.GEQ && exprString(rr) == "1")
			recv, name, args, isCall := methodCall(l)
			if !strict || !isCall || name != "Cmp" || len(args) != 1 {
				return true
			}
			mulOf := func(e ast.Expr, param types.Object, thr string) bool {
				_, nm, a, isC := methodCall(e)
				if !isC || nm != "Mul" || len(a) != 2 {
					return false
				}
				x, y := a[0], a[1]
				if v.objOf(y) == param {
					x, y = y, x
				}
				return v.objOf(x) == param && strings.Contains(exprString(y), thr)
			}
			if mulOf(recv, pPow, "ThresholdB") && mulOf(args[0], pTot, "ThresholdA") {
				ok = true
			}
			return true
		})
		// the mirrored normal forms: (total x A).Cmp(power x B) < 0 | == -1 | <= -1 | 0 > X.Cmp(Y)
		ast.Inspect(v.Decl.Body, func(n ast.Node) bool {
			rs, isRet := n.(*ast.ReturnStmt)
			if !isRet || len(rs.Results) != 1 {
				return true
			}
			be, isBin := stripParens(rs.Results[0]).(*ast.BinaryExpr)
			if !isBin {
				return true
			}
			l, rr, op := be.X, be.Y, be.Op
			if exprString(l) == "0" && op == token.GTR {
				l, rr, op = rr, l, token.LSS
			}
			strict := (op == token.LSS && exprString(rr) == "0") || (op == token.EQL && exprString(rr) == "-1") || (op == token.LEQ && exprString(rr) == "-1")
			recv, name, args, isCall := methodCall(l)
			if !strict || !isCall || name != "Cmp" || len(args) != 1 {
				return true
			}
			mulOf := func(e ast.Expr, param types.Object, thr string) bool {
				_, nm, a, isC := methodCall(e)
				if !isC || nm != "Mul" || len(a) != 2 {
					return false
				}
				x, y := a[0], a[1]
				if v.objOf(y) == param {
					x, y = y, x
				}
				return v.objOf(x) == param && strings.Contains(exprString(y), thr)
			}
			if mulOf(recv, pTot, "ThresholdA") && mulOf(args[0], pPow, "ThresholdB") {
				ok = true
			}
			return true
		})
		noDiv := true
		for _, c := range allCalls(v.Decl.Body) {
			if _, nm, _, isC := methodCall(c); isC && (nm == "Div" || nm == "Quo" || nm == "Rsh" || nm == "QuoRem" || nm == "DivMod") {
				noDiv = false
			}
		}
		ast.Inspect(v.Decl.Body, func(n ast.Node) bool {
			if be, isBin := n.(*ast.BinaryExpr); isBin && (be.Op == token.QUO || be.Op == token.REM) {
				noDiv = false
			}
			return true
		})
		r.check(ok && noDiv && nRet == 1, "C12.R1", "ExceedsThreshold", v.pos(v.Decl), "power*B > total*A, strict, cross-multiplied",
			fmt.Sprintf("ExceedsThreshold is not the single strict cross-multiplied comparison (form ok=%v, no division=%v, returns=%d): integer division first rounds the threshold down, >= admits exactly 2/3", ok, noDiv, nRet))
	}
	// ---- R2 / R3
	if v := need("x/oracle/keeper/aggregator", "aggregator.aggregate"); v != nil {
		n, good := 0, true
		for _, as := range v.assignmentsToField(v.Decl.Body, "finalPrice") {
			n++
			if !thresholdFact(v, as, "reportPower") {
				good = false
			}
		}
		r.check(n >= 1 && good, "C12.R2", "aggregator|finalPrice", v.pos(v.Decl), "finalPrice is assigned only when the reporting power exceeds the threshold", "finalPrice can be assigned without ExceedsThreshold(reportPower, totalPower)")
		// memoised first
		memo := false
		if len(v.Decl.Body.List) > 0 {
			if ifs, ok := v.Decl.Body.List[0].(*ast.IfStmt); ok && strings.Contains(exprString(ifs.Cond), "finalPrice != nil") && v.terminates(ifs.Body) {
				memo = true
			}
		}
		r.check(memo, "C12.R3", "aggregator|memoised", v.pos(v.Decl), "a final price, once set, is returned unchanged", "aggregate() does not return the memoised finalPrice first: a later report could change the round's price")
	}
	if v := need("x/oracle/keeper/aggregator", "roundPrices.updatePriceAndPower"); v != nil {
		n, good := 0, true
		for _, as := range v.assignmentsToField(v.Decl.Body, "price") {
			if sel, ok := as.Lhs[0].(*ast.SelectorExpr); !ok || exprString(sel.X) != "r" {
				continue
			}
			n++
			if !thresholdFact(v, as, ".power") {
				good = false
			}
		}
		r.check(n >= 2 && good, "C12.R2", "calculator|confirmed-price", v.pos(v.Decl), "a source-round value is confirmed only when the power agreeing on it exceeds the threshold", "r.price can be set without ExceedsThreshold(<agreeing power>, totalPower)")
		memo := false
		if len(v.Decl.Body.List) > 0 {
			if ifs, ok := v.Decl.Body.List[0].(*ast.IfStmt); ok && strings.Contains(exprString(ifs.Cond), "price != nil") && v.terminates(ifs.Body) {
				memo = true
			}
		}
		r.check(memo, "C12.R3", "calculator|memoised", v.pos(v.Decl), "a confirmed source round is not reopened", "updatePriceAndPower does not return first when the round is already confirmed")
	}
	if v := need("x/oracle/keeper/aggregator", "AggregatorContext.FillPrice"); v != nil {
		// seal only with finalPrice != nil
		okSeal, nSeal := true, 0
		for _, c := range v.CallsNamed("seal") {
			nSeal++
			g := false
			for _, f := range v.FactsAt(c, false) {
				if cm, ok := factCmp(f); ok && cm.Op == "!=" && isNilIdent(v.Info, cm.R) {
					for _, d := range v.resolveDefs(cm.L, 0) {
						if strings.HasSuffix(exprString(d), ".aggregate()") {
							g = true
						}
					}
				}
			}
			if !g {
				okSeal = false
			}
		}
		for _, as := range v.assignmentsToField(v.Decl.Body, "status") {
			g := false
			for _, f := range v.FactsAt(as, false) {
				if cm, ok := factCmp(f); ok && cm.Op == "!=" && isNilIdent(v.Info, cm.R) {
					g = true
				}
			}
			if !g {
				okSeal = false
			}
		}
		r.check(okSeal && nSeal == 1, "C12.R2", "FillPrice|seal-with-price", v.pos(v.Decl), "the round is closed by a submission only when a final price exists", "seal()/status=closed reachable without aggregate() != nil")
		// sealed worker rejected before do()
		rej := false
		for _, c := range v.CallsNamed("do") {
			for _, f := range v.FactsAt(c, false) {
				if strings.HasSuffix(exprString(f.Atom), ".sealed") && !f.Truth {
					rej = true
				}
			}
		}
		r.check(rej, "C12.R3", "FillPrice|sealed-rejected", v.pos(v.Decl), "a submission for a sealed round is rejected before it is counted", "worker.do is reachable for a sealed worker")
	}
	// ---- R4
	pricesFam := "oracle:Prices/value/"
	if v := need("x/oracle/keeper", "Keeper.AppendPriceTR"); v != nil {
		var setCall *ast.CallExpr
		for _, c := range allCalls(v.Decl.Body) {
			if _, nm, _, ok := methodCall(c); ok && nm == "Set" {
				setCall = c
			}
		}
		okGuard := false
		if setCall != nil {
			for _, f := range v.FactsAt(setCall, false) {
				if cm, ok := factCmp(f); ok && cm.Op == "==" {
					s := exprString(cm.L) + "|" + exprString(cm.R)
					if strings.Contains(s, "nextRoundID") && strings.Contains(s, ".RoundID") {
						okGuard = true
					}
				}
			}
			// the key is the expected id
			if len(setCall.Args) == 2 && !strings.Contains(exprString(setCall.Args[0]), "nextRoundID") {
				okGuard = false
			}
		}
		r.check(okGuard, "C12.R4", "AppendPriceTR|expected-id", v.pos(v.Decl), "a price is stored only under the expected next round id", "the price Set is not dominated by nextRoundID == priceTR.RoundID (or is keyed by something else)")
		incs := v.CallsNamed("IncreaseNextRoundID")
		okInc := len(incs) == 1 && !v.nestedConditionally(incs[0], v.Decl.Body) && setCall != nil && incs[0].Pos() > setCall.Pos()
		r.check(okInc, "C12.R4", "AppendPriceTR|advance-once", v.pos(v.Decl), "the next round id advances once per stored price", "IncreaseNextRoundID is not called exactly once, unconditionally, after the price is stored")
	}
	if v := need("x/oracle/keeper", "Keeper.IncreaseNextRoundID"); v != nil {
		ok := false
		for _, c := range allCalls(v.Decl.Body) {
			if v.calleeName(c) == "PutUint64" && len(c.Args) == 2 {
				if be, isBin := stripParens(c.Args[1]).(*ast.BinaryExpr); isBin && be.Op == token.ADD && exprString(be.Y) == "1" {
					for _, d := range v.resolveDefs(be.X, 0) {
						if strings.Contains(exprString(d), "GetNextRoundID") {
							ok = true
						}
					}
				}
			}
		}
		r.check(ok, "C12.R4", "IncreaseNextRoundID|plus-one", v.pos(v.Decl), "next round id := current + 1", "IncreaseNextRoundID does not store GetNextRoundID()+1")
	}
	if v := need("x/oracle/keeper", "Keeper.GrowRoundID"); v != nil {
		inc := false
		ast.Inspect(v.Decl.Body, func(n ast.Node) bool {
			if ids, ok := n.(*ast.IncDecStmt); ok && ids.Tok == token.INC && lastField(ids.X) == "RoundID" {
				inc = true
			}
			return true
		})
		r.check(inc && len(v.CallsNamed("AppendPriceTR")) == 2, "C12.R4", "GrowRoundID|carry-forward", v.pos(v.Decl), "carry-forward stores the latest price with RoundID+1", "GrowRoundID does not append the latest price with RoundID++")
	}
	{
		writers := map[string]bool{}
		for fn, accs := range e.Direct {
			for _, a := range accs {
				if a.Kind == "W" || a.Kind == "D" {
					for _, f := range a.Families {
						if f == pricesFam && w.fnInScope(fn) {
							writers[fn.Name()] = true
						}
					}
				}
			}
		}
		allowedW := map[string]bool{"SetPrices": true, "AppendPriceTR": true, "IncreaseNextRoundID": true, "RemovePrices": true}
		var extra []string
		for n := range writers {
			if !allowedW[n] {
				extra = append(extra, n)
			}
		}
		sort.Strings(extra)
		r.check(len(extra) == 0 && len(writers) >= 3, "C12.R4", "writers|"+pricesFam, "-", "the price history has the known writers only", "other functions write the price family: "+strings.Join(extra, ","))
	}
	// a feeder may stop only outside a round's window, and "inside the window" means the same in the
	// validation as in the round preparation: (block - StartBaseBlock) mod Interval < MaxNonce
	{
		pv := w.View("x/oracle/types", "Params.Validate")
		rv := w.View("x/oracle/keeper/aggregator", "AggregatorContext.PrepareRoundEndBlock")
		if pv == nil || rv == nil {
			r.bad("C12.R4", "anchor|endblock-window", "-", "anchor", "Params.Validate or PrepareRoundEndBlock not found")
		} else {
			var feederLoop ast.Node = pv.Decl.Body
			var loopKeyObj types.Object
			ast.Inspect(pv.Decl.Body, func(n ast.Node) bool {
				if rs, isR := n.(*ast.RangeStmt); isR && lastField(rs.X) == "TokenFeeders" {
					feederLoop = rs.Body
					if rs.Key != nil {
						loopKeyObj = pv.objOf(rs.Key)
					}
				}
				return true
			})
			okV := pv.rejectsWhen(feederLoop, func(f Fact) bool {
				c, isC := factCmp(f)
				if !isC || c.Op != "<" || !strings.Contains(exprString(c.R), "MaxNonce") {
					return false
				}
				a, b, m, ok := windowOffset(pv, c.L)
				return ok && lastField(a) == "EndBlock" && b == "StartBaseBlock" && m == "Interval"
			}, func(f Fact) bool {
				c, isC := factCmp(f)
				if isC && c.Op == ">" && lastField(c.L) == "EndBlock" && exprString(c.R) == "0" {
					return true
				}
				// the reserved feeder id 0 is skipped
				return isC && c.Op == "!=" && loopKeyObj != nil && pv.objOf(c.L) == loopKeyObj && exprString(c.R) == "0"
			})
			okP := false
			blockP := paramName(rv, 0)
			ast.Inspect(rv.Decl.Body, func(n ast.Node) bool {
				ifs, isIf := n.(*ast.IfStmt)
				if !isIf {
					return true
				}
				var fs []Fact
				decompose(ifs.Cond, true, ifs, &fs)
				for _, f := range mirrorFacts(fs) {
					c, isC := factCmp(f)
					if !isC || c.Op != ">=" || !strings.Contains(exprString(c.R), "MaxNonce") {
						continue
					}
					if a, b, m, ok := windowOffset(rv, c.L); ok && exprString(a) == blockP && b == "StartBaseBlock" && m == "Interval" {
						okP = true
					}
				}
				return true
			})
			r.check(okV, "C12.R4", "feeder-stop|outside-window", pv.pos(pv.Decl), "a feeder whose EndBlock lies inside a round's window ((EndBlock - StartBaseBlock) mod Interval < MaxNonce) is rejected", "Params.Validate does not reject exactly the EndBlocks whose offset (EndBlock - StartBaseBlock) mod Interval is below MaxNonce: a feeder stopping on a round boundary leaves a round that is counted but never opened, and the resumed feeder's round ids no longer match the store")
			r.check(okP, "C12.R4", "feeder-stop|same-window-as-preparation", rv.pos(rv.Decl), "the round preparation measures the window with the same offset, (block - StartBaseBlock) mod Interval >= MaxNonce meaning closed", "PrepareRoundEndBlock no longer compares (block - StartBaseBlock) mod Interval with MaxNonce")
		}
	}
	// a feeder reaches the store only through Params.Validate (interval >= 2 x MaxNonce, stop outside a window,
	// start round ids that continue the stored ones): every function that builds or changes a feeder and stores
	// the params validates in between
	{
		n := 0
		for _, fv := range w.allViews() {
			if !strings.HasPrefix(fv.ID(), "x/oracle/keeper") || fv.Decl.Name.Name == "SetParams" || fv.Decl.Name.Name == "InitGenesis" {
				continue
			}
			var first ast.Node
			for _, cl := range fv.compositeLits(fv.Decl.Body, "TokenFeeder") {
				if first == nil || cl.Pos() < first.Pos() {
					first = cl
				}
			}
			for _, c := range fv.CallsNamed("UpdateTokenFeeder") {
				if first == nil || c.Pos() < first.Pos() {
					first = c
				}
			}
			if first == nil {
				continue
			}
			for _, c := range fv.CallsNamed("SetParams") {
				if c.Pos() < first.Pos() {
					continue
				}
				n++
				validated := false
				for _, f := range fv.FactsAt(c, false) {
					if o := fv.outcome(f); o != nil && o.Callee.Name() == "Validate" && o.Success && o.Call.Pos() > first.Pos() {
						validated = true
					}
				}
				r.check(validated, "C12.R4", "feeder|validated-before-stored|"+fv.ID(), fv.pos(c), "a new or changed feeder is stored only after Params.Validate accepted the params", fv.ID()+" stores params with a feeder it built or changed without validating them: an interval below twice the round window makes rounds overlap (gaps in the stored round ids) and blocks every later params update")
			}
		}
		if n < 2 {
			r.bad("C12.R4", "feeder|validated-before-stored|none", "-", "feeder writers present", "fewer than two feeder-writing functions found in x/oracle/keeper")
		}
	}
	// a validator is identified by its decoded address wherever submissions are de-duplicated or weighed: a
	// map keyed by the creator string as written would see the upper-case bech32 spelling as another validator
	{
		n := 0
		for _, fv := range w.allViews() {
			if !strings.HasPrefix(fv.ID(), "x/oracle/keeper/aggregator.") {
				continue
			}
			ast.Inspect(fv.Decl.Body, func(nd ast.Node) bool {
				ix, ok := nd.(*ast.IndexExpr)
				if !ok {
					return true
				}
				if _, isMap := fv.Info.TypeOf(ix.X).Underlying().(*types.Map); !isMap {
					return true
				}
				raw, decoded := false, false
				var visit func(e ast.Expr, depth int)
				visit = func(e ast.Expr, depth int) {
					ast.Inspect(e, func(m ast.Node) bool {
						switch x := m.(type) {
						case *ast.SelectorExpr:
							if x.Sel.Name == "Creator" {
								raw = true
							}
						case *ast.CallExpr:
							if strings.HasSuffix(exprString(x.Fun), "ConsAddress") {
								decoded = true
								return false
							}
						case *ast.Ident:
							if o, isVar := fv.objOf(x).(*types.Var); isVar && !o.IsField() && depth < 4 {
								for _, d := range fv.defsOf(o) {
									visit(d, depth+1)
								}
							}
						}
						return true
					})
				}
				visit(ix.Index, 0)
				if !raw {
					return true
				}
				n++
				r.check(decoded, "C12.R3", "validator-identity|"+fv.ID()+"|"+exprString(ix), fv.pos(ix), "the per-validator record is keyed by the decoded (consensus) address", exprString(ix)+" is keyed by the creator string as written: the all-upper-case bech32 spelling of the same address is a second key, so the validator passes the de-duplication twice and its power is added twice")
				return true
			})
		}
		r.check(n >= 1, "C12.R3", "validator-identity|matcher", "-", fmt.Sprintf("%d per-validator maps keyed from the creator field found", n), "no map keyed from the creator field found in the aggregator package (matcher lost its anchor)")
	}
	// ---- R5
	if v := need("x/oracle", "AppModule.EndBlock"); v != nil {
		seals := v.CallsNamed("SealRound")
		preps := v.CallsNamed("PrepareRoundEndBlock")
		okSeal := len(seals) == 1 && !v.nestedConditionally(seals[0], v.Decl.Body)
		r.check(okSeal, "C12.R5", "EndBlock|seal-every-block", v.pos(v.Decl), "SealRound runs in every block", "SealRound is missing or conditional in EndBlock")
		okPrep := len(preps) == 1 && len(seals) == 1 && preps[0].Pos() > seals[0].Pos() && !v.nestedConditionally(preps[0], v.Decl.Body)
		r.check(okPrep, "C12.R5", "EndBlock|prepare-after-seal", v.pos(v.Decl), "the next round is prepared after sealing, every block", "PrepareRoundEndBlock is missing, conditional, or before SealRound")
		// failed -> GrowRoundID, sealed -> RemoveNonce…
		var failedObj, sealedObj types.Object
		if len(seals) == 1 {
			if as, ok := v.parent(seals[0]).(*ast.AssignStmt); ok && len(as.Lhs) == 3 {
				failedObj, sealedObj = v.objOf(as.Lhs[1]), v.objOf(as.Lhs[2])
			}
		}
		loopOver := func(obj types.Object, callee string) bool {
			found := false
			ast.Inspect(v.Decl.Body, func(n ast.Node) bool {
				rs, ok := n.(*ast.RangeStmt)
				if !ok || obj == nil || v.objOf(rs.X) != obj || rs.Value == nil {
					return true
				}
				elem := v.objOf(rs.Value)
				for _, c := range allCalls(rs.Body) {
					if v.calleeName(c) == callee && v.argIsObj(c, elem) && !v.nestedConditionally(c, rs.Body) {
						found = true
					}
				}
				return true
			})
			return found
		}
		r.check(loopOver(failedObj, "GrowRoundID"), "C12.R5", "EndBlock|failed->grow", v.pos(v.Decl), "every failed token's round is closed by carrying the price forward", "EndBlock does not call GrowRoundID for every element of SealRound's failed list")
		r.check(loopOver(sealedObj, "RemoveNonceWithFeederIDForValidators"), "C12.R5", "EndBlock|sealed->nonces", v.pos(v.Decl), "every sealed feeder's nonces are cleared", "EndBlock does not clear nonces for every element of SealRound's sealed list")
		// forceSeal
		okForce := false
		var forceObj types.Object
		if len(seals) == 1 && len(seals[0].Args) == 2 {
			forceObj = v.objOf(seals[0].Args[1])
		}
		nTrue := 0
		ast.Inspect(v.Decl.Body, func(n ast.Node) bool {
			as, ok := n.(*ast.AssignStmt)
			if !ok || len(as.Lhs) != 1 || forceObj == nil || v.objOf(as.Lhs[0]) != forceObj {
				return true
			}
			if exprString(as.Rhs[0]) == "true" {
				nTrue++
				for _, f := range v.FactsAt(as, false) {
					if cm, ok := factCmp(f); ok && cm.Op == ">" && exprString(cm.R) == "0" && strings.Contains(exprString(cm.L), "len(validatorUpdates)") {
						okForce = true
					}
				}
			}
			return true
		})
		r.check(okForce && nTrue == 1, "C12.R5", "EndBlock|force-seal", v.pos(v.Decl), "open rounds are force-sealed exactly when the validator set changed", "forceSeal is not set to true exactly under len(validatorUpdates) > 0")
	}
	if v := need("x/oracle/keeper/aggregator", "AggregatorContext.SealRound"); v != nil {
		// role of the appended ids
		var failedObj, sealedObj types.Object
		if rs := v.Decl.Type.Results; rs != nil {
			var objs []types.Object
			for _, fl := range rs.List {
				for _, n := range fl.Names {
					objs = append(objs, v.Info.ObjectOf(n))
				}
			}
			if len(objs) == 3 {
				failedObj, sealedObj = objs[1], objs[2]
			}
		}
		var loopKey types.Object
		ast.Inspect(v.Decl.Body, func(n ast.Node) bool {
			if rs, ok := n.(*ast.RangeStmt); ok && loopKey == nil && rs.Key != nil {
				loopKey = v.objOf(rs.Key)
			}
			return true
		})
		okF, okS, nF, nS := true, true, 0, 0
		ast.Inspect(v.Decl.Body, func(n ast.Node) bool {
			as, ok := n.(*ast.AssignStmt)
			if !ok || len(as.Lhs) != 1 || len(as.Rhs) != 1 {
				return true
			}
			c, ok := as.Rhs[0].(*ast.CallExpr)
			if !ok || len(c.Args) != 2 {
				return true
			}
			if id, ok := c.Fun.(*ast.Ident); !ok || id.Name != "append" {
				return true
			}
			switch v.objOf(as.Lhs[0]) {
			case failedObj:
				nF++
				if lastField(c.Args[1]) != "TokenID" {
					okF = false
				}
			case sealedObj:
				nS++
				if v.objOf(c.Args[1]) != loopKey {
					okS = false
				}
			}
			return true
		})
		r.check(failedObj != nil && okF && nF >= 1, "C12.R5", "SealRound|failed-are-token-ids", v.pos(v.Decl), "the failed list carries token ids (what GrowRoundID expects)", "SealRound appends something other than feeder.TokenID to the failed list: the wrong token's round would be grown")
		r.check(sealedObj != nil && okS && nS >= 1, "C12.R5", "SealRound|sealed-are-feeder-ids", v.pos(v.Decl), "the sealed list carries feeder ids (what the nonce store expects)", "SealRound appends something other than the feeder id to the sealed list")
	}
	// a round sealed because the validator set changed (or its window ended) is kept as CLOSED: only an
	// expired feeder's round is forgotten. A deleted round would be re-created as open by PrepareRoundEndBlock
	// in the same block and closed a second time.
	if v := w.View("x/oracle/keeper/aggregator", "AggregatorContext.SealRound"); v != nil {
		n, okDel := 0, true
		for _, c := range allCalls(v.Decl.Body) {
			if exprString(c.Fun) != "delete" || len(c.Args) != 2 || lastField(c.Args[0]) != "rounds" {
				continue
			}
			n++
			var ifs *ast.IfStmt
			for p := v.parent(c); p != nil; p = v.parent(p) {
				if x, ok := p.(*ast.IfStmt); ok {
					ifs = x
					break
				}
			}
			good := false
			if ifs != nil {
				// the facts the innermost `if` contributes at the delete: exactly "the feeder expired"
				var own []Fact
				for _, f := range v.factsAt(c, false) {
					if f.At == ast.Node(ifs) {
						own = append(own, f)
					}
				}
				if len(own) == 1 && own[0].Truth {
					for _, d := range v.resolveDefs(own[0].Atom, 0) {
						mentionsEnd, other := false, false
						ast.Inspect(d, func(m ast.Node) bool {
							if sel, ok := m.(*ast.SelectorExpr); ok && sel.Sel.Name == "EndBlock" {
								mentionsEnd = true
							}
							if id, ok := m.(*ast.Ident); ok && v.objOf(id) != nil && isParamObj(v, v.objOf(id)) {
								if b, isB := v.objOf(id).Type().Underlying().(*types.Basic); isB && b.Kind() == types.Bool {
									other = true
								}
							}
							return true
						})
						good = mentionsEnd && !other
					}
				}
				// the other arm closes the round
				var otherArm *ast.BlockStmt
				if c.Pos() > ifs.Body.Pos() && c.End() < ifs.Body.End() {
					otherArm, _ = ifs.Else.(*ast.BlockStmt)
				} else {
					otherArm = ifs.Body
				}
				closes := false
				if otherArm != nil {
					for _, st := range otherArm.List {
						if as, ok := st.(*ast.AssignStmt); ok && len(as.Lhs) == 1 && lastField(as.Lhs[0]) == "status" && strings.Contains(exprString(as.Rhs[0]), "Closed") {
							closes = true
						}
					}
				}
				good = good && closes
			}
			if !good {
				okDel = false
			}
		}
		r.check(okDel && n >= 1, "C12.R5", "SealRound|closed-not-deleted", v.pos(v.Decl), "a sealed round is deleted only when its feeder expired; otherwise it is marked closed", "SealRound deletes a round under a condition other than the feeder's expiry (or does not mark the others closed): the round is re-created open in the same block and closed twice")
	}
	// a round that closes without a price drops its worker and reports its feeder as sealed, unconditionally; a
	// new round starts without the previous round's worker; the calculator sees only what the filter let through;
	// a final price closes the round at once
	if v := w.View("x/oracle/keeper/aggregator", "AggregatorContext.SealRound"); v != nil {
		var failBlk *ast.BlockStmt
		ast.Inspect(v.Decl.Body, func(n ast.Node) bool {
			as, ok := n.(*ast.AssignStmt)
			if ok && len(as.Lhs) == 1 && len(as.Rhs) == 1 {
				if c, isC := stripParens(as.Rhs[0]).(*ast.CallExpr); isC && exprString(c.Fun) == "append" && len(c.Args) == 2 && lastField(c.Args[1]) == "TokenID" {
					failBlk = v.innermostBlock(as)
				}
			}
			return true
		})
		okDrop, okSealed := false, false
		if failBlk != nil {
			for _, st := range failBlk.List {
				if es, isE := st.(*ast.ExprStmt); isE {
					if c, isC := es.X.(*ast.CallExpr); isC && exprString(c.Fun) == "delete" && len(c.Args) == 2 && lastField(c.Args[0]) == "aggregators" {
						okDrop = true
					}
				}
				if as, isAs := st.(*ast.AssignStmt); isAs && len(as.Lhs) == 1 && len(as.Rhs) == 1 {
					if c, isC := stripParens(as.Rhs[0]).(*ast.CallExpr); isC && exprString(c.Fun) == "append" && len(c.Args) == 2 && sameExpr(c.Args[0], as.Lhs[0]) && lastField(c.Args[1]) != "TokenID" {
						okSealed = true
					}
				}
			}
		}
		r.check(okDrop, "C12.R5", "SealRound|failed-round-drops-worker", v.pos(v.Decl), "a round that closes without a price drops its worker (reports, filter, calculator) in the same step, whatever the reason", "SealRound keeps the worker of a round it closes without a price (or drops it only conditionally): the next round of the feeder starts with the previous round's reports and power")
		r.check(okSealed, "C12.R5", "SealRound|failed-round-is-sealed", v.pos(v.Decl), "a round that closes without a price is always reported as sealed (its nonce records are removed by EndBlock)", "SealRound reports a failed round as sealed only conditionally: a round nobody submitted to keeps its nonce records, and the ante handler goes on admitting fee-less transactions for the closed round")
	}
	if v := w.View("x/oracle/keeper/aggregator", "AggregatorContext.PrepareRoundEndBlock"); v != nil {
		ok := false
		ast.Inspect(v.Decl.Body, func(n ast.Node) bool {
			as, isAs := n.(*ast.AssignStmt)
			if !isAs || len(as.Lhs) != 1 || len(as.Rhs) != 1 {
				return true
			}
			c, isC := stripParens(as.Rhs[0]).(*ast.CallExpr)
			if !isC || exprString(c.Fun) != "append" || !sameExpr(c.Args[0], as.Lhs[0]) || v.innermostLoop(as) == nil {
				return true
			}
			// the arm that announces a new round
			if blk := v.innermostBlock(as); blk != nil {
				for _, st := range blk.List {
					if es, isE := st.(*ast.ExprStmt); isE {
						if dc, isD := es.X.(*ast.CallExpr); isD && exprString(dc.Fun) == "delete" && len(dc.Args) == 2 && lastField(dc.Args[0]) == "aggregators" {
							ok = true
						}
					}
				}
			}
			return true
		})
		r.check(ok, "C12.R5", "PrepareRound|new-round-without-old-worker", v.pos(v.Decl), "a new round starts without the previous round's worker", "PrepareRoundEndBlock announces a new round without deleting the feeder's previous worker")
	}
	// every feeder and every round is looked at in each block: the loops of PrepareRoundEndBlock and SealRound are
	// not left early (the feeder list is ordered by registration, not by start block)
	for _, fn := range []string{"AggregatorContext.PrepareRoundEndBlock", "AggregatorContext.SealRound"} {
		v := w.View("x/oracle/keeper/aggregator", fn)
		if v == nil {
			continue
		}
		var exits []string
		nLoops := 0
		ast.Inspect(v.Decl.Body, func(n ast.Node) bool {
			rs, isR := n.(*ast.RangeStmt)
			if !isR || v.innermostLoop(rs) != nil {
				return true
			}
			src := exprString(rs.X)
			if !(strings.Contains(src, "TokenFeeders") || strings.HasSuffix(src, ".rounds")) {
				return true
			}
			nLoops++
			ast.Inspect(rs.Body, func(m ast.Node) bool {
				switch x := m.(type) {
				case *ast.FuncLit:
					return false
				case *ast.BranchStmt:
					if x.Tok == token.BREAK && x.Label == nil {
						// a break that belongs to an inner switch/select/loop is not an exit of this loop
						inner := false
						for p := v.parent(x); p != nil && p != ast.Node(rs); p = v.parent(p) {
							switch p.(type) {
							case *ast.SwitchStmt, *ast.TypeSwitchStmt, *ast.SelectStmt, *ast.ForStmt, *ast.RangeStmt:
								inner = true
							}
						}
						if !inner {
							exits = append(exits, "break at "+v.pos(x))
						}
					}
					if x.Tok == token.GOTO || (x.Label != nil && x.Tok == token.BREAK) {
						exits = append(exits, x.Tok.String()+" at "+v.pos(x))
					}
				case *ast.ReturnStmt:
					exits = append(exits, "return at "+v.pos(x))
				}
				return true
			})
			return true
		})
		r.check(nLoops >= 1 && len(exits) == 0, "C12.R5", "every-item-visited|"+fn, v.pos(v.Decl), "the loop over the feeders / rounds is never left early", fn+" leaves its loop over the feeders/rounds early ("+strings.Join(exits, ", ")+fmt.Sprintf("; %d loops found)", nLoops)+": the feeders behind that point get no round in this block (their reports are refused, round numbers fall out of step)")
	}
	// a params update committed by EndBlock switches the running context to the new params in the same block: the
	// flag that guards agc.SetParams is the result of CommitCache that is raised on the params arm
	if ev, cv := w.View("x/oracle", "AppModule.EndBlock"), w.View("x/oracle/keeper/cache", "Cache.CommitCache"); ev != nil && cv != nil {
		// which named result of CommitCache reports the params commit
		idx := -1
		if cv.Decl.Type.Results != nil {
			i := 0
			for _, fl := range cv.Decl.Type.Results.List {
				for _, nm := range fl.Names {
					o := cv.Info.ObjectOf(nm)
					for _, as := range cv.assignmentsTo(o) {
						if len(as.Rhs) == 1 && exprString(as.Rhs[0]) == "true" {
							for _, f := range cv.FactsAt(as, false) {
								if f.Truth && strings.HasSuffix(exprString(f.Atom), ".params.update") {
									idx = i
								}
							}
						}
					}
					i++
				}
			}
		}
		ok, why := false, "CommitCache has no named result raised under c.params.update"
		if idx >= 0 {
			why = "agc.SetParams is not guarded by that result"
			for _, sp := range ev.CallsNamed("SetParams") {
				if recv, _, _, isM := methodCall(sp); !isM || !resolvesToCallV(ev, recv, "GetAggregatorContext") {
					continue
				}
				for _, f := range ev.FactsAt(sp, false) {
					id, isID := stripParens(f.Atom).(*ast.Ident)
					if !isID || !f.Truth {
						continue
					}
					o := ev.Info.ObjectOf(id)
					ast.Inspect(ev.Decl.Body, func(n ast.Node) bool {
						as, isAs := n.(*ast.AssignStmt)
						if !isAs || len(as.Rhs) != 1 || len(as.Lhs) <= idx {
							return true
						}
						if c, isC := stripParens(as.Rhs[0]).(*ast.CallExpr); isC && ev.calleeName(c) == "CommitCache" {
							if lid, isL := as.Lhs[idx].(*ast.Ident); isL && ev.Info.ObjectOf(lid) == o {
								ok = true
							} else {
								why = fmt.Sprintf("the flag guarding agc.SetParams is not result %d of CommitCache (the one raised when params were committed)", idx)
							}
						}
						return true
					})
				}
			}
		}
		r.check(ok, "C12.R5", "EndBlock|params-switch-follows-params-commit", ev.pos(ev.Decl), "the running context takes over new params in the block whose EndBlock commits them", "EndBlock: "+why+": after a params update the context keeps preparing rounds with the old feeders and retention (a feeder added by the update gets no rounds; MaxSizePrices lowered is not honoured)")
	}
	if v := w.View("x/oracle/keeper/aggregator", "worker.do"); v != nil {
		var fc, fa types.Object
		for _, c := range v.CallsNamed("filtrate") {
			if as, isAs := v.parent(c).(*ast.AssignStmt); isAs && len(as.Lhs) == 2 {
				fc, fa = v.objOf(as.Lhs[0]), v.objOf(as.Lhs[1])
			}
		}
		okC, okA := false, false
		for _, c := range v.CallsNamed("fillPrice") {
			if len(c.Args) != 3 {
				continue
			}
			recv := exprString(c.Fun)
			if strings.Contains(recv, ".c.") && fc != nil && v.objOf(c.Args[0]) == fc {
				okC = true
			}
			if strings.Contains(recv, ".a.") && fa != nil && v.objOf(c.Args[0]) == fa {
				okA = true
			}
		}
		r.check(okC && okA, "C12.R3", "worker|filtered-lists", v.pos(v.Decl), "the calculator and the aggregator are fed the lists the filter returned for them (a repeated source round is dropped before it can add power again)", "worker.do does not hand the filter's calculator list to the calculator and its aggregator list to the aggregator: an already reported (source round, value) adds the validator's power again")
	}
	if v := w.View("x/oracle/keeper/aggregator", "AggregatorContext.FillPrice"); v != nil {
		ok := false
		for _, c := range v.CallsNamed("seal") {
			blk := v.innermostBlock(c)
			if blk == nil {
				continue
			}
			for _, st := range blk.List {
				if as, isAs := st.(*ast.AssignStmt); isAs && st.Pos() < c.Pos() && len(as.Lhs) == 1 && lastField(as.Lhs[0]) == "status" && strings.Contains(exprString(as.Rhs[0]), "Closed") {
					final := false
					for _, f := range v.FactsAt(as, false) {
						if cm, isC := factCmp(f); isC && cm.Op == "!=" && isNilIdent(v.Info, cm.R) && resolvesToCallV(v, cm.L, "aggregate") {
							final = true
						}
					}
					if final {
						ok = true
					}
				}
			}
		}
		r.check(ok, "C12.R3", "FillPrice|final-price-closes-round", v.pos(v.Decl), "the submission that yields the final price closes the round in the same step (it cannot be closed again by SealRound's failure arm)", "FillPrice does not set the round's status to closed when the final price is found: a price found in the last block of the window, or in a block with a validator-set change, is followed by a second closing of the same round through the failed list")
	}
	// the aggregator is given the full validator set read back from the cache, not the update delta
	if v := w.View("x/oracle", "AppModule.EndBlock"); v != nil {
		ok, n := true, 0
		for _, c := range v.CallsNamed("SetValidatorPowers") {
			n++
			arg := v.objOf(c.Args[0])
			fromCache, isDelta := false, false
			for _, g := range v.CallsNamed("GetCache") {
				if g.Pos() < c.Pos() && len(g.Args) == 1 {
					if iv, isCall := stripParens(g.Args[0]).(*ast.CallExpr); isCall && len(iv.Args) == 1 && arg != nil && v.objOf(iv.Args[0]) == arg {
						fromCache = true
					}
				}
			}
			for _, a := range v.CallsNamed("AddCache") {
				if len(a.Args) == 1 {
					if iv, isCall := stripParens(a.Args[0]).(*ast.CallExpr); isCall && len(iv.Args) == 1 && arg != nil && v.objOf(iv.Args[0]) == arg {
						isDelta = true
					}
				}
			}
			if !fromCache || isDelta {
				ok = false
			}
		}
		r.check(ok && n >= 1, "C12.R8", "validators|full-set-from-cache", v.pos(v.Decl), "the aggregator's validator set is the merged set read back from the cache", "EndBlock hands SetValidatorPowers something other than the map filled by GetCache (the update delta): unchanged validators disappear and the total power is the delta's sum")
	}
	// ---- R6
	if v := w.View("x/oracle/keeper", "Keeper.AppendPriceTR"); v != nil {
		var del *ast.CallExpr
		for _, c := range allCalls(v.Decl.Body) {
			if _, nm, _, ok := methodCall(c); ok && nm == "Delete" {
				del = c
			}
		}
		if del == nil {
			r.bad("C12.R6", "retention|delete", v.pos(v.Decl), "expired round deleted", "AppendPriceTR never deletes an expired round: the history grows without bound")
		} else {
			// key expression: PricesRoundKey(X) with X := nextRoundID - MaxSize
			keyOK := false
			var keyArg ast.Expr
			if len(del.Args) == 1 {
				if c, ok := stripParens(del.Args[0]).(*ast.CallExpr); ok && len(c.Args) == 1 {
					keyArg = c.Args[0]
					for _, d := range v.resolveDefs(keyArg, 0) {
						if be, isBin := stripParens(d).(*ast.BinaryExpr); isBin && be.Op == token.SUB && strings.Contains(exprString(be.X), "nextRoundID") && mentionsMaxSize(v, be.Y) {
							keyOK = true
						}
					}
				}
			}
			r.check(keyOK, "C12.R6", "retention|key", v.pos(del), "the deleted round is nextRoundID - MaxSizePrices", "the deleted key is not PricesRoundKey(nextRoundID - MaxSizePrices)")
			guardOK := false
			for _, f := range v.FactsAt(del, false) {
				cm, ok := factCmp(f)
				if !ok {
					continue
				}
				l, rr := exprString(cm.L), exprString(cm.R)
				// form 1: (nextRoundID - max) > 0   [uint64]
				if cm.Op == ">" && rr == "0" && keyArg != nil && (l == exprString(keyArg)) {
					guardOK = true
				}
				// form 2: nextRoundID > max
				if cm.Op == ">" && strings.Contains(l, "nextRoundID") && !strings.ContainsAny(l, "+-") && mentionsMaxSize(v, cm.R) && !strings.ContainsAny(rr, "+-") {
					guardOK = true
				}
			}
			r.check(guardOK, "C12.R6", "retention|guard", v.pos(del), "the expiry guard is equivalent to nextRoundID > MaxSizePrices", "the expiry guard is not `nextRoundID - max > 0` / `nextRoundID > max`: an off-by-one keeps one round too many (or deletes one too early)")
		}
	}
	// ---- R7
	if v := need("x/oracle/keeper/common", "BigIntList.Median"); v != nil {
		var sortPos token.Pos
		for _, c := range allCalls(v.Decl.Body) {
			if f := v.callee(c); f != nil && f.Pkg() != nil && f.Pkg().Path() == "sort" && !v.nestedConditionally(c, v.Decl.Body) {
				sortPos = c.Pos()
			}
		}
		ok := sortPos.IsValid()
		ast.Inspect(v.Decl.Body, func(n ast.Node) bool {
			if ix, isIx := n.(*ast.IndexExpr); isIx && ix.Pos() < sortPos {
				ok = false
			}
			return true
		})
		r.check(ok, "C12.R7", "Median|sorted", v.pos(v.Decl), "the list is sorted before the middle element is taken", "Median indexes the list before (or without) sorting it")
	}
}

// mentionsMaxSize: e is (an alias of) the configured maximum number of retained rounds, without arithmetic.
func mentionsMaxSize(v *FnView, e ast.Expr) bool {
	for _, d := range v.resolveDefs(e, 0) {
		s := exprString(d)
		if strings.Contains(s, "MaxSizePrices") && !strings.ContainsAny(s, "+-") {
			return true
		}
	}
	return false
}

// windowOffset: e (through single-definition locals) is (a - b.<field>) % c.<field>; returns a, the names
// of the two fields.
func windowOffset(v *FnView, e ast.Expr) (a ast.Expr, sub, mod string, ok bool) {
	for _, d := range v.resolveDefs(e, 0) {
		rem, isB := stripParens(d).(*ast.BinaryExpr)
		if !isB || rem.Op != token.REM {
			continue
		}
		for _, x := range v.resolveDefs(stripParens(rem.X), 0) {
			df, isD := stripParens(x).(*ast.BinaryExpr)
			if !isD || df.Op != token.SUB {
				continue
			}
			return stripParens(df.X), lastField(df.Y), lastField(rem.Y), true
		}
	}
	return nil, "", "", false
}

// assignmentsTo: the assignment statements of the function whose left side names the object.
func (v *FnView) assignmentsTo(o types.Object) []*ast.AssignStmt {
	var out []*ast.AssignStmt
	ast.Inspect(v.Decl.Body, func(n ast.Node) bool {
		as, ok := n.(*ast.AssignStmt)
		if !ok {
			return true
		}
		for _, l := range as.Lhs {
			if id, isID := stripParens(l).(*ast.Ident); isID && v.Info.ObjectOf(id) == o {
				out = append(out, as)
			}
		}
		return true
	})
	return out
}
