package main

import (
	"fmt"
	"go/ast"
	"go/token"
	"go/types"
	"sort"
	"strings"
)

// Write-before-failure (DESIGN §2.4-E), origin-keyed.
//
// For a function f, afterOwn(f) is the set of pairs (failure origin, first
// written family) such that some structured path through f (and the callees
// whose failure f propagates) performs a store write and later reports failure.

type wbfPair struct {
	Origin string // sentinel error, "errorf:<pkg>", "ext:<callee>"
	After  string // family of the earliest write that reaches the failure
	Where  string // position of the failing point (for humans)
	WPos   string // position of the write
	Via    string // function in which write and failure meet
	Src    string // callee whose failure it is at the failing point in Via ("return" for a fresh error)
}

type wbf struct {
	w        *World
	mayFail  map[*types.Func]map[string]string // origin -> example position
	after    map[*types.Func][]wbfPair
	visiting map[*types.Func]bool
	extra    func(v *FnView, c *ast.CallExpr) []string // additional (non-store) write effects, e.g. in-memory
}

func newWBF(w *World) *wbf {
	return &wbf{w: w, mayFail: map[*types.Func]map[string]string{}, after: map[*types.Func][]wbfPair{}, visiting: map[*types.Func]bool{}}
}

func isSentinel(v *FnView, e ast.Expr) (string, bool) {
	e = stripParens(e)
	var id *ast.Ident
	switch x := e.(type) {
	case *ast.Ident:
		id = x
	case *ast.SelectorExpr:
		id = x.Sel
	default:
		return "", false
	}
	vr, ok := v.Info.ObjectOf(id).(*types.Var)
	if !ok || vr.Pkg() == nil || vr.Parent() != vr.Pkg().Scope() {
		return "", false
	}
	if !isErrorLike(vr.Type()) {
		return "", false
	}
	return rel(vr.Pkg().Path()) + "." + vr.Name(), true
}

// errOrigins: the failure origins of an error-valued expression at node `at`.
func (a *wbf) errOrigins(v *FnView, e ast.Expr, at ast.Node, depth int) map[string]ast.Node {
	out := map[string]ast.Node{}
	e = stripParens(e)
	if depth > 6 {
		out["unknown:"+funcID(v.Obj)] = e
		return out
	}
	if s, ok := isSentinel(v, e); ok {
		out[s] = e
		return out
	}
	switch x := e.(type) {
	case *ast.Ident:
		if isNilIdent(v.Info, x) {
			return out
		}
		// all assignments of a call result to this variable that precede `at`
		obj := v.Info.ObjectOf(x)
		found := false
		ast.Inspect(v.Decl.Body, func(n ast.Node) bool {
			as, ok := n.(*ast.AssignStmt)
			if !ok || as.Pos() >= at.Pos() {
				return true
			}
			for i, l := range as.Lhs {
				lid, ok := l.(*ast.Ident)
				if !ok || v.Info.ObjectOf(lid) != obj {
					continue
				}
				var rhs ast.Expr
				if len(as.Rhs) == 1 {
					rhs = as.Rhs[0]
				} else if i < len(as.Rhs) {
					rhs = as.Rhs[i]
				}
				if rhs == nil {
					continue
				}
				// only assignments that can reach `at`
				if !v.reaches(as, at) {
					continue
				}
				found = true
				for k, p := range a.errOrigins(v, rhs, as, depth+1) {
					out[k] = p
				}
			}
			return true
		})
		if !found {
			if v.isNamedErrorResult(x) {
				return out // named result not assigned on any path reaching here: still nil
			}
			out["unknown:"+funcID(v.Obj)] = e
		}
		return out
	case *ast.CallExpr:
		cal := v.callee(x)
		name := ""
		if cal != nil {
			name = cal.Name()
		}
		pkg := ""
		if cal != nil && cal.Pkg() != nil {
			pkg = cal.Pkg().Path()
		}
		switch {
		case (name == "Wrap" || name == "Wrapf") && len(x.Args) >= 1:
			// errorsmod.Wrap(err, …) or sentinel.Wrap(…)
			if pkg == "cosmossdk.io/errors" && cal.Type().(*types.Signature).Recv() == nil {
				return a.errOrigins(v, x.Args[0], at, depth+1)
			}
			if sel, ok := x.Fun.(*ast.SelectorExpr); ok {
				return a.errOrigins(v, sel.X, at, depth+1)
			}
		case name == "Errorf" || name == "New" || name == "Newf":
			// a fresh error; wrapped operands (%w) keep their origin
			n := 0
			for _, arg := range x.Args {
				if isErrorLike(v.Info.TypeOf(arg)) {
					for k, p := range a.errOrigins(v, arg, at, depth+1) {
						out[k] = p
						n++
					}
				}
			}
			if n == 0 {
				out["errorf:"+rel(v.Pkg.PkgPath)+"."+v.Obj.Name()] = x
			}
			return out
		}
		if cal == nil {
			out["unknown:"+funcID(v.Obj)] = e
			return out
		}
		tg := v.targetsOf(x)
		any := false
		for _, t := range tg {
			fo, _ := t.Object().(*types.Func)
			if fo == nil || a.w.ViewOf(fo) == nil {
				continue
			}
			any = true
			for k := range a.MayFail(fo) {
				out[k] = x
			}
		}
		if !any {
			out["ext:"+name] = x
		}
		return out
	}
	out["unknown:"+funcID(v.Obj)] = e
	return out
}

// MayFail: origins of the errors a repo function can return.
func (a *wbf) MayFail(f *types.Func) map[string]string {
	if m, ok := a.mayFail[f]; ok {
		return m
	}
	m := map[string]string{}
	a.mayFail[f] = m // recursion guard: cyclic calls contribute nothing new
	v := a.w.ViewOf(f)
	if v == nil {
		return m
	}
	sig := f.Type().(*types.Signature)
	if sig.Results().Len() == 0 || !isErrorType(sig.Results().At(sig.Results().Len()-1).Type()) {
		return m
	}
	ast.Inspect(v.Decl.Body, func(n ast.Node) bool {
		if _, ok := n.(*ast.FuncLit); ok {
			return false // closures return to their own callers
		}
		rs, ok := n.(*ast.ReturnStmt)
		if !ok || len(rs.Results) == 0 {
			return true
		}
		last := rs.Results[len(rs.Results)-1]
		if len(rs.Results) == 1 && sig.Results().Len() > 1 {
			// return g(...) forwarding a tuple
			for k, p := range a.errOrigins(v, last, rs, 0) {
				m[k] = v.pos(p)
			}
			return true
		}
		if isNilIdent(v.Info, last) {
			return true
		}
		for k, p := range a.errOrigins(v, last, rs, 0) {
			m[k] = v.pos(p)
		}
		return true
	})
	return m
}

// writeFamilies of a call: store families (W/D) plus extra effects.
func (a *wbf) writeFamilies(v *FnView, c *ast.CallExpr) []string {
	var out []string
	for _, k := range v.callEffects(c, "WD") {
		out = append(out, k[2:])
	}
	if a.extra != nil {
		out = append(out, a.extra(v, c)...)
	}
	return out
}

// After: pairs (origin, first written family) of f.
func (a *wbf) After(f *types.Func) []wbfPair {
	if p, ok := a.after[f]; ok {
		return p
	}
	if a.visiting[f] {
		return nil
	}
	a.visiting[f] = true
	defer delete(a.visiting, f)
	v := a.w.ViewOf(f)
	if v == nil {
		a.after[f] = nil
		return nil
	}
	var pairs []wbfPair
	// write events
	type wev struct {
		c   *ast.CallExpr
		fam string
	}
	var writes []wev
	// cache contexts opened in this function: writes through them are not effective
	// until the commit call, which is the write event instead.
	ccObjs := map[types.Object]*ccSite{}
	for _, s := range a.sitesOf(v) {
		if s.CC != nil && s.Write != nil {
			ccObjs[s.CC] = s
		}
	}
	usesCC := func(c *ast.CallExpr) bool {
		for obj := range ccObjs {
			if v.argIsObj(c, obj) {
				return true
			}
		}
		return false
	}
	for _, c := range allCalls(v.Decl.Body) {
		if id, ok := c.Fun.(*ast.Ident); ok {
			isCommit := false
			for _, s := range ccObjs {
				if v.Info.ObjectOf(id) == s.Write {
					isCommit = true
				}
			}
			if isCommit && !v.inGuardedDefer(c) {
				writes = append(writes, wev{c, "commit"})
				continue
			}
		}
		if usesCC(c) || v.inGuardedDefer(c) {
			continue
		}
		if fams := a.writeFamilies(v, c); len(fams) > 0 {
			writes = append(writes, wev{c, fams[0]})
		}
	}
	firstWriteBefore := func(p ast.Node) (string, string, bool) {
		for _, wv := range writes { // source order = earliest first
			if within(p, wv.c) || within(wv.c, p) {
				continue
			}
			sameLoop := v.innermostLoop(wv.c) != nil && v.innermostLoop(wv.c) == v.innermostLoop(p)
			if (wv.c.Pos() < p.Pos() && v.reaches(wv.c, p)) || (sameLoop && wv.c.Pos() > p.Pos()) {
				return wv.fam, v.pos(wv.c), true
			}
		}
		return "", "", false
	}
	// failing points: error returns
	sig := f.Type().(*types.Signature)
	returnsErr := sig.Results().Len() > 0 && isErrorType(sig.Results().At(sig.Results().Len()-1).Type())
	if returnsErr {
		ast.Inspect(v.Decl.Body, func(n ast.Node) bool {
			if _, ok := n.(*ast.FuncLit); ok {
				return false
			}
			rs, ok := n.(*ast.ReturnStmt)
			if !ok || len(rs.Results) == 0 {
				return true
			}
			last := rs.Results[len(rs.Results)-1]
			if isNilIdent(v.Info, last) {
				return true
			}
			for o, src := range a.errOrigins(v, last, rs, 0) {
				// writes that happened before the failing operation started (the
				// failing call itself is excluded: its own pairs come from After(callee))
				fam, wpos, ok := firstWriteBefore(src)
				if !ok {
					continue
				}
				srcName := "return"
				if ce, ok := src.(*ast.CallExpr); ok {
					if cal := v.callee(ce); cal != nil {
						srcName = cal.Name()
					}
				}
				pairs = append(pairs, wbfPair{Origin: o, After: fam, Where: v.pos(src), WPos: wpos, Via: funcID(f), Src: srcName})
			}
			return true
		})
	}
	// callee-internal pairs: included when f propagates the callee's failure
	for _, c := range allCalls(v.Decl.Body) {
		if v.enclosingFuncLit(c) != nil {
			// a callback body: its pairs are attributed to the closure's caller chain; skip
		}
		if !lastResultIsError(v, c) {
			continue
		}
		kind, _ := v.failArm(c)
		if kind != "return" {
			continue // swallowed (logged/continue): not a reported failure of f
		}
		if usesCC(c) {
			continue // runs inside a cache context that is discarded on this failure
		}
		for _, t := range v.targetsOf(c) {
			fo, _ := t.Object().(*types.Func)
			if fo == nil {
				continue
			}
			pairs = append(pairs, a.After(fo)...)
		}
	}
	// dedup by (origin, after)
	seen := map[string]bool{}
	var out []wbfPair
	for _, p := range pairs {
		k := p.Src + "|" + p.After + "|" + p.Via
		if !seen[k] {
			seen[k] = true
			out = append(out, p)
		}
	}
	sort.Slice(out, func(i, j int) bool { return out[i].Via+out[i].Src+out[i].After < out[j].Via+out[j].Src+out[j].After })
	a.after[f] = out
	return out
}

func (p wbfPair) String() string {
	return fmt.Sprintf("failing=%s origin=%s after-write=%s (write at %s, failure at %s, in %s)", p.Src, p.Origin, p.After, p.WPos, p.Where, p.Via)
}

var ccSiteCache map[*types.Func][]*ccSite

func (a *wbf) sitesOf(v *FnView) []*ccSite {
	if ccSiteCache == nil {
		ccSiteCache = map[*types.Func][]*ccSite{}
		for _, s := range ccSites(a.w, func(string) bool { return true }) {
			ccSiteCache[s.V.Obj] = append(ccSiteCache[s.V.Obj], s)
		}
	}
	var out []*ccSite
	for _, s := range ccSiteCache[v.Obj] {
		// re-anchor the site on this view (same declaration)
		out = append(out, s)
	}
	return out
}

// inGuardedDefer: the call sits in a deferred function literal under `<named error result> == nil`.
func (v *FnView) inGuardedDefer(c *ast.CallExpr) bool {
	fl := v.enclosingFuncLit(c)
	if fl == nil {
		return false
	}
	if _, isDefer := v.parent(v.parent(fl)).(*ast.DeferStmt); !isDefer {
		return false
	}
	for _, f := range v.FactsAt(c, true) {
		be, ok := stripParens(f.Atom).(*ast.BinaryExpr)
		if !ok {
			continue
		}
		isNil := ((be.Op == token.EQL) == f.Truth) && (isNilIdent(v.Info, be.Y) || isNilIdent(v.Info, be.X))
		if isNil && v.isNamedErrorResult(be.X, be.Y) {
			return true
		}
	}
	return false
}

// shortOrigin trims package noise for keys.
func shortOrigin(o string) string {
	return strings.TrimPrefix(o, "github.com/")
}

var _ = token.NoPos
