package main

import (
	"fmt"
	"go/ast"
	"go/types"
	"sort"
	"strings"

	"golang.org/x/tools/go/ssa"
)

// C18.R7 -- the importer is the inverse of the exporter, element by element:
//   (a) inside the loops of the genesis importers (functions reachable from InitGenesis that take the exported
//       slices) every element is stored -- no `continue`/`break`/early return that depends on the element -- and
//       the key it is stored under derives from the element, never from its position in the list;
//   (b) an address written into a genesis field as text is read back with the decoder of the same kind
//       (account / consensus / validator bech32): exporter `sdk.XAddress(..).String()` vs. importer and
//       validation `sdk.XAddressFromBech32`.

func initGenesisReachable(w *World) map[*types.Func]bool {
	cat := catalogue(w)
	roots := cat.Fns("initgenesis")
	parent := w.Reach(roots, func(f *ssa.Function) bool { return !w.fnInScope(f) && f.Pkg != nil })
	out := map[*types.Func]bool{}
	for f := range parent {
		if !w.fnInScope(f) {
			continue
		}
		root := f
		for root.Parent() != nil {
			root = root.Parent()
		}
		if fo, ok := root.Object().(*types.Func); ok && w.declOf[fo] != nil {
			out[fo] = true
		}
	}
	return out
}

func addrKindOfType(t types.Type) string {
	n, ok := t.(*types.Named)
	if !ok || n.Obj().Pkg() == nil || !strings.HasSuffix(n.Obj().Pkg().Path(), "cosmos-sdk/types") {
		return ""
	}
	switch n.Obj().Name() {
	case "AccAddress":
		return "account"
	case "ConsAddress":
		return "consensus"
	case "ValAddress":
		return "validator"
	}
	return ""
}

func c18ImportInverse(r *Run) {
	w := r.W
	ig := initGenesisReachable(w)
	// ---- (a)
	nLoops := 0
	var fos []*types.Func
	for fo := range ig {
		fos = append(fos, fo)
	}
	sort.Slice(fos, func(i, j int) bool { return funcID(fos[i]) < funcID(fos[j]) })
	for _, fo := range fos {
		v := w.ViewOf(fo)
		if v == nil || !strings.HasPrefix(v.ID(), "x/") || strings.HasPrefix(v.ID(), "x/evm") {
			continue
		}
		// importers: the ranged expression is (a field of) a parameter
		ast.Inspect(v.Decl.Body, func(n ast.Node) bool {
			rs, ok := n.(*ast.RangeStmt)
			if !ok {
				return true
			}
			root := v.objOf(rootIdent(rs.X))
			if root == nil || !isParamObj(v, root) {
				return true
			}
			if _, isSlice := v.Info.TypeOf(rs.X).Underlying().(*types.Slice); !isSlice {
				return true
			}
			var sets []*ast.CallExpr
			for _, c := range allCalls(rs.Body) {
				if v.calleeName(c) == "Set" && len(c.Args) == 2 {
					sets = append(sets, c)
				}
			}
			if len(sets) == 0 {
				return true
			}
			nLoops++
			key := "import-loop|" + v.ID() + "|" + exprString(rs.X)
			roots := map[types.Object]bool{}
			var idx types.Object
			if rs.Value != nil {
				if o := v.objOf(rs.Value); o != nil {
					roots[o] = true
				}
			}
			if rs.Key != nil {
				idx = v.objOf(rs.Key)
			}
			// elem := list[i]
			ast.Inspect(rs.Body, func(m ast.Node) bool {
				as, ok := m.(*ast.AssignStmt)
				if !ok || len(as.Lhs) != 1 || len(as.Rhs) != 1 {
					return true
				}
				if ix, isIx := stripParens(as.Rhs[0]).(*ast.IndexExpr); isIx && sameExpr(ix.X, rs.X) && idx != nil && v.objOf(ix.Index) == idx {
					if o := v.objOf(as.Lhs[0]); o != nil {
						roots[o] = true
					}
				}
				if u, isU := stripParens(as.Rhs[0]).(*ast.UnaryExpr); isU {
					if ix, isIx := stripParens(u.X).(*ast.IndexExpr); isIx && sameExpr(ix.X, rs.X) {
						if o := v.objOf(as.Lhs[0]); o != nil {
							roots[o] = true
						}
					}
				}
				return true
			})
			var problems []string
			for _, c := range sets {
				k := c.Args[0]
				fromElem := v.derivesFromIter(k, roots, rs.Body, 0)
				usesIdx := false
				if idx != nil {
					ast.Inspect(k, func(m ast.Node) bool {
						if id, ok := m.(*ast.Ident); ok && v.objOf(id) == idx {
							usesIdx = true
						}
						return true
					})
					// through single-definition locals
					for _, d := range v.resolveDefs(k, 0) {
						ast.Inspect(d, func(m ast.Node) bool {
							if id, ok := m.(*ast.Ident); ok && v.objOf(id) == idx {
								usesIdx = true
							}
							return true
						})
					}
				}
				if usesIdx && !fromElem {
					problems = append(problems, "the key at "+v.pos(c)+" is built from the element's position, not from the element")
				}
			}
			// every element is stored: no element-dependent skip
			ast.Inspect(rs.Body, func(m ast.Node) bool {
				if _, isLit := m.(*ast.FuncLit); isLit {
					return false
				}
				bs, ok := m.(*ast.BranchStmt)
				if !ok || v.innermostLoop(bs) != ast.Node(rs) {
					return true
				}
				if bs.Pos() > sets[len(sets)-1].Pos() {
					return true
				}
				problems = append(problems, bs.Tok.String()+" at "+v.pos(bs)+" skips elements of the exported list")
				return true
			})
			r.check(len(problems) == 0, "C18.R7", key, v.pos(rs), "every exported element is stored, under a key taken from the element", strings.Join(problems, "; "))
			return true
		})
	}
	if nLoops < 5 {
		r.bad("C18.R7", "import-loop|count", "-", "importer loops found", fmt.Sprintf("only %d loops over exported lists with a store write found under InitGenesis", nLoops))
	}
	// ---- (a') genesis validation keeps one "already seen" set per list: a set that is reused for the next
	// list without being emptied rejects states in which two lists legitimately share a key (two queues
	// keyed by the same epoch)
	{
		n := 0
		for _, v := range w.allViews() {
			if !strings.HasPrefix(v.ID(), "x/") || !strings.Contains(v.ID(), "/types.") || !strings.Contains(v.Decl.Name.Name, "Validate") || !inScopeFile(w.relFile(v.Decl.Pos())) {
				continue
			}
			// loops (direct statements of the function body) that use a map declared outside them as a seen-set
			type use struct {
				loop ast.Stmt
				m    types.Object
			}
			var uses []use
			for _, st := range v.Decl.Body.List {
				rs, isR := st.(*ast.RangeStmt)
				if !isR {
					continue
				}
				seen := map[types.Object]bool{}
				ast.Inspect(rs.Body, func(nd ast.Node) bool {
					as, ok := nd.(*ast.AssignStmt)
					if !ok || len(as.Lhs) != 1 {
						return true
					}
					ix, isIx := stripParens(as.Lhs[0]).(*ast.IndexExpr)
					if !isIx {
						return true
					}
					o := v.objOf(ix.X)
					if o == nil || !declaredOutside(o, rs.Body) {
						return true
					}
					if _, isMap := o.Type().Underlying().(*types.Map); isMap && strings.Contains(exprString(as.Rhs[0]), "struct{}{}") {
						seen[o] = true
					}
					return true
				})
				for o := range seen {
					uses = append(uses, use{rs, o})
				}
			}
			for i := 0; i < len(uses); i++ {
				for j := i + 1; j < len(uses); j++ {
					if uses[i].m != uses[j].m || uses[i].loop == uses[j].loop {
						continue
					}
					n++
					reset := false
					for _, st := range v.Decl.Body.List {
						as, isAs := st.(*ast.AssignStmt)
						if isAs && st.Pos() > uses[i].loop.End() && st.End() < uses[j].loop.Pos() && len(as.Lhs) == 1 && v.objOf(as.Lhs[0]) == uses[i].m && isFreshContainer(as.Rhs[0]) {
							reset = true
						}
					}
					r.check(reset, "C18.R7", "seen-set-per-list|"+v.ID()+"|"+uses[i].m.Name()+"@"+v.pos(uses[j].loop), v.pos(uses[j].loop), "the duplicate check of each exported list starts from an empty set", v.ID()+" reuses the seen-set "+uses[i].m.Name()+" of the loop at "+v.pos(uses[i].loop)+" for the loop at "+v.pos(uses[j].loop)+" without emptying it: an exported state in which both lists hold the same key fails validation as a 'duplicate'")
				}
			}
		}
		if n == 0 {
			r.bad("C18.R7", "seen-set-per-list|none", "-", "reused seen-sets found", "no genesis validation reuses a seen-set across lists (matcher lost its anchor)")
		}
	}
	// ---- (b)
	type fieldKey struct {
		owner string
		field string
	}
	enc := map[fieldKey]map[string]string{} // kind -> position
	dec := map[fieldKey]map[string]string{}
	note := func(m map[fieldKey]map[string]string, k fieldKey, kind, pos string) {
		if m[k] == nil {
			m[k] = map[string]string{}
		}
		if _, seen := m[k][kind]; !seen {
			m[k][kind] = pos
		}
	}
	ownerOf := func(v *FnView, sel *ast.SelectorExpr) string {
		t := v.Info.TypeOf(sel.X)
		if p, ok := t.(*types.Pointer); ok {
			t = p.Elem()
		}
		if n, ok := t.(*types.Named); ok && n.Obj().Pkg() != nil {
			return w.relPkg(n.Obj().Pkg().Path()) + "." + n.Obj().Name()
		}
		return ""
	}
	for _, v := range w.allViews() {
		if !strings.HasPrefix(v.ID(), "x/") || strings.HasPrefix(v.ID(), "x/evm") || !inScopeFile(w.relFile(v.Decl.Pos())) {
			continue
		}
		ast.Inspect(v.Decl.Body, func(n ast.Node) bool {
			cl, ok := n.(*ast.CompositeLit)
			if !ok {
				return true
			}
			t := v.Info.TypeOf(cl)
			if p, isP := t.(*types.Pointer); isP {
				t = p.Elem()
			}
			named, isN := t.(*types.Named)
			if !isN || named.Obj().Pkg() == nil {
				return true
			}
			if _, isS := named.Underlying().(*types.Struct); !isS {
				return true
			}
			owner := w.relPkg(named.Obj().Pkg().Path()) + "." + named.Obj().Name()
			for _, el := range cl.Elts {
				kv, isKV := el.(*ast.KeyValueExpr)
				if !isKV {
					continue
				}
				fid, isID := kv.Key.(*ast.Ident)
				if !isID {
					continue
				}
				for _, kind := range v.addrEncodings(kv.Value, 0) {
					note(enc, fieldKey{owner, fid.Name}, kind, v.pos(kv.Value))
				}
			}
			return true
		})
	}
	for _, v := range w.allViews() {
		if !strings.HasPrefix(v.ID(), "x/") || strings.HasPrefix(v.ID(), "x/evm") || !inScopeFile(w.relFile(v.Decl.Pos())) {
			continue
		}
		_, isImp := ig[v.Obj]
		isVal := strings.Contains(v.Decl.Name.Name, "Validate")
		if !isImp && !isVal {
			continue
		}
		for _, c := range allCalls(v.Decl.Body) {
			name := v.calleeName(c)
			kind := ""
			switch name {
			case "AccAddressFromBech32", "MustAccAddressFromBech32":
				kind = "account"
			case "ConsAddressFromBech32":
				kind = "consensus"
			case "ValAddressFromBech32":
				kind = "validator"
			}
			arg0 := ast.Expr(nil)
			if len(c.Args) == 1 {
				arg0 = c.Args[0]
			}
			switch exprString(c.Fun) {
			case "hex.DecodeString":
				kind = "bare-hex"
				// hex.DecodeString(strings.TrimPrefix(x, "0x")) reads both forms
				if tc, isC := stripParens(arg0).(*ast.CallExpr); isC && exprString(tc.Fun) == "strings.TrimPrefix" && len(tc.Args) == 2 {
					kind, arg0 = "any-hex", tc.Args[0]
				}
			case "hexutil.Decode", "hexutil.MustDecode":
				kind = "0x-hex"
			case "common.HexToHash", "common.HexToAddress", "common.FromHex", "common.IsHexAddress":
				kind = "any-hex"
			}
			if kind == "" || arg0 == nil {
				continue
			}
			for _, sel := range v.fieldSources(arg0, 0) {
				if o := ownerOf(v, sel); o != "" {
					note(dec, fieldKey{o, sel.Sel.Name}, kind, v.pos(c))
				}
			}
		}
	}
	var keys []fieldKey
	for k := range enc {
		if dec[k] != nil {
			keys = append(keys, k)
		}
	}
	sort.Slice(keys, func(i, j int) bool { return keys[i].owner+keys[i].field < keys[j].owner+keys[j].field })
	for _, k := range keys {
		var bad []string
		for ek, epos := range enc[k] {
			for dk, dpos := range dec[k] {
				if ek != dk && !(dk == "any-hex" && strings.HasSuffix(ek, "-hex")) {
					bad = append(bad, fmt.Sprintf("written as %s text at %s, read as %s text at %s", ek, epos, dk, dpos))
				}
			}
		}
		sort.Strings(bad)
		r.check(len(bad) == 0, "C18.R7", "address-text|"+k.owner+"."+k.field, "-", "the exporter writes and the importer/validation reads "+k.field+" with the same address kind", k.owner+"."+k.field+": "+strings.Join(bad, "; ")+" (the exported genesis fails validation, or is decoded to something else)")
	}
	if len(keys) < 3 {
		r.bad("C18.R7", "address-text|count", "-", "address-typed genesis fields found", fmt.Sprintf("only %d genesis fields with both an address encoder and a decoder found", len(keys)))
	}
}

// addrEncodings: the address kinds of `X.String()` calls (X of type sdk.AccAddress / ConsAddress / ValAddress)
// that flow into e: directly, through single locals, or through append(local, …) statements.
func (v *FnView) addrEncodings(e ast.Expr, depth int) []string {
	var out []string
	seen := map[string]bool{}
	add := func(k string) {
		if k != "" && !seen[k] {
			seen[k] = true
			out = append(out, k)
		}
	}
	ast.Inspect(e, func(n ast.Node) bool {
		switch x := n.(type) {
		case *ast.CallExpr:
			if sel, ok := x.Fun.(*ast.SelectorExpr); ok && (sel.Sel.Name == "String" || sel.Sel.Name == "Hex") && len(x.Args) == 0 {
				add(addrKindOfType(v.Info.TypeOf(sel.X)))
				if isEthHexType(v.Info.TypeOf(sel.X)) {
					add("0x-hex")
				}
			}
			if exprString(x.Fun) == "hexutil.Encode" {
				add("0x-hex")
			}
			if exprString(x.Fun) == "hex.EncodeToString" {
				add("bare-hex")
			}
		case *ast.Ident:
			o, isVar := v.objOf(x).(*types.Var)
			if !isVar || o.IsField() || depth > 3 {
				return true
			}
			for _, d := range v.defsOf(o) {
				for _, k := range v.addrEncodings(d, depth+1) {
					add(k)
				}
			}
		}
		return true
	})
	return out
}

// fieldSources: the struct-field selectors an expression comes from: itself, the ranged expression of the
// range statement whose value variable it is, or the definitions of a local.
func (v *FnView) fieldSources(e ast.Expr, depth int) []*ast.SelectorExpr {
	e = stripParens(e)
	if depth > 4 {
		return nil
	}
	switch x := e.(type) {
	case *ast.SelectorExpr:
		if fo, ok := v.Info.Uses[x.Sel].(*types.Var); ok && fo.IsField() {
			return []*ast.SelectorExpr{x}
		}
	case *ast.CallExpr:
		// getter: obj.GetField()
		if sel, ok := x.Fun.(*ast.SelectorExpr); ok && strings.HasPrefix(sel.Sel.Name, "Get") && len(x.Args) == 0 {
			return []*ast.SelectorExpr{{X: sel.X, Sel: &ast.Ident{Name: strings.TrimPrefix(sel.Sel.Name, "Get"), NamePos: sel.Sel.NamePos}}}
		}
	case *ast.IndexExpr:
		return v.fieldSources(x.X, depth+1)
	case *ast.Ident:
		o := v.objOf(x)
		if o == nil {
			return nil
		}
		var out []*ast.SelectorExpr
		// range value variable?
		ast.Inspect(v.Decl.Body, func(n ast.Node) bool {
			rs, ok := n.(*ast.RangeStmt)
			if ok && rs.Value != nil && v.objOf(rs.Value) == o {
				out = append(out, v.fieldSources(rs.X, depth+1)...)
			}
			return true
		})
		for _, d := range v.defsOf(o) {
			out = append(out, v.fieldSources(d, depth+1)...)
		}
		return out
	}
	return nil
}

// relPkg renders an import path relative to the repository's module path.
func (w *World) relPkg(path string) string {
	const mod = "github.com/ExocoreNetwork/exocore/"
	return strings.TrimPrefix(path, mod)
}

// isEthHexType: go-ethereum's common.Hash / common.Address, whose String()/Hex() render 0x-prefixed hex.
func isEthHexType(t types.Type) bool {
	n, ok := t.(*types.Named)
	if !ok || n.Obj().Pkg() == nil || !strings.HasSuffix(n.Obj().Pkg().Path(), "go-ethereum/common") {
		return false
	}
	return n.Obj().Name() == "Hash" || n.Obj().Name() == "Address"
}
