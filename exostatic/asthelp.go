package main

import (
	"go/ast"
	"go/constant"
	"go/token"
	"go/types"
	"strings"

	"golang.org/x/tools/go/packages"
	"golang.org/x/tools/go/types/typeutil"
)

// FnView is a source function with its type information.
type FnView struct {
	W    *World
	Pkg  *packages.Package
	Info *types.Info
	Decl *ast.FuncDecl
	Obj  *types.Func
	par  map[ast.Node]ast.Node
}

func (w *World) View(relPkg, name string) *FnView {
	obj := w.lookupFunc(relPkg, name)
	if obj == nil {
		return nil
	}
	d := w.declOf[obj]
	if d == nil || d.Body == nil {
		return nil
	}
	p := w.Pkg(relPkg)
	return &FnView{W: w, Pkg: p, Info: p.TypesInfo, Decl: d, Obj: obj}
}

func (w *World) ViewOf(obj *types.Func) *FnView {
	d := w.declOf[obj]
	if d == nil || d.Body == nil || obj.Pkg() == nil {
		return nil
	}
	p := w.PkgBy[obj.Pkg().Path()]
	if p == nil {
		return nil
	}
	return &FnView{W: w, Pkg: p, Info: p.TypesInfo, Decl: d, Obj: obj}
}

func (v *FnView) ID() string { return funcID(v.Obj) }

func (v *FnView) parent(n ast.Node) ast.Node {
	if v.par == nil {
		v.par = map[ast.Node]ast.Node{}
		var stack []ast.Node
		ast.Inspect(v.Decl, func(n ast.Node) bool {
			if n == nil {
				stack = stack[:len(stack)-1]
				return true
			}
			if len(stack) > 0 {
				v.par[n] = stack[len(stack)-1]
			}
			stack = append(stack, n)
			return true
		})
	}
	return v.par[n]
}

func (v *FnView) callee(call *ast.CallExpr) *types.Func {
	f, _ := typeutil.Callee(v.Info, call).(*types.Func)
	return f
}

// calleeName: name of the called function/method ("" if not a resolved func).
func (v *FnView) calleeName(call *ast.CallExpr) string {
	if f := v.callee(call); f != nil {
		return f.Name()
	}
	return ""
}

// Calls returns all call expressions in node (including nested closures) whose
// resolved callee satisfies match.
func (v *FnView) Calls(node ast.Node, match func(*types.Func) bool) []*ast.CallExpr {
	var out []*ast.CallExpr
	ast.Inspect(node, func(n ast.Node) bool {
		if c, ok := n.(*ast.CallExpr); ok {
			if f := v.callee(c); f != nil && match(f) {
				out = append(out, c)
			}
		}
		return true
	})
	return out
}

func (v *FnView) CallsNamed(names ...string) []*ast.CallExpr {
	return v.Calls(v.Decl.Body, byName(names...))
}

func byName(names ...string) func(*types.Func) bool {
	return func(f *types.Func) bool {
		for _, n := range names {
			if f.Name() == n {
				return true
			}
		}
		return false
	}
}

// byID matches on the funcID suffix, e.g. "keeper.Keeper.Slash" or full id.
func byID(ids ...string) func(*types.Func) bool {
	return func(f *types.Func) bool {
		id := funcID(f)
		for _, n := range ids {
			if id == n || strings.HasSuffix(id, "/"+n) || strings.HasSuffix(id, "."+n) {
				return true
			}
		}
		return false
	}
}

func (v *FnView) pos(n ast.Node) string { return v.W.pos(n.Pos()) }

// ---------------------------------------------------------------------------
// Facts: boolean atoms known true/false at a program point, derived from the
// structured control flow (if/else bodies, and early-exit ifs earlier in an
// enclosing statement list). Sound for goto-free code; a function containing a
// goto or a labelled break/continue is rejected by hasIrregularFlow.

type Fact struct {
	Atom  ast.Expr // an expression that is not !, &&, ||, or parenthesised
	Truth bool
	At    ast.Node // the if/switch statement that established it
	// LoopCond: the fact is the condition of an enclosing for loop (true at the start of the iteration)
	LoopCond bool
}

func stripParens(e ast.Expr) ast.Expr {
	for {
		p, ok := e.(*ast.ParenExpr)
		if !ok {
			return e
		}
		e = p.X
	}
}

// decompose adds the facts implied by "cond == truth".
func decompose(cond ast.Expr, truth bool, at ast.Node, out *[]Fact) {
	cond = stripParens(cond)
	switch c := cond.(type) {
	case *ast.UnaryExpr:
		if c.Op == token.NOT {
			decompose(c.X, !truth, at, out)
			return
		}
	case *ast.BinaryExpr:
		if c.Op == token.LAND && truth {
			decompose(c.X, true, at, out)
			decompose(c.Y, true, at, out)
			return
		}
		if c.Op == token.LOR && !truth {
			decompose(c.X, false, at, out)
			decompose(c.Y, false, at, out)
			return
		}
		if c.Op == token.LAND || c.Op == token.LOR {
			return // disjunctive knowledge: nothing atomic follows
		}
	}
	*out = append(*out, Fact{Atom: cond, Truth: truth, At: at})
}

// terminates reports whether control cannot fall out of the end of the block:
// its last statement is return, continue, break, goto, panic(...), or an if/else
// (or switch with default) all of whose arms terminate.
func (v *FnView) terminates(b *ast.BlockStmt) bool {
	if b == nil || len(b.List) == 0 {
		return false
	}
	return v.stmtTerminates(b.List[len(b.List)-1])
}

func (v *FnView) stmtTerminates(s ast.Stmt) bool {
	switch s := s.(type) {
	case *ast.ReturnStmt:
		return true
	case *ast.BranchStmt:
		return s.Tok == token.CONTINUE || s.Tok == token.BREAK || s.Tok == token.GOTO
	case *ast.ExprStmt:
		if c, ok := s.X.(*ast.CallExpr); ok {
			if id, ok := c.Fun.(*ast.Ident); ok && id.Name == "panic" {
				if _, isBuiltin := v.Info.Uses[id].(*types.Builtin); isBuiltin {
					return true
				}
			}
		}
	case *ast.BlockStmt:
		return v.terminates(s)
	case *ast.IfStmt:
		if s.Else == nil {
			return false
		}
		if !v.terminates(s.Body) {
			return false
		}
		switch e := s.Else.(type) {
		case *ast.BlockStmt:
			return v.terminates(e)
		case *ast.IfStmt:
			return v.stmtTerminates(e)
		}
	case *ast.SwitchStmt:
		hasDefault := false
		for _, cc := range s.Body.List {
			c := cc.(*ast.CaseClause)
			if c.List == nil {
				hasDefault = true
			}
			if len(c.Body) == 0 || !v.stmtTerminates(c.Body[len(c.Body)-1]) {
				return false
			}
			// a break inside a switch arm leaves the switch, not the function
			if br, ok := c.Body[len(c.Body)-1].(*ast.BranchStmt); ok && br.Tok == token.BREAK && br.Label == nil {
				return false
			}
		}
		return hasDefault
	}
	return false
}

// hasIrregularFlow: goto or labelled branch anywhere in the function.
func (v *FnView) hasIrregularFlow() bool {
	bad := false
	ast.Inspect(v.Decl.Body, func(n ast.Node) bool {
		if b, ok := n.(*ast.BranchStmt); ok {
			if b.Tok == token.GOTO || b.Label != nil {
				bad = true
			}
		}
		return !bad
	})
	return bad
}

// stmtList returns the statement list that directly contains child, if parent is
// a list-bearing node.
func stmtListOf(parent ast.Node) []ast.Stmt {
	switch p := parent.(type) {
	case *ast.BlockStmt:
		return p.List
	case *ast.CaseClause:
		return p.Body
	case *ast.CommClause:
		return p.Body
	}
	return nil
}

// FactsAt computes the facts that hold whenever control reaches target.
// stopAtFuncLit: if true, facts outside an enclosing function literal are not
// used (the closure may run later); for the repo's Iterate*-callback idiom the
// closure runs synchronously, so callers normally pass false.
func (v *FnView) FactsAt(target ast.Node, stopAtFuncLit bool) []Fact {
	return mirrorFacts(v.expandBoolAliases(v.factsAt(target, stopAtFuncLit)))
}

// expandBoolAliases: a fact about a boolean local with a single definition (`tooLate := a.GT(b)`;
// `if tooLate {…}`) also yields the facts of its defining condition, with the same polarity.
func (v *FnView) expandBoolAliases(facts []Fact) []Fact {
	n := len(facts)
	for i := 0; i < n; i++ {
		id, ok := stripParens(facts[i].Atom).(*ast.Ident)
		if !ok {
			continue
		}
		o := v.objOf(id)
		if o == nil {
			continue
		}
		if b, isB := o.Type().Underlying().(*types.Basic); !isB || b.Kind() != types.Bool {
			continue
		}
		defs := v.defsOf(o)
		if len(defs) != 1 {
			continue
		}
		switch d := stripParens(defs[0]).(type) {
		case *ast.BinaryExpr, *ast.UnaryExpr:
			var sub []Fact
			decompose(d.(ast.Expr), facts[i].Truth, facts[i].At, &sub)
			facts = append(facts, sub...)
		case *ast.CallExpr:
			// a comparison method, or any call with a single boolean result (`active := k.IsActive(…)`); a
			// comma-ok / (bool, error) call has a tuple type and stays a call outcome
			_, okc := factCmp(Fact{Atom: d, Truth: true})
			if bt, isB := v.Info.TypeOf(d).(*types.Basic); isB && bt.Kind() == types.Bool {
				okc = true
			}
			if okc {
				facts = append(facts, Fact{Atom: d, Truth: facts[i].Truth, At: facts[i].At})
			}
		}
	}
	return facts
}

// mirrorFacts adds, for every comparison fact `a op b`, the equivalent fact `b op' a`, so that a rule written
// with one orientation in mind also recognises the rewritten comparison (x.LT(y) vs y.GT(x)). Comparisons
// with nil are left alone (they are call outcomes, recognised in both orientations already).
func mirrorFacts(facts []Fact) []Fact {
	n := len(facts)
	for i := 0; i < n; i++ {
		// the raw (un-negated) comparison of the atom; the mirrored fact keeps the original polarity
		c, ok := factCmp(Fact{Atom: facts[i].Atom, Truth: true})
		if !ok {
			continue
		}
		if id, isID := stripParens(c.L).(*ast.Ident); isID && id.Name == "nil" {
			continue
		}
		if id, isID := stripParens(c.R).(*ast.Ident); isID && id.Name == "nil" {
			continue
		}
		var tok token.Token
		switch flipOp(c.Op) {
		case "<":
			tok = token.LSS
		case "<=":
			tok = token.LEQ
		case ">":
			tok = token.GTR
		case ">=":
			tok = token.GEQ
		case "==":
			tok = token.EQL
		case "!=":
			tok = token.NEQ
		default:
			continue
		}
		facts = append(facts, Fact{Atom: &ast.BinaryExpr{X: c.R, Op: tok, Y: c.L, OpPos: facts[i].Atom.Pos()}, Truth: facts[i].Truth, At: facts[i].At})
	}
	return facts
}

func (v *FnView) factsAt(target ast.Node, stopAtFuncLit bool) []Fact {
	var facts []Fact
	child := target
	for n := v.parent(target); n != nil; child, n = n, v.parent(n) {
		switch p := n.(type) {
		case *ast.IfStmt:
			if child == ast.Node(p.Body) {
				decompose(p.Cond, true, p, &facts)
			} else if p.Else != nil && child == ast.Node(p.Else) {
				decompose(p.Cond, false, p, &facts)
			}
		case *ast.CaseClause:
			// tagless switch: inside `case c:` c is true (single expr) and earlier
			// single-expression cases are false.
			sw, _ := v.parent(v.parent(p)).(*ast.SwitchStmt)
			if sw != nil && sw.Tag != nil && isIn(child, p.Body) && len(p.List) == 1 && v.parent(p) == ast.Node(sw.Body) {
				// tagged switch (no fallthrough into this arm): inside `case c:` tag == c
				fall := false
				for i, cc := range sw.Body.List {
					if cc == ast.Stmt(p) && i > 0 {
						prev := sw.Body.List[i-1].(*ast.CaseClause)
						if len(prev.Body) > 0 {
							if br, ok := prev.Body[len(prev.Body)-1].(*ast.BranchStmt); ok && br.Tok == token.FALLTHROUGH {
								fall = true
							}
						}
					}
				}
				if !fall {
					facts = append(facts, Fact{Atom: &ast.BinaryExpr{X: sw.Tag, Op: token.EQL, Y: p.List[0], OpPos: p.Pos()}, Truth: true, At: sw})
				}
			}
			if sw != nil && sw.Tag == nil && isIn(child, p.Body) {
				if len(p.List) == 1 {
					decompose(p.List[0], true, sw, &facts)
				}
				for _, cc := range sw.Body.List {
					c := cc.(*ast.CaseClause)
					if c == p {
						break
					}
					for _, e := range c.List {
						decompose(e, false, sw, &facts)
					}
				}
			}
		case *ast.FuncLit:
			if stopAtFuncLit {
				return facts
			}
		case *ast.ForStmt:
			// inside the body of `for …; cond; …` the condition held when the iteration started; it is only
			// usable for variables the body does not change before the use, which the callers that need it check
			if p.Cond != nil && child == ast.Node(p.Body) {
				var fs []Fact
				decompose(p.Cond, true, p, &fs)
				for i := range fs {
					fs[i].LoopCond = true
				}
				facts = append(facts, fs...)
			}
		case *ast.BinaryExpr:
			// short-circuit evaluation: inside the right operand of `a && b`, a holds; of `a || b`, a does not
			if child == ast.Node(p.Y) {
				if p.Op == token.LAND {
					decompose(p.X, true, p, &facts)
				} else if p.Op == token.LOR {
					decompose(p.X, false, p, &facts)
				}
			}
		}
		if list := stmtListOf(n); list != nil {
			for _, s := range list {
				if s == child || s.Pos() >= child.Pos() {
					break
				}
				v.exitFacts(s, &facts)
			}
		}
	}
	return facts
}

func isIn(n ast.Node, list []ast.Stmt) bool {
	for _, s := range list {
		if ast.Node(s) == n {
			return true
		}
	}
	return false
}

// exitFacts: facts that hold after statement s completes normally.
func (v *FnView) exitFacts(s ast.Stmt, out *[]Fact) {
	ifs, ok := s.(*ast.IfStmt)
	if !ok {
		return
	}
	// if c { terminates } [else {...}]  => after: !c   (when else absent or falls through)
	if v.terminates(ifs.Body) {
		decompose(ifs.Cond, false, ifs, out)
		if e, ok := ifs.Else.(*ast.IfStmt); ok {
			v.exitFacts(e, out)
		}
		return
	}
	// if c {...} else { terminates } => after: c
	if eb, ok := ifs.Else.(*ast.BlockStmt); ok && v.terminates(eb) {
		decompose(ifs.Cond, true, ifs, out)
	}
}

// ---------------------------------------------------------------------------
// Linking atoms to the calls that produced them.

// resultOrigin finds the call expression whose idx-th result was most recently
// assigned to ident `id` before position `before`, looking at the if-init of
// `at` first and then backwards in enclosing statement lists. Returns the call
// and the result index, or nil.
func (v *FnView) resultOrigin(id *ast.Ident, at ast.Node) (*ast.CallExpr, int) {
	obj := v.Info.ObjectOf(id)
	if obj == nil {
		return nil, 0
	}
	check := func(s ast.Stmt) (*ast.CallExpr, int, bool) {
		as, ok := s.(*ast.AssignStmt)
		if !ok {
			if ds, ok := s.(*ast.DeclStmt); ok {
				if gd, ok := ds.Decl.(*ast.GenDecl); ok {
					for _, sp := range gd.Specs {
						if vs, ok := sp.(*ast.ValueSpec); ok {
							for i, nm := range vs.Names {
								if v.Info.ObjectOf(nm) == obj {
									if len(vs.Values) == 1 && len(vs.Names) > 1 {
										if c, ok := stripParens(vs.Values[0]).(*ast.CallExpr); ok {
											return c, i, true
										}
									} else if i < len(vs.Values) {
										if c, ok := stripParens(vs.Values[i]).(*ast.CallExpr); ok {
											return c, 0, true
										}
									}
									return nil, 0, true
								}
							}
						}
					}
				}
			}
			return nil, 0, false
		}
		for i, lhs := range as.Lhs {
			lid, ok := lhs.(*ast.Ident)
			if !ok || v.Info.ObjectOf(lid) != obj {
				continue
			}
			if len(as.Rhs) == 1 && len(as.Lhs) > 1 {
				if c, ok := stripParens(as.Rhs[0]).(*ast.CallExpr); ok {
					return c, i, true
				}
				return nil, 0, true
			}
			if i < len(as.Rhs) {
				if c, ok := stripParens(as.Rhs[i]).(*ast.CallExpr); ok {
					return c, 0, true
				}
			}
			return nil, 0, true // assigned from a non-call
		}
		return nil, 0, false
	}
	// if-init
	if ifs, ok := at.(*ast.IfStmt); ok && ifs.Init != nil {
		if c, i, hit := check(ifs.Init); hit {
			return c, i
		}
	}
	if sw, ok := at.(*ast.SwitchStmt); ok && sw.Init != nil {
		if c, i, hit := check(sw.Init); hit {
			return c, i
		}
	}
	// walk backwards through enclosing lists
	child := at
	for n := v.parent(at); n != nil; child, n = n, v.parent(n) {
		list := stmtListOf(n)
		if list == nil {
			if ifs, ok := n.(*ast.IfStmt); ok && ifs.Init != nil && child != ast.Node(ifs.Init) {
				if c, i, hit := check(ifs.Init); hit {
					return c, i
				}
			}
			continue
		}
		idx := -1
		for i, s := range list {
			if ast.Node(s) == child {
				idx = i
				break
			}
		}
		for i := idx - 1; i >= 0; i-- {
			if c, k, hit := check(list[i]); hit {
				return c, k
			}
			// an intervening compound statement that assigns the variable makes the
			// origin ambiguous
			if assignsTo(v, list[i], obj) {
				return nil, 0
			}
		}
	}
	return nil, 0
}

func assignsTo(v *FnView, s ast.Stmt, obj types.Object) bool {
	found := false
	ast.Inspect(s, func(n ast.Node) bool {
		if as, ok := n.(*ast.AssignStmt); ok {
			for _, l := range as.Lhs {
				if id, ok := l.(*ast.Ident); ok && v.Info.ObjectOf(id) == obj {
					found = true
				}
			}
		}
		return !found
	})
	return found
}

// CallOutcome describes, for a fact, which call it is about and whether that
// call "succeeded": for error results success = (err == nil); for bool results
// success = (value == true).
type CallOutcome struct {
	Call    *ast.CallExpr
	Callee  *types.Func
	Success bool
	Result  int // result index the fact is about
}

// outcome interprets a fact as the outcome of a call, if it is one.
func (v *FnView) outcome(f Fact) *CallOutcome {
	atom := stripParens(f.Atom)
	switch a := atom.(type) {
	case *ast.CallExpr:
		if cal := v.callee(a); cal != nil {
			return &CallOutcome{Call: a, Callee: cal, Success: f.Truth}
		}
	case *ast.Ident:
		if c, i := v.resultOrigin(a, f.At); c != nil {
			if cal := v.callee(c); cal != nil {
				if isErrorType(v.Info.TypeOf(a)) {
					return nil
				}
				return &CallOutcome{Call: c, Callee: cal, Success: f.Truth, Result: i}
			}
		}
	case *ast.BinaryExpr:
		if a.Op != token.NEQ && a.Op != token.EQL {
			return nil
		}
		x, y := stripParens(a.X), stripParens(a.Y)
		if isNilIdent(v.Info, x) {
			x, y = y, x
		}
		if !isNilIdent(v.Info, y) {
			return nil
		}
		// x ==/!= nil
		isNilFact := (a.Op == token.EQL) == f.Truth // fact says x == nil
		switch xx := x.(type) {
		case *ast.Ident:
			if !isErrorType(v.Info.TypeOf(xx)) {
				return nil
			}
			if c, i := v.resultOrigin(xx, f.At); c != nil {
				if cal := v.callee(c); cal != nil {
					return &CallOutcome{Call: c, Callee: cal, Success: isNilFact, Result: i}
				}
			}
		case *ast.CallExpr:
			if isErrorType(v.Info.TypeOf(xx)) {
				if cal := v.callee(xx); cal != nil {
					return &CallOutcome{Call: xx, Callee: cal, Success: isNilFact}
				}
			}
		}
	}
	return nil
}

func isNilIdent(info *types.Info, e ast.Expr) bool {
	id, ok := e.(*ast.Ident)
	if !ok {
		return false
	}
	_, isNil := info.Uses[id].(*types.Nil)
	return isNil
}

var errorType = types.Universe.Lookup("error").Type()

func isErrorType(t types.Type) bool {
	return t != nil && types.Identical(t, errorType)
}

// GuardedBy: does a fact at target say that a call matched by `match` had the
// given outcome (success=true: err==nil / returned true)?
func (v *FnView) GuardedBy(target ast.Node, match func(*types.Func) bool, success bool) *CallOutcome {
	for _, f := range v.FactsAt(target, false) {
		if o := v.outcome(f); o != nil && match(o.Callee) && o.Success == success {
			return o
		}
	}
	return nil
}

// constOf returns the constant value of an expression if it has one.
func (v *FnView) constOf(e ast.Expr) constant.Value {
	if tv, ok := v.Info.Types[e]; ok {
		return tv.Value
	}
	return nil
}

// exprString renders an expression compactly.
func exprString(e ast.Expr) string { return types.ExprString(e) }

// selectorPath renders x.a.b as ["x","a","b"] when e is a chain of selectors on an ident.
func selectorPath(e ast.Expr) []string {
	e = stripParens(e)
	switch x := e.(type) {
	case *ast.Ident:
		return []string{x.Name}
	case *ast.SelectorExpr:
		p := selectorPath(x.X)
		if p == nil {
			return nil
		}
		return append(p, x.Sel.Name)
	case *ast.StarExpr:
		return selectorPath(x.X)
	}
	return nil
}

// enclosingFuncLit returns the innermost function literal containing n, or nil.
func (v *FnView) enclosingFuncLit(n ast.Node) *ast.FuncLit {
	for p := v.parent(n); p != nil; p = v.parent(p) {
		if fl, ok := p.(*ast.FuncLit); ok {
			return fl
		}
	}
	return nil
}

// enclosingStmt returns the innermost statement containing n that is an element
// of a statement list.
func (v *FnView) enclosingStmt(n ast.Node) ast.Stmt {
	child := n
	for p := v.parent(n); p != nil; child, p = p, v.parent(p) {
		if stmtListOf(p) != nil {
			if s, ok := child.(ast.Stmt); ok {
				return s
			}
		}
	}
	return nil
}

// before reports whether a is executed before b on every path reaching b, in the
// structured sense: a's enclosing statement precedes (an ancestor of) b in a
// common statement list, and a is not nested in a conditional/loop relative to
// that list ... unless nestedOK.
func (v *FnView) precedesInList(a, b ast.Node) bool {
	// find common list
	for pb := b; pb != nil; pb = v.parent(pb) {
		par := v.parent(pb)
		list := stmtListOf(par)
		if list == nil {
			continue
		}
		for _, s := range list {
			if ast.Node(s) == pb {
				break
			}
			if s.Pos() <= a.Pos() && a.End() <= s.End() {
				// a is inside earlier sibling s; it executes unconditionally iff it
				// is not under an if/for/switch/funclit inside s.
				return v.unconditionalWithin(a, s)
			}
		}
	}
	return false
}

func (v *FnView) unconditionalWithin(a ast.Node, s ast.Stmt) bool {
	child := a
	for p := v.parent(a); p != nil && child != ast.Node(s); child, p = p, v.parent(p) {
		switch pp := p.(type) {
		case *ast.IfStmt:
			if child != ast.Node(pp.Init) && child != ast.Node(pp.Cond) {
				return false
			}
		case *ast.ForStmt:
			if child != ast.Node(pp.Init) {
				return false
			}
		case *ast.RangeStmt:
			if child != ast.Node(pp.X) {
				return false
			}
		case *ast.SwitchStmt:
			if child != ast.Node(pp.Init) && child != ast.Node(pp.Tag) {
				return false
			}
		case *ast.TypeSwitchStmt, *ast.SelectStmt, *ast.FuncLit, *ast.CaseClause, *ast.CommClause:
			return false
		case *ast.BinaryExpr:
			if (pp.Op == token.LAND || pp.Op == token.LOR) && child == ast.Node(pp.Y) {
				return false
			}
		}
	}
	return true
}

// isExpandedAlias: the fact is about a boolean local with a single definition, which expandBoolAliases has
// replaced (in addition) by the facts of its defining condition.
func (v *FnView) isExpandedAlias(f Fact) bool {
	id, ok := stripParens(f.Atom).(*ast.Ident)
	if !ok {
		return false
	}
	o := v.objOf(id)
	if o == nil {
		return false
	}
	if b, isB := o.Type().Underlying().(*types.Basic); !isB || b.Kind() != types.Bool {
		return false
	}
	defs := v.defsOf(o)
	if len(defs) != 1 {
		return false
	}
	switch d := stripParens(defs[0]).(type) {
	case *ast.BinaryExpr, *ast.UnaryExpr:
		return true
	case *ast.CallExpr:
		bt, isB := v.Info.TypeOf(d).(*types.Basic)
		return isB && bt.Kind() == types.Bool
	}
	return false
}
