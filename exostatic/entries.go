package main

import (
	"fmt"
	"go/ast"
	"go/types"
	"sort"
	"strings"

	"golang.org/x/tools/go/ssa"
)

// Entry is an ABCI-level entry point into the repo's consensus code.
type Entry struct {
	Cat  string // beginblock|endblock|epochhook|delegationhook|operatorhook|dogfoodhook|msg|ante|precompile|initgenesis|exportgenesis|sdkcallback
	Name string // stable identity: "endblock:dogfood", "msg:operator.OptIntoAVS", "precompile:assets.depositLST"
	Fn   *ssa.Function
	Tx   bool // precompile: IsTransaction
}

type Catalogue struct {
	Entries []*Entry
	byCat   map[string][]*Entry
}

func (c *Catalogue) Cat(cats ...string) []*Entry {
	var out []*Entry
	for _, k := range cats {
		out = append(out, c.byCat[k]...)
	}
	return out
}

func (c *Catalogue) Fns(cats ...string) []*ssa.Function {
	var out []*ssa.Function
	for _, e := range c.Cat(cats...) {
		out = append(out, e.Fn)
	}
	return out
}

func (c *Catalogue) add(e *Entry) {
	if e.Fn == nil {
		return
	}
	for _, x := range c.Entries {
		if x.Name == e.Name && x.Fn == e.Fn {
			return
		}
	}
	c.Entries = append(c.Entries, e)
	c.byCat[e.Cat] = append(c.byCat[e.Cat], e)
}

func (c *Catalogue) print(w *World) {
	for _, e := range c.Entries {
		fmt.Printf("%-14s %-55s %s tx=%v\n", e.Cat, e.Name, fnName(e.Fn), e.Tx)
	}
}

// methodOf finds the concrete method `name` of named type T (value or pointer receiver).
func (w *World) methodOf(named *types.Named, name string) *ssa.Function {
	for i := 0; i < named.NumMethods(); i++ {
		if m := named.Method(i); m.Name() == name {
			return w.Prog.FuncValue(m)
		}
	}
	return nil
}

func implements(named *types.Named, iface *types.Interface) bool {
	return types.Implements(named, iface) || types.Implements(types.NewPointer(named), iface)
}

// namedTypes lists the package-level named (non-interface) types of a package.
func namedTypes(p *types.Package) []*types.Named {
	var out []*types.Named
	sc := p.Scope()
	for _, n := range sc.Names() {
		if tn, ok := sc.Lookup(n).(*types.TypeName); ok && !tn.IsAlias() {
			if nt, ok := tn.Type().(*types.Named); ok {
				if _, isI := nt.Underlying().(*types.Interface); !isI {
					out = append(out, nt)
				}
			}
		}
	}
	return out
}

func (w *World) ifaceIn(relPkg, name string) *types.Interface {
	p := w.Pkg(relPkg)
	if p == nil {
		return nil
	}
	tn, _ := p.Types.Scope().Lookup(name).(*types.TypeName)
	if tn == nil {
		return nil
	}
	i, _ := tn.Type().Underlying().(*types.Interface)
	return i
}

var catCache *Catalogue

func catalogue(w *World) *Catalogue {
	if catCache != nil {
		return catCache
	}
	c := &Catalogue{byCat: map[string][]*Entry{}}
	// module packages: x/<m> (module.go) and x/<m>/keeper
	for _, p := range w.Pkgs {
		r := rel(p.PkgPath)
		if !strings.HasPrefix(r, "x/") {
			continue
		}
		parts := strings.Split(r, "/")
		mod := moduleOfPkg(p.PkgPath)
		isModulePkg := len(parts) == 2 || (parts[1] == "appchain" && len(parts) == 3)
		if isModulePkg {
			for _, nt := range namedTypes(p.Types) {
				if nt.Obj().Name() != "AppModule" {
					continue
				}
				c.add(&Entry{Cat: "beginblock", Name: "beginblock:" + mod, Fn: w.methodOf(nt, "BeginBlock")})
				c.add(&Entry{Cat: "endblock", Name: "endblock:" + mod, Fn: w.methodOf(nt, "EndBlock")})
				c.add(&Entry{Cat: "initgenesis", Name: "initgenesis:" + mod, Fn: w.methodOf(nt, "InitGenesis")})
				c.add(&Entry{Cat: "exportgenesis", Name: "exportgenesis:" + mod, Fn: w.methodOf(nt, "ExportGenesis")})
			}
		}
	}
	// hooks: implementers of the hook interfaces, except the Multi* fan-outs
	hookIfaces := []struct{ cat, pkg, name string }{
		{"epochhook", "x/epochs/types", "EpochHooks"},
		{"delegationhook", "x/delegation/types", "DelegationHooks"},
		{"operatorhook", "x/operator/types", "OperatorHooks"},
		{"dogfoodhook", "x/dogfood/types", "DogfoodHooks"},
	}
	wired := wiredEpochHookTypes(w)
	for _, h := range hookIfaces {
		iface := w.ifaceIn(h.pkg, h.name)
		if iface == nil {
			continue
		}
		for _, p := range w.Pkgs {
			if !inScopeFile(rel(p.PkgPath) + "/x.go") {
				continue
			}
			for _, nt := range namedTypes(p.Types) {
				if strings.HasPrefix(nt.Obj().Name(), "Multi") || !implements(nt, iface) {
					continue
				}
				cat := h.cat
				if h.cat == "epochhook" && wired != nil && !wired[nt.Obj()] {
					cat = "epochhook-unwired" // implements EpochHooks but is not registered in app.go
				}
				for i := 0; i < iface.NumMethods(); i++ {
					mn := iface.Method(i).Name()
					c.add(&Entry{Cat: cat, Name: fmt.Sprintf("%s:%s.%s", cat, moduleOfPkg(p.PkgPath), mn), Fn: w.methodOf(nt, mn)})
				}
			}
		}
	}
	// message servers
	for _, p := range w.Pkgs {
		r := rel(p.PkgPath)
		if !strings.HasPrefix(r, "x/") || !strings.HasSuffix(r, "/types") {
			continue
		}
		iface := w.ifaceIn(r, "MsgServer")
		if iface == nil || iface.NumMethods() == 0 {
			continue
		}
		mod := moduleOfPkg(p.PkgPath)
		for _, q := range w.Pkgs {
			if moduleOfPkg(q.PkgPath) != mod || !inScopeFile(rel(q.PkgPath)+"/x.go") {
				continue
			}
			for _, nt := range namedTypes(q.Types) {
				if strings.HasPrefix(nt.Obj().Name(), "Unimplemented") || !implements(nt, iface) {
					continue
				}
				for i := 0; i < iface.NumMethods(); i++ {
					mn := iface.Method(i).Name()
					fn := w.methodOf(nt, mn)
					if fn == nil {
						// promoted through embedding (msgServer{Keeper}): resolve via method set
						sel := types.NewMethodSet(types.NewPointer(nt)).Lookup(nt.Obj().Pkg(), mn)
						if sel != nil {
							fn = w.Prog.FuncValue(sel.Obj().(*types.Func))
						}
					}
					c.add(&Entry{Cat: "msg", Name: fmt.Sprintf("msg:%s.%s", mod, mn), Fn: fn})
				}
			}
		}
	}
	// ante decorators
	for _, p := range w.Pkgs {
		r := rel(p.PkgPath)
		if !strings.HasPrefix(r, "app/ante") {
			continue
		}
		for _, nt := range namedTypes(p.Types) {
			if fn := w.methodOf(nt, "AnteHandle"); fn != nil {
				c.add(&Entry{Cat: "ante", Name: fmt.Sprintf("ante:%s.%s", strings.TrimPrefix(r, "app/ante/"), nt.Obj().Name()), Fn: fn})
			}
		}
	}
	// precompiles
	for _, pc := range precompileTable(w) {
		for _, m := range pc.Methods {
			c.add(&Entry{Cat: "precompile", Name: fmt.Sprintf("precompile:%s.%s", pc.Name, m.ABIName), Fn: m.Handler, Tx: m.IsTx})
		}
	}
	// SDK-module callbacks into the dogfood keeper (it is the StakingKeeper of
	// slashing, evidence, gov, ibc): every exported method declared in impl_sdk.go.
	if p := w.Pkg("x/dogfood/keeper"); p != nil {
		for _, f := range p.Syntax {
			if !strings.HasSuffix(w.Fset.Position(f.Pos()).Filename, "impl_sdk.go") {
				continue
			}
			for _, d := range f.Decls {
				fd, ok := d.(*ast.FuncDecl)
				if !ok || fd.Recv == nil || !fd.Name.IsExported() {
					continue
				}
				obj, _ := p.TypesInfo.Defs[fd.Name].(*types.Func)
				if obj != nil {
					c.add(&Entry{Cat: "sdkcallback", Name: "sdkcallback:dogfood." + fd.Name.Name, Fn: w.Prog.FuncValue(obj)})
				}
			}
		}
	}
	sort.SliceStable(c.Entries, func(i, j int) bool { return c.Entries[i].Name < c.Entries[j].Name })
	for k := range c.byCat {
		es := c.byCat[k]
		sort.SliceStable(es, func(i, j int) bool { return es[i].Name < es[j].Name })
	}
	catCache = c
	return c
}

// ---------------------------------------------------------------------------
// Precompile dispatch tables, parsed from each Run and IsTransaction.

type PCMethod struct {
	ABIName    string
	Const      *types.Const
	Handler    *ssa.Function
	HandlerObj *types.Func
	IsTx       bool
	Swallow    bool // Run converts the handler's error into Pack(false…)
	CallPos    ast.Node
}

type PCTable struct {
	Name    string // assets, delegation, avs, reward, bls
	RelPkg  string
	Methods []*PCMethod
	Run     *FnView
}

var pcCache []*PCTable

func precompileTable(w *World) []*PCTable {
	if pcCache != nil {
		return pcCache
	}
	var out []*PCTable
	for _, relp := range registeredPrecompiles(w) {
		name := strings.TrimPrefix(relp, "precompiles/")
		run := w.View(relp, "Precompile.Run")
		ist := w.View(relp, "Precompile.IsTransaction")
		if run == nil || ist == nil {
			continue
		}
		t := &PCTable{Name: name, RelPkg: relp, Run: run}
		// IsTransaction: constants in case clauses that return true
		txConst := map[types.Object]bool{}
		ast.Inspect(ist.Decl.Body, func(n ast.Node) bool {
			cc, ok := n.(*ast.CaseClause)
			if !ok {
				return true
			}
			retTrue := false
			for _, s := range cc.Body {
				if rs, ok := s.(*ast.ReturnStmt); ok && len(rs.Results) == 1 {
					if id, ok := rs.Results[0].(*ast.Ident); ok && id.Name == "true" {
						retTrue = true
					}
				}
			}
			if retTrue {
				for _, e := range cc.List {
					if id, ok := e.(*ast.Ident); ok {
						txConst[ist.Info.ObjectOf(id)] = true
					}
				}
			}
			return true
		})
		// Run: switch method.Name { case X: bz, err = p.H(...) }  or  if method.Name == X { ... p.H(...) }
		addArm := func(consts []ast.Expr, body []ast.Stmt, whole ast.Node) {
			// the handler is the first call on receiver p with a method declared in this package
			var handler *types.Func
			var callNode ast.Node
			for _, s := range body {
				ast.Inspect(s, func(n ast.Node) bool {
					if handler != nil {
						return false
					}
					if ce, ok := n.(*ast.CallExpr); ok {
						if f := run.callee(ce); f != nil && f.Pkg() == run.Pkg.Types {
							if sig := f.Type().(*types.Signature); sig.Recv() != nil {
								handler = f
								callNode = ce
								return false
							}
						}
					}
					return true
				})
			}
			if handler == nil {
				return
			}
			swallow := false
			for _, s := range body {
				ast.Inspect(s, func(n ast.Node) bool {
					if ce, ok := n.(*ast.CallExpr); ok {
						if f := run.callee(ce); f != nil && f.Name() == "Pack" && len(ce.Args) > 0 {
							if id, ok := ce.Args[0].(*ast.Ident); ok && id.Name == "false" {
								swallow = true
							}
						}
					}
					return true
				})
			}
			for _, e := range consts {
				id, ok := e.(*ast.Ident)
				if !ok {
					continue
				}
				co, _ := run.Info.ObjectOf(id).(*types.Const)
				if co == nil {
					continue
				}
				abi := strings.Trim(co.Val().ExactString(), "\"")
				t.Methods = append(t.Methods, &PCMethod{ABIName: abi, Const: co, Handler: w.Prog.FuncValue(handler),
					HandlerObj: handler, IsTx: txConst[co], Swallow: swallow, CallPos: callNode})
			}
		}
		ast.Inspect(run.Decl.Body, func(n ast.Node) bool {
			switch s := n.(type) {
			case *ast.SwitchStmt:
				if sel, ok := s.Tag.(*ast.SelectorExpr); ok && sel.Sel.Name == "Name" {
					for _, cc := range s.Body.List {
						c := cc.(*ast.CaseClause)
						addArm(c.List, c.Body, c)
					}
					return false
				}
			case *ast.IfStmt:
				if be, ok := s.Cond.(*ast.BinaryExpr); ok {
					if sel, ok := be.X.(*ast.SelectorExpr); ok && sel.Sel.Name == "Name" {
						addArm([]ast.Expr{be.Y}, s.Body.List, s)
					}
				}
			}
			return true
		})
		// post-dispatch swallow: `if err != nil { … Pack(false…) … }` after the switch
		if len(t.Methods) > 0 {
			post := false
			for _, s := range run.Decl.Body.List {
				if ifs, ok := s.(*ast.IfStmt); ok {
					for _, ce := range allCalls(ifs.Body) {
						if run.calleeName(ce) == "Pack" && len(ce.Args) > 0 {
							if id, ok := ce.Args[0].(*ast.Ident); ok && id.Name == "false" {
								post = true
							}
						}
					}
				}
			}
			if post {
				for _, m := range t.Methods {
					m.Swallow = true
				}
			}
		}
		out = append(out, t)
	}
	pcCache = out
	return out
}

// registeredPrecompiles: the packages of the values assigned into the
// `precompiles[addr] = X` map in x/evm/keeper.AvailablePrecompiles.
func registeredPrecompiles(w *World) []string {
	v := w.View("x/evm/keeper", "AvailablePrecompiles")
	if v == nil {
		return nil
	}
	set := map[string]bool{}
	ast.Inspect(v.Decl.Body, func(n ast.Node) bool {
		as, ok := n.(*ast.AssignStmt)
		if !ok || len(as.Lhs) != 1 || len(as.Rhs) != 1 {
			return true
		}
		if _, ok := as.Lhs[0].(*ast.IndexExpr); !ok {
			return true
		}
		t := v.Info.TypeOf(as.Rhs[0])
		if p, ok := t.(*types.Pointer); ok {
			t = p.Elem()
		}
		if nt, ok := t.(*types.Named); ok && nt.Obj().Pkg() != nil && strings.HasPrefix(nt.Obj().Pkg().Path(), modPath+"/precompiles/") {
			set[rel(nt.Obj().Pkg().Path())] = true
		}
		return true
	})
	var out []string
	for k := range set {
		out = append(out, k)
	}
	sort.Strings(out)
	return out
}

// epochHookOrder returns the receiver types (by module) of the arguments of the
// NewMultiEpochHooks(...) call in app.NewExocoreApp, in order.
func epochHookOrder(w *World) ([]*types.TypeName, ast.Node, *FnView) {
	v := w.View("app", "NewExocoreApp")
	if v == nil {
		return nil, nil, nil
	}
	var out []*types.TypeName
	var node ast.Node
	for _, c := range v.CallsNamed("NewMultiEpochHooks") {
		node = c
		for _, a := range c.Args {
			t := v.Info.TypeOf(a)
			if p, ok := t.(*types.Pointer); ok {
				t = p.Elem()
			}
			if nt, ok := t.(*types.Named); ok {
				out = append(out, nt.Obj())
			} else {
				out = append(out, nil)
			}
		}
	}
	return out, node, v
}

func wiredEpochHookTypes(w *World) map[*types.TypeName]bool {
	order, _, _ := epochHookOrder(w)
	if order == nil {
		return nil
	}
	m := map[*types.TypeName]bool{}
	for _, t := range order {
		if t != nil {
			m[t] = true
		}
	}
	return m
}

// entryReachable: repo source functions reachable from the live entry points
// (messages, precompiles, ante, block processing, wired hooks, SDK callbacks).
var entryReachCache map[*types.Func]string

func entryReachable(w *World) map[*types.Func]string {
	if entryReachCache != nil {
		return entryReachCache
	}
	cat := catalogue(w)
	roots := cat.Fns("beginblock", "endblock", "epochhook", "delegationhook", "operatorhook", "dogfoodhook", "msg", "ante", "precompile", "sdkcallback")
	parent := w.Reach(roots, func(f *ssa.Function) bool { return !w.fnInScope(f) && f.Pkg != nil })
	out := map[*types.Func]string{}
	for f := range parent {
		if !w.fnInScope(f) {
			continue
		}
		root := f
		for root.Parent() != nil {
			root = root.Parent()
		}
		if fo, ok := root.Object().(*types.Func); ok && w.declOf[fo] != nil {
			if _, seen := out[fo]; !seen {
				out[fo] = pathTo(parent, f)
			}
		}
	}
	entryReachCache = out
	return out
}
