package main

import (
	"fmt"
	"go/ast"
	"go/token"
	"go/types"
	"os"
	"path/filepath"
	"sort"
	"strings"
	"time"

	"golang.org/x/tools/go/callgraph"
	"golang.org/x/tools/go/callgraph/cha"
	"golang.org/x/tools/go/callgraph/vta"
	"golang.org/x/tools/go/packages"
	"golang.org/x/tools/go/ssa"
	"golang.org/x/tools/go/ssa/ssautil"
)

const modPath = "github.com/ExocoreNetwork/exocore"

// World is the resolved program: type-checked packages, SSA and a VTA call graph,
// rebuilt from /repo's working tree on every run.
type World struct {
	Repo     string
	Tier     string
	Fset     *token.FileSet
	Pkgs     []*packages.Package // repo packages only
	PkgBy    map[string]*packages.Package
	Prog     *ssa.Program
	CG       *callgraph.Graph
	CHA      *callgraph.Graph
	AllFuncs map[*ssa.Function]bool

	declOf   map[*types.Func]*ast.FuncDecl
	fileOf   map[*ast.File]*packages.Package
	siteOut  map[ssa.CallInstruction][]*ssa.Function
	parents  map[ast.Node]ast.Node
	nFuncsIn int
}

// LoadWorld loads the whole repository ("./...") with full syntax and type
// information for repo packages. quick: dependencies from export data;
// thorough: dependencies from source as well (whole-program graph).
func LoadWorld(repo, tier string, extraDirs ...string) (*World, error) {
	mode := packages.NeedName | packages.NeedFiles | packages.NeedCompiledGoFiles |
		packages.NeedImports | packages.NeedTypes |
		packages.NeedSyntax | packages.NeedTypesInfo | packages.NeedTypesSizes | packages.NeedModule
	if tier == "thorough-whole" {
		mode |= packages.NeedDeps // dependencies from source: whole-program SSA
	}
	fset := token.NewFileSet()
	cfg := &packages.Config{
		Mode:  mode,
		Dir:   repo,
		Fset:  fset,
		Tests: false,
		Env: append(os.Environ(), "GOFLAGS=-mod=mod", "GOPROXY=off", "GOSUMDB=off",
			"GOTOOLCHAIN=local", "GOWORK=off"),
	}
	patterns := []string{"./..."}
	t0 := time.Now()
	pkgs, err := packages.Load(cfg, patterns...)
	tLoad := time.Since(t0)
	if err != nil {
		return nil, fmt.Errorf("packages.Load: %w", err)
	}
	w := &World{Repo: repo, Tier: tier, Fset: fset, PkgBy: map[string]*packages.Package{},
		declOf: map[*types.Func]*ast.FuncDecl{}, fileOf: map[*ast.File]*packages.Package{},
		siteOut: map[ssa.CallInstruction][]*ssa.Function{}, parents: map[ast.Node]ast.Node{}}
	var errs []string
	packages.Visit(pkgs, nil, func(p *packages.Package) {
		if p.Module == nil || p.Module.Path != modPath {
			return
		}
		for _, e := range p.Errors {
			errs = append(errs, e.Error())
		}
	})
	if len(errs) > 0 {
		sort.Strings(errs)
		if len(errs) > 10 {
			errs = errs[:10]
		}
		return nil, fmt.Errorf("tree does not type-check: %s", strings.Join(errs, "; "))
	}
	for _, p := range pkgs {
		if p.Module != nil && p.Module.Path == modPath {
			w.Pkgs = append(w.Pkgs, p)
			w.PkgBy[p.PkgPath] = p
		}
	}
	sort.Slice(w.Pkgs, func(i, j int) bool { return w.Pkgs[i].PkgPath < w.Pkgs[j].PkgPath })
	if len(w.Pkgs) < 90 {
		return nil, fmt.Errorf("only %d repo packages loaded (expected >= 90)", len(w.Pkgs))
	}
	var prog *ssa.Program
	if tier == "thorough-whole" {
		prog, _ = ssautil.AllPackages(pkgs, ssa.InstantiateGenerics)
	} else {
		prog, _ = ssautil.Packages(pkgs, ssa.InstantiateGenerics)
	}
	t1 := time.Now()
	prog.Build()
	w.Prog = prog
	w.AllFuncs = ssautil.AllFunctions(prog)
	w.CHA = cha.CallGraph(prog)
	w.CG = vta.CallGraph(w.AllFuncs, w.CHA)
	for _, n := range w.CG.Nodes {
		for _, e := range n.Out {
			if e.Site != nil && e.Callee != nil && e.Callee.Func != nil {
				w.siteOut[e.Site] = append(w.siteOut[e.Site], e.Callee.Func)
			}
		}
	}
	if os.Getenv("EXOSTATIC_TIMING") != "" {
		fmt.Printf("timing: load %.1fs ssa+cg %.1fs\n", tLoad.Seconds(), time.Since(t1).Seconds())
	}
	for _, p := range w.Pkgs {
		for _, f := range p.Syntax {
			w.fileOf[f] = p
			for _, d := range f.Decls {
				if fd, ok := d.(*ast.FuncDecl); ok {
					if obj, ok := p.TypesInfo.Defs[fd.Name].(*types.Func); ok {
						w.declOf[obj] = fd
						w.nFuncsIn++
					}
				}
			}
		}
	}
	return w, nil
}

// rel returns a repo-relative package path ("x/operator/keeper").
func rel(pkgPath string) string {
	return strings.TrimPrefix(strings.TrimPrefix(pkgPath, modPath), "/")
}

func (w *World) Pkg(relPath string) *packages.Package {
	if relPath == "" {
		return w.PkgBy[modPath]
	}
	return w.PkgBy[modPath+"/"+relPath]
}

// pos renders a position repo-relative.
func (w *World) pos(p token.Pos) string {
	if !p.IsValid() {
		return "-"
	}
	ps := w.Fset.Position(p)
	r, err := filepath.Rel(w.Repo, ps.Filename)
	if err != nil {
		r = ps.Filename
	}
	return fmt.Sprintf("%s:%d", r, ps.Line)
}

// inScope: consensus code, the subject of the rules.
func inScopeFile(relFile string) bool {
	if strings.HasSuffix(relFile, "_test.go") || strings.HasSuffix(relFile, ".pb.go") ||
		strings.HasSuffix(relFile, ".pb.gw.go") {
		return false
	}
	slashed := "/" + relFile
	for _, bad := range []string{"/client/", "/simulation/", "/testutil/", "/mocks/", "/cmd/", "/tools/"} {
		if strings.Contains(slashed, bad) {
			return false
		}
	}
	for _, ok := range []string{"app/", "precompiles/", "utils/", "types/", "x/"} {
		if strings.HasPrefix(relFile, ok) {
			return true
		}
	}
	return false
}

func (w *World) relFile(p token.Pos) string {
	ps := w.Fset.Position(p)
	r, err := filepath.Rel(w.Repo, ps.Filename)
	if err != nil {
		return ps.Filename
	}
	return r
}

func (w *World) fnInScope(f *ssa.Function) bool {
	if f == nil || f.Pkg == nil || f.Pos() == token.NoPos {
		if f != nil && f.Parent() != nil {
			return w.fnInScope(f.Parent())
		}
		return false
	}
	if !strings.HasPrefix(f.Pkg.Pkg.Path(), modPath) {
		return false
	}
	return inScopeFile(w.relFile(f.Pos()))
}

// lookupFunc resolves "Type.Method" or "Func" in a repo-relative package.
func (w *World) lookupFunc(relPkg, name string) *types.Func {
	p := w.Pkg(relPkg)
	if p == nil {
		return nil
	}
	if i := strings.Index(name, "."); i >= 0 {
		tn, _ := p.Types.Scope().Lookup(name[:i]).(*types.TypeName)
		if tn == nil {
			return nil
		}
		named, _ := tn.Type().(*types.Named)
		if named == nil {
			return nil
		}
		for k := 0; k < named.NumMethods(); k++ {
			if m := named.Method(k); m.Name() == name[i+1:] {
				return m
			}
		}
		return nil
	}
	f, _ := p.Types.Scope().Lookup(name).(*types.Func)
	return f
}

// Fn returns the SSA function for "Type.Method"/"Func" in a repo-relative package, or nil.
func (w *World) Fn(relPkg, name string) *ssa.Function {
	obj := w.lookupFunc(relPkg, name)
	if obj == nil {
		return nil
	}
	return w.Prog.FuncValue(obj)
}

func (w *World) Decl(f *types.Func) *ast.FuncDecl { return w.declOf[f] }

func (w *World) DeclOf(relPkg, name string) (*ast.FuncDecl, *packages.Package) {
	obj := w.lookupFunc(relPkg, name)
	if obj == nil {
		return nil, nil
	}
	return w.declOf[obj], w.Pkg(relPkg)
}

// fnName renders an SSA function repo-relative.
func fnName(f *ssa.Function) string {
	if f == nil {
		return "<nil>"
	}
	s := f.String()
	s = strings.ReplaceAll(s, modPath+"/", "")
	return s
}

// withAnon returns f and all functions lexically nested in it.
func withAnon(f *ssa.Function) []*ssa.Function {
	out := []*ssa.Function{f}
	for _, a := range f.AnonFuncs {
		out = append(out, withAnon(a)...)
	}
	return out
}

// Callees returns the resolved callees of a call site (static callee, or VTA edges).
func (w *World) Callees(site ssa.CallInstruction) []*ssa.Function {
	if c := site.Common().StaticCallee(); c != nil {
		return []*ssa.Function{c}
	}
	return w.siteOut[site]
}

// calls enumerates call instructions (call, defer, go) of f (not nested closures).
func calls(f *ssa.Function) []ssa.CallInstruction {
	var out []ssa.CallInstruction
	for _, b := range f.Blocks {
		for _, in := range b.Instrs {
			if c, ok := in.(ssa.CallInstruction); ok {
				out = append(out, c)
			}
		}
	}
	return out
}

// calleeObj returns the *types.Func a call refers to, for both static calls and
// interface invokes (the interface method object).
func calleeObj(site ssa.CallInstruction) *types.Func {
	c := site.Common()
	if c.IsInvoke() {
		return c.Method
	}
	if f := c.StaticCallee(); f != nil {
		if o, ok := f.Object().(*types.Func); ok {
			return o
		}
		// instantiated generic / wrapper
		if f.Origin() != nil {
			if o, ok := f.Origin().Object().(*types.Func); ok {
				return o
			}
		}
	}
	return nil
}

// funcID renders a *types.Func as "pkgpath.Recv.Name" (repo-relative where possible).
func funcID(o *types.Func) string {
	if o == nil {
		return ""
	}
	sig := o.Type().(*types.Signature)
	pk := ""
	if o.Pkg() != nil {
		pk = rel(o.Pkg().Path())
		if pk == o.Pkg().Path() && !strings.HasPrefix(o.Pkg().Path(), modPath) {
			pk = o.Pkg().Path()
		}
	}
	if r := sig.Recv(); r != nil {
		t := r.Type()
		if p, ok := t.(*types.Pointer); ok {
			t = p.Elem()
		}
		if n, ok := t.(*types.Named); ok {
			return pk + "." + n.Obj().Name() + "." + o.Name()
		}
		return pk + ".?." + o.Name()
	}
	return pk + "." + o.Name()
}

// Reach computes the functions reachable from roots in the VTA call graph. The
// parent map gives one witness path. stop(f) prunes traversal below f.
func (w *World) Reach(roots []*ssa.Function, stop func(*ssa.Function) bool) map[*ssa.Function]*ssa.Function {
	return w.reachIn(w.CG, roots, stop)
}

func (w *World) reachIn(g *callgraph.Graph, roots []*ssa.Function, stop func(*ssa.Function) bool) map[*ssa.Function]*ssa.Function {
	parent := map[*ssa.Function]*ssa.Function{}
	var q []*ssa.Function
	for _, r := range roots {
		if r == nil {
			continue
		}
		if _, ok := parent[r]; !ok {
			parent[r] = nil
			q = append(q, r)
		}
	}
	for len(q) > 0 {
		f := q[0]
		q = q[1:]
		if stop != nil && stop(f) {
			continue
		}
		n := g.Nodes[f]
		var next []*ssa.Function
		if n != nil {
			for _, e := range n.Out {
				next = append(next, e.Callee.Func)
			}
		}
		// closures created inside f are treated as called by f (they are passed to
		// Iterate* helpers or deferred); this over-approximates reachability.
		next = append(next, f.AnonFuncs...)
		for _, c := range next {
			if c == nil {
				continue
			}
			if _, ok := parent[c]; !ok {
				parent[c] = f
				q = append(q, c)
			}
		}
	}
	return parent
}

func pathTo(parent map[*ssa.Function]*ssa.Function, f *ssa.Function) string {
	var parts []string
	for cur := f; cur != nil; cur = parent[cur] {
		parts = append(parts, fnName(cur))
		if len(parts) > 40 {
			break
		}
	}
	for i, j := 0, len(parts)-1; i < j; i, j = i+1, j-1 {
		parts[i], parts[j] = parts[j], parts[i]
	}
	return strings.Join(parts, " -> ")
}

// parentOf returns the AST parent of n (lazily built per file).
func (w *World) buildParents(file *ast.File) {
	if _, ok := w.parents[file]; ok {
		return
	}
	w.parents[file] = file
	var stack []ast.Node
	ast.Inspect(file, func(n ast.Node) bool {
		if n == nil {
			stack = stack[:len(stack)-1]
			return true
		}
		if len(stack) > 0 {
			w.parents[n] = stack[len(stack)-1]
		}
		stack = append(stack, n)
		return true
	})
}

func (w *World) fileFor(p *packages.Package, pos token.Pos) *ast.File {
	for _, f := range p.Syntax {
		if f.Pos() <= pos && pos < f.End() {
			return f
		}
	}
	return nil
}
