package main

import (
	"fmt"
	"go/constant"
	"go/token"
	"go/types"
	"sort"
	"strings"

	"golang.org/x/tools/go/ssa"
)

// ---------------------------------------------------------------------------
// Key-family resolver (DESIGN §2.4-A).
//
// A KV access is mapped to a family "<module>:<leading constant>", where the
// leading constant is byte 0 of the key on a raw module store, or byte 0 / the
// string of the prefix handed to prefix.NewStore (outermost prefix wins).

type Lead struct {
	Kind string // "byte" | "str" | "empty" | "unknown"
	B    byte
	S    string
	Why  string
}

func (l Lead) String() string {
	switch l.Kind {
	case "byte":
		return fmt.Sprintf("0x%02x", l.B)
	case "str":
		return l.S
	case "empty":
		return "<empty>"
	}
	return "?" + l.Why
}

type frame struct {
	site   ssa.CallInstruction
	fn     *ssa.Function
	parent *frame
	depth  int
}

type Access struct {
	Fn         *ssa.Function
	Instr      ssa.Instruction
	Kind       string   // R (Get/Has), W (Set), D (Delete), I (iterate)
	Families   []string // resolved families; contains "?…" entries when undecided
	ViaIterKey bool     // key is iterator.Key() of the same family
	CondParam  int      // >0: executed only when bool parameter #CondParam (SSA index) is true; 0: unconditional
}

type Resolver struct {
	w             *World
	initOf        map[*ssa.Global]ssa.Value
	visiting      map[string]bool
	closureParent map[*ssa.Function]*ssa.MakeClosure
	constNames    map[string]string // "mod:0x03" -> constant name
}

func newResolver(w *World) *Resolver {
	r := &Resolver{w: w, initOf: map[*ssa.Global]ssa.Value{}, visiting: map[string]bool{},
		closureParent: map[*ssa.Function]*ssa.MakeClosure{}, constNames: map[string]string{}}
	for f := range w.AllFuncs {
		if f.Pkg == nil || !strings.HasPrefix(f.Pkg.Pkg.Path(), modPath) {
			continue
		}
		for _, b := range f.Blocks {
			for _, in := range b.Instrs {
				switch x := in.(type) {
				case *ssa.Store:
					if g, ok := x.Addr.(*ssa.Global); ok && f.Name() == "init" {
						r.initOf[g] = x.Val
					}
				case *ssa.MakeClosure:
					if cf, ok := x.Fn.(*ssa.Function); ok {
						r.closureParent[cf] = x
					}
				}
			}
		}
	}
	// constant names for display
	for _, p := range w.Pkgs {
		if !strings.HasSuffix(p.PkgPath, "/types") {
			continue
		}
		mod := moduleOfPkg(p.PkgPath)
		sc := p.Types.Scope()
		for _, n := range sc.Names() {
			c, ok := sc.Lookup(n).(*types.Const)
			if !ok {
				continue
			}
			ln := strings.ToLower(n)
			if !(strings.Contains(ln, "prefix") || strings.HasSuffix(ln, "byte") || strings.Contains(ln, "key")) {
				continue
			}
			switch c.Val().Kind() {
			case constant.Int:
				if v, ok := constant.Int64Val(c.Val()); ok && v >= 0 && v < 256 {
					k := fmt.Sprintf("%s:0x%02x", mod, v)
					if _, dup := r.constNames[k]; !dup {
						r.constNames[k] = n
					}
				}
			}
		}
	}
	return r
}

// moduleOfPkg: "github.com/.../x/dogfood/keeper" -> "dogfood"; nested keeper
// sub-packages (x/oracle/keeper/cache) map to their module.
func moduleOfPkg(path string) string {
	r := rel(path)
	parts := strings.Split(r, "/")
	if len(parts) >= 2 && parts[0] == "x" {
		if parts[1] == "appchain" && len(parts) >= 3 {
			return "appchain-" + parts[2]
		}
		return parts[1]
	}
	return r
}

func (r *Resolver) famName(f string) string {
	if n, ok := r.constNames[f]; ok {
		return f + "(" + n + ")"
	}
	return f
}

func isConstZero(v ssa.Value) bool {
	c, ok := v.(*ssa.Const)
	if !ok || c.Value == nil {
		return ok && c.Value == nil
	}
	if c.Value.Kind() == constant.Int {
		i, _ := constant.Int64Val(c.Value)
		return i == 0
	}
	return false
}

func unknownLead(why string) []Lead { return []Lead{{Kind: "unknown", Why: why}} }

// leadOf computes the possible leading constants of a []byte / string / byte value.
func (r *Resolver) leadOf(v ssa.Value, fr *frame, depth int, seen map[ssa.Value]bool) []Lead {
	if depth > 16 {
		return unknownLead("depth")
	}
	if seen[v] {
		return nil
	}
	seen[v] = true
	defer delete(seen, v)
	switch x := v.(type) {
	case *ssa.Const:
		if x.Value == nil {
			return []Lead{{Kind: "empty"}}
		}
		switch x.Value.Kind() {
		case constant.String:
			s := constant.StringVal(x.Value)
			if s == "" {
				return []Lead{{Kind: "empty"}}
			}
			return []Lead{{Kind: "str", S: s}}
		case constant.Int:
			i, _ := constant.Int64Val(x.Value)
			return []Lead{{Kind: "byte", B: byte(i)}}
		}
		return unknownLead("const")
	case *ssa.Convert:
		return r.leadOf(x.X, fr, depth+1, seen)
	case *ssa.ChangeType:
		return r.leadOf(x.X, fr, depth+1, seen)
	case *ssa.MakeInterface:
		return r.leadOf(x.X, fr, depth+1, seen)
	case *ssa.Slice:
		if x.Low != nil && !isConstZero(x.Low) {
			return unknownLead("resliced")
		}
		if a, ok := x.X.(*ssa.Alloc); ok {
			if _, isArr := a.Type().Underlying().(*types.Pointer).Elem().Underlying().(*types.Array); isArr {
				return r.arrayElem0(a, fr, depth, seen)
			}
		}
		return r.leadOf(x.X, fr, depth+1, seen)
	case *ssa.Phi:
		var out []Lead
		for _, e := range x.Edges {
			out = append(out, r.leadOf(e, fr, depth+1, seen)...)
		}
		return dedupLeads(out)
	case *ssa.Extract:
		if c, ok := x.Tuple.(*ssa.Call); ok {
			return r.callResultLead(c, x.Index, fr, depth, seen)
		}
		return unknownLead("extract")
	case *ssa.Call:
		return r.callResultLead(x, 0, fr, depth, seen)
	case *ssa.UnOp:
		if x.Op == token.MUL {
			switch a := x.X.(type) {
			case *ssa.Global:
				if init, ok := r.initOf[a]; ok {
					return r.leadOf(init, nil, depth+1, seen)
				}
				// initialised in a dependency (no body in the quick tier): the
				// global's own name is the family.
				return []Lead{{Kind: "str", S: "@" + a.Name()}}
			case *ssa.Alloc:
				return r.storedInto(a, fr, depth, seen)
			case *ssa.FreeVar:
				if b := r.freeVarBinding(a); b != nil {
					if al, ok := b.(*ssa.Alloc); ok {
						return r.storedInto(al, nil, depth, seen)
					}
				}
				return unknownLead("freevar")
			case *ssa.IndexAddr:
				// element of a (variadic) slice: the repo's key builders put the
				// prefix first, so the lead is that of element 0.
				return r.elem0Lead(a.X, fr, depth+1, seen)
			}
		}
		return unknownLead("unop")
	case *ssa.Parameter:
		return r.paramLead(x, fr, depth, seen)
	case *ssa.FreeVar:
		if b := r.freeVarBinding(x); b != nil {
			return r.leadOf(b, nil, depth+1, seen)
		}
		return unknownLead("freevar")
	case *ssa.Alloc:
		return r.storedInto(x, fr, depth, seen)
	}
	return unknownLead(fmt.Sprintf("%T", v))
}

// elem0Lead: lead of element 0 of a slice value built from a literal / varargs.
func (r *Resolver) elem0Lead(sl ssa.Value, fr *frame, depth int, seen map[ssa.Value]bool) []Lead {
	if depth > 16 {
		return unknownLead("depth")
	}
	switch x := sl.(type) {
	case *ssa.Slice:
		if a, ok := x.X.(*ssa.Alloc); ok {
			return r.arrayElem0(a, fr, depth, seen)
		}
	case *ssa.Parameter:
		i := r.paramIndex(x)
		if fr != nil && fr.fn == x.Parent() {
			if a := argFor(fr.site, i); a != nil {
				return r.elem0Lead(a, fr.parent, depth+1, seen)
			}
		}
		return r.overCallers(x.Parent(), i, depth, func(a ssa.Value) []Lead {
			return r.elem0Lead(a, nil, depth+2, seen)
		})
	}
	return unknownLead("slice element")
}

func dedupLeads(in []Lead) []Lead {
	m := map[string]Lead{}
	for _, l := range in {
		k := l.Kind + "|" + l.String()
		if l.Kind == "unknown" {
			k = "unknown"
		}
		if _, ok := m[k]; !ok {
			m[k] = l
		}
	}
	var keys []string
	for k := range m {
		keys = append(keys, k)
	}
	sort.Strings(keys)
	var out []Lead
	for _, k := range keys {
		out = append(out, m[k])
	}
	return out
}

func (r *Resolver) freeVarBinding(fv *ssa.FreeVar) ssa.Value {
	fn := fv.Parent()
	mc := r.closureParent[fn]
	if mc == nil {
		return nil
	}
	for i, f := range fn.FreeVars {
		if f == fv && i < len(mc.Bindings) {
			return mc.Bindings[i]
		}
	}
	return nil
}

// arrayElem0: the value stored at index 0 of a locally allocated array.
func (r *Resolver) arrayElem0(a *ssa.Alloc, fr *frame, depth int, seen map[ssa.Value]bool) []Lead {
	var out []Lead
	for _, ref := range *a.Referrers() {
		ia, ok := ref.(*ssa.IndexAddr)
		if !ok || !isConstZero(ia.Index) {
			continue
		}
		for _, r2 := range *ia.Referrers() {
			if st, ok := r2.(*ssa.Store); ok && st.Addr == ia {
				out = append(out, r.leadOf(st.Val, fr, depth+1, seen)...)
			}
		}
	}
	if len(out) == 0 {
		return unknownLead("array[0] never stored")
	}
	return dedupLeads(out)
}

// storedInto: union of values stored into a local variable's cell.
func (r *Resolver) storedInto(a *ssa.Alloc, fr *frame, depth int, seen map[ssa.Value]bool) []Lead {
	var out []Lead
	n := 0
	for _, ref := range *a.Referrers() {
		if st, ok := ref.(*ssa.Store); ok && st.Addr == a {
			n++
			out = append(out, r.leadOf(st.Val, fr, depth+1, seen)...)
		}
	}
	// closures may also store
	if n == 0 {
		return []Lead{{Kind: "empty"}} // zero value (nil slice)
	}
	// append chains on a var: `key = append(key, x...)` shows up as empty ∪ lead(x):
	// drop "empty" when a non-empty alternative exists.
	return dropEmptyIfOthers(dedupLeads(out))
}

func dropEmptyIfOthers(in []Lead) []Lead {
	has := false
	for _, l := range in {
		if l.Kind != "empty" {
			has = true
		}
	}
	if !has {
		return in
	}
	var out []Lead
	for _, l := range in {
		if l.Kind != "empty" {
			out = append(out, l)
		}
	}
	return out
}

func (r *Resolver) callResultLead(c *ssa.Call, idx int, fr *frame, depth int, seen map[ssa.Value]bool) []Lead {
	com := c.Common()
	if b, ok := com.Value.(*ssa.Builtin); ok {
		if b.Name() == "append" && len(com.Args) == 2 {
			l0 := r.leadOf(com.Args[0], fr, depth+1, seen)
			if len(l0) == 0 {
				// cyclic accumulator (`out = append(out, x...)` in a loop): the
				// first appended element supplies the lead
				return r.leadOf(com.Args[1], fr, depth+1, seen)
			}
			var out []Lead
			for _, l := range l0 {
				if l.Kind == "empty" {
					out = append(out, r.leadOf(com.Args[1], fr, depth+1, seen)...)
				} else {
					out = append(out, l)
				}
			}
			return dedupLeads(out)
		}
		return unknownLead("builtin " + b.Name())
	}
	if com.IsInvoke() {
		if com.Method.Name() == "Key" && isIteratorType(com.Value.Type()) {
			return r.iterLead(com.Value, fr, depth, seen)
		}
		if com.Method.Name() == "Bytes" {
			return unknownLead("runtime bytes")
		}
		return unknownLead("invoke " + com.Method.Name())
	}
	callee := com.StaticCallee()
	if callee == nil {
		return unknownLead("dynamic call")
	}
	if len(callee.Blocks) == 0 {
		if n := callee.Name(); strings.Contains(n, "Prefix") || strings.HasSuffix(n, "Key") {
			return []Lead{{Kind: "str", S: "@" + n}} // key constructor of a dependency
		}
		return unknownLead("runtime value from " + callee.Name())
	}
	if fr != nil && fr.depth > 6 {
		return unknownLead("call depth")
	}
	key := fmt.Sprintf("%p/%d", callee, idx)
	if r.visiting[key] {
		return nil
	}
	r.visiting[key] = true
	defer delete(r.visiting, key)
	nf := &frame{site: c, fn: callee, parent: fr}
	if fr != nil {
		nf.depth = fr.depth + 1
	}
	var out []Lead
	for _, b := range callee.Blocks {
		if ret, ok := b.Instrs[len(b.Instrs)-1].(*ssa.Return); ok && idx < len(ret.Results) {
			out = append(out, r.leadOf(ret.Results[idx], nf, depth+1, map[ssa.Value]bool{})...)
		}
	}
	// a constructor that may return (nil,false) and a real key: the nil arm is the
	// failure arm; drop empties when a real lead exists.
	return dropEmptyIfOthers(dedupLeads(out))
}

func (r *Resolver) paramIndex(p *ssa.Parameter) int {
	for i, q := range p.Parent().Params {
		if q == p {
			return i
		}
	}
	return -1
}

// argFor returns the caller-side value bound to parameter i of the callee at site.
func argFor(site ssa.CallInstruction, i int) ssa.Value {
	com := site.Common()
	if com.IsInvoke() {
		if i == 0 {
			return com.Value
		}
		if i-1 < len(com.Args) {
			return com.Args[i-1]
		}
		return nil
	}
	if i < len(com.Args) {
		return com.Args[i]
	}
	return nil
}

func (r *Resolver) paramLead(p *ssa.Parameter, fr *frame, depth int, seen map[ssa.Value]bool) []Lead {
	i := r.paramIndex(p)
	if fr != nil && fr.fn == p.Parent() {
		if a := argFor(fr.site, i); a != nil {
			return r.leadOf(a, fr.parent, depth+1, seen)
		}
		return unknownLead("arg")
	}
	// no frame: union over all callers (context-insensitive)
	return r.overCallers(p.Parent(), i, depth, func(a ssa.Value) []Lead {
		return r.leadOf(a, nil, depth+2, seen)
	})
}

func (r *Resolver) overCallers(fn *ssa.Function, i int, depth int, f func(ssa.Value) []Lead) []Lead {
	n := r.w.CG.Nodes[fn]
	if n == nil || len(n.In) == 0 {
		return unknownLead("parameter of a function without callers")
	}
	var out []Lead
	cnt := 0
	for _, e := range n.In {
		if e.Site == nil {
			continue
		}
		if a := argFor(e.Site, i); a != nil {
			cnt++
			out = append(out, f(a)...)
		}
	}
	if cnt == 0 {
		return unknownLead("no resolvable caller")
	}
	return dedupLeads(out)
}

func isIteratorType(t types.Type) bool {
	n, ok := t.(*types.Named)
	if !ok {
		return false
	}
	return n.Obj().Name() == "Iterator"
}

// iterLead: the lead of iterator.Key() = the prefix the iterator was created with.
func (r *Resolver) iterLead(it ssa.Value, fr *frame, depth int, seen map[ssa.Value]bool) []Lead {
	switch x := it.(type) {
	case *ssa.Call:
		com := x.Common()
		name := ""
		if com.IsInvoke() {
			name = com.Method.Name()
		} else if sc := com.StaticCallee(); sc != nil {
			name = sc.Name()
		}
		switch name {
		case "KVStorePrefixIterator", "KVStoreReversePrefixIterator":
			if len(com.Args) == 2 {
				return []Lead{{Kind: "unknown", Why: "iterkey"}}
			}
		case "Iterator", "ReverseIterator":
			return []Lead{{Kind: "unknown", Why: "iterkey"}}
		}
	case *ssa.Parameter, *ssa.Phi, *ssa.UnOp, *ssa.MakeInterface, *ssa.ChangeInterface:
		return []Lead{{Kind: "unknown", Why: "iterkey"}}
	}
	return []Lead{{Kind: "unknown", Why: "iterkey"}}
}

// ---------------------------------------------------------------------------

type storeInfo struct {
	Mod     string
	Raw     bool   // raw module store (no prefix.NewStore around it)
	Prefix  []Lead // when !Raw
	Unknown string
}

func (r *Resolver) storeOf(v ssa.Value, fr *frame, depth int, seen map[ssa.Value]bool) []storeInfo {
	if depth > 16 {
		return []storeInfo{{Unknown: "depth"}}
	}
	if seen[v] {
		return nil
	}
	seen[v] = true
	defer delete(seen, v)
	switch x := v.(type) {
	case *ssa.MakeInterface:
		return r.storeOf(x.X, fr, depth+1, seen)
	case *ssa.ChangeInterface:
		return r.storeOf(x.X, fr, depth+1, seen)
	case *ssa.ChangeType:
		return r.storeOf(x.X, fr, depth+1, seen)
	case *ssa.Phi:
		var out []storeInfo
		for _, e := range x.Edges {
			out = append(out, r.storeOf(e, fr, depth+1, seen)...)
		}
		return out
	case *ssa.Call:
		com := x.Common()
		if com.IsInvoke() {
			switch com.Method.Name() {
			case "KVStore", "TransientStore", "GetKVStore":
				mod := moduleOfPkg(x.Parent().Pkg.Pkg.Path())
				if com.Method.Name() == "TransientStore" {
					mod += "(transient)"
				}
				return []storeInfo{{Mod: mod, Raw: true}}
			}
			return []storeInfo{{Unknown: "invoke " + com.Method.Name()}}
		}
		callee := com.StaticCallee()
		if callee == nil {
			return []storeInfo{{Unknown: "dynamic"}}
		}
		switch callee.Name() {
		case "KVStore", "TransientStore":
			if callee.Signature.Recv() != nil && strings.HasSuffix(callee.Signature.Recv().Type().String(), "types.Context") {
				fn := x.Parent()
				for fn.Parent() != nil {
					fn = fn.Parent()
				}
				mod := moduleOfPkg(fn.Pkg.Pkg.Path())
				if callee.Name() == "TransientStore" {
					mod += "(transient)"
				}
				return []storeInfo{{Mod: mod, Raw: true}}
			}
		case "NewStore":
			if callee.Pkg != nil && strings.HasSuffix(callee.Pkg.Pkg.Path(), "store/prefix") && len(com.Args) == 2 {
				ps := r.storeOf(com.Args[0], fr, depth+1, seen)
				var out []storeInfo
				for _, p := range ps {
					if p.Unknown != "" {
						out = append(out, p)
					} else if p.Raw {
						out = append(out, storeInfo{Mod: p.Mod, Prefix: r.leadOf(com.Args[1], fr, depth+1, map[ssa.Value]bool{})})
					} else {
						out = append(out, p)
					}
				}
				return out
			}
		}
		if len(callee.Blocks) == 0 {
			return []storeInfo{{Unknown: "external " + callee.Name()}}
		}
		nf := &frame{site: x, fn: callee, parent: fr}
		if fr != nil {
			nf.depth = fr.depth + 1
			if nf.depth > 6 {
				return []storeInfo{{Unknown: "call depth"}}
			}
		}
		var out []storeInfo
		for _, b := range callee.Blocks {
			if ret, ok := b.Instrs[len(b.Instrs)-1].(*ssa.Return); ok && len(ret.Results) > 0 {
				out = append(out, r.storeOf(ret.Results[0], nf, depth+1, map[ssa.Value]bool{})...)
			}
		}
		return out
	case *ssa.Parameter:
		i := r.paramIndex(x)
		if fr != nil && fr.fn == x.Parent() {
			if a := argFor(fr.site, i); a != nil {
				return r.storeOf(a, fr.parent, depth+1, seen)
			}
		}
		n := r.w.CG.Nodes[x.Parent()]
		var out []storeInfo
		if n != nil {
			for _, e := range n.In {
				if e.Site == nil {
					continue
				}
				if a := argFor(e.Site, i); a != nil {
					out = append(out, r.storeOf(a, nil, depth+2, seen)...)
				}
			}
		}
		if len(out) == 0 {
			if depth == 0 {
				return []storeInfo{{Unknown: "store parameter without callers"}}
			}
			return nil // an uncalled caller contributes nothing
		}
		return out
	case *ssa.UnOp:
		if x.Op == token.MUL {
			switch a := x.X.(type) {
			case *ssa.Alloc:
				var out []storeInfo
				for _, ref := range *a.Referrers() {
					if st, ok := ref.(*ssa.Store); ok && st.Addr == a {
						out = append(out, r.storeOf(st.Val, fr, depth+1, seen)...)
					}
				}
				if len(out) > 0 {
					return out
				}
			case *ssa.FreeVar:
				if b := r.freeVarBinding(a); b != nil {
					if al, ok := b.(*ssa.Alloc); ok {
						var out []storeInfo
						for _, ref := range *al.Referrers() {
							if st, ok := ref.(*ssa.Store); ok && st.Addr == al {
								out = append(out, r.storeOf(st.Val, nil, depth+1, seen)...)
							}
						}
						if len(out) > 0 {
							return out
						}
					}
				}
			case *ssa.FieldAddr:
				return []storeInfo{{Unknown: "store held in a struct field"}}
			}
		}
	case *ssa.FreeVar:
		if b := r.freeVarBinding(x); b != nil {
			return r.storeOf(b, nil, depth+1, seen)
		}
	case *ssa.Field:
		return []storeInfo{{Unknown: "store held in a struct field"}}
	}
	return []storeInfo{{Unknown: fmt.Sprintf("%T", v)}}
}

// families combines store and key information.
func (r *Resolver) families(store, key ssa.Value) []string {
	sts := r.storeOf(store, nil, 0, map[ssa.Value]bool{})
	set := map[string]bool{}
	for _, s := range sts {
		switch {
		case s.Unknown != "":
			set["?store:"+s.Unknown] = true
		case !s.Raw:
			for _, l := range s.Prefix {
				if l.Kind == "unknown" || l.Kind == "empty" {
					set["?"+s.Mod+":prefix:"+l.String()] = true
				} else {
					set[s.Mod+":"+l.String()] = true
				}
			}
		default:
			if key == nil {
				set[s.Mod+":*"] = true
				continue
			}
			for _, l := range r.leadOf(key, nil, 0, map[ssa.Value]bool{}) {
				if l.Kind == "unknown" && l.Why == "iterkey" {
					set[s.Mod+":<iterkey>"] = true
				} else if l.Kind == "unknown" || l.Kind == "empty" {
					set["?"+s.Mod+":key:"+l.String()] = true
				} else {
					set[s.Mod+":"+l.String()] = true
				}
			}
		}
	}
	var out []string
	for k := range set {
		out = append(out, k)
	}
	sort.Strings(out)
	return out
}

func isKVStoreType(t types.Type) bool {
	if p, ok := t.(*types.Pointer); ok {
		t = p.Elem()
	}
	n, ok := t.(*types.Named)
	if !ok || n.Obj().Pkg() == nil {
		return false
	}
	path := n.Obj().Pkg().Path()
	switch n.Obj().Name() {
	case "KVStore":
		return strings.HasSuffix(path, "cosmos-sdk/store/types") || strings.HasSuffix(path, "cosmos-sdk/types")
	case "Store":
		return strings.HasSuffix(path, "cosmos-sdk/store/prefix")
	}
	return false
}

// accessesOf lists the direct KV accesses in one function.
func (r *Resolver) accessesOf(f *ssa.Function) []Access {
	var out []Access
	{
		root := f
		for root.Parent() != nil {
			root = root.Parent()
		}
		if root.Pkg == nil {
			return nil // synthetic: no direct store access
		}
	}
	for _, b := range f.Blocks {
		for _, in := range b.Instrs {
			ci, ok := in.(ssa.CallInstruction)
			if !ok {
				continue
			}
			com := ci.Common()
			var recv ssa.Value
			var args []ssa.Value
			name := ""
			if com.IsInvoke() {
				if !isKVStoreType(com.Value.Type()) {
					continue
				}
				recv, args, name = com.Value, com.Args, com.Method.Name()
			} else if sc := com.StaticCallee(); sc != nil {
				if sc.Signature.Recv() != nil && isKVStoreType(sc.Signature.Recv().Type()) && len(com.Args) > 0 {
					recv, args, name = com.Args[0], com.Args[1:], sc.Name()
				} else if (sc.Name() == "KVStorePrefixIterator" || sc.Name() == "KVStoreReversePrefixIterator") && len(com.Args) == 2 {
					recv, args, name = com.Args[0], com.Args[1:], "PrefixIterator"
				} else {
					continue
				}
			} else {
				continue
			}
			kind := ""
			switch name {
			case "Get", "Has":
				kind = "R"
			case "Set":
				kind = "W"
			case "Delete":
				kind = "D"
			case "Iterator", "ReverseIterator", "PrefixIterator":
				kind = "I"
			default:
				continue
			}
			var key ssa.Value
			if len(args) > 0 {
				key = args[0]
			}
			fams := r.families(recv, key)
			a := Access{Fn: f, Instr: in, Kind: kind, Families: fams}
			// store.Set(iterator.Key(), …): the key family is the iterator's; resolve it
			for i, fam := range fams {
				if strings.HasSuffix(fam, ":<iterkey>") {
					a.ViaIterKey = true
					fams[i] = r.iterFamily(f, key, strings.TrimSuffix(fam, ":<iterkey>"))
				}
			}
			out = append(out, a)
		}
	}
	return out
}

// iterFamily resolves the family of a key obtained from iterator.Key() by
// finding the iterator's creation in the same function.
func (r *Resolver) iterFamily(f *ssa.Function, key ssa.Value, mod string) string {
	// key = invoke it.Key(); it = call KVStorePrefixIterator(store, prefix)
	var itv ssa.Value
	cur := key
	for i := 0; i < 6 && cur != nil; i++ {
		switch x := cur.(type) {
		case *ssa.Call:
			if x.Common().IsInvoke() && x.Common().Method.Name() == "Key" {
				itv = x.Common().Value
			}
			cur = nil
		case *ssa.Convert:
			cur = x.X
		case *ssa.ChangeType:
			cur = x.X
		default:
			cur = nil
		}
	}
	if itv == nil {
		return "?" + mod + ":iterkey"
	}
	// peel interface conversions
	for {
		switch x := itv.(type) {
		case *ssa.MakeInterface:
			itv = x.X
			continue
		case *ssa.ChangeInterface:
			itv = x.X
			continue
		}
		break
	}
	if c, ok := itv.(*ssa.Call); ok {
		com := c.Common()
		if sc := com.StaticCallee(); sc != nil && (sc.Name() == "KVStorePrefixIterator" || sc.Name() == "KVStoreReversePrefixIterator") {
			fs := r.families(com.Args[0], com.Args[1])
			if len(fs) == 1 {
				return fs[0]
			}
		}
	}
	return "?" + mod + ":iterkey"
}

// ---------------------------------------------------------------------------
// Effect summaries (DESIGN §2.4-B).

type Effects struct {
	w      *World
	R      *Resolver
	Direct map[*ssa.Function][]Access
	Sum    map[*ssa.Function]map[string]bool         // "W dogfood:0x03"
	Own    map[*ssa.Function]map[string]bool         // unconditional direct effects (incl. external table)
	Cond   map[*ssa.Function]map[int]map[string]bool // direct effects executed only if bool param #i is true
	From   map[*ssa.Function]map[string]bool         // effects inherited from callees
	// CBParams: functions that invoke one of their own func-typed parameters
	// (Iterate*-style helpers): parameter index -> true. The callback's effects are
	// attributed to each caller's actual argument, not to the helper.
	CBParams map[*ssa.Function]map[int]bool
}

// callbackParamSite: the call invokes a func-typed parameter of its own function.
func callbackParamIdx(site ssa.CallInstruction) int {
	com := site.Common()
	if com.IsInvoke() {
		return -1
	}
	p, ok := com.Value.(*ssa.Parameter)
	if !ok {
		return -1
	}
	if _, isSig := p.Type().Underlying().(*types.Signature); !isSig {
		return -1
	}
	for i, q := range p.Parent().Params {
		if q == p {
			return i
		}
	}
	return -1
}

// flagParamOf: if instruction in lies in a region executed only when a bool
// parameter of its function is true (the `isUpdate` idiom), return that
// parameter's SSA index, else 0.
func flagParamOf(in ssa.Instruction) int {
	b := in.Block()
	f := b.Parent()
	for d := b; d != nil; d = d.Idom() {
		idom := d.Idom()
		if idom == nil {
			break
		}
		ifi, ok := idom.Instrs[len(idom.Instrs)-1].(*ssa.If)
		if !ok {
			continue
		}
		p, ok := ifi.Cond.(*ssa.Parameter)
		if !ok {
			continue
		}
		// d must be the true successor and reachable only through it
		if idom.Succs[0] == d && len(d.Preds) == 1 {
			for i, q := range f.Params {
				if q == p && i > 0 {
					return i
				}
			}
		}
	}
	return 0
}

// condOnly: effects of f that vanish when bool parameter #idx is false.
func (e *Effects) condOnly(f *ssa.Function, idx int) map[string]bool {
	out := map[string]bool{}
	for k := range e.Cond[f][idx] {
		if !e.Own[f][k] && !e.From[f][k] {
			other := false
			for j, m := range e.Cond[f] {
				if j != idx && m[k] {
					other = true
				}
			}
			if !other {
				out[k] = true
			}
		}
	}
	return out
}

// falseFlags: SSA parameter indexes of callee that receive the constant false at site.
func falseFlags(site ssa.CallInstruction, callee *ssa.Function, e *Effects) []int {
	var out []int
	for idx := range e.Cond[callee] {
		if a := argFor(site, idx); a != nil {
			if c, ok := a.(*ssa.Const); ok && c.Value != nil && c.Value.Kind() == constant.Bool && !constant.BoolVal(c.Value) {
				out = append(out, idx)
			}
		}
	}
	return out
}

// external effect table: method names of SDK keepers reached through the repo's
// expected-keeper interfaces.
var extEffectByName = map[string]string{
	"SendCoins": "W bank", "SendCoinsFromModuleToAccount": "W bank", "SendCoinsFromModuleToModule": "W bank",
	"SendCoinsFromAccountToModule": "W bank", "MintCoins": "W bank:mint", "BurnCoins": "W bank:burn",
	"DelegateCoinsFromAccountToModule": "W bank", "UndelegateCoinsFromModuleToAccount": "W bank",
	"DelegateCoins": "W bank", "UndelegateCoins": "W bank",
	"SetAccount": "W auth", "SetModuleAccount": "W auth", "RemoveAccount": "W auth",
}

func isExternalKeeperCall(ci ssa.CallInstruction) (string, bool) {
	com := ci.Common()
	var name string
	var recvT types.Type
	if com.IsInvoke() {
		name = com.Method.Name()
		recvT = com.Value.Type()
	} else if sc := com.StaticCallee(); sc != nil && sc.Signature.Recv() != nil {
		if sc.Pkg != nil && strings.HasPrefix(sc.Pkg.Pkg.Path(), modPath) {
			return "", false
		}
		name = sc.Name()
		recvT = sc.Signature.Recv().Type()
	} else {
		return "", false
	}
	eff, ok := extEffectByName[name]
	if !ok {
		return "", false
	}
	ts := recvT.String()
	if strings.Contains(ts, "Keeper") || strings.Contains(ts, "keeper") {
		return eff, true
	}
	return "", false
}

func computeEffects(w *World) *Effects {
	e := &Effects{w: w, R: newResolver(w), Direct: map[*ssa.Function][]Access{},
		Sum: map[*ssa.Function]map[string]bool{}, Own: map[*ssa.Function]map[string]bool{},
		Cond: map[*ssa.Function]map[int]map[string]bool{}, From: map[*ssa.Function]map[string]bool{},
		CBParams: map[*ssa.Function]map[int]bool{}}
	var fns []*ssa.Function
	for f := range w.AllFuncs {
		if len(f.Blocks) == 0 {
			continue
		}
		root := f
		for root.Parent() != nil {
			root = root.Parent()
		}
		if root.Pkg == nil {
			// synthetic wrappers / thunks / bound methods / instantiations: they only
			// forward to a declared method, but call-graph edges run through them
			// (interface calls resolve to the pointer-receiver wrapper), so they
			// must carry summaries too.
			fns = append(fns, f)
			continue
		}
		if !strings.HasPrefix(root.Pkg.Pkg.Path(), modPath) {
			continue
		}
		fns = append(fns, f)
	}
	sort.Slice(fns, func(i, j int) bool { return fns[i].String() < fns[j].String() })
	for _, f := range fns {
		acc := e.R.accessesOf(f)
		s := map[string]bool{}
		own := map[string]bool{}
		for i := range acc {
			a := &acc[i]
			a.CondParam = flagParamOf(a.Instr)
			for _, fam := range a.Families {
				k := a.Kind + " " + fam
				s[k] = true
				if a.CondParam > 0 {
					if e.Cond[f] == nil {
						e.Cond[f] = map[int]map[string]bool{}
					}
					if e.Cond[f][a.CondParam] == nil {
						e.Cond[f][a.CondParam] = map[string]bool{}
					}
					e.Cond[f][a.CondParam][k] = true
				} else {
					own[k] = true
				}
			}
		}
		if len(acc) > 0 {
			e.Direct[f] = acc
		}
		for _, ci := range calls(f) {
			if eff, ok := isExternalKeeperCall(ci); ok {
				s[eff] = true
				own[eff] = true
			}
		}
		e.Sum[f] = s
		e.Own[f] = own
		e.From[f] = map[string]bool{}
		for _, ci := range calls(f) {
			if idx := callbackParamIdx(ci); idx >= 0 {
				if e.CBParams[f] == nil {
					e.CBParams[f] = map[int]bool{}
				}
				e.CBParams[f][idx] = true
			}
		}
	}
	// transitive callback parameters: a wrapper that hands its own func parameter on
	// to an Iterate*-style helper is such a helper itself.
	for grew := true; grew; {
		grew = false
		for _, f := range fns {
			n := w.CG.Nodes[f]
			if n == nil {
				continue
			}
			for _, ed := range n.Out {
				cb := e.CBParams[ed.Callee.Func]
				if cb == nil || ed.Site == nil {
					continue
				}
				for idx := range cb {
					if p, ok := argFor(ed.Site, idx).(*ssa.Parameter); ok && p.Parent() == f {
						for i, q := range f.Params {
							if q == p {
								if e.CBParams[f] == nil {
									e.CBParams[f] = map[int]bool{}
								}
								if !e.CBParams[f][i] {
									e.CBParams[f][i] = true
									grew = true
								}
							}
						}
					}
				}
			}
		}
	}
	// fixpoint over the call graph
	changed := true
	for iter := 0; changed && iter < 50; iter++ {
		changed = false
		for _, f := range fns {
			s := e.Sum[f]
			from := e.From[f]
			add := func(g *ssa.Function, site ssa.CallInstruction) {
				var skip map[string]bool
				if site != nil && len(e.Cond[g]) > 0 {
					for _, idx := range falseFlags(site, g, e) {
						for k := range e.condOnly(g, idx) {
							if skip == nil {
								skip = map[string]bool{}
							}
							skip[k] = true
						}
					}
				}
				for k := range e.Sum[g] {
					if skip[k] {
						continue
					}
					if !s[k] {
						s[k] = true
						changed = true
					}
					from[k] = true
				}
			}
			if n := w.CG.Nodes[f]; n != nil {
				for _, ed := range n.Out {
					if ed.Site != nil && callbackParamIdx(ed.Site) >= 0 {
						continue // callback invocation: attributed to the callers' arguments
					}
					add(ed.Callee.Func, ed.Site)
					// actual callback arguments handed to an Iterate*-style helper
					if cb := e.CBParams[ed.Callee.Func]; cb != nil && ed.Site != nil {
						for idx := range cb {
							switch a := argFor(ed.Site, idx).(type) {
							case *ssa.MakeClosure:
								if fn, ok := a.Fn.(*ssa.Function); ok {
									add(fn, nil)
								}
							case *ssa.Function:
								add(a, nil)
							case nil:
							case *ssa.Parameter:
								if a.Parent() == f && e.CBParams[f] != nil {
									continue // passed through: attributed to f's own callers
								}
							default:
								// passed through / dynamic: fall back to the call graph's
								// (conflated) resolution of the helper's callback site
								for _, ci := range calls(ed.Callee.Func) {
									if callbackParamIdx(ci) == idx {
										for _, t := range w.siteOut[ci] {
											add(t, nil)
										}
									}
								}
							}
						}
					}
				}
			}
			for _, a := range f.AnonFuncs {
				add(a, nil)
			}
		}
	}
	return e
}

// Has reports whether f's summary contains an effect with the given kind set on
// a family satisfying pred.
func (e *Effects) Has(f *ssa.Function, kinds string, pred func(fam string) bool) bool {
	for k := range e.Sum[f] {
		if strings.ContainsRune(kinds, rune(k[0])) && pred(k[2:]) {
			return true
		}
	}
	return false
}

func (e *Effects) Writes(f *ssa.Function) bool {
	return e.Has(f, "WD", func(string) bool { return true })
}

func (e *Effects) List(f *ssa.Function, kinds string) []string {
	var out []string
	for k := range e.Sum[f] {
		if strings.ContainsRune(kinds, rune(k[0])) {
			out = append(out, k)
		}
	}
	sort.Strings(out)
	return out
}

// keyCtor describes how the key of a point access was built: the repo function
// that returned it ("types.OptOutsToFinishKey"), or an inline shape.
func (r *Resolver) keyCtor(key ssa.Value, depth int) string {
	if key == nil || depth > 6 {
		return "?"
	}
	switch x := key.(type) {
	case *ssa.Extract:
		return r.keyCtor(x.Tuple, depth+1)
	case *ssa.Call:
		com := x.Common()
		if b, ok := com.Value.(*ssa.Builtin); ok && b.Name() == "append" {
			return "inline:append(" + r.keyCtor(com.Args[0], depth+1) + ",…)"
		}
		if com.IsInvoke() {
			if com.Method.Name() == "Key" {
				return "iterator.Key"
			}
			if com.Method.Name() == "Bytes" {
				return "inline:Bytes(" + types.TypeString(com.Value.Type(), func(p *types.Package) string { return p.Name() }) + ")"
			}
			return "invoke:" + com.Method.Name()
		}
		if sc := com.StaticCallee(); sc != nil {
			if sc.Pkg != nil && strings.HasPrefix(sc.Pkg.Pkg.Path(), modPath) {
				return sc.Pkg.Pkg.Name() + "." + sc.Name()
			}
			// a conversion helper of a dependency around an inner value
			inner := ""
			if len(com.Args) > 0 {
				inner = r.keyCtor(com.Args[0], depth+1)
			}
			if sc.Signature.Recv() != nil {
				return "inline:" + sc.Name() + "(" + inner + ")"
			}
			return "inline:" + sc.Name() + "(" + inner + ")"
		}
		return "dynamic"
	case *ssa.Convert:
		return "inline:conv(" + r.keyCtor(x.X, depth+1) + ")"
	case *ssa.ChangeType:
		return r.keyCtor(x.X, depth+1)
	case *ssa.Slice:
		if _, ok := x.X.(*ssa.Alloc); ok {
			return "inline:literal"
		}
		return r.keyCtor(x.X, depth+1)
	case *ssa.Phi:
		set := map[string]bool{}
		for _, e := range x.Edges {
			set[r.keyCtor(e, depth+1)] = true
		}
		var ks []string
		for k := range set {
			ks = append(ks, k)
		}
		sort.Strings(ks)
		return strings.Join(ks, "|")
	case *ssa.Parameter:
		return "param:" + x.Name()
	case *ssa.UnOp:
		if g, ok := x.X.(*ssa.Global); ok {
			return "global:" + g.Name()
		}
		if a, ok := x.X.(*ssa.Alloc); ok {
			set := map[string]bool{}
			for _, ref := range *a.Referrers() {
				if st, ok := ref.(*ssa.Store); ok && st.Addr == a {
					set[r.keyCtor(st.Val, depth+1)] = true
				}
			}
			var ks []string
			for k := range set {
				ks = append(ks, k)
			}
			sort.Strings(ks)
			return strings.Join(ks, "|")
		}
		if fa, ok := x.X.(*ssa.FieldAddr); ok {
			return "field:" + fa.X.Type().Underlying().(*types.Pointer).Elem().Underlying().(*types.Struct).Field(fa.Field).Name()
		}
		return "load"
	case *ssa.Const:
		return "const"
	case *ssa.FreeVar:
		if b := r.freeVarBinding(x); b != nil {
			return r.keyCtor(b, depth+1)
		}
	case *ssa.Alloc:
		return "local:" + x.Comment
	case *ssa.MakeSlice:
		return "inline:make"
	case *ssa.Field:
		return "field"
	}
	return fmt.Sprintf("%T", key)
}

// accessKey returns the key operand of a KV point access instruction.
func accessKey(in ssa.Instruction) ssa.Value {
	ci, ok := in.(ssa.CallInstruction)
	if !ok {
		return nil
	}
	com := ci.Common()
	if com.IsInvoke() {
		if len(com.Args) > 0 {
			return com.Args[0]
		}
		return nil
	}
	if sc := com.StaticCallee(); sc != nil && sc.Signature.Recv() != nil {
		if len(com.Args) > 1 {
			return com.Args[1]
		}
		return nil
	}
	if len(com.Args) > 1 {
		return com.Args[1]
	}
	return nil
}
