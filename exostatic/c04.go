package main

import (
	"fmt"
	"go/ast"
	"go/types"
	"strings"
)

func init() { register("C04", runC04) }

func runC04(r *Run) {
	w := r.W
	r.Explain = "Static decision of structural necessary conditions of C04 (slashing bounded, proportional, at-risk only, once): one proportion value, derived from power*factor/current value (isForSlash=true) and capped at 1, multiplies every pool and every at-risk undelegation; per-item truncation with the undelegation measured on its original Amount and clamped to what is left; the at-risk filter compares the record's start height with the infraction height using `<` (skip) and the filter value is used for nothing else; the slash path writes only the operator pools, the undelegation records and the share-zeroing families and no bank balance; the recorded amounts are the subtracted values; the duplicate-ID check precedes the commit; parameter guards dominate the execution."
	r.NotDec = []string{"numerical proportionality at run time", "that p equals power*factor/current value beyond the dataflow shape", "undelegations started in the executing block when infraction height == current height (guarded by SlashEventHeight < BlockHeight; unreachable for dogfood evidence)"}
	r.Assume = []string{"sdk Dec.MulInt/TruncateInt/Quo and LegacyMinDec have their documented meaning"}
	r.rule("C04.R1", "SlashAssets: a single proportion variable = LegacyMinDec(1, power*factor / CalculateUSDValueForOperator(isForSlash=true).StakingAndWaitUnbonding) is the multiplier of every pool and the argument of SlashFromUndelegation", 4)
	r.rule("C04.R1c", "CalculateUSDValueForOperator: on the isForSlash arm the accumulated value is TotalAmount+PendingUndelegationAmount of every pool and no nil-returning exit of the per-pool callback precedes the accumulation", 2)
	r.rule("C04.R2", "per-item MulInt(x).TruncateInt(); an undelegation is measured on its original Amount, clamped to ActualCompletedAmount, and only ever decreased", 5)
	r.rule("C04.R3", "at-risk filter: IterateUndelegationsByOperator receives &uint64(SlashEventHeight); it skips exactly records with BlockHeight < *filter and uses the filter for nothing else", 4)
	r.rule("C04.R4", "SlashAssets writes only operator pools, undelegation records and the share-zeroing families; no bank effect, no staker balance write", 1)
	r.rule("C04.R5", "the recorded execution amounts are the same values that are subtracted", 2)
	r.rule("C04.R6", "Slash: cache-context discipline (the duplicate-ID / record check happens before the commit; nothing fails after it)", 4)
	r.rule("C04.R7", "CheckSlashParameter (non-negative proportion, event height <= current height) dominates SlashAssets", 3)
	r.rule("C04.R8", "frame condition in the callees: slashed records/pools are written back through the iterator helpers; the share-zeroing after a pool-emptying slash changes only UndelegatableShare", 5)
	// a slash factor of exactly one is a legal slash: the record check rejects only factors above one (a rejected
	// record drops the whole slash, which ran in the same cache context)
	if uv := w.View("x/operator/keeper", "Keeper.UpdateOperatorSlashInfo"); uv != nil {
		isOne := func(e ast.Expr) bool {
			s := exprString(e)
			return strings.HasSuffix(s, "NewDec(1)") || strings.HasSuffix(s, "OneDec()")
		}
		okUpper := uv.rejectsWhen(uv.Decl.Body, func(f Fact) bool {
			c, isC := factCmp(f)
			return isC && c.Op == ">" && lastField(c.L) == "SlashProportion" && isOne(c.R)
		}, nil)
		tooStrict := uv.rejectsWhen(uv.Decl.Body, func(f Fact) bool {
			c, isC := factCmp(f)
			return isC && c.Op == ">=" && lastField(c.L) == "SlashProportion" && isOne(c.R)
		}, nil)
		r.check(okUpper && !tooStrict, "C04.R8", "slash-record|factor-range", uv.pos(uv.Decl), "a slash record is rejected for a factor above one, and not for a factor of exactly one", "UpdateOperatorSlashInfo does not reject exactly the factors above one: a slash with factor 1 executes, its record is refused, the cache context is dropped and nothing is removed or recorded")
	} else {
		r.bad("C04.R8", "slash-record|factor-range", "-", "anchor", "UpdateOperatorSlashInfo not found")
	}
	// the shares of a pool slashed to zero are cleared through the staker list only when there is one (a pool
	// emptied by an earlier slash has none; asking for it fails and would abort every later slash of the operator)
	if sv := w.View("x/operator/keeper", "Keeper.SlashAssets"); sv != nil {
		ok, n := true, 0
		for _, c := range sv.CallsNamed("GetStakersByOperator") {
			n++
			if sv.GuardedBy(c, byName("HasStakerList"), true) == nil {
				ok = false
			}
		}
		r.check(ok && n >= 1, "C04.R8", "SlashAssets|staker-list-guarded", sv.pos(sv.Decl), "the staker list of a pool is read only when HasStakerList says it exists", "SlashAssets reads the staker list of an emptied pool without HasStakerList: for a pool without a list the read fails and the whole slash aborts, so the operator can no longer be slashed")
	}
	// every pool of the operator is slashed: the pool iteration of SlashAssets gets no asset filter
	if sv := w.View("x/operator/keeper", "Keeper.SlashAssets"); sv != nil {
		okNil := false
		for _, c := range sv.CallsNamed("IterateAssetsForOperator") {
			if len(c.Args) == 5 && isNilIdent(sv.Info, c.Args[3]) && exprString(c.Args[1]) == "true" {
				okNil = true
			}
		}
		r.check(okNil, "C04.R8", "SlashAssets|all-pools", sv.pos(sv.Decl), "the same fraction is removed from each of the operator's pools (no asset filter)", "SlashAssets iterates the operator's pools with an asset filter: pools outside it keep their full amount although they count in the proportion's denominator")
	}
	iteratorWriteBackRule(r, "C04.R8", map[string]bool{"IterateUndelegationsByOperator": true, "IterateAssetsForOperator": true})
	shareZeroingRule(r, "C04.R8")

	sa := w.View("x/operator/keeper", "Keeper.SlashAssets")
	su := w.View("x/operator/keeper", "SlashFromUndelegation")
	sl := w.View("x/operator/keeper", "Keeper.Slash")
	cu := w.View("x/operator/keeper", "Keeper.CalculateUSDValueForOperator")
	it := w.View("x/delegation/keeper", "Keeper.IterateUndelegationsByOperator")
	cp := w.View("x/operator/keeper", "Keeper.CheckSlashParameter")
	for name, v := range map[string]*FnView{"SlashAssets": sa, "SlashFromUndelegation": su, "Slash": sl, "CalculateUSDValueForOperator": cu, "IterateUndelegationsByOperator": it, "CheckSlashParameter": cp} {
		if v == nil {
			r.bad("C04.R1", "anchor:"+name, "-", "anchor function", "anchor "+name+" not found (moved or renamed)")
			return
		}
		r.saw(v.ID())
	}

	// ---- R1
	var P types.Object // the proportion variable
	var muls []*ast.CallExpr
	for _, c := range allCalls(sa.Decl.Body) {
		if _, name, _, ok := methodCall(c); ok && name == "MulInt" {
			muls = append(muls, c)
		}
	}
	for _, c := range sa.CallsNamed("SlashFromUndelegation") {
		if len(c.Args) == 2 {
			P = sa.objOf(c.Args[1])
		}
	}
	if P == nil {
		r.bad("C04.R1", "proportion", sa.pos(sa.Decl), "proportion variable", "SlashFromUndelegation is not called with an identifier proportion")
	} else {
		okMul := len(muls) >= 1
		for _, c := range muls {
			recv, _, _, _ := methodCall(c)
			if !sa.isObjOrAlias(recv, P, 0) {
				okMul = false
				r.bad("C04.R1", "multiplier@"+exprString(c), sa.pos(c), "same fraction everywhere", "a pool is multiplied by "+exprString(recv)+", not by the proportion passed to SlashFromUndelegation")
			}
		}
		if okMul {
			r.ok("C04.R1", "multiplier", sa.pos(sa.Decl), fmt.Sprintf("%d MulInt sites use the one proportion variable", len(muls)))
		}
		defs := sa.defsOf(P)
		quoOK, capOK := false, false
		var quoDen, quoNum ast.Expr
		for _, d := range defs {
			if recv, name, args, ok := methodCall(d); ok && name == "Quo" && len(args) == 1 {
				quoNum, quoDen = recv, args[0]
				quoOK = true
			}
			if name, args, ok := funcCallName(d); ok && name == "LegacyMinDec" && len(args) == 2 {
				one, other := args[0], args[1]
				if sa.isObjOrAlias(one, P, 0) {
					one, other = other, one
				}
				if n, a, ok := funcCallName(one); ok && (n == "LegacyNewDec" || n == "LegacyOneDec" || n == "OneDec") && (len(a) == 0 || exprString(a[0]) == "1") && sa.isObjOrAlias(other, P, 0) {
					capOK = true
				}
			}
		}
		r.check(len(defs) == 2 && quoOK && capOK, "C04.R1", "definition", sa.pos(sa.Decl), "proportion = min(1, value/current)",
			fmt.Sprintf("the proportion variable has %d definitions; expected exactly X.Quo(Y) followed by LegacyMinDec(1, p)", len(defs)))
		if quoOK {
			// denominator: <S>.StakingAndWaitUnbonding with S from CalculateUSDValueForOperator(ctx, true, …)
			denOK := false
			if lastField(quoDen) == "StakingAndWaitUnbonding" {
				if id := rootIdent(quoDen); id != nil {
					for _, d := range sa.resolveDefs(id, 0) {
						if c, ok := stripParens(d).(*ast.CallExpr); ok && sa.calleeName(c) == "CalculateUSDValueForOperator" && len(c.Args) >= 2 && exprString(c.Args[1]) == "true" {
							denOK = true
						}
					}
				}
			}
			r.check(denOK, "C04.R1", "denominator", sa.pos(quoDen), "denominator is the current value including unbonding stake (isForSlash=true)",
				"the divisor is not CalculateUSDValueForOperator(ctx, true, …).StakingAndWaitUnbonding")
			// numerator: LegacyNewDec(parameter.Power).Mul(parameter.SlashProportion)
			numOK := false
			num := quoNum
			if o := sa.objOf(num); o != nil {
				if ds := sa.defsOf(o); len(ds) == 1 {
					num = ds[0]
				}
			}
			if recv, name, args, ok := methodCall(num); ok && name == "Mul" && len(args) == 1 {
				s := exprString(recv) + "|" + exprString(args[0])
				if strings.Contains(s, ".Power") && strings.Contains(s, ".SlashProportion") {
					numOK = true
				}
			}
			r.check(numOK, "C04.R1", "numerator", sa.pos(quoNum), "numerator is power x slash factor", "the numerator is not Dec(parameter.Power).Mul(parameter.SlashProportion)")
		}
	}
	// ---- R1c
	{
		var isForSlash types.Object
		for _, fl := range cu.Decl.Type.Params.List {
			for _, n := range fl.Names {
				if n.Name == "isForSlash" || (types.Identical(cu.Info.TypeOf(fl.Type), types.Typ[types.Bool])) {
					isForSlash = cu.Info.ObjectOf(n)
				}
			}
		}
		var acc *ast.AssignStmt
		for _, as := range cu.assignmentsToField(cu.Decl.Body, "StakingAndWaitUnbonding") {
			acc = as
		}
		if acc == nil || isForSlash == nil {
			r.bad("C04.R1c", "accumulation", cu.pos(cu.Decl), "accumulation statement", "no assignment to StakingAndWaitUnbonding found")
		} else {
			s := exprString(acc.Rhs[0])
			both := strings.Contains(s, "TotalAmount") && strings.Contains(s, "PendingUndelegationAmount") && strings.Contains(s, ".Add(")
			r.check(both, "C04.R1c", "summand", cu.pos(acc), "value at risk = TotalAmount + PendingUndelegationAmount", "the slash base omits the pool amount or the unbonding amount: "+s)
			fl := cu.enclosingFuncLit(acc)
			bad := []string{}
			if fl != nil {
				ast.Inspect(fl.Body, func(n ast.Node) bool {
					rs, ok := n.(*ast.ReturnStmt)
					if !ok || len(rs.Results) != 1 || !isNilIdent(cu.Info, rs.Results[0]) {
						return true
					}
					if rs.Pos() > acc.Pos() && cu.reaches(acc, rs) {
						return true
					}
					// allowed when not for slash
					notSlash := false
					for _, f := range cu.FactsAt(rs, true) {
						if id, ok := stripParens(f.Atom).(*ast.Ident); ok && cu.Info.ObjectOf(id) == isForSlash && !f.Truth {
							notSlash = true
						}
					}
					if !notSlash {
						bad = append(bad, cu.pos(rs))
					}
					return true
				})
			}
			r.check(len(bad) == 0 && fl != nil, "C04.R1c", "no-skip", cu.pos(acc), "every pool contributes to the slash base", "the per-pool callback can return nil before accumulating the pool's value on the isForSlash arm (pool skipped): "+strings.Join(bad, ","))
		}
	}
	// ---- R2
	{
		// undelegation
		var und types.Object
		if ps := su.Decl.Type.Params.List; len(ps) > 0 && len(ps[0].Names) > 0 {
			und = su.Info.ObjectOf(ps[0].Names[0])
		}
		var slashAmt types.Object
		n := 0
		for _, c := range allCalls(su.Decl.Body) {
			recv, name, args, ok := methodCall(c)
			if !ok || name != "TruncateInt" {
				continue
			}
			_, n2, a2, ok2 := methodCall(recv)
			if !ok2 || n2 != "MulInt" || len(a2) != 1 {
				continue
			}
			n++
			onAmount := lastField(a2[0]) == "Amount" && su.objOf(rootIdent(a2[0])) == und
			r.check(onAmount, "C04.R2", "undelegation|base", su.pos(c), "slash of an undelegation is measured on its original Amount", "the multiplicand is "+exprString(a2[0])+", not the record's original Amount")
			_ = args
			// the variable it is assigned to
			if as, ok := su.parent(c).(*ast.AssignStmt); ok && len(as.Lhs) == 1 {
				slashAmt = su.objOf(as.Lhs[0])
			}
		}
		if n == 0 {
			r.bad("C04.R2", "undelegation|base", su.pos(su.Decl), "truncating multiplication", "no MulInt(...).TruncateInt() in SlashFromUndelegation")
		}
		// clamp and only-decrease: every assignment to ActualCompletedAmount is zero or ACA.Sub(slashAmt) under slashAmt < ACA
		okAll, cnt := true, 0
		for _, as := range su.assignmentsToField(su.Decl.Body, "ActualCompletedAmount") {
			cnt++
			rhs := as.Rhs[0]
			if name, args, ok := funcCallName(rhs); ok && (name == "NewInt" || name == "ZeroInt") && (len(args) == 0 || exprString(args[0]) == "0") {
				continue
			}
			recv, name, args, ok := methodCall(rhs)
			good := false
			if ok && name == "Sub" && len(args) == 1 && lastField(recv) == "ActualCompletedAmount" && su.objOf(args[0]) == slashAmt && slashAmt != nil {
				for _, f := range su.FactsAt(as, false) {
					if c, ok := factCmp(f); ok {
						l, rr, op := c.L, c.R, c.Op
						if lastField(l) == "ActualCompletedAmount" {
							l, rr, op = rr, l, flipOp(op)
						}
						if su.objOf(l) == slashAmt && lastField(rr) == "ActualCompletedAmount" && (op == "<" || op == "<=") {
							good = true
						}
					}
				}
			}
			if !good {
				okAll = false
			}
		}
		r.check(okAll && cnt >= 1, "C04.R2", "undelegation|clamp", su.pos(su.Decl), "ActualCompletedAmount only decreases and never below zero", "an assignment to ActualCompletedAmount is not `0` or `ACA.Sub(slashAmount)` under slashAmount < ACA")
		// clamp assigns slashAmount = ACA on the >= arm
		clampOK := false
		ast.Inspect(su.Decl.Body, func(nd ast.Node) bool {
			as, ok := nd.(*ast.AssignStmt)
			if !ok || len(as.Lhs) != 1 || su.objOf(as.Lhs[0]) != slashAmt || slashAmt == nil || lastField(as.Rhs[0]) != "ActualCompletedAmount" {
				return true
			}
			for _, f := range su.FactsAt(as, false) {
				if c, ok := factCmp(f); ok && su.objOf(c.L) == slashAmt && lastField(c.R) == "ActualCompletedAmount" && (c.Op == ">=" || c.Op == ">") {
					clampOK = true
				}
			}
			return true
		})
		r.check(clampOK, "C04.R2", "undelegation|cap", su.pos(su.Decl), "the slash amount is capped by what is left of the undelegation", "no `slashAmount = ActualCompletedAmount` under slashAmount >= ActualCompletedAmount")
		// pools
		nPool := 0
		for _, c := range muls {
			_, _, a, _ := methodCall(c)
			outer, _ := sa.parent(sa.parent(c)).(*ast.CallExpr)
			trunc := false
			if outer != nil {
				if _, nm, _, ok := methodCall(outer); ok && nm == "TruncateInt" {
					trunc = true
				}
			}
			nPool++
			r.check(trunc && len(a) == 1 && lastField(a[0]) == "TotalAmount", "C04.R2", fmt.Sprintf("pool|truncate#%d", nPool), sa.pos(c), "pool slash = truncate(p x TotalAmount)", "pool slash is not p.MulInt(state.TotalAmount).TruncateInt(): "+exprString(c))
		}
		// TotalAmount assigned remaining = TotalAmount.Sub(slashAmount)
		okRem := false
		for _, as := range sa.assignmentsToField(sa.Decl.Body, "TotalAmount") {
			rhs := as.Rhs[0]
			if o := sa.objOf(rhs); o != nil {
				if ds := sa.defsOf(o); len(ds) == 1 {
					rhs = ds[0]
				}
			}
			if recv, name, args, ok := methodCall(rhs); ok && name == "Sub" && lastField(recv) == "TotalAmount" && len(args) == 1 {
				if o := sa.objOf(args[0]); o != nil {
					for _, d := range sa.defsOf(o) {
						if strings.Contains(exprString(d), "MulInt") && strings.Contains(exprString(d), "TruncateInt") {
							okRem = true
						}
					}
				}
			}
		}
		r.check(okRem, "C04.R2", "pool|remaining", sa.pos(sa.Decl), "pool after slash = TotalAmount - truncated slash amount", "state.TotalAmount is not assigned TotalAmount.Sub(<truncated slash amount>)")
	}
	// ---- R3
	{
		okArg := false
		for _, c := range sa.CallsNamed("IterateUndelegationsByOperator") {
			if len(c.Args) >= 3 {
				if u, ok := stripParens(c.Args[2]).(*ast.UnaryExpr); ok {
					if o := sa.objOf(u.X); o != nil {
						for _, d := range sa.defsOf(o) {
							if strings.Contains(exprString(d), "SlashEventHeight") && !strings.ContainsAny(exprString(d), "+-") {
								okArg = true
							}
						}
					}
				}
			}
		}
		r.check(okArg, "C04.R3", "filter-argument", sa.pos(sa.Decl), "filter = &uint64(parameter.SlashEventHeight), no arithmetic", "IterateUndelegationsByOperator is not given the plain infraction height as filter")
		var hf types.Object
		for _, fl := range it.Decl.Type.Params.List {
			if _, isPtr := it.Info.TypeOf(fl.Type).(*types.Pointer); isPtr && len(fl.Names) == 1 && strings.Contains(strings.ToLower(fl.Names[0].Name), "height") {
				hf = it.Info.ObjectOf(fl.Names[0])
			}
		}
		if hf == nil {
			r.bad("C04.R3", "filter-parameter", it.pos(it.Decl), "height filter parameter", "no *uint64 height filter parameter found")
		} else {
			// uses of the filter: nil comparison and one `<` skip
			uses, nilCmp, skip := 0, 0, 0
			ast.Inspect(it.Decl.Body, func(n ast.Node) bool {
				if id, ok := n.(*ast.Ident); ok && it.Info.ObjectOf(id) == hf {
					uses++
				}
				return true
			})
			ast.Inspect(it.Decl.Body, func(n ast.Node) bool {
				if be, ok := n.(*ast.BinaryExpr); ok {
					if it.objOf(be.X) == hf && isNilIdent(it.Info, be.Y) {
						nilCmp++
					}
				}
				if br, ok := n.(*ast.BranchStmt); ok && br.Tok.String() == "continue" {
					for _, f := range it.factsAt(br, false) {
						if c, ok := factCmp(f); ok {
							l, rr, op := c.L, c.R, c.Op
							if st, isStar := stripParens(l).(*ast.StarExpr); isStar && it.objOf(st.X) == hf {
								l, rr, op = rr, l, flipOp(op)
							}
							if st, isStar := stripParens(rr).(*ast.StarExpr); isStar && it.objOf(st.X) == hf && lastField(l) == "BlockHeight" {
								if op == "<" {
									skip++
								} else {
									skip = -100
								}
							}
						}
					}
				}
				return true
			})
			r.check(skip == 1, "C04.R3", "skip-class", it.pos(it.Decl), "records are skipped exactly when BlockHeight < *filter (so 'started at or after' is slashed)",
				"the skip condition is not a single `keyFields.BlockHeight < *heightFilter` (comparison class changed or check removed)")
			r.check(uses == nilCmp+1 && nilCmp >= 1, "C04.R3", "filter-uses", it.pos(it.Decl), "the filter is used only for the nil test and the skip comparison",
				fmt.Sprintf("the height filter has %d uses (nil tests: %d): it also feeds something else (e.g. an iterator bound, which is not height-ordered for hex keys)", uses, nilCmp))
			// the parsed key comes from iterator.Key()
			keyOK := false
			for _, c := range it.CallsNamed("ParseUndelegationRecordKey") {
				if len(c.Args) == 1 && strings.HasSuffix(exprString(c.Args[0]), ".Key()") {
					keyOK = true
				}
			}
			r.check(keyOK, "C04.R3", "key-source", it.pos(it.Decl), "the compared height is parsed from the record's own key", "BlockHeight is not parsed from iterator.Key()")
		}
	}
	// ---- R4
	{
		fn := w.Fn("x/operator/keeper", "Keeper.SlashAssets")
		allowed := map[string]bool{"assets:0x04": true, "delegation:0x03": true, "delegation:0x01": true, "delegation:0x02": true}
		var extra []string
		for _, k := range effects(w).List(fn, "WD") {
			if !allowed[k[2:]] {
				extra = append(extra, k)
			}
		}
		r.check(len(extra) == 0, "C04.R4", "effects", sa.pos(sa.Decl), "slash execution writes only pools, undelegation records and share-zeroing state",
			"SlashAssets has write effects outside the slash's remit: "+strings.Join(extra, ", "))
	}
	// ---- R5
	{
		okPool := false
		for _, cl := range sa.compositeLits(sa.Decl.Body, "SlashFromAssetsPool") {
			if a := compositeField(cl, "Amount"); a != nil {
				if o := sa.objOf(a); o != nil {
					for _, d := range sa.defsOf(o) {
						if strings.Contains(exprString(d), "MulInt") {
							okPool = true
						}
					}
				}
			}
		}
		r.check(okPool, "C04.R5", "pool", sa.pos(sa.Decl), "recorded pool amount is the subtracted slash amount", "SlashFromAssetsPool.Amount is not the truncated slash amount variable")
		okU := false
		for _, cl := range su.compositeLits(su.Decl.Body, "SlashFromUndelegation") {
			if a := compositeField(cl, "Amount"); a != nil {
				if o := su.objOf(a); o != nil {
					// the same variable that is subtracted from ActualCompletedAmount
					for _, as := range su.assignmentsToField(su.Decl.Body, "ActualCompletedAmount") {
						if _, name, args, ok := methodCall(as.Rhs[0]); ok && name == "Sub" && len(args) == 1 && su.objOf(args[0]) == o {
							okU = true
						}
					}
				}
			}
		}
		r.check(okU, "C04.R5", "undelegation", su.pos(su.Decl), "recorded undelegation amount is the subtracted slash amount", "SlashFromUndelegation.Amount is not the variable subtracted from ActualCompletedAmount")
	}
	// ---- R6
	{
		var sites []*ccSite
		for _, s := range ccSites(w, func(rf string) bool { return rf == "x/operator/keeper/slash.go" }) {
			if s.V.Obj == sl.Obj {
				sites = append(sites, s)
			}
		}
		if len(sites) == 0 {
			r.bad("C04.R6", "Slash|cachectx", sl.pos(sl.Decl), "slash executes in a cache context", "Slash no longer uses a cache context")
		}
		cacheCtxRule(r, "C04.R6", sites)
		// the record (duplicate-ID check) goes through the cache context
		for _, c := range sl.CallsNamed("UpdateOperatorSlashInfo") {
			usesCC := false
			for _, s := range sites {
				if s.CC != nil && sl.argIsObj(c, s.CC) {
					usesCC = true
				}
			}
			r.check(usesCC, "C04.R6", "Slash|record-in-cache", sl.pos(c), "the slash record (duplicate-ID check) is written in the same cache context", "UpdateOperatorSlashInfo does not run in the slash's cache context")
		}
	}
	// ---- R7
	{
		for _, c := range sl.CallsNamed("SlashAssets") {
			r.check(sl.GuardedBy(c, byName("CheckSlashParameter"), true) != nil, "C04.R7", "Slash|checked", sl.pos(c), "CheckSlashParameter succeeded before SlashAssets", "SlashAssets is reachable without a successful CheckSlashParameter")
		}
		// CheckSlashParameter: nil only if proportion non-nil/non-negative and event height <= current
		okNeg, okH := true, true
		nRet := 0
		ast.Inspect(cp.Decl.Body, func(n ast.Node) bool {
			rs, ok := n.(*ast.ReturnStmt)
			if !ok || len(rs.Results) != 1 || !isNilIdent(cp.Info, rs.Results[0]) {
				return true
			}
			nRet++
			neg, h := false, false
			for _, f := range cp.FactsAt(rs, false) {
				if c, ok := stripParens(f.Atom).(*ast.CallExpr); ok {
					if _, name, _, ok := methodCall(c); ok && name == "IsNegative" && !f.Truth && strings.Contains(exprString(c), "SlashProportion") {
						neg = true
					}
				}
				if c, ok := factCmp(f); ok && strings.Contains(exprString(c.L), "SlashEventHeight") && c.Op == "<=" {
					// the bound is the current block height itself, no arithmetic
					for _, d := range cp.resolveDefs(c.R, 0) {
						if strings.HasSuffix(exprString(d), ".BlockHeight()") {
							h = true
						}
					}
				}
			}
			if !neg {
				okNeg = false
			}
			if !h {
				okH = false
			}
			return true
		})
		r.check(okNeg && nRet > 0, "C04.R7", "CheckSlashParameter|proportion", cp.pos(cp.Decl), "a negative proportion is rejected", "CheckSlashParameter can return nil for a negative SlashProportion")
		r.check(okH && nRet > 0, "C04.R7", "CheckSlashParameter|height", cp.pos(cp.Decl), "an event height above the current height is rejected", "CheckSlashParameter can return nil for SlashEventHeight > current height")
	}
}
