package main

import (
	"fmt"
	"go/ast"
	"go/types"
	"sort"
	"strings"
)

// C08.R6 -- stored protobuf messages encode deterministically.
//
// gogoproto's generated MarshalToSizedBuffer writes a map field by ranging over the Go map unless the message
// was generated with the stable-marshaler option (which collects and sorts the keys first). A message with
// such a field that is written to the KV store has node-dependent bytes as soon as the map holds two entries.
// The rule finds every map field of a generated message whose marshaller ranges the map directly, keeps
// those whose message is (transitively) part of a value that keeper code marshals for the store, and asks
// whether the field can be populated: set by in-scope code, or carried in by a transaction message that has a
// live handler. What is decided is the shape (unsorted range + stored + populatable); that two nodes really
// iterate in different orders is Go's map semantics.

type pbMapField struct {
	owner *types.Named
	field *types.Var
	pos   string
}

func c08ProtoMaps(r *Run) {
	w := r.W
	// 1. map fields marshalled in map order
	var fields []pbMapField
	for _, p := range w.Pkgs {
		for _, f := range p.Syntax {
			rel := w.relFile(f.Pos())
			if !strings.HasSuffix(rel, ".pb.go") || !strings.HasPrefix(rel, "x/") {
				continue
			}
			for _, d := range f.Decls {
				fd, ok := d.(*ast.FuncDecl)
				if !ok || fd.Name.Name != "MarshalToSizedBuffer" || fd.Recv == nil || fd.Body == nil {
					continue
				}
				recvT := p.TypesInfo.TypeOf(fd.Recv.List[0].Type)
				if pt, isP := recvT.(*types.Pointer); isP {
					recvT = pt.Elem()
				}
				named, isN := recvT.(*types.Named)
				if !isN {
					continue
				}
				ast.Inspect(fd.Body, func(n ast.Node) bool {
					rs, isR := n.(*ast.RangeStmt)
					if !isR {
						return true
					}
					sel, isSel := stripParens(rs.X).(*ast.SelectorExpr)
					if !isSel {
						return true
					}
					fo, isF := p.TypesInfo.Uses[sel.Sel].(*types.Var)
					if !isF || !fo.IsField() {
						return true
					}
					if _, isMap := fo.Type().Underlying().(*types.Map); !isMap {
						return true
					}
					// the range body writes the output buffer directly (the stable marshaller only collects keys)
					writes := false
					ast.Inspect(rs.Body, func(m ast.Node) bool {
						if as, isAs := m.(*ast.AssignStmt); isAs {
							for _, l := range as.Lhs {
								if ix, isIx := l.(*ast.IndexExpr); isIx && exprString(ix.X) == "dAtA" {
									writes = true
								}
							}
						}
						if c, isC := m.(*ast.CallExpr); isC && len(c.Args) > 0 && exprString(c.Args[0]) == "dAtA" {
							writes = true
						}
						return true
					})
					if writes {
						fields = append(fields, pbMapField{named, fo, w.pos(rs.Pos())})
					}
					return true
				})
			}
		}
	}
	sort.Slice(fields, func(i, j int) bool {
		return fields[i].owner.Obj().Name()+fields[i].field.Name() < fields[j].owner.Obj().Name()+fields[j].field.Name()
	})
	// 2. types marshalled for the store by keeper code
	stored := map[*types.Named]string{}
	contains := func(root types.Type, visit func(*types.Named)) {
		seen := map[types.Type]bool{}
		var walk func(t types.Type)
		walk = func(t types.Type) {
			if t == nil || seen[t] {
				return
			}
			seen[t] = true
			switch x := t.(type) {
			case *types.Pointer:
				walk(x.Elem())
			case *types.Slice:
				walk(x.Elem())
			case *types.Array:
				walk(x.Elem())
			case *types.Map:
				walk(x.Elem())
			case *types.Named:
				visit(x)
				if st, ok := x.Underlying().(*types.Struct); ok {
					for i := 0; i < st.NumFields(); i++ {
						walk(st.Field(i).Type())
					}
				}
			}
		}
		walk(root)
	}
	for _, v := range w.allViews() {
		rel := w.relFile(v.Decl.Pos())
		if !inScopeFile(rel) || !strings.Contains(rel, "/keeper/") || strings.Contains(rel, "grpc_query") || strings.Contains(rel, "query_") {
			continue
		}
		writesStore := len(v.CallsNamed("Set")) > 0
		if !writesStore {
			continue
		}
		for _, c := range v.CallsNamed("MustMarshal", "Marshal", "MustMarshalLengthPrefixed") {
			var arg ast.Expr
			if len(c.Args) == 1 {
				arg = c.Args[0]
			} else if sel, isSel := c.Fun.(*ast.SelectorExpr); isSel && len(c.Args) == 0 {
				arg = sel.X
			}
			if arg == nil {
				continue
			}
			contains(v.Info.TypeOf(arg), func(n *types.Named) {
				if _, seen := stored[n]; !seen {
					stored[n] = v.ID() + " at " + v.pos(c)
				}
			})
		}
	}
	// 3. transaction messages with a live handler
	msgCarried := map[*types.Named]string{}
	for _, v := range w.allViews() {
		if !inScopeFile(w.relFile(v.Decl.Pos())) || v.Decl.Recv == nil || v.Decl.Type.Params.NumFields() != 2 || v.Decl.Body == nil {
			continue
		}
		// a msg-server method: (ctx, *Req) (*Resp, error) with a body that is not just `panic(...)`
		if len(v.Decl.Body.List) == 1 {
			if es, isE := v.Decl.Body.List[0].(*ast.ExprStmt); isE {
				if c, isC := es.X.(*ast.CallExpr); isC && exprString(c.Fun) == "panic" {
					continue
				}
			}
		}
		if len(v.Decl.Body.List) == 2 {
			if es, isE := v.Decl.Body.List[1].(*ast.ExprStmt); isE {
				if c, isC := es.X.(*ast.CallExpr); isC && exprString(c.Fun) == "panic" {
					continue
				}
			}
		}
		pt := v.Info.TypeOf(v.Decl.Type.Params.List[len(v.Decl.Type.Params.List)-1].Type)
		ptr, isP := pt.(*types.Pointer)
		if !isP {
			continue
		}
		req, isN := ptr.Elem().(*types.Named)
		if !isN || !(strings.HasPrefix(req.Obj().Name(), "Msg") || strings.HasSuffix(req.Obj().Name(), "Req")) {
			continue
		}
		contains(req, func(n *types.Named) {
			if _, seen := msgCarried[n]; !seen {
				msgCarried[n] = req.Obj().Name() + " handled by " + v.ID()
			}
		})
	}
	// 4. fields set by in-scope code
	setByCode := map[*types.Var]string{}
	for _, v := range w.allViews() {
		if !inScopeFile(w.relFile(v.Decl.Pos())) {
			continue
		}
		ast.Inspect(v.Decl.Body, func(n ast.Node) bool {
			switch x := n.(type) {
			case *ast.KeyValueExpr:
				if id, ok := x.Key.(*ast.Ident); ok {
					if fo, isF := v.Info.Uses[id].(*types.Var); isF && fo.IsField() && !isNilIdent(v.Info, x.Value) {
						if _, seen := setByCode[fo]; !seen {
							setByCode[fo] = v.pos(x)
						}
					}
				}
			case *ast.AssignStmt:
				for _, l := range x.Lhs {
					e := stripParens(l)
					if ix, isIx := e.(*ast.IndexExpr); isIx {
						e = stripParens(ix.X)
					}
					if sel, isSel := e.(*ast.SelectorExpr); isSel {
						if fo, isF := v.Info.Uses[sel.Sel].(*types.Var); isF && fo.IsField() {
							if _, seen := setByCode[fo]; !seen {
								setByCode[fo] = v.pos(x)
							}
						}
					}
				}
			}
			return true
		})
	}
	n := 0
	for _, f := range fields {
		where, isStored := stored[f.owner]
		name := w.relPkg(f.owner.Obj().Pkg().Path()) + "." + f.owner.Obj().Name() + "." + f.field.Name()
		if !isStored {
			r.note("C08.R6: %s is marshalled in map order but its message is not written to a store by keeper code", name)
			continue
		}
		n++
		how := ""
		if at, ok := setByCode[f.field]; ok {
			how = "set by code at " + at
		} else if via, ok := msgCarried[f.owner]; ok {
			how = "carried in by " + via
		}
		r.check(how == "", "C08.R6", "protomap|"+name, f.pos, "the map field "+name+" of a stored message is never populated, so its map-order encoding cannot show",
			fmt.Sprintf("%s is encoded by ranging over the Go map (no sorted keys: the message was generated without the stable marshaller), the message is stored by %s, and the field can be populated (%s): with two or more entries the stored bytes, and the app hash, differ between nodes", name, where, how))
	}
	r.check(len(fields) >= 1, "C08.R6", "protomap|matcher", "-", fmt.Sprintf("%d map fields marshalled in map order found in generated code, %d of them in stored messages", len(fields), n), "no map-order marshaller found in the generated code (matcher lost its anchor)")
}
