package main

import (
	"fmt"
	"go/ast"
	"go/types"
	"sort"
	"strings"
)

// Ledger delta algebra (DESIGN §2.4-F), over the type-checked AST.
//
// A ledger operation changes the books only through a handful of "delta"
// calls. Each call contributes signed symbolic terms to named columns:
//   W  staker WithdrawableAmount      D  staker TotalDepositAmount   PS staker PendingUndelegationAmount
//   T  operator TotalAmount           PO operator PendingUndelegationAmount
//   TS operator TotalShare            OS operator OperatorShare
//   US delegation UndelegatableShare  WD delegation WaitUndelegationAmount
//   G  asset StakingTotalAmount       E  bank escrow (delegated_pool)
//   RA record Amount                  RC record ActualCompletedAmount
// A term's symbol is the argument expression with `.Neg()` folded into the sign
// and single-definition local aliases resolved.

type DTerm struct {
	Col   string
	Sign  int
	Sym   string
	Node  ast.Node
	Conds []string // facts holding at the term (rendered), for arm grouping
}

func (t DTerm) String() string {
	s := "+"
	if t.Sign < 0 {
		s = "-"
	}
	return fmt.Sprintf("%s:%s%s", t.Col, s, t.Sym)
}

var deltaFieldCols = map[string]map[string]string{
	"DeltaStakerSingleAsset":   {"TotalDepositAmount": "D", "WithdrawableAmount": "W", "PendingUndelegationAmount": "PS"},
	"DeltaOperatorSingleAsset": {"TotalAmount": "T", "PendingUndelegationAmount": "PO", "TotalShare": "TS", "OperatorShare": "OS"},
	"DeltaDelegationAmounts":   {"UndelegatableShare": "US", "WaitUndelegationAmount": "WD"},
}

// normTerm folds .Neg() and resolves aliases.
func (v *FnView) normTerm(e ast.Expr, depth int) (int, string) {
	e = stripParens(e)
	if depth > 6 {
		return 1, exprString(e)
	}
	if recv, name, args, ok := methodCall(e); ok && name == "Neg" && len(args) == 0 {
		s, sym := v.normTerm(recv, depth+1)
		return -s, sym
	}
	if o := v.objOf(e); o != nil {
		if _, isVar := o.(*types.Var); isVar {
			defs := v.defsOf(o)
			// a single definition that is not a multi-value call: alias
			if len(defs) == 1 {
				if c, isCall := stripParens(defs[0]).(*ast.CallExpr); isCall {
					if tup, isTup := v.Info.TypeOf(c).(*types.Tuple); isTup && tup.Len() > 1 {
						return 1, "result(" + exprString(c.Fun) + ")"
					}
					if _, name, _, ok := methodCall(c); ok && name == "Neg" {
						return v.normTerm(defs[0], depth+1)
					}
					return 1, exprString(e)
				}
				if v.objOf(defs[0]) != nil || isSelectorChain(defs[0]) {
					return v.normTerm(defs[0], depth+1)
				}
			}
			if len(defs) >= 1 {
				// multi-value call result: name it after the call
				for _, d := range defs {
					if c, isCall := stripParens(d).(*ast.CallExpr); isCall {
						if tup, isTup := v.Info.TypeOf(c).(*types.Tuple); isTup && tup.Len() > 1 && len(defs) == 1 {
							return 1, "result(" + exprString(c.Fun) + ")"
						}
					}
				}
			}
		}
	}
	return 1, exprString(e)
}

func isSelectorChain(e ast.Expr) bool {
	_, ok := stripParens(e).(*ast.SelectorExpr)
	return ok
}

func (v *FnView) condsAt(n ast.Node) []string {
	var out []string
	for _, f := range v.factsAt(n, false) {
		s := exprString(f.Atom)
		if !f.Truth {
			s = "!" + s
		}
		out = append(out, s)
	}
	sort.Strings(out)
	return out
}

// deltaLiteral resolves an argument to the composite literal that builds it plus
// later field assignments (`delta.F = e`), as (field, expr, node) triples.
type fieldVal struct {
	field string
	val   ast.Expr
	node  ast.Node
}

func (v *FnView) deltaFields(arg ast.Expr) (typeName string, out []fieldVal) {
	arg = stripParens(arg)
	if u, ok := arg.(*ast.UnaryExpr); ok {
		arg = u.X
	}
	var lit *ast.CompositeLit
	var obj types.Object
	switch x := arg.(type) {
	case *ast.CompositeLit:
		lit = x
	case *ast.Ident:
		obj = v.Info.ObjectOf(x)
		for _, d := range v.defsOf(obj) {
			d = stripParens(d)
			if u, ok := d.(*ast.UnaryExpr); ok {
				d = u.X
			}
			if cl, ok := d.(*ast.CompositeLit); ok {
				lit = cl
			}
		}
	}
	if lit == nil {
		return "", nil
	}
	t := v.Info.TypeOf(lit)
	if p, ok := t.(*types.Pointer); ok {
		t = p.Elem()
	}
	nt, ok := t.(*types.Named)
	if !ok {
		return "", nil
	}
	typeName = nt.Obj().Name()
	for _, el := range lit.Elts {
		if kv, ok := el.(*ast.KeyValueExpr); ok {
			if id, ok := kv.Key.(*ast.Ident); ok {
				out = append(out, fieldVal{id.Name, kv.Value, kv})
			}
		}
	}
	if obj != nil {
		ast.Inspect(v.Decl.Body, func(n ast.Node) bool {
			as, ok := n.(*ast.AssignStmt)
			if !ok {
				return true
			}
			for i, l := range as.Lhs {
				sel, ok := l.(*ast.SelectorExpr)
				if !ok || v.objOf(sel.X) != obj || i >= len(as.Rhs) {
					continue
				}
				out = append(out, fieldVal{sel.Sel.Name, as.Rhs[i], as})
			}
			return true
		})
	}
	return typeName, out
}

// coinAmount extracts amt from sdk.NewCoins(sdk.NewCoin(denom, amt)) (possibly via a variable).
func (v *FnView) coinAmount(e ast.Expr) ast.Expr {
	for _, d := range v.resolveDefs(e, 0) {
		var found ast.Expr
		ast.Inspect(d, func(n ast.Node) bool {
			if c, ok := n.(*ast.CallExpr); ok && found == nil {
				if name, args, ok := funcCallName(c); ok && name == "NewCoin" && len(args) == 2 {
					found = args[1]
				}
			}
			return true
		})
		if found != nil {
			return found
		}
	}
	return nil
}

// ledgerTerms extracts all delta terms of a function (closures included).
func (v *FnView) ledgerTerms() []DTerm {
	var out []DTerm
	add := func(col string, e ast.Expr, at ast.Node, flip int) {
		s, sym := v.normTerm(e, 0)
		out = append(out, DTerm{Col: col, Sign: s * flip, Sym: sym, Node: at, Conds: v.condsAt(at)})
	}
	for _, c := range allCalls(v.Decl.Body) {
		name := v.calleeName(c)
		switch name {
		case "UpdateStakerAssetState", "UpdateOperatorAssetState", "UpdateDelegationState":
			if len(c.Args) == 0 {
				continue
			}
			tn, fields := v.deltaFields(c.Args[len(c.Args)-1])
			cols := deltaFieldCols[tn]
			if cols == nil {
				out = append(out, DTerm{Col: "?", Sign: 1, Sym: "opaque delta passed to " + name, Node: c})
				continue
			}
			for _, f := range fields {
				if col, ok := cols[f.field]; ok {
					s, sym := v.normTerm(f.val, 0)
					conds := v.condsAt(c)
					if _, isKV := f.node.(*ast.KeyValueExpr); !isKV {
						// `delta.F = e` executed under its own conditions as well
						set := map[string]bool{}
						for _, x := range conds {
							set[x] = true
						}
						for _, x := range v.condsAt(f.node) {
							if !set[x] {
								conds = append(conds, x)
							}
						}
						sort.Strings(conds)
					}
					out = append(out, DTerm{Col: col, Sign: s, Sym: sym, Node: c, Conds: conds})
				}
			}
		case "UpdateStakingAssetTotalAmount":
			if len(c.Args) == 3 {
				add("G", c.Args[2], c, 1)
			}
		case "DelegateCoinsFromAccountToModule":
			if len(c.Args) == 4 {
				if amt := v.coinAmount(c.Args[3]); amt != nil {
					add("E", amt, c, 1)
				}
			}
		case "UndelegateCoinsFromModuleToAccount":
			if len(c.Args) == 4 {
				if amt := v.coinAmount(c.Args[3]); amt != nil {
					add("E", amt, c, -1)
				}
			}
		case "SetUndelegationRecords":
			if len(c.Args) == 2 {
				if cl, ok := stripParens(c.Args[1]).(*ast.CompositeLit); ok {
					for _, el := range cl.Elts {
						x := stripParens(el)
						if st, ok := x.(*ast.StarExpr); ok {
							x = st.X
						}
						if o := v.objOf(x); o != nil {
							// a record variable (not the literal built in place, which compositeLits handles)
							if len(v.compositeLitDefs(o)) == 0 {
								out = append(out, DTerm{Col: "RA", Sign: 1, Sym: exprString(x) + ".Amount", Node: c, Conds: v.condsAt(c)})
								out = append(out, DTerm{Col: "RC", Sign: 1, Sym: exprString(x) + ".ActualCompletedAmount", Node: c, Conds: v.condsAt(c)})
							}
						}
					}
				}
			}
		case "DeleteUndelegationRecord":
			if len(c.Args) == 2 {
				out = append(out, DTerm{Col: "RA", Sign: -1, Sym: exprString(c.Args[1]) + ".Amount", Node: c, Conds: v.condsAt(c)})
				out = append(out, DTerm{Col: "RC", Sign: -1, Sym: exprString(c.Args[1]) + ".ActualCompletedAmount", Node: c, Conds: v.condsAt(c)})
			}
		}
	}
	// record creation: UndelegationRecord{Amount: x, ActualCompletedAmount: y}
	for _, cl := range v.compositeLits(v.Decl.Body, "UndelegationRecord") {
		if a := compositeField(cl, "Amount"); a != nil {
			add("RA", a, cl, 1)
		}
		if a := compositeField(cl, "ActualCompletedAmount"); a != nil {
			add("RC", a, cl, 1)
		}
	}
	return out
}

func termsOf(ts []DTerm, col string) []DTerm {
	var out []DTerm
	for _, t := range ts {
		if t.Col == col {
			out = append(out, t)
		}
	}
	return out
}

func hasCond(t DTerm, sub string) bool {
	for _, c := range t.Conds {
		if strings.Contains(c, sub) {
			return true
		}
	}
	return false
}

func renderTerms(ts []DTerm) string {
	var s []string
	for _, t := range ts {
		s = append(s, t.String())
	}
	return strings.Join(s, " ")
}

// compositeLitDefs: composite-literal definitions of a local variable.
func (v *FnView) compositeLitDefs(o types.Object) []*ast.CompositeLit {
	var out []*ast.CompositeLit
	for _, d := range v.defsOf(o) {
		d = stripParens(d)
		if u, ok := d.(*ast.UnaryExpr); ok {
			d = u.X
		}
		if cl, ok := d.(*ast.CompositeLit); ok {
			out = append(out, cl)
		}
	}
	return out
}

// retSym: the normalised symbol of result #idx at the function's success returns
// (returns whose error result is nil); "" if they disagree.
func (v *FnView) retSym(idx int) string {
	syms := map[string]bool{}
	ast.Inspect(v.Decl.Body, func(n ast.Node) bool {
		if _, isLit := n.(*ast.FuncLit); isLit {
			return false
		}
		rs, ok := n.(*ast.ReturnStmt)
		if !ok || len(rs.Results) <= idx {
			return true
		}
		last := rs.Results[len(rs.Results)-1]
		if !isNilIdent(v.Info, last) {
			return true
		}
		sg, sym := v.normTerm(rs.Results[idx], 0)
		if sg < 0 {
			sym = "-" + sym
		}
		syms[sym] = true
		return true
	})
	if len(syms) != 1 {
		return ""
	}
	for s := range syms {
		return s
	}
	return ""
}
