package main

import (
	"fmt"
	"go/ast"
	"go/token"
	"go/types"
	"sort"
	"strings"
)

// C11.R2w -- witnesses for the audited nil-after-error site of the AVS epoch hook.
//
// The hook (BeginBlock, unrecovered) adds power.ActiveUSDValue to a total after a failed
// GetOperatorOptedUSDValue was only logged; the value returned with the error wraps nil pointers. The audit says
// the call cannot fail for an operator with an accepted result: the value record of an opted-in operator exists.
// That rests on premises about other functions, which are decided here on every run:
//   - the record is deleted only by DeleteOperatorUSDValue (from OptOut, together with the opted-in mark) and by
//     DeleteAllOperatorsUSDValueForAVS (from UpdateVotingPower);
//   - UpdateVotingPower deletes all records only when GetAVSSupportedAssets failed or gave a nil set;
//   - GetAVSSupportedAssets fails for a registered AVS only on an unregistered asset id, and every asset list
//     written into an AVS info was accepted by ValidateAssetIDs before the info is stored.
func c11HookWitnesses(r *Run) {
	w := r.W
	// deleters of the value store
	{
		var deleters []string
		for _, v := range w.allViews() {
			if w.relPkg(v.Obj.Pkg().Path()) != "x/operator/keeper" || v.Decl.Body == nil {
				continue
			}
			usesPrefix := false
			ast.Inspect(v.Decl.Body, func(n ast.Node) bool {
				if sel, ok := n.(*ast.SelectorExpr); ok && sel.Sel.Name == "KeyPrefixUSDValueForOperator" {
					usesPrefix = true
				}
				return true
			})
			if usesPrefix && len(v.CallsNamed("Delete")) > 0 {
				deleters = append(deleters, v.Obj.Name())
			}
		}
		sort.Strings(deleters)
		got := strings.Join(deleters, ",")
		r.check(got == "DeleteAllOperatorsUSDValueForAVS,DeleteOperatorUSDValue", "C11.R2w", "usd-record|deleters", "-", "the operator value records are deleted by DeleteOperatorUSDValue and DeleteAllOperatorsUSDValueForAVS only",
			"functions deleting from the KeyPrefixUSDValueForOperator store: "+got+" (the AVS hook's audit knows DeleteAllOperatorsUSDValueForAVS and DeleteOperatorUSDValue only)")
		callers := map[string][]string{}
		for _, v := range w.allViews() {
			if v.Decl.Body == nil || !inScopeFile(w.relFile(v.Decl.Pos())) {
				continue
			}
			for _, c := range v.CallsNamed("DeleteOperatorUSDValue", "DeleteAllOperatorsUSDValueForAVS") {
				fo := v.callee(c)
				if fo == nil || fo.Pkg() == nil || w.relPkg(fo.Pkg().Path()) != "x/operator/keeper" {
					continue
				}
				callers[fo.Name()] = append(callers[fo.Name()], v.ID())
			}
		}
		for name, want := range map[string]string{"DeleteOperatorUSDValue": "x/operator/keeper.Keeper.OptOut", "DeleteAllOperatorsUSDValueForAVS": "x/operator/keeper.Keeper.UpdateVotingPower"} {
			cs := uniq(callers[name])
			sort.Strings(cs)
			r.check(strings.Join(cs, ",") == want, "C11.R2w", "usd-record|callers|"+name, "-", name+" is called from "+want+" only",
				name+" is called from "+strings.Join(cs, ",")+": an opted-in operator can lose its value record on a path the AVS hook's audit does not know, and the hook then adds the nil value returned with the error (BeginBlock panic)")
		}
	}
	// operator records are never deleted (premise of the audited `ops` site in AllocateTokensToValidator: the
	// validator's operator address comes from the registry, so OperatorInfo cannot miss)
	{
		var deleters []string
		n := 0
		for _, v := range w.allViews() {
			if w.relPkg(v.Obj.Pkg().Path()) != "x/operator/keeper" || v.Decl.Body == nil {
				continue
			}
			usesPrefix := false
			ast.Inspect(v.Decl.Body, func(n ast.Node) bool {
				if sel, ok := n.(*ast.SelectorExpr); ok && sel.Sel.Name == "KeyPrefixOperatorInfo" {
					usesPrefix = true
				}
				return true
			})
			if !usesPrefix {
				continue
			}
			n++
			if len(v.CallsNamed("Delete")) > 0 {
				deleters = append(deleters, v.Obj.Name())
			}
		}
		r.check(len(deleters) == 0 && n >= 3, "C11.R2w", "operator-record|never-deleted", "-", fmt.Sprintf("none of the %d functions that open the operator-info store deletes from it", n),
			"operator records are deleted by "+strings.Join(deleters, ", ")+fmt.Sprintf(" (%d functions open the store)", n)+": a validator whose operator record is gone makes AllocateTokensToValidator dereference the nil info returned with the error (BeginBlock panic)")
	}
	// the delete-all arm of UpdateVotingPower
	if v := w.View("x/operator/keeper", "Keeper.UpdateVotingPower"); v == nil {
		r.bad("C11.R2w", "anchor|UpdateVotingPower", "-", "anchor", "not found")
	} else {
		n := 0
		for _, c := range v.CallsNamed("DeleteAllOperatorsUSDValueForAVS") {
			n++
			var conds []*ast.IfStmt
			child := ast.Node(c)
			for p := v.parent(c); p != nil; child, p = p, v.parent(p) {
				if ifs, ok := p.(*ast.IfStmt); ok && (child == ast.Node(ifs.Body) || child == ast.Node(ifs.Else)) {
					conds = append(conds, ifs)
				}
			}
			okCond, why := len(conds) == 1 && c.Pos() >= conds[0].Body.Pos() && c.End() <= conds[0].Body.End(), "not under exactly one condition"
			if okCond {
				for _, d := range disjuncts(conds[0].Cond) {
					var fs []Fact
					decompose(d, true, conds[0], &fs)
					good := false
					if len(fs) == 1 {
						if o := v.outcome(fs[0]); o != nil && o.Callee.Name() == "GetAVSSupportedAssets" && !o.Success {
							good = true
						}
						if b, ok := stripParens(fs[0].Atom).(*ast.BinaryExpr); ok && fs[0].Truth && b.Op == token.EQL && isNilIdent(v.Info, b.Y) && resolvesToCallV(v, b.X, "GetAVSSupportedAssets") {
							good = true
						}
					}
					if !good {
						okCond, why = false, "`"+exprString(d)+"` also leads there"
					}
				}
			}
			r.check(okCond, "C11.R2w", "usd-record|delete-all-only-without-asset-set", v.pos(c), "every operator's value record of an AVS is deleted only when GetAVSSupportedAssets failed or returned a nil set",
				"UpdateVotingPower deletes every operator's value record of the AVS under a wider condition ("+why+"): the operators stay opted in, and at the end of a task's statistical period the AVS hook adds the nil value that GetOperatorOptedUSDValue returns with its error (BeginBlock panic)")
		}
		if n == 0 {
			r.bad("C11.R2w", "usd-record|delete-all-only-without-asset-set", v.pos(v.Decl), "anchor", "UpdateVotingPower no longer calls DeleteAllOperatorsUSDValueForAVS (rule lost its anchor)")
		}
	}
	// asset lists written into an AVS info were validated
	{
		n := 0
		for _, v := range w.allViews() {
			rel := w.relFile(v.Decl.Pos())
			if w.relPkg(v.Obj.Pkg().Path()) != "x/avs/keeper" || v.Decl.Body == nil || strings.HasSuffix(rel, "genesis.go") || len(v.CallsNamed("SetAVSInfo")) == 0 {
				continue
			}
			type write struct {
				at  ast.Node
				lhs ast.Expr
				val ast.Expr
			}
			var ws []write
			ast.Inspect(v.Decl.Body, func(m ast.Node) bool {
				switch x := m.(type) {
				case *ast.KeyValueExpr:
					if id, ok := x.Key.(*ast.Ident); ok && id.Name == "AssetIDs" {
						if fo, isF := v.Info.Uses[id].(*types.Var); isF && fo.IsField() {
							ws = append(ws, write{x, nil, x.Value})
						}
					}
				case *ast.AssignStmt:
					for i, l := range x.Lhs {
						if sel, ok := stripParens(l).(*ast.SelectorExpr); ok && sel.Sel.Name == "AssetIDs" && len(x.Rhs) == len(x.Lhs) {
							ws = append(ws, write{x, l, x.Rhs[i]})
						}
					}
				}
				return true
			})
			for i, wr := range ws {
				n++
				// the scope of the rejection: the innermost block or case clause holding the write
				var scope ast.Node
				for p := v.parent(wr.at); p != nil; p = v.parent(p) {
					if _, ok := p.(*ast.BlockStmt); ok {
						scope = p
						break
					}
					if _, ok := p.(*ast.CaseClause); ok {
						scope = p
						break
					}
				}
				validated := scope != nil && v.rejectsWhen(scope, func(f Fact) bool {
					o := v.outcome(f)
					if o == nil || o.Callee.Name() != "ValidateAssetIDs" || o.Success || len(o.Call.Args) != 2 {
						return false
					}
					arg := o.Call.Args[1]
					if sameExpr(arg, wr.val) {
						return true
					}
					return wr.lhs != nil && sameExpr(arg, wr.lhs) && o.Call.Pos() > wr.at.End()
				}, nil)
				r.check(validated, "C11.R2w", fmt.Sprintf("avs-assets|validated-before-stored|%s|%d", v.ID(), i), v.pos(wr.at), "the asset list written into the AVS info ("+exprString(wr.val)+") is rejected by ValidateAssetIDs when it names an unregistered asset",
					v.ID()+" stores the asset list "+exprString(wr.val)+" in an AVS info without ValidateAssetIDs rejecting that list in the same branch: with an unregistered id GetAVSSupportedAssets fails at every epoch end, UpdateVotingPower deletes the value records of the still opted-in operators, and the AVS hook adds the nil value returned with the error (BeginBlock panic)")
			}
		}
		if n < 2 {
			r.bad("C11.R2w", "avs-assets|validated-before-stored|matcher", "-", "at least 2 writes of AVSInfo.AssetIDs before SetAVSInfo", fmt.Sprintf("only %d found", n))
		}
	}
}
