package main

import (
	"fmt"
	"go/ast"
	"go/token"
	"go/types"
	"strings"
)

func init() { register("C15", runC15) }

func runC15(r *Run) {
	w := r.W
	e := effects(w)
	r.Explain = "Static decision of structural necessary conditions of C15 (epoch clock): the per-identifier callback of BeginBlocker never stops the iteration and performs at most one tick; the start gate is 'block time < start time -> skip' and the tick condition is 'first tick or block time strictly after current start + duration'; the first tick sets number 1 and the start time to the configured start, every later tick increments the number exactly once and advances the start time by the duration (not to the block time); end(n) is notified with the number before the increment, start(n+1) after it, unconditionally on every tick including the first, the record is stored between them under its own identifier; the multi-hook fan-out visits every subscriber in slice order and the subscribers are registered in the order distribution, operator, dogfood, mint, AVS; only BeginBlocker notifies and only BeginBlocker and AddEpochInfo write epoch records."
	r.NotDec = []string{"the arithmetic identity start + (n-1) x duration as a value over all timelines (the per-tick update that implies it by induction is decided)", "hook side effects of subscribers", "genesis validation of durations"}
	r.Assume = []string{"time.Time.After/Before are strict", "the KV iterator visits every record of the prefix in key order"}
	r.rule("C15.R1", "identifiers do not influence one another: the callback always returns false; the iterator covers the whole prefix and stops only on the callback's request; records are written under their own identifier", 4)
	r.rule("C15.R2", "start gate and tick condition with their comparison classes; no tick otherwise", 4)
	r.rule("C15.R3", "state update per tick: first tick -> number 1, start = configured start, counting started; later tick -> number+1 once, start += duration; height = block height", 6)
	r.rule("C15.R4", "notifications: end(n) before the increment in the later-tick arm only; start(n) unconditionally after the increment; one of each per tick; record stored between them", 6)
	r.rule("C15.R5", "fan-out: every subscriber, slice order, same arguments; registration order distribution, operator, dogfood, mint, AVS", 4)
	r.rule("C15.R6", "who may notify / who may write epoch records", 3)
	r.rule("C15.R7", "AddEpochInfo fills a field with its default only when that same field is unset, validates first and refuses duplicates", 4)

	v := w.View("x/epochs/keeper", "Keeper.BeginBlocker")
	if v == nil {
		r.bad("C15.R1", "anchor|BeginBlocker", "-", "anchor", "BeginBlocker not found")
		return
	}
	r.saw(v.ID())
	var cb *ast.FuncLit
	for _, c := range v.CallsNamed("IterateEpochInfos") {
		for _, a := range c.Args {
			for _, d := range v.resolveDefs(a, 0) {
				if fl, ok := stripParens(d).(*ast.FuncLit); ok {
					cb = fl
				}
			}
		}
	}
	if cb == nil || len(cb.Type.Params.List) < 2 {
		r.bad("C15.R1", "anchor|callback", v.pos(v.Decl), "per-identifier callback", "no function literal handed to IterateEpochInfos")
		return
	}
	infoObj := v.Info.ObjectOf(cb.Type.Params.List[1].Names[0])
	info := infoObj.Name()
	isInfoField := func(e ast.Expr, field string) bool {
		sel, ok := stripParens(e).(*ast.SelectorExpr)
		return ok && sel.Sel.Name == field && v.objOf(sel.X) == infoObj
	}
	blockTime := func(e ast.Expr) bool {
		for _, d := range v.resolveDefs(e, 0) {
			_, nm, args, ok := methodCall(d)
			if !ok || nm != "BlockTime" || len(args) != 0 {
				return false
			}
		}
		return true
	}
	// ---- R1
	{
		okRet := true
		bad := ""
		ast.Inspect(cb.Body, func(n ast.Node) bool {
			if fl, ok := n.(*ast.FuncLit); ok && fl != cb {
				return false
			}
			if rs, ok := n.(*ast.ReturnStmt); ok {
				if len(rs.Results) != 1 || v.constOf(rs.Results[0]) == nil || v.constOf(rs.Results[0]).ExactString() != "false" {
					okRet = false
					bad = v.pos(rs)
				}
			}
			return true
		})
		r.check(okRet && v.terminates(cb.Body), "C15.R1", "callback|never-stops", v.pos(cb), "whatever happens to one identifier, the iteration continues with the next", "the callback can return something other than false ("+bad+"): one identifier's state stops the clock of the identifiers after it")
		// no loop inside the callback: at most one tick per block and identifier
		loops := 0
		ast.Inspect(cb.Body, func(n ast.Node) bool {
			switch n.(type) {
			case *ast.ForStmt, *ast.RangeStmt:
				loops++
			}
			return true
		})
		r.check(loops == 0, "C15.R1", "callback|one-tick-per-block", v.pos(cb), "at most one tick per block and identifier (a stalled chain catches up one epoch per block)", "the callback contains a loop: several ticks can happen in one block")
	}
	if iv := w.View("x/epochs/keeper", "Keeper.IterateEpochInfos"); iv == nil {
		r.bad("C15.R1", "anchor|IterateEpochInfos", "-", "anchor", "not found")
	} else {
		r.saw(iv.ID())
		ok := false
		ast.Inspect(iv.Decl.Body, func(n ast.Node) bool {
			fs, isFor := n.(*ast.ForStmt)
			if !isFor {
				return true
			}
			// for ; it.Valid(); it.Next() { … if fn(...) { break } … } with no other break/return/continue
			cond, post := "", ""
			if fs.Cond != nil {
				cond = exprString(fs.Cond)
			}
			if es, isE := fs.Post.(*ast.ExprStmt); isE {
				post = exprString(es.X)
			}
			if !strings.HasSuffix(cond, ".Valid()") || !strings.HasSuffix(post, ".Next()") {
				return true
			}
			exits, okExits := 0, 0
			ast.Inspect(fs.Body, func(m ast.Node) bool {
				switch x := m.(type) {
				case *ast.BranchStmt:
					exits++
					if x.Tok == token.BREAK {
						if ifs, isIf := iv.parent(iv.parent(x)).(*ast.IfStmt); isIf {
							if c, isC := stripParens(ifs.Cond).(*ast.CallExpr); isC && isParamOf(iv, c.Fun) {
								okExits++
							}
						}
					}
				case *ast.ReturnStmt:
					exits++
				}
				return true
			})
			ok = exits == okExits
			return true
		})
		okPrefix := false
		for _, c := range iv.CallsNamed("KVStorePrefixIterator") {
			if len(c.Args) == 2 && strings.HasSuffix(exprString(c.Args[1]), "KeyPrefixEpoch") {
				okPrefix = true
			}
		}
		r.check(ok && okPrefix, "C15.R1", "iterate|whole-prefix", iv.pos(iv.Decl), "every stored identifier is visited unless the callback asks to stop", "IterateEpochInfos does not iterate the whole epoch prefix or leaves the loop for another reason than the callback's result")
	}
	if sv := w.View("x/epochs/keeper", "Keeper.setEpochInfoUnchecked"); sv == nil {
		r.bad("C15.R1", "anchor|setEpochInfoUnchecked", "-", "anchor", "not found")
	} else {
		r.saw(sv.ID())
		ok := false
		p := paramName(sv, 1)
		for _, c := range sv.CallsNamed("Set") {
			if len(c.Args) == 2 && strings.Contains(exprString(c.Args[0]), p+".Identifier") {
				for _, d := range sv.resolveDefs(c.Args[1], 0) {
					if strings.Contains(exprString(d), "MustMarshal(&"+p+")") {
						ok = true
					}
				}
			}
		}
		r.check(ok, "C15.R1", "store|own-identifier", sv.pos(sv.Decl), "a record is stored under its own identifier", "setEpochInfoUnchecked does not store the record under []byte(epoch.Identifier)")
	}
	// the tick guard: the statement `if !isEpochStart { return false }` and what follows it
	var setCall *ast.CallExpr
	for _, c := range v.Calls(cb.Body, byName("setEpochInfoUnchecked")) {
		setCall = c
	}
	if setCall == nil {
		r.bad("C15.R4", "store|present", v.pos(cb), "the record is stored on a tick", "setEpochInfoUnchecked is not called in the callback")
		return
	}
	fsSet := v.factsOf(setCall)
	// ---- R2
	{
		// start gate: fact at the store: !(BlockTime < StartTime)
		okGate := fsSet.cmp(func(c cmp) bool {
			return c.Op == ">=" && blockTime(c.L) && isInfoField(c.R, "StartTime")
		})
		r.check(okGate, "C15.R2", "gate|not-before-start", v.pos(setCall), "nothing happens before the configured start; the first tick is the first block at or after it", "a tick is not dominated by `block time >= StartTime` (class: `Before(StartTime)` -> skip)")
		// tick condition: isEpochStart true where isEpochStart := A || B
		var startDefs []ast.Expr
		for _, f := range fsSet.fs {
			if id, ok := stripParens(f.Atom).(*ast.Ident); ok && f.Truth && f.At != nil && f.At.Pos() > cb.Pos() {
				startDefs = v.defsOf(v.objOf(id))
			}
		}
		okTick, okFirst := false, false
		var tickEnd ast.Expr
		if len(startDefs) == 1 {
			ds := disjuncts(startDefs[0])
			if len(ds) == 2 {
				for _, d := range ds {
					for _, dd := range v.resolveDefs(d, 0) {
						var fs []Fact
						decompose(dd, true, nil, &fs)
						if len(fs) != 1 {
							continue
						}
						if c, ok := factCmp(fs[0]); ok {
							if !blockTime(c.L) {
								c = cmp{c.R, c.L, flipOp(c.Op)}
							}
							if c.Op == ">" && blockTime(c.L) {
								for _, ed := range v.resolveDefs(c.R, 0) {
									recv, nm, args, isM := methodCall(ed)
									if isM && nm == "Add" && len(args) == 1 && isInfoField(recv, "CurrentEpochStartTime") && isInfoField(args[0], "Duration") {
										okTick = true
										tickEnd = c.R
									}
								}
							}
						} else if isInfoField(fs[0].Atom, "EpochCountingStarted") && !fs[0].Truth {
							okFirst = true
						}
					}
				}
			}
		}
		r.check(okTick, "C15.R2", "tick|strictly-after-end", v.pos(setCall), "an epoch ends in exactly those blocks whose time is after current start + duration (strict)", "the tick condition is not `block time > CurrentEpochStartTime + Duration` (a block exactly on the boundary must not tick)")
		r.check(okFirst, "C15.R2", "tick|or-first", v.pos(setCall), "the first tick happens as soon as the start gate opens", "the tick condition does not include `!EpochCountingStarted`")
		r.check(len(startDefs) == 1 && len(disjuncts(startDefs[0])) == 2, "C15.R2", "tick|nothing-else", v.pos(setCall), "no other reason to tick", "the tick condition is not exactly (end of epoch || first tick)")
		_ = tickEnd
	}
	// ---- R3 / R4: the two arms
	var armIf *ast.IfStmt
	ast.Inspect(cb.Body, func(n ast.Node) bool {
		if ifs, ok := n.(*ast.IfStmt); ok && ifs.Else != nil && ifs.Pos() < setCall.Pos() {
			for _, d := range v.resolveDefs(ifs.Cond, 0) {
				var fs []Fact
				decompose(d, true, nil, &fs)
				if len(fs) == 1 && isInfoField(fs[0].Atom, "EpochCountingStarted") && !fs[0].Truth {
					armIf = ifs
				}
			}
		}
		return true
	})
	if armIf == nil {
		r.bad("C15.R3", "arms|present", v.pos(cb), "first-tick arm and later-tick arm", "no `if isFirstTick {…} else {…}` before the store")
		return
	}
	elseBlk, _ := armIf.Else.(*ast.BlockStmt)
	if elseBlk == nil || v.nestedConditionally(armIf, cb.Body) {
		r.bad("C15.R3", "arms|shape", v.pos(armIf), "two unconditional arms", "the first/later tick arms are nested under another condition or chained")
		return
	}
	assignIn := func(blk *ast.BlockStmt, field string) []*ast.AssignStmt {
		var out []*ast.AssignStmt
		for _, as := range v.assignmentsToField(blk, field) {
			if isInfoField(as.Lhs[0], field) {
				out = append(out, as)
			}
		}
		return out
	}
	{
		// first arm
		a1 := assignIn(armIf.Body, "CurrentEpoch")
		ok1 := len(a1) == 1 && v.constOf(a1[0].Rhs[0]) != nil && v.constOf(a1[0].Rhs[0]).ExactString() == "1" && !v.nestedConditionally(a1[0], armIf.Body)
		r.check(ok1, "C15.R3", "first|number-one", v.pos(armIf), "the epoch number becomes 1 on the first tick", "the first-tick arm does not set CurrentEpoch = 1")
		a2 := assignIn(armIf.Body, "CurrentEpochStartTime")
		ok2 := len(a2) == 1 && isInfoField(a2[0].Rhs[0], "StartTime") && !v.nestedConditionally(a2[0], armIf.Body)
		r.check(ok2, "C15.R3", "first|start-time", v.pos(armIf), "epoch 1 starts at the configured start time", "the first-tick arm does not set CurrentEpochStartTime = StartTime")
		a3 := assignIn(armIf.Body, "EpochCountingStarted")
		ok3 := len(a3) == 1 && exprString(a3[0].Rhs[0]) == "true"
		r.check(ok3, "C15.R3", "first|counting-started", v.pos(armIf), "the first tick happens once", "the first-tick arm does not set EpochCountingStarted = true")
		// later arm
		incs := 0
		var inc *ast.IncDecStmt
		ast.Inspect(cb.Body, func(n ast.Node) bool {
			if x, ok := n.(*ast.IncDecStmt); ok && isInfoField(x.X, "CurrentEpoch") {
				incs++
				inc = x
			}
			return true
		})
		otherAssign := len(assignIn(elseBlk, "CurrentEpoch"))
		okInc := incs == 1 && inc.Tok == token.INC && inc.Pos() > elseBlk.Pos() && inc.End() < elseBlk.End() && !v.nestedConditionally(inc, elseBlk) && otherAssign == 0
		r.check(okInc, "C15.R3", "later|plus-one", v.pos(elseBlk), "every later tick increases the number by exactly one", fmt.Sprintf("the later-tick arm does not contain exactly one unconditional CurrentEpoch++ (found %d increments, %d assignments)", incs, otherAssign))
		a4 := assignIn(elseBlk, "CurrentEpochStartTime")
		ok4 := false
		if len(a4) == 1 && !v.nestedConditionally(a4[0], elseBlk) {
			for _, d := range v.resolveDefs(a4[0].Rhs[0], 0) {
				recv, nm, args, isM := methodCall(d)
				if isM && nm == "Add" && len(args) == 1 && isInfoField(recv, "CurrentEpochStartTime") && isInfoField(args[0], "Duration") {
					ok4 = true
				}
			}
		}
		r.check(ok4, "C15.R3", "later|start-plus-duration", v.pos(elseBlk), "the n-th epoch starts at start + (n-1) x duration: each tick advances the start time by the duration, not to the block time", "the later-tick arm does not set CurrentEpochStartTime = CurrentEpochStartTime + Duration")
		a5 := assignIn(cb.Body, "CurrentEpochStartHeight")
		ok5 := len(a5) == 1 && strings.HasSuffix(exprString(a5[0].Rhs[0]), ".BlockHeight()") && a5[0].Pos() < setCall.Pos()
		r.check(ok5, "C15.R3", "tick|height", v.pos(cb), "the tick records the block height", "CurrentEpochStartHeight is not set to ctx.BlockHeight() before the store")
		// ---- R4
		ends := v.Calls(cb.Body, byName("AfterEpochEnd"))
		starts := v.Calls(cb.Body, byName("BeforeEpochStart"))
		argsOK := func(c *ast.CallExpr) bool {
			return len(c.Args) == 3 && isInfoField(c.Args[1], "Identifier") && isInfoField(c.Args[2], "CurrentEpoch")
		}
		okEnd := len(ends) == 1 && argsOK(ends[0]) && ends[0].Pos() > elseBlk.Pos() && ends[0].End() < elseBlk.End() && !v.nestedConditionally(ends[0], elseBlk) && inc != nil && ends[0].Pos() < inc.Pos()
		r.check(okEnd, "C15.R4", "end|number-before-increment", v.pos(elseBlk), "end(n) is delivered once per later tick with the number of the epoch that ends", "AfterEpochEnd(ctx, Identifier, CurrentEpoch) is not called exactly once, unconditionally, in the later-tick arm before CurrentEpoch++")
		okNoEndFirst := true
		for _, c := range ends {
			if c.Pos() > armIf.Body.Pos() && c.End() < armIf.Body.End() {
				okNoEndFirst = false
			}
		}
		r.check(okNoEndFirst, "C15.R4", "end|not-on-first-tick", v.pos(armIf), "no epoch ends on the first tick", "AfterEpochEnd is called in the first-tick arm")
		okStart := len(starts) == 1 && argsOK(starts[0]) && starts[0].Pos() > armIf.End() && v.parent(v.enclosingStmt(starts[0])) == ast.Node(cb.Body)
		r.check(okStart, "C15.R4", "start|every-tick", v.pos(cb), "start(n) is delivered on every tick, including the first, with the new number", "BeforeEpochStart(ctx, Identifier, CurrentEpoch) is not called exactly once at the top level of the callback after both arms")
		okOrder := len(starts) == 1 && len(ends) == 1 && ends[0].Pos() < setCall.Pos() && setCall.Pos() < starts[0].Pos() && setCall.Pos() > armIf.End() && v.parent(v.enclosingStmt(setCall)) == ast.Node(cb.Body)
		r.check(okOrder, "C15.R4", "order|end-store-start", v.pos(cb), "end(n) before the record is stored, start(n+1) after it", "the order is not AfterEpochEnd -> setEpochInfoUnchecked -> BeforeEpochStart with the store at the top level of the callback")
		okArg := len(setCall.Args) == 2 && v.objOf(setCall.Args[1]) == infoObj
		r.check(okArg, "C15.R4", "store|the-updated-record", v.pos(setCall), "the stored record is the updated one", "setEpochInfoUnchecked is not given "+info)
		nSets := len(v.Calls(cb.Body, byName("setEpochInfoUnchecked")))
		r.check(nSets == 1, "C15.R4", "store|once", v.pos(cb), "one store per tick", fmt.Sprintf("%d stores in the callback", nSets))
	}
	// ---- R7
	if av := w.View("x/epochs/keeper", "Keeper.AddEpochInfo"); av == nil {
		r.bad("C15.R7", "anchor|AddEpochInfo", "-", "anchor", "not found")
	} else {
		r.saw(av.ID())
		ip := paramName(av, 1)
		nFill := 0
		ast.Inspect(av.Decl.Body, func(n ast.Node) bool {
			as, ok := n.(*ast.AssignStmt)
			if !ok || len(as.Lhs) != 1 {
				return true
			}
			sel, isSel := stripParens(as.Lhs[0]).(*ast.SelectorExpr)
			if !isSel || exprString(sel.X) != ip {
				return true
			}
			nFill++
			fld := sel.Sel.Name
			// the guard tests the same field for its zero value
			okG := false
			for _, f := range av.factsAt(as, false) {
				at := stripParens(f.Atom)
				if c, isC := at.(*ast.CallExpr); isC && f.Truth {
					if recv, nm, _, isM := methodCall(c); isM && nm == "IsZero" && exprString(recv) == ip+"."+fld {
						okG = true
					}
				}
				if cm, isCmp := factCmp(f); isCmp && cm.Op == "==" && exprString(cm.L) == ip+"."+fld && exprString(cm.R) == "0" {
					okG = true
				}
			}
			r.check(okG, "C15.R7", "add|default-only-if-unset|"+fld, av.pos(as), "the configured "+fld+" is kept; the default is used only when "+fld+" itself is unset", "AddEpochInfo overwrites "+fld+" under a condition that does not test "+fld+" for its zero value: a configured start (future or past) is replaced by the registration block's values")
			return true
		})
		if nFill < 2 {
			r.bad("C15.R7", "add|fills", av.pos(av.Decl), "default fills present", fmt.Sprintf("%d default assignments found", nFill))
		}
		okVal, okDup := false, false
		for _, c := range av.CallsNamed("setEpochInfoUnchecked") {
			fs := av.factsOf(c)
			okVal = fs.call("Validate", true, nil)
			okDup = fs.call("Has", false, func(cc *ast.CallExpr) bool { return strings.Contains(exprString(cc.Args[0]), ip+".Identifier") })
		}
		r.check(okVal, "C15.R7", "add|validated", av.pos(av.Decl), "only validated epoch infos are stored", "setEpochInfoUnchecked is not dominated by Validate() == nil")
		r.check(okDup, "C15.R7", "add|no-duplicate", av.pos(av.Decl), "an identifier is registered once", "setEpochInfoUnchecked is not dominated by !Has(identifier)")
		// ... and the duplicate test looks under the key the record is stored under: the same key shape
		// (conversion of <x>.Identifier, on a store with the same prefix) as the writer's Set
		keyShape := func(v *FnView, e ast.Expr) string {
			s := exprString(e)
			s = strings.ReplaceAll(s, ip+".", "X.")
			if v != av {
				if p0 := paramName(v, 1); p0 != "" {
					s = strings.ReplaceAll(s, p0+".", "X.")
				}
			}
			return s
		}
		hasShape, setShape := "", ""
		for _, c := range av.CallsNamed("Has") {
			if len(c.Args) == 1 {
				hasShape = keyShape(av, c.Args[0])
			}
		}
		if sv := w.View("x/epochs/keeper", "Keeper.setEpochInfoUnchecked"); sv != nil {
			for _, c := range sv.CallsNamed("Set") {
				if len(c.Args) == 2 {
					setShape = keyShape(sv, c.Args[0])
				}
			}
		}
		r.check(hasShape != "" && hasShape == setShape, "C15.R7", "add|duplicate-test-same-key", av.pos(av.Decl), "the duplicate test and the store write use the same key", "AddEpochInfo tests Has("+hasShape+") while the record is stored under "+setShape+": the test never finds an existing identifier, which is then overwritten (its number restarts, its notifications are delivered again)")
	}
	// ---- R5
	for _, m := range []string{"AfterEpochEnd", "BeforeEpochStart"} {
		hv := w.View("x/epochs/types", "MultiEpochHooks."+m)
		if hv == nil {
			r.bad("C15.R5", "anchor|MultiEpochHooks."+m, "-", "anchor", "not found")
			continue
		}
		r.saw(hv.ID())
		ok := false
		recv := hv.Decl.Recv.List[0].Names[0].Name
		if len(hv.Decl.Body.List) == 1 {
			if rs, isR := hv.Decl.Body.List[0].(*ast.RangeStmt); isR && exprString(rs.X) == recv && len(rs.Body.List) == 1 {
				if es, isE := rs.Body.List[0].(*ast.ExprStmt); isE {
					if c, isC := es.X.(*ast.CallExpr); isC {
						_, nm, args, isM := methodCall(c)
						same := isM && nm == m && len(args) == 3
						if same {
							for i, a := range args {
								if !isParamOf(hv, a) || exprString(a) != paramName(hv, i) {
									same = false
								}
							}
						}
						// element selected by the loop variable
						elemOK := false
						if sel, isSel := c.Fun.(*ast.SelectorExpr); isSel {
							switch x := stripParens(sel.X).(type) {
							case *ast.IndexExpr:
								elemOK = exprString(x.X) == recv && rs.Key != nil && hv.objOf(x.Index) == hv.objOf(rs.Key)
							case *ast.Ident:
								elemOK = rs.Value != nil && hv.objOf(x) == hv.objOf(rs.Value)
							}
						}
						ok = same && elemOK
					}
				}
			}
		}
		r.check(ok, "C15.R5", "fanout|"+m, hv.pos(hv.Decl), "every subscriber is notified, in slice order, with the same arguments", "MultiEpochHooks."+m+" is not a plain loop over all hooks calling "+m+" with its own arguments")
	}
	if nv := w.View("x/epochs/types", "NewMultiEpochHooks"); nv != nil {
		ok := len(nv.Decl.Body.List) == 1
		if ok {
			rs, isRet := nv.Decl.Body.List[0].(*ast.ReturnStmt)
			ok = isRet && len(rs.Results) == 1 && isParamOf(nv, rs.Results[0])
		}
		r.check(ok, "C15.R5", "fanout|constructor-keeps-order", nv.pos(nv.Decl), "the subscriber list is the argument list, in order", "NewMultiEpochHooks does not return its arguments unchanged")
	}
	{
		order, node, av := epochHookOrder(w)
		var got []string
		for _, t := range order {
			if t == nil || t.Pkg() == nil {
				got = append(got, "?")
				continue
			}
			got = append(got, moduleOfPkg(t.Pkg().Path()))
		}
		want := []string{"feedistribution", "operator", "dogfood", "exomint", "avs"}
		pos := "-"
		if av != nil && node != nil {
			pos = av.pos(node)
		}
		r.check(strings.Join(got, ",") == strings.Join(want, ","), "C15.R5", "order|registration", pos, "subscribers are notified in the order distribution, operator, dogfood, mint, AVS", "registered order is "+strings.Join(got, ", "))
	}
	// ---- R6
	{
		var off []string
		n := 0
		for _, fv := range w.allViews() {
			if strings.HasPrefix(fv.ID(), "x/epochs/types") {
				continue
			}
			for _, c := range fv.CallsNamed("AfterEpochEnd", "BeforeEpochStart") {
				cal := fv.callee(c)
				if cal == nil {
					continue
				}
				// the interface method of the epochs module (dynamic dispatch to the registered hooks)
				if sig, ok := cal.Type().(*types.Signature); ok && sig.Recv() != nil {
					if _, isIface := sig.Recv().Type().Underlying().(*types.Interface); isIface && cal.Pkg() != nil && strings.HasSuffix(cal.Pkg().Path(), "x/epochs/types") {
						n++
						if fv.ID() != v.ID() {
							off = append(off, fv.ID())
						}
					}
				}
			}
		}
		r.check(len(off) == 0 && n == 2, "C15.R6", "notify|only-begin-blocker", "-", "only BeginBlocker notifies subscribers, once per kind", fmt.Sprintf("%d notification call sites; outside BeginBlocker: %s", n, strings.Join(off, ", ")))
		fn := w.Fn("x/epochs/keeper", "Keeper.setEpochInfoUnchecked")
		if fn == nil {
			r.bad("C15.R6", "anchor|setter", "-", "anchor", "setEpochInfoUnchecked not found")
		} else {
			fams := directFams(e, fn, "W")
			var fam string
			for f := range fams {
				fam = f
			}
			var offW []string
			for f2 := range e.Direct {
				if w.fnInScope(f2) && f2 != fn && (directFams(e, f2, "W")[fam] || directFams(e, f2, "D")[fam]) {
					offW = append(offW, fnName(f2))
				}
			}
			r.check(len(fams) == 1 && len(offW) == 0, "C15.R6", "writers|epoch-family", w.pos(fn.Pos()), "epoch records are written only by setEpochInfoUnchecked and never deleted", "other direct writers/deleters of "+e.R.famName(fam)+": "+strings.Join(offW, ", "))
			var callers []string
			if node := w.CG.Nodes[fn]; node != nil {
				for _, in := range node.In {
					if w.fnInScope(in.Caller.Func) {
						callers = append(callers, fnName(in.Caller.Func))
					}
				}
			}
			callers = uniq(callers)
			okC := true
			for _, c := range callers {
				if !strings.Contains(c, "BeginBlocker") && !strings.HasSuffix(c, "AddEpochInfo") && !strings.HasSuffix(c, "setEpochInfoUnchecked") {
					okC = false
				}
			}
			r.check(okC && len(callers) >= 2, "C15.R6", "callers|setter", w.pos(fn.Pos()), "records change only in BeginBlocker and when an identifier is added", "setEpochInfoUnchecked is called from "+strings.Join(callers, ", "))
		}
	}
}
