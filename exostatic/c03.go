package main

import (
	"fmt"
	"go/ast"
	"go/token"
	"go/types"
	"sort"
	"strings"

	"golang.org/x/tools/go/ssa"
)

func init() { register("C03", runC03) }

var operatorStateGates = map[string]bool{"IsOperatorFrozen": true, "IsActive": true, "IsOptedIn": true, "IsOperatorJailedForChainID": true, "GetOptedInfo": true,
	"IsOperatorRemovingKeyFromChainID": true, "IsValidatorJailed": true, "GetOperatorConsKeyForChainID": true}

func runC03(r *Run) {
	w := r.W
	e := effects(w)
	cat := catalogue(w)
	r.Explain = "Static decision of structural necessary conditions of C03 (exit path): (R1) no operator opt-in/key/jail/slash state is consulted on the undelegation or withdrawal path outside the hold hook; (R2) a record is stored under three indexes and deleted from exactly the same three, by the same key constructors on the same record fields, and a held record is deleted, re-dated and re-stored in that order; (R3) records are deleted only by the delegation EndBlock, which processes exactly the records indexed under the current height (separator-terminated prefix), completes only with hold count zero and in a per-record cache context; (R4) the completion height is start + a positive constant and storing rejects a completion height in the past before any write; (R5) the secondary index keys are injective only if the nonce is fresh per record (reported where it is loop-invariant); (R6) the module that releases holds runs its EndBlock before the delegation module reads them; the pending aggregates move with the record (delegated to the C01 delta algebra, re-run here)."
	r.NotDec = []string{"'released at the first block...' as a temporal statement over heights", "that hold counts reach zero (C16)", "genesis-loaded records (C18)"}
	r.Assume = []string{"module.Manager runs EndBlockers in SetOrderEndBlockers order"}
	r.rule("C03.R1", "no operator-state gate on exit: none of the operator state predicates is reachable from UndelegateFrom / the withdraw arm outside the AfterUndelegationStarted hook; the hook's only error exit is the hold-count overflow", 3)
	r.rule("C03.R2", "three-index symmetry of SetUndelegationRecords / DeleteUndelegationRecord; delete -> re-date -> set on the hold arm", 4)
	r.rule("C03.R3", "release discipline: single deletion site, current-height lookup with separator, hold-count gate, per-record cache context", 6)
	r.rule("C03.R4", "completion height = start height + positive constant; a past completion height is rejected before any write", 3)
	r.rule("C03.R5", "index-key freshness: the nonce handed to each created record is not invariant in a loop that creates several records; the secondary index keys identify a record uniquely", 3)
	r.rule("C03.R6", "EndBlock order: the hold-releasing module precedes the delegation module", 1)
	r.rule("C03.R7", "pending aggregates move with the record (C01 delta obligations of the exit path)", 4)
	r.rule("C03.R8", "a pending record modified through an iterator helper is always written back; the share-zeroing after a full slash touches only the undelegatable share (pending amounts survive)", 3)
	r.rule("C03.R9", "an undelegation is never rejected because of the operator's opt-out state (C16.R6 obligation); a record slashed to zero is still released; every queued release of an epoch is carried out", 3)
	// a record whose amount was slashed to zero is still released: the native-token credit builds its coins with
	// sdk.NewCoins, which drops a zero coin (a Coins literal with a zero coin is invalid and makes the bank call
	// fail, after which EndBlock skips the record for good), or the credit is guarded by a positivity test
	if ev := w.View("x/delegation/keeper", "Keeper.EndBlock"); ev != nil {
		ok, n := true, 0
		for _, c := range ev.CallsNamed("UndelegateCoinsFromModuleToAccount") {
			n++
			if len(c.Args) != 4 {
				ok = false
				continue
			}
			good := false
			for _, d := range ev.resolveDefs(c.Args[3], 0) {
				if dc, isC := stripParens(d).(*ast.CallExpr); isC && strings.HasSuffix(exprString(dc.Fun), "NewCoins") {
					good = true
				}
			}
			for _, f := range ev.FactsAt(c, false) {
				if fc, isC := stripParens(f.Atom).(*ast.CallExpr); isC {
					nm := ev.calleeName(fc)
					if (nm == "IsPositive" && f.Truth) || (nm == "IsZero" && !f.Truth) {
						good = true
					}
				}
			}
			if !good {
				ok = false
			}
		}
		r.check(ok && n >= 1, "C03.R9", "release|zero-amount-still-released", ev.pos(ev.Decl), "a native-token record whose amount is zero is released like any other (zero coins are dropped, not passed to the bank as an invalid coin set)", "the native-token credit of EndBlock passes a raw sdk.Coins literal to the bank: for a record slashed to exactly zero the call fails with an invalid-coins error, the record is skipped and never visited again")
	}
	if r.Prop == "C03" {
		sub := NewRun(r.W, "C16", r.Tier, r.Seed)
		runC16(sub)
		n := 0
		for _, o := range sub.Obs {
			if o.Key != "finish-epoch-present" {
				continue
			}
			n++
			if o.Status == "ok" {
				r.ok("C03.R9", o.Key, o.Pos, o.Desc)
			} else {
				r.bad("C03.R9", o.Key, o.Pos, o.Desc, o.Detail)
			}
		}
		if n == 0 {
			r.bad("C03.R9", "finish-epoch-present", "-", "C16.R6 obligation present", "the obligation is missing")
		}
	}
	iteratorVisitsAllRule(r, "C03.R8", map[string]bool{"x/delegation/keeper.Keeper.IterateDelegations": true})
	// every queued item of the epoch is handled: the release loops of the dogfood EndBlock (holds, opt-outs, keys
	// to prune) are never left early - the list is cleared right after, so whatever a break skips is lost
	if dv := w.View("x/dogfood/keeper", "Keeper.EndBlock"); dv == nil {
		r.bad("C03.R9", "release|every-queued-item|anchor", "-", "anchor", "dogfood EndBlock not found")
	} else {
		nLoops := 0
		var exits []string
		ast.Inspect(dv.Decl.Body, func(n ast.Node) bool {
			rs, isR := n.(*ast.RangeStmt)
			if !isR || !strings.HasSuffix(exprString(rs.X), ".GetList()") {
				return true
			}
			nLoops++
			ast.Inspect(rs.Body, func(m ast.Node) bool {
				switch x := m.(type) {
				case *ast.FuncLit:
					return false
				case *ast.BranchStmt:
					if x.Tok == token.BREAK || x.Tok == token.GOTO {
						exits = append(exits, x.Tok.String()+" at "+dv.pos(x))
					}
				case *ast.ReturnStmt:
					exits = append(exits, "return at "+dv.pos(x))
				}
				return true
			})
			return true
		})
		r.check(nLoops >= 3 && len(exits) == 0, "C03.R9", "release|every-queued-item", dv.pos(dv.Decl), "the three release loops of the dogfood EndBlock visit every queued item", fmt.Sprintf("dogfood EndBlock leaves a release loop early (%s; %d loops over queued lists found): the items behind that point keep their hold (or stay opting out) although the queue is cleared right after", strings.Join(exits, ", "), nLoops))
	}
	iteratorWriteBackRule(r, "C03.R8", map[string]bool{"IterateUndelegationsByStakerAndAsset": true, "IterateUndelegationsByOperator": true})
	shareZeroingRule(r, "C03.R8")

	uf := w.Fn("x/delegation/keeper", "Keeper.UndelegateFrom")
	pd := w.Fn("x/assets/keeper", "Keeper.PerformDepositOrWithdraw")
	if uf == nil || pd == nil {
		r.bad("C03.R1", "anchor", "-", "anchor", "UndelegateFrom / PerformDepositOrWithdraw not found")
		return
	}
	// ---- R1
	for _, root := range []*ssa.Function{uf, pd} {
		reach := w.Reach([]*ssa.Function{root}, func(f *ssa.Function) bool {
			if !w.fnInScope(f) && f.Pkg != nil {
				return true
			}
			return strings.Contains(f.Name(), "AfterUndelegationStarted") || strings.Contains(f.Name(), "AfterDelegation")
		})
		var hits []string
		for f := range reach {
			if operatorStateGates[f.Name()] && w.fnInScope(f) {
				hits = append(hits, pathTo(reach, f))
			}
		}
		sort.Strings(hits)
		r.check(len(hits) == 0, "C03.R1", "no-gate|"+root.Name(), w.pos(root.Pos()), "the exit path consults no operator opt-in/key/jail/slash state", "operator state is consulted on the exit path (an exit could be refused because of the operator's state): "+strings.Join(hits, " ;; "))
	}
	if hv := w.View("x/dogfood/keeper", "DelegationHooksWrapper.AfterUndelegationStarted"); hv != nil {
		r.saw(hv.ID())
		bad := []string{}
		ast.Inspect(hv.Decl.Body, func(n ast.Node) bool {
			rs, ok := n.(*ast.ReturnStmt)
			if !ok || len(rs.Results) != 1 || isNilIdent(hv.Info, rs.Results[0]) {
				return true
			}
			if c, isCall := stripParens(rs.Results[0]).(*ast.CallExpr); isCall && hv.calleeName(c) == "IncrementUndelegationHoldCount" {
				return true
			}
			bad = append(bad, hv.pos(rs))
			return true
		})
		r.check(len(bad) == 0, "C03.R1", "hook|only-overflow-error", hv.pos(hv.Decl), "the hold hook can fail only through the hold-count overflow", "AfterUndelegationStarted has other error exits (they would reject the undelegation because of the operator's state): "+strings.Join(bad, ","))
	} else {
		r.bad("C03.R1", "hook|anchor", "-", "anchor", "AfterUndelegationStarted not found")
	}
	// ---- R2
	sv := w.View("x/delegation/keeper", "Keeper.SetUndelegationRecords")
	dv := w.View("x/delegation/keeper", "Keeper.DeleteUndelegationRecord")
	if sv == nil || dv == nil {
		r.bad("C03.R2", "anchor", "-", "anchor", "Set/DeleteUndelegationRecord(s) not found")
	} else {
		r.saw(sv.ID())
		r.saw(dv.ID())
		three := map[string]bool{"delegation:0x03": true, "delegation:0x04": true, "delegation:0x05": true}
		sw := directFams(e, w.Fn("x/delegation/keeper", "Keeper.SetUndelegationRecords"), "W")
		dd := directFams(e, w.Fn("x/delegation/keeper", "Keeper.DeleteUndelegationRecord"), "D")
		eq := func(a map[string]bool) bool {
			if len(a) != 3 {
				return false
			}
			for k := range a {
				if !three[k] {
					return false
				}
			}
			return true
		}
		r.check(eq(sw), "C03.R2", "set|three-indexes", sv.pos(sv.Decl), "a record is stored under the record, staker and pending-by-height indexes", fmt.Sprintf("SetUndelegationRecords writes %v", keysOf(sw)))
		r.check(eq(dd), "C03.R2", "delete|three-indexes", dv.pos(dv.Decl), "a record is deleted from the same three indexes", fmt.Sprintf("DeleteUndelegationRecord deletes %v", keysOf(dd)))
		// same key constructors on the same record fields
		keyShapes := func(v *FnView) map[string]string {
			out := map[string]string{}
			for _, c := range allCalls(v.Decl.Body) {
				n := v.calleeName(c)
				if strings.HasPrefix(n, "Get") && strings.HasSuffix(n, "RecordKey") {
					var fields []string
					for _, a := range c.Args {
						fields = append(fields, lastField(a))
					}
					out[n] = strings.Join(fields, ",")
				}
			}
			return out
		}
		ks, kd := keyShapes(sv), keyShapes(dv)
		same := len(ks) == 3 && len(kd) == 3
		for k, v := range ks {
			if kd[k] != v {
				same = false
			}
		}
		r.check(same, "C03.R2", "keys|same-fields", sv.pos(sv.Decl), "set and delete build each index key from the same record fields", fmt.Sprintf("key constructors differ: set=%v delete=%v", ks, kd))
	}
	eb := w.View("x/delegation/keeper", "Keeper.EndBlock")
	if eb == nil {
		r.bad("C03.R3", "anchor", "-", "anchor", "delegation Keeper.EndBlock not found")
		return
	}
	r.saw(eb.ID())
	{
		// hold arm: Delete -> CompleteBlockNumber = … -> Set
		var del, set *ast.CallExpr
		var redate *ast.AssignStmt
		for _, c := range eb.CallsNamed("DeleteUndelegationRecord") {
			if eb.condHas(c, "GetUndelegationHoldCount", true) {
				del = c
			}
		}
		for _, c := range eb.CallsNamed("SetUndelegationRecords") {
			if eb.condHas(c, "GetUndelegationHoldCount", true) {
				set = c
			}
		}
		for _, as := range eb.assignmentsToField(eb.Decl.Body, "CompleteBlockNumber") {
			redate = as
		}
		ok := del != nil && set != nil && redate != nil && del.Pos() < redate.Pos() && redate.Pos() < set.Pos()
		plusOne := false
		if redate != nil {
			s := exprString(redate.Rhs[0])
			plusOne = strings.Contains(s, "BlockHeight()") && strings.HasSuffix(s, "+ 1")
		}
		r.check(ok && plusOne, "C03.R2", "requeue|delete-redate-set", eb.pos(eb.Decl), "a held record is deleted under its old height key, re-dated to height+1, then stored again", "the hold arm does not delete, re-date (height+1) and re-store the record in that order: the old pending key would linger or the record would be lost")
	}
	// ---- R3
	{
		n := 0
		var others []string
		for fo := range entryReachable(w) {
			v := w.ViewOf(fo)
			if v == nil {
				continue
			}
			for range v.CallsNamed("DeleteUndelegationRecord") {
				if fo != eb.Obj {
					others = append(others, funcID(fo))
				} else {
					n++
				}
			}
		}
		r.check(len(others) == 0 && n == 2, "C03.R3", "delete|single-site", eb.pos(eb.Decl), "records are deleted only by the delegation EndBlock (completion and re-queue)", fmt.Sprintf("DeleteUndelegationRecord: %d calls in EndBlock, other live callers: %v", n, others))
		// completion arm under hold == 0
		okHold := false
		for _, c := range eb.CallsNamed("DeleteUndelegationRecord") {
			if eb.condHas(c, "GetUndelegationHoldCount", false) {
				okHold = true
			}
		}
		// the hold test compares > 0
		cmpOK := false
		ast.Inspect(eb.Decl.Body, func(nd ast.Node) bool {
			if ifs, ok := nd.(*ast.IfStmt); ok && strings.Contains(exprString(ifs.Cond), "GetUndelegationHoldCount") {
				if be, isBin := stripParens(ifs.Cond).(*ast.BinaryExpr); isBin && be.Op.String() == ">" && exprString(be.Y) == "0" {
					cmpOK = true
				}
			}
			return true
		})
		r.check(okHold && cmpOK, "C03.R3", "completion|no-hold", eb.pos(eb.Decl), "a record is completed only when its hold count is zero", "the completion arm is not the `hold count > 0` == false arm")
		// records = GetPendingUndelegationRecords(ctx, uint64(BlockHeight())) without arithmetic
		okH := false
		for _, c := range eb.CallsNamed("GetPendingUndelegationRecords") {
			if len(c.Args) == 2 {
				s := exprString(c.Args[1])
				if strings.Contains(s, "BlockHeight()") && !strings.ContainsAny(s, "+-") {
					okH = true
				}
			}
		}
		r.check(okH, "C03.R3", "lookup|current-height", eb.pos(eb.Decl), "exactly the records indexed under the current height are processed", "GetPendingUndelegationRecords is not called with the plain current height")
		if pv := w.View("x/delegation/keeper", "Keeper.GetPendingUndelegationRecKeys"); pv != nil {
			okSep := false
			for _, c := range pv.CallsNamed("KVStorePrefixIterator") {
				if len(c.Args) == 2 {
					s := exprString(c.Args[1])
					if strings.Contains(s, "EncodeUint64(height)") && (strings.Contains(s, `+ "/"`) || strings.Contains(s, "append(")) {
						okSep = true
					}
				}
			}
			r.check(okSep, "C03.R3", "lookup|separator", pv.pos(pv.Decl), "the height prefix ends with the key separator (no other height shares it)", "the pending index is iterated with the bare hex height as prefix: heights whose hex encoding starts with the same digits are returned too (early release)")
		} else {
			r.bad("C03.R3", "lookup|separator", "-", "anchor", "GetPendingUndelegationRecKeys not found")
		}
		// per-record cache context
		var sites []*ccSite
		for _, s := range ccSites(w, func(rf string) bool { return rf == "x/delegation/keeper/abci.go" }) {
			if s.V.Obj == eb.Obj {
				sites = append(sites, s)
			}
		}
		r.check(len(sites) == 1 && eb.innermostLoop(sites[0].Stmt) != nil, "C03.R3", "cachectx|per-record", eb.pos(eb.Decl), "each record is processed in its own cache context", "EndBlock does not create one cache context per record inside the loop")
		cacheCtxRule(r, "C03.R3", sites)
		// the credited staker is the record's
		okStaker := false
		for _, c := range eb.CallsNamed("UpdateStakerAssetState") {
			if len(c.Args) >= 3 && exprString(c.Args[1]) == "record.StakerID" && exprString(c.Args[2]) == "record.AssetID" {
				okStaker = true
			}
		}
		r.check(okStaker, "C03.R3", "completion|same-staker", eb.pos(eb.Decl), "the completion credits the record's own staker and asset", "the completion does not credit record.StakerID / record.AssetID")
	}
	// ---- R4
	if sv != nil {
		okAll, n := true, 0
		for _, c := range allCalls(sv.Decl.Body) {
			if _, nm, _, ok := methodCall(c); ok && nm == "Set" {
				n++
				good := false
				for _, f := range sv.FactsAt(c, false) {
					if cm, okc := factCmp(f); okc && strings.HasSuffix(exprString(cm.L), "CompleteBlockNumber") && cm.Op == ">=" && strings.Contains(exprString(cm.R), "currentHeight") {
						good = true
					}
				}
				if !good {
					okAll = false
				}
			}
		}
		r.check(okAll && n == 3, "C03.R4", "set|reject-past", sv.pos(sv.Decl), "a record with a completion height in the past is rejected before anything is stored", "a Set in SetUndelegationRecords is not dominated by CompleteBlockNumber >= current height")
	}
	if v := w.View("x/delegation/keeper", "Keeper.UndelegateFrom"); v != nil {
		ok := false
		for _, as := range v.assignmentsToField(v.Decl.Body, "CompleteBlockNumber") {
			if c, isCall := stripParens(as.Rhs[0]).(*ast.CallExpr); isCall && v.calleeName(c) == "GetUnbondingExpirationBlockNumber" && len(c.Args) == 3 && strings.HasSuffix(exprString(c.Args[2]), "BlockNumber") {
				ok = true
			}
		}
		r.check(ok, "C03.R4", "undelegate|completion-from-start", v.pos(v.Decl), "completion height is derived from the record's start height", "CompleteBlockNumber is not GetUnbondingExpirationBlockNumber(ctx, operator, r.BlockNumber)")
	}
	if v := w.View("x/operator/keeper", "Keeper.GetUnbondingExpirationBlockNumber"); v != nil {
		ok := false
		ast.Inspect(v.Decl.Body, func(n ast.Node) bool {
			if rs, isRet := n.(*ast.ReturnStmt); isRet && len(rs.Results) == 1 {
				if be, isBin := stripParens(rs.Results[0]).(*ast.BinaryExpr); isBin && be.Op.String() == "+" {
					cv := v.constOf(be.Y)
					if cv == nil {
						cv = v.constOf(be.X)
					}
					if cv != nil && !strings.HasPrefix(cv.ExactString(), "-") && cv.ExactString() != "0" {
						ok = true
					}
				}
			}
			return true
		})
		r.check(ok, "C03.R4", "expiration|start-plus-constant", v.pos(v.Decl), "completion = start height + positive constant", "GetUnbondingExpirationBlockNumber is not startHeight + a positive constant")
	}
	// ---- R5
	for fo := range entryReachable(w) {
		v := w.ViewOf(fo)
		if v == nil {
			continue
		}
		for _, c := range v.CallsNamed("NewDelegationOrUndelegationParams") {
			lp, _ := v.innermostLoop(c).(*ast.RangeStmt)
			if lp == nil || len(c.Args) < 8 {
				continue
			}
			// nonce (arg 6) and tx hash (arg 7) must depend on the loop variables
			dep := false
			for _, lv := range []ast.Expr{lp.Key, lp.Value} {
				if lv == nil {
					continue
				}
				if o := v.objOf(lv); o != nil && (v.usesObjDeep(c.Args[6], o) || v.usesObjDeep(c.Args[7], o)) {
					dep = true
				}
			}
			r.check(dep, "C03.R5", "nonce-loop-invariant|"+funcID(fo), v.pos(c), "each record created in the loop gets its own nonce/hash", "every params object created in this loop carries the same nonce and tx hash: the staker index (staker, asset, nonce) and the pending index (height, nonce) of the first record are overwritten by the next, so it is never released")
		}
	}
	// secondary index keys: must contain a per-record unique component (tx hash + operator) to be injective
	if sv != nil {
		for _, c := range allCalls(sv.Decl.Body) {
			n := sv.calleeName(c)
			if n != "GetStakerUndelegationRecordKey" && n != "GetPendingUndelegationRecordKey" {
				continue
			}
			fields := map[string]bool{}
			for _, a := range c.Args {
				fields[lastField(a)] = true
			}
			uniq := fields["TxHash"] && fields["OperatorAddr"]
			r.check(uniq, "C03.R5", "secondary-key|"+n, sv.pos(c), "the secondary index key identifies one record", fmt.Sprintf("%s is built from %v only: two records with equal nonce (and equal height / staker+asset) share the index entry, the later one overwrites the earlier, which is then never released", n, keysOf(fields)))
		}
	}
	// ---- R6
	{
		av := w.View("app", "NewExocoreApp")
		var order []string
		if av != nil {
			for _, c := range av.CallsNamed("SetOrderEndBlockers") {
				for _, a := range c.Args {
					if cv := av.constOf(a); cv != nil {
						order = append(order, strings.Trim(cv.ExactString(), "\""))
					}
				}
			}
		}
		idx := map[string]int{}
		for i, m := range order {
			idx[m] = i
		}
		holdFam := "delegation:0x06"
		var releasers, readers []string
		for _, en := range cat.Cat("endblock") {
			mod := strings.TrimPrefix(en.Name, "endblock:")
			if e.Sum[en.Fn]["W "+holdFam] {
				releasers = append(releasers, mod)
			}
			if e.Sum[en.Fn]["R "+holdFam] && !e.Sum[en.Fn]["W "+holdFam] {
				readers = append(readers, mod)
			}
		}
		ok := len(releasers) >= 1 && len(readers) >= 1
		for _, a := range releasers {
			for _, b := range readers {
				ia, oka := idx[a]
				ib, okb := idx[b]
				if !oka || !okb || ia > ib {
					ok = false
				}
			}
		}
		r.check(ok, "C03.R6", "endblock-order|holds", "-", fmt.Sprintf("hold releasers %v run before hold readers %v", releasers, readers), fmt.Sprintf("SetOrderEndBlockers runs a module that reads undelegation hold counts (%v) before the module that releases them (%v): a record whose hold is released in this block is re-queued and released one block late", readers, releasers))
	}
	// ---- R7: exit-path delta obligations (shared with C01)
	sub := NewRun(w, "C01", r.Tier, r.Seed)
	runC01(sub)
	n7 := 0
	for _, o := range sub.Obs {
		if o.Rule != "C01.R3" {
			continue
		}
		if strings.HasPrefix(o.Key, "RemoveShare") || strings.HasPrefix(o.Key, "UndelegateFrom") || strings.HasPrefix(o.Key, "EndBlock") {
			n7++
			if o.Status == "ok" {
				r.ok("C03.R7", o.Key, o.Pos, o.Desc)
			} else {
				r.bad("C03.R7", o.Key, o.Pos, o.Desc, o.Detail)
			}
		}
	}
	_ = types.Typ
}

// condHas: a fact at n mentions callee `name` with the given truth.
func (v *FnView) condHas(n ast.Node, name string, truth bool) bool {
	for _, f := range v.FactsAt(n, false) {
		if strings.Contains(exprString(f.Atom), name) && f.Truth == truth {
			return true
		}
	}
	return false
}

// usesObjDeep: e mentions obj directly or through single-definition aliases.
func (v *FnView) usesObjDeep(e ast.Expr, obj types.Object) bool {
	if v.usesObj(e, obj) {
		return true
	}
	for _, d := range v.resolveDefs(e, 0) {
		if d != e && v.usesObj(d, obj) {
			return true
		}
	}
	return false
}
