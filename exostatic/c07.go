package main

import (
	"fmt"
	"go/ast"
	"go/constant"
	"go/token"
	"go/types"
	"sort"
	"strings"

	"golang.org/x/tools/go/ssa"
)

func init() { register("C07", runC07) }

func operatorFam(w *World, constName string) string {
	p := w.Pkg("x/operator/types")
	if p == nil {
		return ""
	}
	c, _ := p.Types.Scope().Lookup(constName).(*types.Const)
	if c == nil {
		return ""
	}
	v, ok := constant.Int64Val(c.Val())
	if !ok {
		return ""
	}
	return fmt.Sprintf("operator:0x%02x", v)
}

// directFams: families of the direct accesses of fn with the given kind.
func directFams(e *Effects, fn *ssa.Function, kind string) map[string]bool {
	out := map[string]bool{}
	for _, a := range e.Direct[fn] {
		if a.Kind == kind {
			for _, f := range a.Families {
				out[f] = true
			}
		}
	}
	return out
}

func runC07(r *Run) {
	w := r.W
	e := effects(w)
	cat := catalogue(w)
	r.Explain = "Static decision of structural necessary conditions of C07 (consensus-key registry): the five key families are written only from the key-management entry points; the three lookup indexes are written together and deleted together; a new key is stored only after 'not removing' and 'key not in use' (by the very consensus address that is stored) were established, and the previous key is recorded at most once; the consensus-address reverse lookup is deleted only by the dogfood pruning loop and by the hooks' 'never active' arms; replaced active keys are queued for pruning at the unbonding completion epoch; slashing and jailing resolve the operator through the reverse lookup; the chain id handed to the operator keeper is always the revision-less one."
	r.NotDec = []string{"the multi-epoch timing of pruning versus evidence submission", "intermediate keys of several replacements within one epoch (A->B->C: B is never pruned - noted, B was never active)"}
	r.Assume = []string{"key families resolved from SSA; effect summaries over VTA call graph"}
	r.rule("C07.R1", "the five key families are written/deleted only from key-management entry points (SetConsKey, opt-in/out, dogfood EndBlock and operator hooks, operator InitGenesis)", 5)
	r.rule("C07.R2", "index agreement: a function that stores one of {operator->key, chain->operator->key, chain->consAddr->operator} stores all three; key removal deletes the three plus the removal marker; codec and key-constructor agreement of the operator key families", 8)
	r.rule("C07.R3", "injectivity guards: storing a key is dominated by !IsOperatorRemovingKeyFromChainID and !keyInUse(chain, the stored consensus address); the previous key is recorded only when none is recorded yet", 4)
	r.rule("C07.R4", "reverse-lookup retention: DeleteOperatorAddressForChainIDAndConsAddr is called only from the dogfood pruning loop and from the hooks' arms where the key is not in the validator set", 2)
	r.rule("C07.R5", "pruning schedule: a replaced key that is in the validator set is queued at GetUnbondingCompletionEpoch; an opt-out of a validating operator registers the opt-out information, any other opt-out completes the key removal at once", 3)
	r.rule("C07.R6", "slash, jail and validator lookup by consensus address resolve the operator through the reverse lookup and are gated by it alone; only active operators opt out", 7)
	r.rule("C07.R7", "every chain-id argument handed to the operator keeper from the dogfood module derives from ChainIDWithoutRevision (or is a hook parameter)", 5)

	names := []string{"BytePrefixForOperatorAndChainIDToConsKey", "BytePrefixForOperatorAndChainIDToPrevConsKey", "BytePrefixForChainIDAndOperatorToConsKey", "BytePrefixForChainIDAndConsKeyToOperator", "BytePrefixForOperatorKeyRemovalForChainID"}
	fam := map[string]string{}
	for _, n := range names {
		fam[n] = operatorFam(w, n)
		if fam[n] == "" {
			r.bad("C07.R1", "anchor|"+n, "-", "prefix constant", "constant "+n+" not found")
			return
		}
	}
	fOpKey, fPrev, fChainOp, fCons, fRem := fam[names[0]], fam[names[1]], fam[names[2]], fam[names[3]], fam[names[4]]

	// ---- R1
	allowed := func(name string) bool {
		switch {
		case name == "msg:operator.SetConsKey", name == "msg:operator.OptIntoAVS", name == "msg:operator.OptOutOfAVS":
			return true
		case name == "precompile:avs.registerOperatorToAVS", name == "precompile:avs.deregisterOperatorFromAVS":
			return true
		case name == "endblock:dogfood", name == "initgenesis:operator", name == "initgenesis:dogfood":
			return true
		case strings.HasPrefix(name, "operatorhook:dogfood."):
			return true
		case name == "sdkcallback:dogfood.ApplyAndReturnValidatorSetUpdates":
			return true
		}
		return false
	}
	for _, f := range []string{fOpKey, fPrev, fChainOp, fCons, fRem} {
		var off []string
		for _, en := range cat.Entries {
			if allowed(en.Name) || strings.HasPrefix(en.Cat, "exportgenesis") || en.Cat == "epochhook-unwired" {
				continue
			}
			if e.Sum[en.Fn]["W "+f] || e.Sum[en.Fn]["D "+f] {
				off = append(off, en.Name)
			}
		}
		sort.Strings(off)
		r.check(len(off) == 0, "C07.R1", "writers|"+f, "-", e.R.famName(f)+" is written only from key-management entry points", "other entry points can change the key registry: "+strings.Join(off, ", "))
	}
	// ---- R2
	idx := []string{fOpKey, fChainOp, fCons}
	nSetters := 0
	for fn := range e.Direct {
		if !w.fnInScope(fn) {
			continue
		}
		ws := directFams(e, fn, "W")
		n := 0
		for _, f := range idx {
			if ws[f] {
				n++
			}
		}
		if n == 0 {
			continue
		}
		nSetters++
		r.saw(fnName(fn))
		// the retained state of a replaced key: its consensus-address lookup alone, kept next to the operator's
		// previous-key record (this is what the live replacement leaves behind, and what the import restores)
		if n == 1 && ws[fCons] && ws[fPrev] {
			r.ok("C07.R2", "set-all-three|"+fnName(fn), w.pos(fn.Pos()), "writes the consensus-address lookup of a retained (previous) key together with the previous-key record")
			continue
		}
		r.check(n == 3, "C07.R2", "set-all-three|"+fnName(fn), w.pos(fn.Pos()), "the three key indexes are written together", fmt.Sprintf("%s writes only %d of the three key indexes: they disagree afterwards", fnName(fn), n))
	}
	if nSetters == 0 {
		r.bad("C07.R2", "set-all-three|none", "-", "index setter present", "no function writes the key indexes")
	}
	if cf := w.Fn("x/operator/keeper", "Keeper.CompleteOperatorKeyRemovalForChainID"); cf == nil {
		r.bad("C07.R2", "complete-removal|anchor", "-", "anchor", "CompleteOperatorKeyRemovalForChainID not found")
	} else {
		ds := directFams(e, cf, "D")
		var miss []string
		for _, f := range []string{fOpKey, fChainOp, fCons, fRem} {
			if !ds[f] {
				miss = append(miss, e.R.famName(f))
			}
		}
		r.check(len(miss) == 0, "C07.R2", "complete-removal", w.pos(cf.Pos()), "key removal deletes all three indexes and the removal marker", "CompleteOperatorKeyRemovalForChainID does not delete "+strings.Join(miss, ", "))
	}
	codecAgreementRule(r, "C07.R2", map[string]bool{"operator": true})
	keyCtorAgreementRule(r, "C07.R2", map[string]bool{"operator": true})

	// ---- R3
	sv := w.View("x/operator/keeper", "Keeper.setOperatorConsKeyForChainID")
	if sv == nil {
		r.bad("C07.R3", "anchor", "-", "anchor", "setOperatorConsKeyForChainID not found")
	} else {
		r.saw(sv.ID())
		for _, c := range sv.CallsNamed("setOperatorConsKeyForChainIDUnchecked") {
			rm := sv.GuardedBy(c, byName("IsOperatorRemovingKeyFromChainID"), false) != nil
			r.check(rm, "C07.R3", "store|not-removing", sv.pos(c), "an operator that is removing its key cannot set a new one", "the key is stored without the fact !IsOperatorRemovingKeyFromChainID")
			inUse := false
			for _, f := range sv.FactsAt(c, false) {
				o := sv.outcome(f)
				if o == nil || o.Callee.Name() != "GetOperatorAddressForChainIDAndConsAddr" || o.Success || o.Result != 0 {
					continue
				}
				// the consensus address checked is the one stored
				if len(o.Call.Args) == 3 && len(c.Args) >= 3 && exprString(o.Call.Args[2]) == exprString(c.Args[2]) {
					// and it derives from the new key
					for _, d := range sv.resolveDefs(c.Args[2], 0) {
						if strings.HasSuffix(exprString(d), ".ToConsAddr()") {
							inUse = true
						}
					}
				}
			}
			r.check(inUse, "C07.R3", "store|key-not-in-use", sv.pos(c), "the stored consensus address was found unused (by anyone, including the operator's own replaced keys)", "the key is stored without the unconditional fact keyInUse == false for that consensus address: a current, replaced or removing key can be taken")
		}
		for _, c := range sv.CallsNamed("setOperatorPrevConsKeyForChainID") {
			once := false
			for _, f := range sv.FactsAt(c, false) {
				if o := sv.outcome(f); o != nil && o.Callee.Name() == "getOperatorPrevConsKeyForChainID" && !o.Success && o.Result == 0 {
					once = true
				}
			}
			fnd := false
			for _, f := range sv.FactsAt(c, false) {
				if o := sv.outcome(f); o != nil && o.Callee.Name() == "getOperatorConsKeyForChainID" && o.Success && o.Result == 0 {
					fnd = true
				}
			}
			// ... and only by a request that is going to be accepted: the key-in-use rejection comes first (a
			// previous-key record left behind by a rejected request would make the next real replacement skip
			// both the recording and the replacement hook)
			accepted := false
			for _, f := range sv.FactsAt(c, false) {
				if o := sv.outcome(f); o != nil && o.Callee.Name() == "GetOperatorAddressForChainIDAndConsAddr" && !o.Success && o.Result == 0 {
					accepted = true
				}
			}
			r.check(accepted, "C07.R3", "prev-key|after-in-use-check", sv.pos(c), "the previous key is recorded only once the new key was found unused (checks before effects)", "setOperatorPrevConsKeyForChainID runs before the key-in-use rejection: a rejected request leaves a previous-key record behind, and the next real replacement is neither recorded nor announced to the hooks")
			r.check(once && fnd, "C07.R3", "prev-key|once", sv.pos(c), "the previous key is recorded only on replacement and only when none is recorded", "the previous key can be overwritten within the epoch (the first replaced key, the one in the validator set, is lost)")
		}
		// hooks: AfterOperatorKeyReplaced only when !alreadyRecorded
		for _, c := range sv.CallsNamed("AfterOperatorKeyReplaced") {
			ok := false
			for _, f := range sv.FactsAt(c, false) {
				if id, isId := stripParens(f.Atom).(*ast.Ident); isId && !f.Truth {
					for _, d := range sv.defsOf(sv.Info.ObjectOf(id)) {
						if dc, isCall := stripParens(d).(*ast.CallExpr); isCall && sv.calleeName(dc) == "getOperatorPrevConsKeyForChainID" {
							ok = true
						}
					}
				}
			}
			r.check(ok, "C07.R3", "hook|replaced-once", sv.pos(c), "the replacement hook fires for the first replaced key of the epoch only", "AfterOperatorKeyReplaced is not guarded by !alreadyRecorded")
		}
	}
	// ---- R4 / R5
	nDel := 0
	for _, p := range w.Pkgs {
		for _, f := range p.Syntax {
			rf := w.relFile(f.Pos())
			if !inScopeFile(rf) {
				continue
			}
			for _, d := range f.Decls {
				fd, ok := d.(*ast.FuncDecl)
				if !ok || fd.Body == nil {
					continue
				}
				obj, _ := p.TypesInfo.Defs[fd.Name].(*types.Func)
				v := w.ViewOf(obj)
				if v == nil {
					continue
				}
				for _, c := range v.CallsNamed("DeleteOperatorAddressForChainIDAndConsAddr") {
					nDel++
					id := funcID(obj)
					key := "delete-site|" + id
					switch {
					case id == "x/dogfood/keeper.Keeper.EndBlock":
						// inside a loop over the pending consensus addresses under the epoch-end marker
						lp, _ := v.innermostLoop(c).(*ast.RangeStmt)
						ok := lp != nil && v.GuardedBy(c, byName("IsEpochEnd"), true) != nil
						if ok {
							src := false
							for _, dd := range v.resolveDefs(rootIdent(lp.X), 0) {
								if strings.Contains(exprString(dd), "GetPendingConsensusAddrs") {
									src = true
								}
							}
							ok = src
						}
						r.check(ok, "C07.R4", key, v.pos(c), "pruning loop over the matured consensus addresses", "the EndBlock deletion is not the loop over GetPendingConsensusAddrs under the epoch-end marker")
					case strings.HasPrefix(id, "x/dogfood/keeper.OperatorHooksWrapper."):
						notActive := false
						for _, ft := range v.FactsAt(c, false) {
							if o := v.outcome(ft); o != nil && o.Callee.Name() == "GetExocoreValidator" && !o.Success && o.Result == 1 {
								notActive = true
							}
						}
						r.check(notActive, "C07.R4", key, v.pos(c), "immediate deletion only for a key that is not in the validator set", "the reverse lookup of a key that may be in the validator set is deleted immediately: it can no longer be slashed or jailed, and the key can be taken by another operator")
					default:
						r.bad("C07.R4", key, v.pos(c), "deletion site", "unexpected caller of DeleteOperatorAddressForChainIDAndConsAddr")
					}
				}
			}
		}
	}
	if nDel < 2 {
		r.bad("C07.R4", "delete-site|count", "-", "deletion sites found", fmt.Sprintf("only %d call sites of DeleteOperatorAddressForChainIDAndConsAddr found", nDel))
	}
	if hv := w.View("x/dogfood/keeper", "OperatorHooksWrapper.AfterOperatorKeyReplaced"); hv != nil {
		r.saw(hv.ID())
		ok, n := true, 0
		for _, c := range hv.CallsNamed("AppendConsensusAddrToPrune") {
			n++
			active := false
			for _, ft := range hv.FactsAt(c, false) {
				if o := hv.outcome(ft); o != nil && o.Callee.Name() == "GetExocoreValidator" && o.Success && o.Result == 1 {
					active = true
				}
			}
			epochOK := false
			if len(c.Args) >= 2 {
				for _, d := range hv.resolveDefs(c.Args[1], 0) {
					if strings.HasSuffix(exprString(d), "GetUnbondingCompletionEpoch(ctx)") {
						epochOK = true
					}
				}
			}
			if !active || !epochOK {
				ok = false
			}
		}
		r.check(ok && n == 1, "C07.R5", "replaced|queued", hv.pos(hv.Decl), "a replaced active key is queued for pruning at the unbonding completion epoch (and only an active one)", "AppendConsensusAddrToPrune is not (only) called under 'old key in the validator set' with GetUnbondingCompletionEpoch")
	} else {
		r.bad("C07.R5", "replaced|anchor", "-", "anchor", "AfterOperatorKeyReplaced not found")
	}
	// "per chain": the operator module announces key events of every chain-type AVS to the same hook set; this
	// module's queues and deletions belong to its own chain, so every writing call of its operator hooks is
	// dominated by chainID == <this chain>
	{
		nW := 0
		for _, hn := range []string{"AfterOperatorKeySet", "AfterOperatorKeyReplaced", "AfterOperatorKeyRemovalInitiated"} {
			hv := w.View("x/dogfood/keeper", "OperatorHooksWrapper."+hn)
			if hv == nil {
				r.bad("C07.R5", "per-chain|anchor|"+hn, "-", "anchor", "hook not found")
				continue
			}
			var chainParam types.Object
			for _, fl := range hv.Decl.Type.Params.List {
				for _, nm := range fl.Names {
					if nm.Name == "chainID" {
						chainParam = hv.Info.ObjectOf(nm)
					}
				}
			}
			for _, c := range allCalls(hv.Decl.Body) {
				nm := hv.calleeName(c)
				if !(strings.HasPrefix(nm, "Append") || strings.HasPrefix(nm, "Set") || strings.HasPrefix(nm, "Delete") || strings.HasPrefix(nm, "Complete") || strings.HasPrefix(nm, "Clear") || strings.HasPrefix(nm, "Remove")) {
					continue
				}
				nW++
				own := false
				for _, f := range hv.FactsAt(c, false) {
					cm, isC := factCmp(f)
					if !isC || cm.Op != "==" {
						continue
					}
					l, rr := cm.L, cm.R
					if hv.objOf(rr) == chainParam {
						l, rr = rr, l
					}
					if chainParam != nil && hv.objOf(l) == chainParam && strings.Contains(exprString(rr), "ChainIDWithoutRevision(ctx.ChainID())") {
						own = true
					}
				}
				r.check(own, "C07.R5", "per-chain|"+hn+"|"+nm, hv.pos(c), "the hook writes only for this chain's own id", hn+" calls "+nm+" at "+hv.pos(c)+" without chainID == ChainIDWithoutRevision(ctx.ChainID()): a key event of another chain-type AVS queues or deletes this chain's records of the same consensus address (another operator's active key becomes unresolvable after the unbonding epochs)")
			}
		}
		if nW < 4 {
			r.bad("C07.R5", "per-chain|matcher", "-", "at least 4 writing calls in the dogfood operator hooks", fmt.Sprintf("only %d found", nW))
		}
	}
	// a key is released at once (its lookup deleted, or the whole removal completed) on the belief that it never
	// validated. The only evidence the hooks consult is membership in the CURRENT validator set; a validator that
	// was dropped at the last epoch end (jailed, outnumbered, below the minimum) and is active again for the
	// operator module is not in it, although everything it signed is still inside the unbonding window.
	for _, hn := range []string{"AfterOperatorKeyReplaced", "AfterOperatorKeyRemovalInitiated"} {
		hv := w.View("x/dogfood/keeper", "OperatorHooksWrapper."+hn)
		if hv == nil {
			continue
		}
		for _, c := range hv.CallsNamed("DeleteOperatorAddressForChainIDAndConsAddr", "CompleteOperatorKeyRemovalForChainID") {
			history := false
			var seen []string
			for _, f := range hv.FactsAt(c, false) {
				o := hv.outcome(f)
				if o == nil {
					continue
				}
				seen = append(seen, o.Callee.Name())
				switch o.Callee.Name() {
				case "GetExocoreValidator", "GetOperatorPrevConsKeyForChainID":
				default:
					history = true
				}
			}
			r.check(history, "C07.R5", "immediate-release|"+hn+"|"+hv.calleeName(c), hv.pos(c), "a key is released before the unbonding epochs only on evidence that it did not validate inside the unbonding window",
				hn+" calls "+hv.calleeName(c)+" at "+hv.pos(c)+" on the evidence of "+strings.Join(uniq(seen), ", ")+" alone (membership in the current validator set): a validator dropped at the last epoch end and active again is not in the set, so its key becomes unresolvable at once although it validated within the unbonding window")
		}
	}
	if hv := w.View("x/dogfood/keeper", "OperatorHooksWrapper.AfterOperatorKeyRemovalInitiated"); hv != nil {
		// "validating" = the current key, or the key it replaced earlier in this epoch, is in the validator set:
		// a boolean every definition of which is the found-result of GetExocoreValidator
		validating := func(at ast.Node, truth bool) bool {
			for _, ft := range hv.FactsAt(at, false) {
				if ft.Truth != truth {
					continue
				}
				if o := hv.outcome(ft); o != nil && o.Callee.Name() == "GetExocoreValidator" && o.Result == 1 {
					return true
				}
				id, isID := stripParens(ft.Atom).(*ast.Ident)
				if !isID {
					continue
				}
				defs := hv.defsOf(hv.objOf(id))
				all := len(defs) > 0
				for _, d := range defs {
					if c, isC := stripParens(d).(*ast.CallExpr); !isC || hv.calleeName(c) != "GetExocoreValidator" {
						all = false
					}
				}
				if all {
					return true
				}
			}
			return false
		}
		ok, n := true, 0
		for _, c := range hv.CallsNamed("SetOptOutInformation") {
			n++
			if !validating(c, true) {
				ok = false
			}
		}
		r.check(ok && n == 1, "C07.R5", "removal|opt-out-info", hv.pos(hv.Decl), "an opt-out of an operator that is validating (current or just-replaced key in the set) registers the opt-out information", "SetOptOutInformation is not called exactly on the 'key in the validator set' arm")
		// the other arm leaves nothing behind: the removal is completed at once (marker and all three indexes),
		// for this operator and chain
		okDone, nDone := true, 0
		for _, c := range hv.CallsNamed("CompleteOperatorKeyRemovalForChainID") {
			nDone++
			if !validating(c, false) || len(c.Args) != 3 || !isParamOf(hv, c.Args[1]) || !isParamOf(hv, c.Args[2]) {
				okDone = false
			}
		}
		// "validating" looks at the key being removed and at the key it replaced earlier in the epoch (the one
		// that is in the validator set until the epoch ends)
		cur, prev := false, false
		for _, c := range hv.CallsNamed("GetExocoreValidator") {
			if len(c.Args) != 2 {
				continue
			}
			for _, d := range hv.resolveDefs(c.Args[1], 0) {
				ast.Inspect(d, func(n ast.Node) bool {
					if id, isID := n.(*ast.Ident); isID {
						if isParamOf(hv, id) {
							cur = true
						}
						if resolvesToCallV(hv, id, "GetOperatorPrevConsKeyForChainID") {
							prev = true
						}
					}
					return true
				})
			}
		}
		r.check(cur && prev, "C07.R5", "removal|current-and-previous-key", hv.pos(hv.Decl), "the removal hook tests the validator set for the key being removed and for the key it replaced this epoch", "AfterOperatorKeyRemovalInitiated does not look up both the current and the previous key in the validator set: an operator that replaced its active key and opts out in the same epoch has its removal completed at once while the old key is still validating (not resolvable, not slashable)")
		r.check(okDone && nDone == 1, "C07.R5", "removal|never-active-completes", hv.pos(hv.Decl), "an opt-out of an operator whose key never was in the validator set completes the key removal at once", "the never-validated arm of AfterOperatorKeyRemovalInitiated does not complete the removal for this operator and chain: no opt-out is scheduled that could, so the removal marker and two of the three key indexes stay forever (the indexes disagree, and the operator can never set a key again)")
	} else {
		r.bad("C07.R5", "removal|anchor", "-", "anchor", "AfterOperatorKeyRemovalInitiated not found")
	}
	// the removal marker is in place before the listeners run: a listener that completes the removal at once
	// (never-active key) needs it
	if iv := w.View("x/operator/keeper", "Keeper.InitiateOperatorKeyRemovalForChainID"); iv != nil {
		var setPos, hookPos token.Pos
		for _, c := range iv.CallsNamed("Set") {
			if len(c.Args) == 2 && strings.Contains(exprString(c.Args[0]), "KeyForOperatorKeyRemovalForChainID") && !iv.nestedConditionally(c, iv.Decl.Body) {
				setPos = c.Pos()
			}
		}
		for _, c := range iv.CallsNamed("AfterOperatorKeyRemovalInitiated") {
			hookPos = c.Pos()
		}
		r.check(setPos.IsValid() && hookPos.IsValid() && setPos < hookPos, "C07.R5", "removal|marker-before-hook", iv.pos(iv.Decl), "the removal marker is stored before the removal hooks run", "InitiateOperatorKeyRemovalForChainID calls the hooks before it stores the removal marker: the immediate completion for a never-active key fails on 'not removing', and the marker written afterwards is never cleared")
	} else {
		r.bad("C07.R5", "removal|marker-before-hook", "-", "anchor", "InitiateOperatorKeyRemovalForChainID not found")
	}
	// ---- R6
	for _, nm := range []string{"Keeper.SlashWithInfractionReason"} {
		if v := w.View("x/dogfood/keeper", nm); v != nil {
			for _, c := range v.CallsNamed("SlashWithInfractionReason") {
				ok := false
				for _, ft := range v.FactsAt(c, false) {
					if o := v.outcome(ft); o != nil && o.Callee.Name() == "GetOperatorAddressForChainIDAndConsAddr" && o.Success {
						ok = true
					}
				}
				r.check(ok, "C07.R6", "dogfood|slash-by-lookup", v.pos(c), "the slashed operator is the one found by the reverse lookup", "dogfood slashes without resolving the consensus address through the reverse lookup")
				// ... and the reverse lookup is the only gate: a key that left the validator set (replaced, or its
				// operator opted out) stays slashable for as long as the lookup record is retained
				var extra []string
				for _, ft := range v.factsAt(c, false) {
					if o := v.outcome(ft); o != nil && o.Callee.Name() == "GetOperatorAddressForChainIDAndConsAddr" {
						continue
					}
					extra = append(extra, exprString(ft.Atom))
				}
				r.check(len(extra) == 0, "C07.R6", "dogfood|slash-only-gated-by-lookup", v.pos(c), "every consensus address that still resolves is slashable (no current-validator test)", "the slash is additionally conditioned on "+strings.Join(extra, ", ")+": a replaced or opted-out key can no longer be slashed although its lookup record is kept for that purpose")
			}
		} else {
			r.bad("C07.R6", "dogfood|slash-by-lookup", "-", "anchor", nm+" not found")
		}
	}
	for _, nm := range []string{"Keeper.IsOperatorJailedForChainID", "Keeper.SetJailedState", "Keeper.ValidatorByConsAddrForChainID"} {
		v := w.View("x/operator/keeper", nm)
		if v == nil {
			r.bad("C07.R6", "operator|"+nm, "-", "anchor", nm+" not found")
			continue
		}
		r.check(len(v.CallsNamed("GetOperatorAddressForChainIDAndConsAddr")) >= 1, "C07.R6", "operator|"+nm, v.pos(v.Decl), nm+" resolves the operator through the reverse lookup", nm+" no longer uses GetOperatorAddressForChainIDAndConsAddr")
	}
	// jailing by consensus address is gated by the two lookups only: a key whose operator opted out stays
	// jailable while its lookup record is retained
	if v := w.View("x/operator/keeper", "Keeper.SetJailedState"); v != nil {
		n := 0
		for _, c := range v.CallsNamed("HandleOptedInfo") {
			n++
			var extra []string
			for _, ft := range v.factsAt(c, false) {
				if o := v.outcome(ft); o != nil && (o.Callee.Name() == "GetOperatorAddressForChainIDAndConsAddr" || o.Callee.Name() == "IsAVSByChainID") && o.Success {
					continue
				}
				extra = append(extra, ifNot(ft.Truth)+exprString(ft.Atom))
			}
			okFlag := false
			if len(c.Args) == 4 {
				for _, d := range v.resolveDefs(c.Args[3], 0) {
					fl, isLit := stripParens(d).(*ast.FuncLit)
					if !isLit || len(fl.Body.List) != 1 {
						continue
					}
					if as, isAs := fl.Body.List[0].(*ast.AssignStmt); isAs && len(as.Lhs) == 1 && lastField(as.Lhs[0]) == "Jailed" && isParamOf(v, as.Rhs[0]) {
						okFlag = true
					}
				}
			}
			r.check(len(extra) == 0 && okFlag, "C07.R6", "jail|only-gated-by-lookup", v.pos(c), "every consensus address that still resolves can be jailed and unjailed: the flag is written under the two lookups and nothing else", "SetJailedState writes the flag only under "+strings.Join(extra, ", ")+" (or not unconditionally in the handler): a key being removed resolves to its operator but can no longer be jailed")
		}
		if n == 0 {
			r.bad("C07.R6", "jail|only-gated-by-lookup", v.pos(v.Decl), "HandleOptedInfo call", "SetJailedState no longer updates the opted info through HandleOptedInfo")
		}
	}
	// only an active (opted-in and not jailed) operator may opt out: the removal hook treats a key that is
	// absent from the validator set as never used and releases it at once, which is wrong for a jailed operator
	if v := w.View("x/operator/keeper", "Keeper.OptOut"); v == nil {
		r.bad("C07.R6", "optout|only-active", "-", "anchor", "Keeper.OptOut not found")
	} else {
		op, avs := paramName(v, 1), paramName(v, 2)
		ok := v.rejectsWhen(v.Decl.Body, func(f Fact) bool {
			c, isC := stripParens(f.Atom).(*ast.CallExpr)
			return isC && !f.Truth && v.calleeName(c) == "IsActive" && len(c.Args) == 3 && exprString(c.Args[1]) == op && exprString(c.Args[2]) == avs
		}, nil)
		r.check(ok, "C07.R6", "optout|only-active", v.pos(v.Decl), "OptOut is rejected unless the operator is active (opted in and not jailed) for the AVS", "OptOut does not reject every operator that is not active: a jailed operator's key has left the validator set, so the removal hook releases it at once instead of keeping it resolvable for the unbonding epochs")
	}
	// pruning happens once, at the maturing epoch end: the key-pruning queue obligations of C16
	if r.Prop == "C07" {
		sub := NewRun(r.W, "C16", r.Tier, r.Seed)
		runC16(sub)
		n := 0
		for _, o := range sub.Obs {
			if !strings.Contains(o.Key, "key-prunings") {
				continue
			}
			n++
			if o.Status == "ok" {
				r.ok("C07.R5", o.Key, o.Pos, o.Desc)
			} else {
				r.bad("C07.R5", o.Key, o.Pos, o.Desc, o.Detail)
			}
		}
		if n == 0 {
			r.bad("C07.R5", "key-prunings|none", "-", "C16 key-pruning queue obligations present", "no obligations")
		}
	}
	// ---- R7
	dk := w.Pkg("x/dogfood/keeper")
	nChain := 0
	for _, f := range dk.Syntax {
		if !inScopeFile(w.relFile(f.Pos())) {
			continue
		}
		for _, d := range f.Decls {
			fd, ok := d.(*ast.FuncDecl)
			if !ok || fd.Body == nil {
				continue
			}
			obj, _ := dk.TypesInfo.Defs[fd.Name].(*types.Func)
			v := w.ViewOf(obj)
			if v == nil {
				continue
			}
			for _, c := range allCalls(fd.Body) {
				sel, ok := c.Fun.(*ast.SelectorExpr)
				if !ok || !strings.HasSuffix(exprString(sel.X), "operatorKeeper") {
					continue
				}
				cal := v.callee(c)
				if cal == nil {
					continue
				}
				sig := cal.Type().(*types.Signature)
				for i := 0; i < sig.Params().Len() && i < len(c.Args); i++ {
					pn := strings.ToLower(sig.Params().At(i).Name())
					if !strings.HasPrefix(pn, "chainid") {
						continue
					}
					nChain++
					good := false
					for _, dd := range v.resolveDefs(c.Args[i], 0) {
						s := exprString(dd)
						if strings.Contains(s, "ChainIDWithoutRevision(") {
							good = true
						}
						if o := v.objOf(dd); o != nil {
							// a parameter of the enclosing function (hook argument)
							for _, fl := range fd.Type.Params.List {
								for _, n := range fl.Names {
									if v.Info.ObjectOf(n) == o {
										good = true
									}
								}
							}
						}
					}
					r.check(good, "C07.R7", fmt.Sprintf("chainid|%s|%s", funcID(obj), cal.Name()), v.pos(c), "chain id argument is the revision-less chain id", "the operator keeper is called with "+exprString(c.Args[i])+", which is not derived from ChainIDWithoutRevision: the registry is keyed by the revision-less id, so the call silently addresses nothing")
				}
			}
		}
	}
	if nChain < 5 {
		r.bad("C07.R7", "chainid|count", "-", "chain-id arguments found", fmt.Sprintf("only %d chain-id arguments examined", nChain))
	}
}
