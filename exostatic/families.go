package main

import (
	"fmt"
	"go/token"
	"go/types"
	"sort"
	"strings"

	"golang.org/x/tools/go/ssa"
)

// Family-level sibling-agreement rules shared by C07, C16, C18.

func shortType(t types.Type) string {
	if p, ok := t.(*types.Pointer); ok {
		t = p.Elem()
	}
	return types.TypeString(t, func(p *types.Package) string { return p.Name() })
}

// writtenType: the Go type marshalled into the value operand of a Set.
func writtenType(v ssa.Value, depth int) string {
	if depth > 8 || v == nil {
		return "?"
	}
	switch x := v.(type) {
	case *ssa.Extract:
		return writtenType(x.Tuple, depth+1)
	case *ssa.Phi:
		set := map[string]bool{}
		for _, e := range x.Edges {
			set[writtenType(e, depth+1)] = true
		}
		var ks []string
		for k := range set {
			if k != "nil" {
				ks = append(ks, k)
			}
		}
		sort.Strings(ks)
		return strings.Join(ks, "|")
	case *ssa.Const:
		return "nil"
	case *ssa.Convert:
		if b, ok := x.X.Type().Underlying().(*types.Basic); ok && b.Info()&types.IsString != 0 {
			return "string"
		}
		return writtenType(x.X, depth+1)
	case *ssa.ChangeType:
		return "bytes:" + shortType(x.X.Type())
	case *ssa.Slice:
		return writtenType(x.X, depth+1)
	case *ssa.Call:
		com := x.Common()
		name := ""
		if com.IsInvoke() {
			name = com.Method.Name()
		} else if sc := com.StaticCallee(); sc != nil {
			name = sc.Name()
		}
		switch name {
		case "MustMarshal", "Marshal", "MustMarshalLengthPrefixed", "MarshalLengthPrefixed", "MustMarshalJSON":
			var arg ssa.Value
			if com.IsInvoke() && len(com.Args) > 0 {
				arg = com.Args[0]
			} else if !com.IsInvoke() && len(com.Args) > 0 {
				arg = com.Args[len(com.Args)-1]
				if sc := com.StaticCallee(); sc != nil && sc.Signature.Recv() != nil && len(com.Args) == 1 {
					return shortType(com.Args[0].Type()) // (*T).Marshal(t)
				}
			}
			if mi, ok := arg.(*ssa.MakeInterface); ok {
				return shortType(mi.X.Type())
			}
			if arg != nil {
				return shortType(arg.Type())
			}
		case "Uint64ToBigEndian", "Uint64Bytes":
			return "uint64be"
		case "Bytes":
			if com.IsInvoke() {
				return "bytes:" + shortType(com.Value.Type())
			}
			if len(com.Args) > 0 {
				return "bytes:" + shortType(com.Args[0].Type())
			}
		case "append":
			return "bytes"
		}
		if sc := com.StaticCallee(); sc != nil && sc.Signature.Recv() != nil && name == "Marshal" {
			return shortType(sc.Signature.Recv().Type())
		}
		return "?call:" + name
	case *ssa.Parameter:
		return "param"
	case *ssa.UnOp:
		if x.Op == token.MUL {
			if a, ok := x.X.(*ssa.Alloc); ok {
				set := map[string]bool{}
				for _, ref := range *a.Referrers() {
					if st, ok := ref.(*ssa.Store); ok && st.Addr == a {
						set[writtenType(st.Val, depth+1)] = true
					}
				}
				var ks []string
				for k := range set {
					ks = append(ks, k)
				}
				sort.Strings(ks)
				return strings.Join(ks, "|")
			}
		}
	}
	return "?"
}

// readTypes: the Go types a raw value (result of Get / iterator.Value()) is decoded into.
func readTypes(v ssa.Value, depth int, out map[string]bool) {
	if depth > 6 || v == nil {
		return
	}
	refs := v.Referrers()
	if refs == nil {
		return
	}
	for _, ref := range *refs {
		switch x := ref.(type) {
		case *ssa.Extract:
			readTypes(x, depth+1, out)
		case *ssa.Phi:
			readTypes(x, depth+1, out)
		case *ssa.Convert:
			if b, ok := x.Type().Underlying().(*types.Basic); ok && b.Info()&types.IsString != 0 {
				out["string"] = true
			} else {
				readTypes(x, depth+1, out)
			}
		case *ssa.ChangeType:
			out["bytes:"+shortType(x.Type())] = true
		case *ssa.Slice:
			readTypes(x, depth+1, out)
		case *ssa.Store:
			if a, ok := x.Addr.(*ssa.Alloc); ok && x.Val == v {
				// spilled local: follow loads
				for _, r2 := range *a.Referrers() {
					if ld, ok := r2.(*ssa.UnOp); ok && ld.Op == token.MUL {
						readTypes(ld, depth+1, out)
					}
				}
			}
		case ssa.CallInstruction:
			com := x.Common()
			name := ""
			if com.IsInvoke() {
				name = com.Method.Name()
			} else if sc := com.StaticCallee(); sc != nil {
				name = sc.Name()
			} else if b, ok := com.Value.(*ssa.Builtin); ok {
				name = b.Name()
			}
			switch name {
			case "MustUnmarshal", "Unmarshal", "MustUnmarshalLengthPrefixed", "UnmarshalLengthPrefixed", "MustUnmarshalJSON":
				var target ssa.Value
				if com.IsInvoke() && len(com.Args) >= 2 {
					target = com.Args[1]
				} else if !com.IsInvoke() && len(com.Args) >= 2 {
					if sc := com.StaticCallee(); sc != nil && sc.Signature.Recv() != nil && len(com.Args) == 2 {
						target = com.Args[0] // (*T).Unmarshal(t, bz)
					} else {
						target = com.Args[len(com.Args)-1]
					}
				}
				if mi, ok := target.(*ssa.MakeInterface); ok {
					target = mi.X
				}
				if target != nil {
					out[shortType(target.Type())] = true
				}
			case "BigEndianToUint64", "BytesToUint64":
				out["uint64be"] = true
			case "append", "len", "copy":
			default:
				if ci, ok := x.(*ssa.Call); ok && (name == "AccAddress" || name == "ConsAddress") {
					_ = ci
				}
				out["?call:"+name] = true
			}
		}
	}
}

type famCodec struct {
	W map[string][]string // type -> functions
	R map[string][]string
}

// codecByFamily collects marshalled/unmarshalled types per family.
func codecByFamily(w *World, e *Effects) map[string]*famCodec {
	res := map[string]*famCodec{}
	get := func(f string) *famCodec {
		if res[f] == nil {
			res[f] = &famCodec{W: map[string][]string{}, R: map[string][]string{}}
		}
		return res[f]
	}
	for fn, accs := range e.Direct {
		if !w.fnInScope(fn) {
			continue
		}
		for _, a := range accs {
			ci := a.Instr.(ssa.CallInstruction)
			com := ci.Common()
			for _, fam := range a.Families {
				if strings.HasPrefix(fam, "?") {
					continue
				}
				fc := get(fam)
				switch a.Kind {
				case "W":
					var val ssa.Value
					if com.IsInvoke() && len(com.Args) >= 2 {
						val = com.Args[1]
					} else if !com.IsInvoke() && len(com.Args) >= 3 {
						val = com.Args[2]
					}
					t := writtenType(val, 0)
					fc.W[t] = append(fc.W[t], fn.Name())
				case "R":
					if cv, ok := a.Instr.(*ssa.Call); ok && com.Method != nil && com.Method.Name() == "Get" || (ok && com.StaticCallee() != nil && com.StaticCallee().Name() == "Get") {
						ts := map[string]bool{}
						readTypes(cv, 0, ts)
						for t := range ts {
							fc.R[t] = append(fc.R[t], fn.Name())
						}
					}
				case "I":
					// every iterator.Value() of an iterator created by this access
					itv, ok := a.Instr.(ssa.Value)
					if !ok {
						continue
					}
					collectIterValueTypes(itv, fn, fc, 0)
				}
			}
		}
	}
	return res
}

func collectIterValueTypes(it ssa.Value, fn *ssa.Function, fc *famCodec, depth int) {
	if depth > 4 || it.Referrers() == nil {
		return
	}
	for _, ref := range *it.Referrers() {
		switch x := ref.(type) {
		case *ssa.MakeInterface:
			collectIterValueTypes(x, fn, fc, depth+1)
		case *ssa.ChangeInterface:
			collectIterValueTypes(x, fn, fc, depth+1)
		case *ssa.Call:
			com := x.Common()
			if com.IsInvoke() && com.Value == it && com.Method.Name() == "Value" {
				ts := map[string]bool{}
				readTypes(x, 0, ts)
				for t := range ts {
					fc.R[t] = append(fc.R[t], fn.Name())
				}
			}
		case *ssa.Store:
			if a, ok := x.Addr.(*ssa.Alloc); ok {
				for _, r2 := range *a.Referrers() {
					if ld, ok := r2.(*ssa.UnOp); ok && ld.Op == token.MUL {
						collectIterValueTypes(ld, fn, fc, depth+1)
					}
				}
			}
		case *ssa.MakeClosure:
			// iterator captured by a deferred closure (Close): ignore
		}
	}
}

// codecAgreementRule: a family must not be decoded as a type it is never encoded as.
func codecAgreementRule(r *Run, rule string, modules map[string]bool) {
	w := r.W
	e := effects(w)
	byFam := codecByFamily(w, e)
	var fams []string
	for f := range byFam {
		fams = append(fams, f)
	}
	sort.Strings(fams)
	for _, fam := range fams {
		mod := strings.SplitN(fam, ":", 2)[0]
		if !modules[mod] {
			continue
		}
		fc := byFam[fam]
		wt := map[string]bool{}
		for t := range fc.W {
			for _, part := range strings.Split(t, "|") {
				wt[part] = true
			}
		}
		if len(wt) == 0 || len(fc.R) == 0 {
			continue
		}
		definiteW := false
		for t := range wt {
			if !strings.HasPrefix(t, "?") && t != "param" && t != "nil" && t != "bytes" {
				definiteW = true
			}
		}
		if !definiteW {
			continue
		}
		var bad []string
		for t, fns := range fc.R {
			if strings.HasPrefix(t, "?") || wt[t] || strings.HasPrefix(t, "bytes") && hasBytesLike(wt) {
				continue
			}
			bad = append(bad, fmt.Sprintf("%s decoded as %s in %v (written as %v)", e.R.famName(fam), t, uniq(fns), keysOf(wt)))
		}
		sort.Strings(bad)
		r.check(len(bad) == 0, rule, "codec|"+fam, "-", "family "+e.R.famName(fam)+" is decoded only as the type it is encoded as", strings.Join(bad, "; "))
	}
}

func hasBytesLike(m map[string]bool) bool {
	for t := range m {
		if strings.HasPrefix(t, "bytes") || t == "string" || t == "param" {
			return true
		}
	}
	return false
}

func uniq(in []string) []string {
	m := map[string]bool{}
	var out []string
	for _, s := range in {
		if !m[s] {
			m[s] = true
			out = append(out, s)
		}
	}
	sort.Strings(out)
	return out
}

// keyCtorAgreementRule: the point accesses (Get/Has/Set/Delete) of one family use
// at most one named key constructor of the repo.
func keyCtorAgreementRule(r *Run, rule string, modules map[string]bool) {
	w := r.W
	e := effects(w)
	agg := map[string]map[string][]string{}
	for fn, accs := range e.Direct {
		if !w.fnInScope(fn) {
			continue
		}
		for _, a := range accs {
			if a.Kind == "I" {
				continue
			}
			kc := e.R.keyCtor(accessKey(a.Instr), 0)
			if !strings.HasPrefix(kc, "types.") {
				continue
			}
			for _, fam := range a.Families {
				if agg[fam] == nil {
					agg[fam] = map[string][]string{}
				}
				agg[fam][kc] = append(agg[fam][kc], a.Kind+":"+fn.Name())
			}
		}
	}
	var fams []string
	for f := range agg {
		fams = append(fams, f)
	}
	sort.Strings(fams)
	for _, fam := range fams {
		mod := strings.SplitN(fam, ":", 2)[0]
		if !modules[mod] || strings.HasPrefix(fam, "?") {
			continue
		}
		var ctors []string
		for k := range agg[fam] {
			ctors = append(ctors, k)
		}
		sort.Strings(ctors)
		detail := ""
		for _, k := range ctors {
			detail += fmt.Sprintf("%s by %v; ", k, uniq(agg[fam][k]))
		}
		r.check(len(ctors) == 1, rule, "keyctor|"+fam, "-", "family "+e.R.famName(fam)+" is addressed through one key constructor ("+ctors[0]+")",
			"the same family is addressed through different key constructors (the entries written by one are invisible to the other): "+detail)
	}
}
