package main

import (
	"fmt"
	"go/ast"
	"go/types"
	"strings"
)

// callbacksStopOnlyWithError: iteration callbacks of the restaking keepers have the shape
// func(key, value) (stop bool, err error). A callback that aggregates over all records (a sum, a map of all
// entries, an update of each) must not ask the iterator to stop unless it reports an error: `return true, nil`
// silently drops the rest of the records. The deliberate stops ("nothing left to do") are an audited table.
var deliberateStops = map[string]string{
	"x/delegation/keeper.Keeper.UpdateNSTBalance#1": "consumes pending undelegations until the amount to remove is used up: stops under !pendingSlashAmount.IsPositive() only",
}

func callbacksStopOnlyWithError(r *Run, rule string) {
	w := r.W
	n := 0
	for _, v := range w.allViews() {
		rel := w.relFile(v.Decl.Pos())
		if v.Decl.Body == nil || !inScopeFile(rel) || !strings.Contains(rel, "/keeper/") {
			continue
		}
		ord := 0
		ast.Inspect(v.Decl.Body, func(m ast.Node) bool {
			fl, ok := m.(*ast.FuncLit)
			if !ok {
				return true
			}
			sig, _ := v.Info.TypeOf(fl).(*types.Signature)
			if sig == nil || sig.Results().Len() != 2 || !isBoolType(sig.Results().At(0).Type()) || !isErrorType(sig.Results().At(1).Type()) {
				return true
			}
			ord++
			n++
			key := fmt.Sprintf("%s#%d", v.ID(), ord)
			var stops []*ast.ReturnStmt
			ast.Inspect(fl.Body, func(x ast.Node) bool {
				if inner, isLit := x.(*ast.FuncLit); isLit && inner != fl {
					return false
				}
				rs, isR := x.(*ast.ReturnStmt)
				if !isR || len(rs.Results) != 2 {
					return true
				}
				// anything but the literal false can ask for a stop
				if id, isID := stripParens(rs.Results[0]).(*ast.Ident); (!isID || id.Name != "false") && isNilIdent(v.Info, rs.Results[1]) {
					stops = append(stops, rs)
				}
				return true
			})
			if len(stops) == 0 {
				r.ok(rule, "callback|stops-only-with-error|"+key, v.pos(fl), "the callback asks the iterator to stop only together with an error")
				return true
			}
			if why, audited := deliberateStops[key]; audited {
				// the audited stop is still checked for its condition: under "nothing left" only
				okCond := true
				for _, rs := range stops {
					cond := false
					for _, f := range v.FactsAt(rs, false) {
						// the condition is tested inside the callback itself
						if c, isC := stripParens(f.Atom).(*ast.CallExpr); isC && !f.Truth && strings.HasSuffix(exprString(c.Fun), ".IsPositive") && f.At != nil && within(f.At, fl.Body) {
							cond = true
						}
					}
					if !cond {
						okCond = false
					}
				}
				r.check(okCond, rule, "callback|stops-only-with-error|"+key, v.pos(fl), "audited deliberate stop: "+why, "the audited stop of "+key+" is no longer under `!<remaining>.IsPositive()`")
				return true
			}
			r.bad(rule, "callback|stops-only-with-error|"+key, v.pos(stops[0]), "the callback asks the iterator to stop only together with an error",
				fmt.Sprintf("the iteration callback #%d of %s returns (true, nil) at %s: the iterator stops without an error and the records after this one are silently left out of the result", ord, v.ID(), v.pos(stops[0])))
			return true
		})
	}
	if n < 8 {
		r.bad(rule, "callback|stops-only-with-error|matcher", "-", "at least 8 (bool, error) callbacks in keeper code", fmt.Sprintf("only %d found", n))
	}
}

func isBoolType(t types.Type) bool {
	b, ok := t.Underlying().(*types.Basic)
	return ok && b.Kind() == types.Bool
}
