package main

import (
	"fmt"
	"go/ast"
	"go/token"
	"go/types"
	"sort"
	"strings"
)

func init() { register("C05", runC05) }

func runC05(r *Run) {
	w := r.W
	r.Explain = "Static decision of structural necessary conditions of C05 (voting power): the value formula is amount*price / 10^(asset decimals + price decimals) with the operands wired from the per-asset price and decimals lookups (comma-ok map reads, so a legitimate zero is not mistaken for a missing key) and every per-asset value is added to the running figure of its field (the recorded values are sums over the supported assets); per operator the three values are reset, then self/total are assigned from the recomputation and the active value and the AVS accumulator are raised only when self >= the AVS minimum; the asset filter is the AVS's own supported-asset list; the recompute is atomic (cache context); the epoch hook recomputes every AVS whose identifier ended from the epoch preceding its starting epoch onwards (>= start-1) and skips an AVS on error; opt-in creates, opt-out deletes the value entry and a not-opted-in operator reads as zero; role-typed address arguments are not swapped."
	r.NotDec = []string{"monotonicity in amounts and prices", "price freshness", "the value 'at the end of each epoch' as a temporal fact"}
	r.Assume = []string{"sdk Int.Mul / Dec.QuoInt semantics"}
	r.rule("C05.R1", "formula shape and operand wiring of CalculateUSDValue and all its call sites; comma-ok map lookups; every per-asset value added to the running sum", 11)
	r.rule("C05.R2", "eligibility: reset first; self/total assigned; active value and AVS accumulator only under self >= minimum self-delegation", 5)
	r.rule("C05.R3", "asset filter = GetAVSSupportedAssets of the same AVS; prices/decimals for the same list", 2)
	r.rule("C05.R4", "atomic recompute: cache-context discipline in UpdateVotingPower; iterate-and-update plus AVS value inside it", 4)
	r.rule("C05.R5", "epoch fan-out: every AVS of GetEpochEndAVSs is recomputed, errors skip; predicate endingEpoch >= StartingEpoch-1 and identifier equality", 3)
	r.rule("C05.R6", "opt-in creates / opt-out deletes the value entry; not opted in reads as zero", 3)
	r.rule("C05.R7", "role-typed address arguments (AVS vs operator) are not swapped at calls with both roles", 12)
	r.rule("C05.R8", "the recomputed per-operator values are written back by the iterator helper", 1)
	iteratorWriteBackRule(r, "C05.R8", map[string]bool{"IterateOperatorsForAVS": true, "IterateAssetsForOperator": true})
	// the supported-asset set handed to the valuation is never nil on success: a nil set means "no filter" to
	// the asset iterator and "nothing supported" to UpdateVotingPower (which then deletes the value records)
	if gv := w.View("x/avs/keeper", "Keeper.GetAVSSupportedAssets"); gv == nil {
		r.bad("C05.R3", "anchor|GetAVSSupportedAssets", "-", "anchor", "not found")
	} else {
		okAll, n := true, 0
		ast.Inspect(gv.Decl.Body, func(nd ast.Node) bool {
			rs, isRet := nd.(*ast.ReturnStmt)
			if !isRet || len(rs.Results) != 2 || !isNilIdent(gv.Info, rs.Results[1]) {
				return true
			}
			n++
			o := gv.objOf(rs.Results[0])
			good := false
			if o != nil {
				defs := gv.defsOf(o)
				good = len(defs) >= 1
				for _, d := range defs {
					if !isFreshContainer(d) {
						good = false
					}
				}
				// and at least one of the definitions is unconditional (a statement of the function body)
				uncond := false
				for _, st := range gv.Decl.Body.List {
					if as, isAs := st.(*ast.AssignStmt); isAs {
						for i, l := range as.Lhs {
							if gv.objOf(l) == o && i < len(as.Rhs) && isFreshContainer(as.Rhs[i]) {
								uncond = true
							}
						}
					}
				}
				good = good && uncond
			} else if isFreshContainer(rs.Results[0]) {
				good = true
			}
			if !good {
				okAll = false
			}
			return true
		})
		r.check(okAll && n >= 1, "C05.R3", "supported-assets|never-nil", gv.pos(gv.Decl), "GetAVSSupportedAssets returns an allocated (possibly empty) set on success", "GetAVSSupportedAssets can return a nil set without an error: the asset iterator reads nil as 'no filter' and UpdateVotingPower reads it as 'no assets' and deletes every operator's value record")
	}
	r.rule("C05.R9", "the oracle token of an asset is found by exact match against the elements of the token's asset list", 1)
	if tv := w.View("x/oracle/types", "Params.GetTokenIDFromAssetID"); tv == nil {
		r.bad("C05.R9", "anchor|GetTokenIDFromAssetID", "-", "anchor", "not found")
	} else {
		r.saw(tv.ID())
		p0 := paramName(tv, 0)
		okAll, n := true, 0
		ast.Inspect(tv.Decl.Body, func(nd ast.Node) bool {
			rs, isRet := nd.(*ast.ReturnStmt)
			if !isRet || len(rs.Results) != 1 {
				return true
			}
			if cv := tv.constOf(rs.Results[0]); cv != nil && cv.ExactString() == "0" {
				return true // "not found"
			}
			n++
			exact := false
			for _, f := range tv.FactsAt(rs, false) {
				if c, ok := factCmp(f); ok && c.Op == "==" && exprString(c.R) == p0 {
					// the compared value is an element of strings.Split(token.AssetID, ",")
					if lp, isLoop := tv.innermostLoop(rs).(*ast.RangeStmt); isLoop && tv.objOf(c.L) != nil && tv.objOf(c.L) == tv.objOf(lp.Value) {
						for _, d := range tv.resolveDefs(lp.X, 0) {
							if name, args, isC := funcCallName(d); isC && name == "Split" && len(args) == 2 && lastField(args[0]) == "AssetID" {
								exact = true
							}
						}
					}
					if lastField(c.L) == "AssetID" {
						exact = true // single-asset form: token.AssetID == assetID
					}
				}
			}
			if !exact {
				okAll = false
			}
			return true
		})
		r.check(okAll && n >= 1, "C05.R9", "price|exact-asset-match", tv.pos(tv.Decl), "an asset is priced with the token whose asset list contains exactly that asset id", "GetTokenIDFromAssetID returns a token without an equality match of the asset id against an element of the token's asset list (a substring/prefix match prices an asset with another token's price)")
	}

	// ---- R1
	if v := w.View("x/operator/keeper", "CalculateUSDValue"); v == nil {
		r.bad("C05.R1", "anchor|CalculateUSDValue", "-", "anchor", "CalculateUSDValue not found")
	} else {
		r.saw(v.ID())
		var ps []types.Object
		for _, fl := range v.Decl.Type.Params.List {
			for _, n := range fl.Names {
				ps = append(ps, v.Info.ObjectOf(n))
			}
		}
		ok := len(ps) == 4
		if ok {
			// return X.QuoInt(D): X derives from amount.Mul(price); D = NewIntWithDecimal(1, assetDecimal+priceDecimal)
			okNum, okDen := false, false
			ast.Inspect(v.Decl.Body, func(n ast.Node) bool {
				rs, isRet := n.(*ast.ReturnStmt)
				if !isRet || len(rs.Results) != 1 {
					return true
				}
				recv, name, args, isC := methodCall(rs.Results[0])
				if !isC || (name != "QuoInt" && name != "QuoTruncate") || len(args) != 1 {
					return true
				}
				numS := ""
				for _, d := range v.resolveDefs(recv, 0) {
					numS += exprString(d)
					if c, isCall := stripParens(d).(*ast.CallExpr); isCall {
						for _, a := range c.Args {
							for _, d2 := range v.resolveDefs(a, 0) {
								numS += "|" + exprString(d2)
								// one more level: assetValue.BigInt()
								if r3, _, _, ok3 := methodCall(d2); ok3 {
									for _, d3 := range v.resolveDefs(r3, 0) {
										numS += "|" + exprString(d3)
									}
								}
							}
						}
					}
				}
				if strings.Contains(numS, ps[0].Name()+".Mul("+ps[1].Name()+")") || strings.Contains(numS, ps[1].Name()+".Mul("+ps[0].Name()+")") {
					okNum = true
				}
				for _, d := range v.resolveDefs(args[0], 0) {
					s := exprString(d)
					if strings.Contains(s, "NewIntWithDecimal(1,") && strings.Contains(s, ps[2].Name()) && strings.Contains(s, ps[3].Name()) && strings.Contains(s, "+") && !strings.Contains(s, "-") {
						okDen = true
					}
				}
				return true
			})
			ok = okNum && okDen
		}
		r.check(ok, "C05.R1", "CalculateUSDValue|formula", v.pos(v.Decl), "value = amount*price / 10^(assetDecimal+priceDecimal)", "CalculateUSDValue is not (assetAmount.Mul(price)).QuoInt(10^(assetDecimal+priceDecimal))")
	}
	cu := w.View("x/operator/keeper", "Keeper.CalculateUSDValueForOperator")
	if cu == nil {
		r.bad("C05.R1", "anchor|CalculateUSDValueForOperator", "-", "anchor", "not found")
	} else {
		r.saw(cu.ID())
		// call sites (every in-scope caller): (amount, price.Value, asset decimals, price.Decimal) of one price
		n := 0
		{
			for _, fv := range w.allViews() {
				for _, c := range fv.CallsNamed("CalculateUSDValue") {
					if cal := fv.callee(c); cal == nil || cal.Pkg() == nil || !strings.HasSuffix(cal.Pkg().Path(), "x/operator/keeper") {
						continue
					}
					n++
					good := len(c.Args) == 4 && lastField(c.Args[1]) == "Value" && lastField(c.Args[3]) == "Decimal" && rootIdent(c.Args[1]) != nil && rootIdent(c.Args[3]) != nil && rootIdent(c.Args[2]) != nil &&
						rootIdent(c.Args[1]).Name == rootIdent(c.Args[3]).Name && strings.Contains(strings.ToLower(exprString(c.Args[2])), "decimal") && rootIdent(c.Args[2]).Name != rootIdent(c.Args[1]).Name
					r.check(good, "C05.R1", fmt.Sprintf("callsite|%s#%d|operands", fv.ID(), n), fv.pos(c), "CalculateUSDValue(amount, price.Value, assetDecimal, price.Decimal)", "operands of CalculateUSDValue are not (amount, price.Value, asset decimals, price.Decimal) of one price: "+exprString(c))
				}
			}
		}
		if n < 4 {
			r.bad("C05.R1", "callsites|count", cu.pos(cu.Decl), "four value computations (slash base, total, self, staker value)", fmt.Sprintf("%d CalculateUSDValue calls", n))
		}
		// comma-ok lookups of the prices and decimals maps
		for _, mp := range []string{"prices", "decimals"} {
			okForm := false
			ast.Inspect(cu.Decl.Body, func(nd ast.Node) bool {
				as, isAs := nd.(*ast.AssignStmt)
				if !isAs || len(as.Rhs) != 1 {
					return true
				}
				ix, isIx := as.Rhs[0].(*ast.IndexExpr)
				if !isIx || exprString(ix.X) != mp {
					return true
				}
				if len(as.Lhs) == 2 {
					// the ok variable is tested and a miss returns an error
					okObj := cu.objOf(as.Lhs[1])
					list := stmtListOf(cu.parent(as))
					for i, st := range list {
						if st == ast.Stmt(as) && i+1 < len(list) {
							if ifs, isIf := list[i+1].(*ast.IfStmt); isIf && cu.usesObj(ifs.Cond, okObj) && cu.terminates(ifs.Body) {
								okForm = true
							}
						}
					}
				}
				return true
			})
			r.check(okForm, "C05.R1", "lookup|"+mp, cu.pos(cu.Decl), "the "+mp+" map is read with the comma-ok form and a miss is an error", "the "+mp+" lookup does not use `v, ok := "+mp+"[assetID]; if !ok { return err }` (a legitimate zero value would be treated as missing, or a missing key as zero)")
		}
		// self amount = TokensFromShares(OperatorShare, TotalShare, TotalAmount)
		okSelf := false
		for _, c := range cu.CallsNamed("TokensFromShares") {
			if len(c.Args) == 3 && lastField(c.Args[0]) == "OperatorShare" && lastField(c.Args[1]) == "TotalShare" && lastField(c.Args[2]) == "TotalAmount" {
				okSelf = true
			}
		}
		r.check(okSelf, "C05.R1", "self-amount", cu.pos(cu.Decl), "self value is computed on the token equivalent of the self-share", "self amount is not TokensFromShares(OperatorShare, TotalShare, TotalAmount)")
		// every per-asset value is added to the running figure of the same field (a sum over the assets)
		nAcc := 0
		ast.Inspect(cu.Decl.Body, func(nd ast.Node) bool {
			as, isAs := nd.(*ast.AssignStmt)
			if !isAs || len(as.Lhs) != 1 || len(as.Rhs) != 1 {
				return true
			}
			sel, isSel := stripParens(as.Lhs[0]).(*ast.SelectorExpr)
			if !isSel {
				return true
			}
			// a field of the function's result record (types.OperatorStakingInfo)
			tv := cu.Info.TypeOf(sel.X)
			if tv == nil || !strings.HasSuffix(strings.TrimPrefix(tv.String(), "*"), "types.OperatorStakingInfo") {
				return true
			}
			nAcc++
			recv, nm, args, isM := methodCall(as.Rhs[0])
			good := as.Tok == token.ASSIGN && isM && nm == "Add" && len(args) == 1 && (exprString(recv) == exprString(sel) || exprString(args[0]) == exprString(sel))
			if as.Tok == token.ADD_ASSIGN {
				good = true
			}
			r.check(good, "C05.R1", "sum-over-assets|"+sel.Sel.Name, cu.pos(as), "the value of each asset is added to the running "+sel.Sel.Name+" (the figure is the sum over the supported assets)", exprString(as.Lhs[0])+" is assigned the value of one asset instead of "+exprString(as.Lhs[0])+".Add(<that value>): with two priced assets only the last one iterated counts")
			return true
		})
		if nAcc < 3 {
			r.bad("C05.R1", "sum-over-assets|count", cu.pos(cu.Decl), "three accumulated figures (slash base, total, self)", fmt.Sprintf("%d assignments to a field of the OperatorStakingInfo result", nAcc))
		}
	}
	// ---- R2..R4
	uv := w.View("x/operator/keeper", "Keeper.UpdateVotingPower")
	if uv == nil {
		r.bad("C05.R2", "anchor", "-", "anchor", "UpdateVotingPower not found")
		return
	}
	r.saw(uv.ID())
	{
		// the callback: the function literal passed to IterateOperatorsForAVS
		var cb *ast.FuncLit
		for _, c := range uv.CallsNamed("IterateOperatorsForAVS") {
			for _, a := range c.Args {
				for _, d := range uv.resolveDefs(a, 0) {
					if fl, ok := stripParens(d).(*ast.FuncLit); ok {
						cb = fl
					}
				}
			}
		}
		if cb == nil {
			r.bad("C05.R2", "callback", uv.pos(uv.Decl), "per-operator callback", "no function literal handed to IterateOperatorsForAVS")
		} else {
			// reset first: first statement assigns *optedUSDValues = OperatorOptedUSDValue{all zero}
			resetOK := false
			isZeroLit := func(e ast.Expr) bool {
				cl, isLit := stripParens(e).(*ast.CompositeLit)
				if !isLit {
					return false
				}
				zero := 0
				for _, f := range []string{"TotalUSDValue", "SelfUSDValue", "ActiveUSDValue"} {
					if val := compositeField(cl, f); val != nil {
						if name, args, isC := funcCallName(val); isC && (name == "LegacyNewDec" || name == "LegacyZeroDec") && (len(args) == 0 || exprString(args[0]) == "0") {
							zero++
						}
					}
				}
				return zero == 3
			}
			touches := func(st ast.Stmt) bool {
				hit := false
				ast.Inspect(st, func(n ast.Node) bool {
					switch x := n.(type) {
					case *ast.ReturnStmt:
						hit = true
					case *ast.SelectorExpr:
						if x.Sel.Name == "ActiveUSDValue" || x.Sel.Name == "SelfUSDValue" || x.Sel.Name == "TotalUSDValue" {
							hit = true
						}
					}
					return !hit
				})
				return hit
			}
			// an unconditional top-level reset that precedes every use of the three fields and every return
			for _, st := range cb.Body.List {
				if as, ok := st.(*ast.AssignStmt); ok && len(as.Lhs) == 1 && len(as.Rhs) == 1 {
					if _, isStar := as.Lhs[0].(*ast.StarExpr); isStar && isZeroLit(as.Rhs[0]) {
						resetOK = true
						break
					}
				}
				if touches(st) {
					break
				}
			}
			r.check(resetOK, "C05.R2", "reset-first", uv.pos(cb), "each operator's three values are reset to zero before the recomputation", "the callback does not start by resetting total, self and active value to zero (a stale active value survives when self drops below the minimum)")
			okActive, okAcc, okSelfTot := false, false, 0
			for _, as := range uv.assignmentsToField(cb.Body, "ActiveUSDValue") {
				for _, f := range uv.FactsAt(as, false) {
					if cm, ok := factCmp(f); ok && lastField(cm.L) == "SelfStaking" && cm.Op == ">=" && strings.Contains(strings.ToLower(exprString(cm.R)), "minimumselfdelegation") && lastField(as.Rhs[0]) == "Staking" {
						okActive = true
					}
				}
			}
			ast.Inspect(cb.Body, func(n ast.Node) bool {
				as, ok := n.(*ast.AssignStmt)
				if !ok || len(as.Lhs) != 1 || len(as.Rhs) != 1 {
					return true
				}
				if recv, nm, _, isC := methodCall(as.Rhs[0]); isC && nm == "Add" && uv.objOf(recv) == uv.objOf(as.Lhs[0]) && uv.objOf(recv) != nil {
					for _, f := range uv.FactsAt(as, false) {
						if cm, okc := factCmp(f); okc && lastField(cm.L) == "SelfStaking" && cm.Op == ">=" {
							okAcc = true
						}
					}
				}
				return true
			})
			for _, fld := range [][2]string{{"SelfUSDValue", "SelfStaking"}, {"TotalUSDValue", "Staking"}} {
				for _, as := range uv.assignmentsToField(cb.Body, fld[0]) {
					if lastField(as.Rhs[0]) == fld[1] && !uv.nestedConditionally(as, cb.Body) {
						okSelfTot++
					}
				}
			}
			r.check(okActive, "C05.R2", "active-iff-min-self", uv.pos(cb), "active value = total exactly when self >= the AVS minimum", "ActiveUSDValue is not assigned stakingInfo.Staking under SelfStaking.GTE(minimumSelfDelegation)")
			r.check(okAcc, "C05.R2", "avs-sum-of-active", uv.pos(cb), "the AVS value accumulates only operators meeting the minimum", "the AVS accumulator is increased outside the SelfStaking >= minimum arm")
			r.check(okSelfTot == 2, "C05.R2", "self-total-assigned", uv.pos(cb), "self and total value are always assigned from the recomputation", "SelfUSDValue/TotalUSDValue are not unconditionally assigned from SelfStaking/Staking")
			// the minimum is the AVS's
			okMin := false
			for _, c := range uv.CallsNamed("GetAVSMinimumSelfDelegation") {
				if len(c.Args) == 2 && exprString(c.Args[1]) == "avsAddr" {
					okMin = true
				}
			}
			r.check(okMin, "C05.R2", "minimum-of-this-avs", uv.pos(uv.Decl), "the minimum is read for the AVS being recomputed", "GetAVSMinimumSelfDelegation is not called with avsAddr")
			// R3
			okFilter := false
			var assetsObj types.Object
			for _, c := range uv.CallsNamed("GetAVSSupportedAssets") {
				if len(c.Args) == 2 && exprString(c.Args[1]) == "avsAddr" {
					if as, ok := uv.parent(c).(*ast.AssignStmt); ok && len(as.Lhs) == 2 {
						assetsObj = uv.objOf(as.Lhs[0])
					}
				}
			}
			for _, c := range uv.Calls(cb.Body, byName("CalculateUSDValueForOperator")) {
				if len(c.Args) == 6 && assetsObj != nil && uv.objOf(c.Args[3]) == assetsObj && exprString(c.Args[1]) == "false" {
					okFilter = true
				}
			}
			r.check(okFilter, "C05.R3", "filter|supported-assets", uv.pos(cb), "only the AVS's supported assets are counted", "CalculateUSDValueForOperator is not given GetAVSSupportedAssets(avsAddr) as its asset filter (or is called with isForSlash=true)")
			okSame := true
			for _, nm := range []string{"GetAssetsDecimal", "GetMultipleAssetsPrices"} {
				good := false
				for _, c := range uv.CallsNamed(nm) {
					if len(c.Args) == 2 && assetsObj != nil && uv.objOf(c.Args[1]) == assetsObj {
						good = true
					}
				}
				if !good {
					okSame = false
				}
			}
			r.check(okSame, "C05.R3", "prices-decimals|same-list", uv.pos(uv.Decl), "prices and decimals are fetched for the same asset list", "prices/decimals are not fetched for the AVS's asset list")
		}
	}
	{
		var sites []*ccSite
		for _, s := range ccSites(w, func(rf string) bool { return rf == "x/operator/keeper/abci.go" }) {
			if s.V.Obj == uv.Obj {
				sites = append(sites, s)
			}
		}
		if len(sites) != 1 {
			r.bad("C05.R4", "cachectx|present", uv.pos(uv.Decl), "cache context", "UpdateVotingPower does not use exactly one cache context")
		}
		cacheCtxRule(r, "C05.R4", sites)
	}
	// ---- R5
	if hv := w.View("x/operator/keeper", "EpochsHooksWrapper.AfterEpochEnd"); hv != nil {
		r.saw(hv.ID())
		ok := false
		for _, c := range hv.CallsNamed("UpdateVotingPower") {
			if lp, isR := hv.innermostLoop(c).(*ast.RangeStmt); isR {
				for _, d := range hv.resolveDefs(lp.X, 0) {
					gc, isCall := stripParens(d).(*ast.CallExpr)
					if isCall && hv.calleeName(gc) == "GetEpochEndAVSs" && len(gc.Args) == 3 && isParamOf(hv, gc.Args[1]) && isParamOf(hv, gc.Args[2]) {
						k, _ := hv.failArm(c)
						if k == "continue" && hv.argIsObj(c, hv.objOf(lp.Value)) {
							ok = true
						}
					}
				}
			}
		}
		r.check(ok, "C05.R5", "hook|fan-out", hv.pos(hv.Decl), "every AVS whose epoch ended is recomputed; an error skips that AVS only", "the hook does not call UpdateVotingPower for every element of GetEpochEndAVSs(ctx, id, n) with `continue` on error")
	} else {
		r.bad("C05.R5", "hook|anchor", "-", "anchor", "operator AfterEpochEnd not found")
	}
	if gv := w.View("x/avs/keeper", "Keeper.GetEpochEndAVSs"); gv != nil {
		r.saw(gv.ID())
		okCls, okID := false, false
		ast.Inspect(gv.Decl.Body, func(n ast.Node) bool {
			as, ok := n.(*ast.AssignStmt)
			if !ok || len(as.Rhs) != 1 || !strings.HasPrefix(exprString(as.Rhs[0]), "append(") {
				return true
			}
			for _, f := range gv.FactsAt(as, true) {
				if cm, okc := factCmp(f); okc {
					l, rr := exprString(cm.L), exprString(cm.R)
					if strings.Contains(strings.ToLower(l), "endingepoch") && cm.Op == ">=" && strings.Contains(rr, "StartingEpoch") && strings.HasSuffix(strings.ReplaceAll(rr, " ", ""), "-1") {
						okCls = true
					}
					if cm.Op == "==" && strings.Contains(l+rr, "EpochIdentifier") && strings.Contains(strings.ToLower(l+rr), "epochidentifier") {
						okID = true
					}
				}
			}
			return true
		})
		r.check(okCls, "C05.R5", "predicate|from-start-minus-one", gv.pos(gv.Decl), "an AVS is tracked from the epoch preceding its starting epoch (>= start-1)", "GetEpochEndAVSs' predicate is not endingEpoch >= StartingEpoch-1")
		r.check(okID, "C05.R5", "predicate|identifier", gv.pos(gv.Decl), "only AVSs with the ended identifier are selected", "GetEpochEndAVSs does not compare the epoch identifier")
	} else {
		r.bad("C05.R5", "predicate|anchor", "-", "anchor", "GetEpochEndAVSs not found")
	}
	// ---- R6
	if ov := w.View("x/operator/keeper", "Keeper.OptIn"); ov != nil {
		r.check(len(ov.CallsNamed("InitOperatorUSDValue")) == 1, "C05.R6", "optin|creates-entry", ov.pos(ov.Decl), "opt-in creates the value entry", "OptIn does not call InitOperatorUSDValue")
	}
	if ov := w.View("x/operator/keeper", "Keeper.OptOut"); ov != nil {
		r.check(len(ov.CallsNamed("DeleteOperatorUSDValue")) == 1, "C05.R6", "optout|deletes-entry", ov.pos(ov.Decl), "opt-out deletes the value entry", "OptOut does not call DeleteOperatorUSDValue")
	}
	if gv := w.View("x/operator/keeper", "Keeper.GetOperatorOptedUSDValue"); gv != nil {
		ok := false
		ast.Inspect(gv.Decl.Body, func(n ast.Node) bool {
			rs, isRet := n.(*ast.ReturnStmt)
			if !isRet || len(rs.Results) != 2 || !isNilIdent(gv.Info, rs.Results[1]) {
				return true
			}
			if gv.GuardedBy(rs, byName("IsOptedIn"), false) != nil {
				if cl, isLit := rs.Results[0].(*ast.CompositeLit); isLit {
					z := 0
					for _, el := range cl.Elts {
						if kv, isKV := el.(*ast.KeyValueExpr); isKV {
							if name, args, isC := funcCallName(kv.Value); isC && name == "LegacyNewDec" && len(args) == 1 && exprString(args[0]) == "0" {
								z++
							}
						}
					}
					ok = z == 3
				}
			}
			return true
		})
		r.check(ok, "C05.R6", "not-opted-in|zero", gv.pos(gv.Decl), "an operator that is not opted in contributes zero", "GetOperatorOptedUSDValue does not return the all-zero value on the !IsOptedIn arm")
	}
	// ---- R7: role-typed strings at calls whose callee names both roles
	nRole := 0
	for fo := range entryReachable(w) {
		v := w.ViewOf(fo)
		if v == nil || !strings.HasPrefix(funcID(fo), "x/") || strings.HasPrefix(funcID(fo), "x/evm") {
			continue
		}
		for _, c := range allCalls(v.Decl.Body) {
			cal := v.callee(c)
			if cal == nil {
				continue
			}
			sig := cal.Type().(*types.Signature)
			avsIdx, opIdx := -1, -1
			for i := 0; i < sig.Params().Len(); i++ {
				n := strings.ToLower(sig.Params().At(i).Name())
				if b, ok := sig.Params().At(i).Type().Underlying().(*types.Basic); !ok || b.Kind() != types.String {
					continue
				}
				if strings.HasPrefix(n, "avs") {
					avsIdx = i
				}
				if strings.HasPrefix(n, "operator") || n == "opaddr" {
					opIdx = i
				}
			}
			if avsIdx < 0 || opIdx < 0 || avsIdx >= len(c.Args) || opIdx >= len(c.Args) {
				continue
			}
			role := func(e ast.Expr) string {
				s := strings.ToLower(exprString(e))
				switch {
				case strings.Contains(s, "avs"):
					return "avs"
				case strings.Contains(s, "operator") || strings.Contains(s, "opaddr") || strings.Contains(s, "fromaddress"):
					return "operator"
				}
				return ""
			}
			ra, ro := role(c.Args[avsIdx]), role(c.Args[opIdx])
			if ra == "" || ro == "" {
				continue
			}
			nRole++
			r.check(!(ra == "operator" && ro == "avs"), "C05.R7", fmt.Sprintf("roles|%s|%s", funcID(fo), cal.Name()), v.pos(c), "AVS and operator arguments are in their parameter positions", fmt.Sprintf("%s is called with an operator-like value (%s) as the AVS address and an AVS-like value (%s) as the operator address", cal.Name(), exprString(c.Args[avsIdx]), exprString(c.Args[opIdx])))
		}
	}
	r.note("C05.R7: %d calls with both an AVS and an operator string parameter examined", nRole)
	_ = token.NoPos
}

// isParamOf: e is (an alias of) a parameter of v's function.
func isParamOf(v *FnView, e ast.Expr) bool {
	for _, d := range v.resolveDefs(e, 0) {
		o := v.objOf(d)
		if o == nil {
			continue
		}
		for _, fl := range v.Decl.Type.Params.List {
			for _, n := range fl.Names {
				if v.Info.ObjectOf(n) == o {
					return true
				}
			}
		}
	}
	return false
}

// allViews: a view of every in-scope function with a body, in a stable order.
func (w *World) allViews() []*FnView {
	var out []*FnView
	for fo := range w.declOf {
		if v := w.ViewOf(fo); v != nil && !strings.HasSuffix(w.relFile(v.Decl.Pos()), "_test.go") {
			out = append(out, v)
		}
	}
	sort.Slice(out, func(i, j int) bool {
		if out[i].ID() != out[j].ID() {
			return out[i].ID() < out[j].ID()
		}
		return out[i].Decl.Pos() < out[j].Decl.Pos()
	})
	return out
}

// isFreshContainer: make(...) or a composite literal.
func isFreshContainer(e ast.Expr) bool {
	switch x := stripParens(e).(type) {
	case *ast.CompositeLit:
		return true
	case *ast.CallExpr:
		return exprString(x.Fun) == "make"
	}
	return false
}
