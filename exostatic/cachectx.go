package main

import (
	"fmt"
	"go/ast"
	"go/token"
	"go/types"
	"strings"
)

// Cache-context discipline (DESIGN §2.4-D). One instance per CacheContext() call.

type ccSite struct {
	V       *FnView
	Stmt    *ast.AssignStmt
	Call    *ast.CallExpr
	Parent  types.Object // the context CacheContext() was called on
	CC      types.Object
	Write   types.Object
	Ordinal int
	Region  ast.Node // innermost enclosing loop body / function body
}

func (s *ccSite) key() string {
	return fmt.Sprintf("%s#%d", funcID(s.V.Obj), s.Ordinal)
}

// ccSites finds every `cc, write := X.CacheContext()` in scope matching filter.
func ccSites(w *World, filter func(relFile string) bool) []*ccSite {
	var out []*ccSite
	for _, p := range w.Pkgs {
		for _, f := range p.Syntax {
			rf := w.relFile(f.Pos())
			if !inScopeFile(rf) || !filter(rf) {
				continue
			}
			for _, d := range f.Decls {
				fd, ok := d.(*ast.FuncDecl)
				if !ok || fd.Body == nil {
					continue
				}
				obj, _ := p.TypesInfo.Defs[fd.Name].(*types.Func)
				v := w.ViewOf(obj)
				if v == nil {
					continue
				}
				ord := 0
				ast.Inspect(fd.Body, func(n ast.Node) bool {
					as, ok := n.(*ast.AssignStmt)
					if !ok || len(as.Rhs) != 1 || len(as.Lhs) != 2 {
						return true
					}
					call, ok := as.Rhs[0].(*ast.CallExpr)
					if !ok || v.calleeName(call) != "CacheContext" {
						return true
					}
					sel, ok := call.Fun.(*ast.SelectorExpr)
					if !ok {
						return true
					}
					ord++
					s := &ccSite{V: v, Stmt: as, Call: call, Ordinal: ord}
					if id, ok := sel.X.(*ast.Ident); ok {
						s.Parent = v.Info.ObjectOf(id)
					}
					if id, ok := as.Lhs[0].(*ast.Ident); ok && id.Name != "_" {
						s.CC = v.Info.ObjectOf(id)
					}
					if id, ok := as.Lhs[1].(*ast.Ident); ok && id.Name != "_" {
						s.Write = v.Info.ObjectOf(id)
					}
					// region
					s.Region = fd.Body
					for p := v.parent(as); p != nil; p = v.parent(p) {
						switch x := p.(type) {
						case *ast.ForStmt:
							s.Region = x.Body
						case *ast.RangeStmt:
							s.Region = x.Body
						case *ast.FuncLit:
							s.Region = x.Body
						default:
							continue
						}
						break
					}
					out = append(out, s)
					return true
				})
			}
		}
	}
	return out
}

func (v *FnView) usesObj(n ast.Node, obj types.Object) bool {
	if obj == nil {
		return false
	}
	found := false
	ast.Inspect(n, func(x ast.Node) bool {
		if id, ok := x.(*ast.Ident); ok && v.Info.ObjectOf(id) == obj {
			found = true
		}
		return !found
	})
	return found
}

func (v *FnView) argIsObj(c *ast.CallExpr, obj types.Object) bool {
	for _, a := range c.Args {
		if id, ok := stripParens(a).(*ast.Ident); ok && v.Info.ObjectOf(id) == obj {
			return true
		}
	}
	return false
}

func lastResultIsError(v *FnView, c *ast.CallExpr) bool {
	t := v.Info.TypeOf(c)
	if t == nil {
		return false
	}
	if tup, ok := t.(*types.Tuple); ok {
		if tup.Len() == 0 {
			return false
		}
		return isErrorType(tup.At(tup.Len() - 1).Type())
	}
	return isErrorType(t)
}

// failArm describes how the failure of call c is handled.
// kind: "return", "continue", "break", "panic", "fallthrough" (tested but arm falls through), "untested".
func (v *FnView) failArm(c *ast.CallExpr) (kind string, ifs *ast.IfStmt) {
	var as *ast.AssignStmt
	for p := v.parent(c); p != nil; p = v.parent(p) {
		switch s := p.(type) {
		case *ast.IfStmt:
			if within(c, s.Cond) || (s.Init != nil && within(c, s.Init)) {
				return v.armKind(s, c), s
			}
			return "untested", nil
		case *ast.AssignStmt:
			as = s
			if pi, ok := v.parent(s).(*ast.IfStmt); ok && pi.Init == ast.Stmt(s) {
				return v.armKind(pi, c), pi
			}
			list := stmtListOf(v.parent(s))
			for i, st := range list {
				if st == ast.Stmt(s) && i+1 < len(list) {
					if nx, ok := list[i+1].(*ast.IfStmt); ok {
						return v.armKind(nx, c), nx
					}
				}
			}
			_ = as
			return "untested", nil
		case *ast.ReturnStmt:
			return "return", nil // error propagated directly: `return k.F(cc)`
		case *ast.ExprStmt, *ast.BlockStmt, *ast.DeferStmt, *ast.GoStmt:
			return "untested", nil
		}
	}
	return "untested", nil
}

func (v *FnView) armKind(ifs *ast.IfStmt, c *ast.CallExpr) string {
	var facts []Fact
	decompose(ifs.Cond, true, ifs, &facts)
	for _, f := range facts {
		if o := v.outcome(f); o != nil && o.Call == c && !o.Success {
			return v.blockEndKind(ifs.Body)
		}
	}
	// `err != nil || other` (disjunction): failure still enters the body
	for _, dj := range disjuncts(ifs.Cond) {
		var fs []Fact
		decompose(dj, true, ifs, &fs)
		for _, f := range fs {
			if o := v.outcome(f); o != nil && o.Call == c && !o.Success && len(fs) == 1 {
				return v.blockEndKind(ifs.Body)
			}
		}
	}
	var nf []Fact
	decompose(ifs.Cond, false, ifs, &nf)
	for _, f := range nf {
		if o := v.outcome(f); o != nil && o.Call == c && !o.Success {
			if eb, ok := ifs.Else.(*ast.BlockStmt); ok {
				return v.blockEndKind(eb)
			}
			return "fallthrough"
		}
	}
	return "untested"
}

func disjuncts(e ast.Expr) []ast.Expr {
	e = stripParens(e)
	if be, ok := e.(*ast.BinaryExpr); ok && be.Op == token.LOR {
		return append(disjuncts(be.X), disjuncts(be.Y)...)
	}
	return []ast.Expr{e}
}

func (v *FnView) blockEndKind(b *ast.BlockStmt) string {
	if b == nil || len(b.List) == 0 {
		return "fallthrough"
	}
	switch s := b.List[len(b.List)-1].(type) {
	case *ast.ReturnStmt:
		// a return that does not carry a non-nil error swallows the failure
		if len(s.Results) > 0 {
			last := s.Results[len(s.Results)-1]
			if isErrorLike(v.Info.TypeOf(last)) && !isNilIdent(v.Info, last) {
				return "return"
			}
			return "return-noerr"
		}
		if v.Decl.Type.Results != nil && len(v.Decl.Type.Results.List) > 0 && v.enclosingFuncLit(s) == nil {
			// bare return with named results: propagates whatever err holds
			return "return"
		}
		return "return-noerr"
	case *ast.BranchStmt:
		if s.Tok == token.CONTINUE {
			return "continue"
		}
		if s.Tok == token.BREAK {
			return "break"
		}
	case *ast.ExprStmt:
		if v.stmtTerminates(s) {
			return "panic"
		}
	}
	if v.terminates(b) {
		return "return"
	}
	return "fallthrough"
}

// cacheCtxRule checks d1..d4 for every site; obligations are keyed
// "<func>#<ordinal>|d<k>".
func cacheCtxRule(r *Run, rule string, sites []*ccSite) {
	for _, s := range sites {
		v := s.V
		r.saw(v.ID())
		base := s.key()
		pos := v.pos(s.Stmt)
		if s.Write == nil {
			// cc, _ := ctx.CacheContext(): a scratch context that is never committed
			r.ok(rule, base+"|scratch", pos, "cache context is never committed (scratch)")
			continue
		}
		// commit calls
		var commits, deferred []*ast.CallExpr
		ast.Inspect(v.Decl.Body, func(n ast.Node) bool {
			c, ok := n.(*ast.CallExpr)
			if !ok {
				return true
			}
			if id, ok := c.Fun.(*ast.Ident); ok && v.Info.ObjectOf(id) == s.Write {
				if fl := v.enclosingFuncLit(c); fl != nil {
					if _, isDefer := v.parent(v.parent(fl)).(*ast.DeferStmt); isDefer {
						deferred = append(deferred, c)
						return true
					}
				}
				commits = append(commits, c)
			}
			return true
		})
		if len(commits)+len(deferred) == 0 {
			// the write func escapes (returned / stored): outside this rule's idioms
			if v.usesObj(v.Decl.Body, s.Write) {
				r.ok(rule, base+"|escapes", pos, "commit function is handed to the caller (checked at the caller)")
			} else {
				r.ok(rule, base+"|scratch", pos, "cache context is never committed (scratch)")
			}
			continue
		}
		// d1: no write-effect call through the parent context while the cache is open
		var d1 []string
		for _, c := range allCalls(s.Region) {
			if c.Pos() <= s.Stmt.End() || s.Parent == nil || !v.argIsObj(c, s.Parent) {
				continue
			}
			if s.Parent == s.CC { // ctx shadowed: `ctx, write := uncached.CacheContext()`
				continue
			}
			if !v.callWrites(c) || !v.reaches(s.Stmt, c) {
				continue
			}
			after := false
			for _, wcall := range commits {
				if wcall.Pos() < c.Pos() && v.precedesInList(wcall, c) {
					after = true
				}
			}
			if !after {
				d1 = append(d1, fmt.Sprintf("%s at %s", exprString(c.Fun), v.pos(c)))
			}
		}
		r.check(len(d1) == 0, rule, base+"|d1", pos, "state writes between creation and commit go through the cache context",
			"write through the PARENT context while the cache context is open (survives when the cache is discarded): "+strings.Join(d1, "; "))
		// d2: commit only on success
		var d2 []string
		for _, wcall := range commits {
			for _, c := range allCalls(s.Region) {
				if c.Pos() <= s.Stmt.End() || c.Pos() >= wcall.Pos() || !v.argIsObj(c, s.CC) || !lastResultIsError(v, c) {
					continue
				}
				// another commit between c and wcall belongs to a different arm
				if !v.reaches(c, wcall) {
					continue
				}
				kind, _ := v.failArm(c)
				switch kind {
				case "return", "panic", "return-noerr":
				case "continue", "break":
					// the failing arm leaves the current iteration: fine iff the commit
					// belongs to the same iteration (same innermost loop)
					lp := v.innermostLoop(c)
					if !(lp != nil && within(wcall, lp)) && !v.guardedByCall(wcall, c) {
						d2 = append(d2, fmt.Sprintf("%s at %s fails with `%s` but the commit at %s is outside that loop", exprString(c.Fun), v.pos(c), kind, v.pos(wcall)))
					}
				default:
					d2 = append(d2, fmt.Sprintf("error of %s at %s is %s before the commit at %s", exprString(c.Fun), v.pos(c), kind, v.pos(wcall)))
				}
			}
		}
		for _, wcall := range deferred {
			okDefer := false
			for _, f := range v.FactsAt(wcall, true) {
				be, ok := stripParens(f.Atom).(*ast.BinaryExpr)
				if !ok {
					continue
				}
				isNil := ((be.Op == token.EQL) == f.Truth) && (isNilIdent(v.Info, be.Y) || isNilIdent(v.Info, be.X))
				if isNil && v.isNamedErrorResult(be.X, be.Y) {
					okDefer = true
				}
			}
			if !okDefer {
				d2 = append(d2, fmt.Sprintf("deferred commit at %s is not guarded by `<named error result> == nil`", v.pos(wcall)))
			}
		}
		r.check(len(d2) == 0, rule, base+"|d2", pos, "commit is reachable only when every fallible step in the cache context succeeded",
			strings.Join(d2, "; "))
		// d3: no failure reported after the commit
		var d3 []string
		for _, wcall := range commits {
			ast.Inspect(s.Region, func(n ast.Node) bool {
				rs, ok := n.(*ast.ReturnStmt)
				if !ok || rs.Pos() < wcall.End() || len(rs.Results) == 0 {
					return true
				}
				if v.enclosingFuncLit(rs) != v.enclosingFuncLit(wcall) {
					return true
				}
				last := rs.Results[len(rs.Results)-1]
				if isNilIdent(v.Info, last) || !isErrorLike(v.Info.TypeOf(last)) {
					return true
				}
				if v.precedesInList(wcall, rs) {
					d3 = append(d3, fmt.Sprintf("error return at %s after the commit at %s", v.pos(rs), v.pos(wcall)))
				}
				return true
			})
		}
		r.check(len(d3) == 0, rule, base+"|d3", pos, "no failure is reported after the commit",
			"the operation can report failure after its effects were committed: "+strings.Join(d3, "; "))
		// d4: commit inside a loop that does not contain the creation
		var d4 []string
		for _, wcall := range commits {
			for p := v.parent(wcall); p != nil && p != s.Region; p = v.parent(p) {
				switch p.(type) {
				case *ast.ForStmt, *ast.RangeStmt:
					if !within(s.Stmt, p) {
						d4 = append(d4, fmt.Sprintf("commit at %s is inside a loop, the cache context was created outside it", v.pos(wcall)))
					}
				}
			}
		}
		r.check(len(d4) == 0, rule, base+"|d4", pos, "one cache context per committed item", strings.Join(d4, "; "))
	}
}

// reaches: in the structured sense, control can flow from a to b without leaving
// the statement list level that contains both (b is not in a sibling arm).
func (v *FnView) reaches(a, b ast.Node) bool {
	child := a
	for p := v.parent(a); p != nil; child, p = p, v.parent(p) {
		switch x := p.(type) {
		case *ast.IfStmt:
			// a in one arm, b in the other arm of the same if: unreachable
			if child == ast.Node(x.Body) && x.Else != nil && within(b, x.Else) {
				return false
			}
			if x.Else != nil && child == ast.Node(x.Else) && within(b, x.Body) {
				return false
			}
		case *ast.BlockStmt:
			// sibling case clauses of one switch
			if cc, ok := child.(*ast.CaseClause); ok {
				for _, other := range x.List {
					if other != ast.Stmt(cc) && within(b, other) {
						return false
					}
				}
			}
		}
		if within(b, p) {
			return b.Pos() > a.Pos()
		}
		// leaving an arm that terminates: control never continues past it
		if blk, ok := p.(*ast.BlockStmt); ok {
			if ifs, ok := v.parent(blk).(*ast.IfStmt); ok && (ifs.Body == blk || ifs.Else == ast.Stmt(blk)) {
				if v.terminates(blk) {
					return false
				}
			}
		}
		if cc, ok := p.(*ast.CaseClause); ok {
			if len(cc.Body) > 0 && v.stmtTerminates(cc.Body[len(cc.Body)-1]) {
				return false
			}
		}
	}
	return true
}

// innermostLoop returns the innermost for/range statement containing n (not crossing function literals).
func (v *FnView) innermostLoop(n ast.Node) ast.Node {
	for p := v.parent(n); p != nil; p = v.parent(p) {
		switch p.(type) {
		case *ast.ForStmt, *ast.RangeStmt:
			return p
		case *ast.FuncLit:
			return nil
		}
	}
	return nil
}

// guardedByCall: a fact at target says that exactly call c succeeded.
func (v *FnView) guardedByCall(target ast.Node, c *ast.CallExpr) bool {
	for _, f := range v.FactsAt(target, false) {
		if o := v.outcome(f); o != nil && o.Call == c && o.Success {
			return true
		}
	}
	return false
}

func (v *FnView) isNamedErrorResult(xs ...ast.Expr) bool {
	if v.Decl.Type.Results == nil {
		return false
	}
	for _, x := range xs {
		id, ok := stripParens(x).(*ast.Ident)
		if !ok {
			continue
		}
		obj := v.Info.ObjectOf(id)
		for _, fl := range v.Decl.Type.Results.List {
			for _, n := range fl.Names {
				if v.Info.ObjectOf(n) == obj && isErrorType(obj.Type()) {
					return true
				}
			}
		}
	}
	return false
}
