package main

import (
	"fmt"
	"go/ast"
	"go/token"
	"go/types"
	"sort"
	"strings"

	"golang.org/x/tools/go/ssa"
)

func init() { register("C20", runC20) }

// fset: the facts that hold whenever control reaches a node.
type fset struct {
	v  *FnView
	fs []Fact
}

func (v *FnView) factsOf(n ast.Node) fset { return fset{v, v.FactsAt(n, false)} }

func (s fset) cmp(pred func(cmp) bool) bool {
	for _, f := range s.fs {
		if c, ok := factCmp(f); ok {
			if pred(c) {
				return true
			}
			if pred(cmp{c.R, c.L, flipOp(c.Op)}) {
				return true
			}
		}
	}
	return false
}

// atom: a fact whose atom renders as `text` with the given truth.
func (s fset) atom(truth bool, pred func(e ast.Expr) bool) bool {
	for _, f := range s.fs {
		if f.Truth == truth && pred(stripParens(f.Atom)) {
			return true
		}
	}
	return false
}

// call: a fact saying that a call to `name` had the given outcome; args checks the call.
func (s fset) call(name string, success bool, args func(c *ast.CallExpr) bool) bool {
	for _, f := range s.fs {
		if o := s.v.outcome(f); o != nil && o.Callee.Name() == name && o.Success == success {
			if args == nil || args(o.Call) {
				return true
			}
		}
	}
	return false
}

// callBoth: for (bool, error) results: both the bool is true and the error is nil.
func (s fset) callBoth(name string) bool {
	okB, okE := false, false
	for _, f := range s.fs {
		if o := s.v.outcome(f); o != nil && o.Callee.Name() == name && o.Success {
			sig := o.Callee.Type().(*types.Signature)
			if o.Result < sig.Results().Len() && isErrorType(sig.Results().At(o.Result).Type()) {
				okE = true
			} else {
				okB = true
			}
		}
	}
	return okB && okE
}

// sumTerms: the additive terms of e (conversions stripped), as sorted field names.
func sumTerms(e ast.Expr) string {
	var terms []string
	var walk func(e ast.Expr, sign string)
	walk = func(e ast.Expr, sign string) {
		e = stripParens(e)
		switch x := e.(type) {
		case *ast.BinaryExpr:
			if x.Op == token.ADD {
				walk(x.X, sign)
				walk(x.Y, sign)
				return
			}
			if x.Op == token.SUB {
				walk(x.X, sign)
				ns := "-"
				if sign == "-" {
					ns = ""
				}
				walk(x.Y, ns)
				return
			}
		case *ast.CallExpr:
			if id, ok := x.Fun.(*ast.Ident); ok && len(x.Args) == 1 && (id.Name == "int64" || id.Name == "uint64" || id.Name == "int") {
				walk(x.Args[0], sign)
				return
			}
		}
		n := lastField(e)
		if n == "" {
			n = exprString(e)
		}
		terms = append(terms, sign+n)
	}
	walk(e, "")
	sort.Strings(terms)
	return strings.Join(terms, "+")
}

func window(op string, terms ...string) func(cmp) bool {
	sort.Strings(terms)
	want := strings.Join(terms, "+")
	return func(c cmp) bool {
		return lastField(c.L) == "CurrentEpoch" && c.Op == op && sumTerms(c.R) == want
	}
}

func stripString(e ast.Expr) string {
	s := exprString(e)
	s = strings.TrimSuffix(s, ".String()")
	return s
}

// keyRole classifies a key component by what it names.
func keyRole(e ast.Expr) string {
	s := strings.ToLower(exprString(e))
	switch {
	case strings.Contains(s, "taskid") || strings.Contains(s, "task_id"):
		return "id"
	case strings.Contains(s, "operator"):
		return "operator"
	case strings.Contains(s, "contract") || strings.Contains(s, "taskaddr"):
		return "task"
	}
	return "?" + s
}

func runC20(r *Run) {
	w := r.W
	e := effects(w)
	r.Explain = "Static decision of structural necessary conditions of C20 (AVS registry and task windows): every write of the AVS registry, task counter, task, result, challenge and BLS-key families is dominated, on every path, by the admission guards the property names, with the comparison classes of the three window inequalities and with the guards' arguments being the same address/id that the write uses; task ids come only from the +1 counter; the epoch-end statistics are computed over exactly the results selected by the `== start+response+statistical` predicate, grouped per task, and written once per group."
	r.NotDec = []string{"semantics of zero-length periods", "the statistics' arithmetic (threshold percentage)", "BLS cryptography", "interleavings across transactions (each guard is decided per call)"}
	r.Assume = []string{"KV store Has/Get/Set semantics", "epochs keeper returns the AVS's epoch"}
	r.rule("C20.R1", "registry uniqueness: register arm under 'no such AVS' and 'task address unused', update arm under 'task address unused or own', delete under 'exists'; lookup by task address is an equality match", 8)
	r.rule("C20.R2", "opt-in guards: registered operator, registered AVS, not opted in, self value >= the AVS minimum, not frozen, all before the value entry is created", 11)
	r.rule("C20.R3", "task ids: stored+1 or 1, written back unconditionally; only CreateAVSTask draws ids; the task is stored under the drawn id and its own contract address", 8)
	r.rule("C20.R4", "result admission: common guards, phase-one and phase-two guards with their window classes; the guards' arguments are the written key's components", 24)
	r.rule("C20.R5", "challenge admission: task and result exist, hashes match, not yet challenged (same operator/task/id as recorded), window classes", 8)
	r.rule("C20.R6", "epoch-end statistics: selection predicate, grouping key, signer list, difference, one write per group", 12)
	r.rule("C20.R7", "who-may-write: each AVS family has exactly its named direct writer(s)", 8)
	r.rule("C20.R8", "key-constructor role order agrees between the writer and the readers of task, result and challenge records", 8)
	iteratorVisitsAllRule(r, "C20.R1", map[string]bool{"x/avs/keeper.Keeper.IterateAVSInfo": true})
	iteratorVisitsAllRule(r, "C20.R6", map[string]bool{"x/avs/keeper.Keeper.IterateTaskAVSInfo": true, "x/avs/keeper.Keeper.IterateResultInfo": true})

	avs := "x/avs/keeper"
	var curV *FnView // the function under analysis (for argIs)
	view := func(rule, name string) *FnView {
		v := w.View(avs, name)
		curV = v
		if v == nil {
			r.bad(rule, "anchor|"+name, "-", "anchor present", name+" not found")
			return nil
		}
		r.saw(v.ID())
		return v
	}
	resolvesToCall := func(v *FnView, e ast.Expr, name string, args func(c *ast.CallExpr) bool) bool {
		for _, d := range v.resolveDefs(e, 0) {
			if c, ok := stripParens(d).(*ast.CallExpr); ok && v.calleeName(c) == name && (args == nil || args(c)) {
				return true
			}
		}
		return false
	}
	// rootFromCall: the root identifier of e was defined by a call to name(args).
	rootFromCall := func(v *FnView, e ast.Expr, name string, args func(c *ast.CallExpr) bool) bool {
		// x.F, x.F.G, call(...).F
		cur := stripParens(e)
		for {
			if c, ok := cur.(*ast.CallExpr); ok {
				if v.calleeName(c) == name && (args == nil || args(c)) {
					return true
				}
				// getter on a value: x.GetInfo()
				if sel, ok := c.Fun.(*ast.SelectorExpr); ok {
					cur = stripParens(sel.X)
					continue
				}
				return false
			}
			if sel, ok := cur.(*ast.SelectorExpr); ok {
				cur = stripParens(sel.X)
				continue
			}
			break
		}
		return resolvesToCall(v, cur, name, args)
	}
	argIs := func(i int, s string) func(c *ast.CallExpr) bool {
		return func(c *ast.CallExpr) bool { return i < len(c.Args) && curV != nil && curV.css(c.Args[i]) == s }
	}
	all := func(ps ...func(c *ast.CallExpr) bool) func(c *ast.CallExpr) bool {
		return func(c *ast.CallExpr) bool {
			for _, p := range ps {
				if !p(c) {
					return false
				}
			}
			return true
		}
	}

	// ------------------------------------------------------------------ R1
	if v := view("C20.R1", "Keeper.UpdateAVSInfo"); v != nil {
		pn := paramName(v, 1)
		isEmptyStr := func(e ast.Expr) bool { c := v.constOf(e); return c != nil && c.ExactString() == `""` }
		byTask := func(e ast.Expr) bool {
			return lastField(e) == "AvsAddress" && rootFromCall(v, e, "GetAVSInfoByTaskAddress", argIs(1, pn+".TaskAddr"))
		}
		avsInfoFromGet := func(e ast.Expr) bool {
			return resolvesToCall(v, e, "GetAVSInfo", argIs(1, pn+".AvsAddress"))
		}
		existsFact := func(fs fset, exists bool) bool {
			return fs.atom(exists, func(e ast.Expr) bool {
				b, ok := e.(*ast.BinaryExpr)
				return ok && b.Op == token.NEQ && isNilIdent(v.Info, b.Y) && avsInfoFromGet(b.X)
			}) || fs.atom(!exists, func(e ast.Expr) bool {
				b, ok := e.(*ast.BinaryExpr)
				return ok && b.Op == token.EQL && isNilIdent(v.Info, b.Y) && avsInfoFromGet(b.X)
			})
		}
		arm := func(fs fset) string {
			for _, f := range fs.fs {
				if b, ok := f.Atom.(*ast.BinaryExpr); ok && f.Truth && b.Op == token.EQL && strings.HasSuffix(v.cs(b.Y), "Action") {
					return v.cs(b.Y)
				}
			}
			return ""
		}
		nReg, nUpd := 0, 0
		for _, c := range v.CallsNamed("SetAVSInfo") {
			fs := v.factsOf(c)
			switch arm(fs) {
			case "RegisterAction":
				nReg++
				r.check(existsFact(fs, false), "C20.R1", "register|avs-address-unused", v.pos(c), "registration only when no AVS is stored under the address", "the register arm stores the AVS without `GetAVSInfo(params.AvsAddress) == nil` on the path: an AVS address can be registered twice (the second overwrites the first)")
				r.check(fs.atom(false, func(e ast.Expr) bool {
					b, ok := e.(*ast.BinaryExpr)
					return ok && b.Op == token.NEQ && isEmptyStr(b.Y) && byTask(b.X)
				}) || fs.atom(true, func(e ast.Expr) bool {
					b, ok := e.(*ast.BinaryExpr)
					return ok && b.Op == token.EQL && isEmptyStr(b.Y) && byTask(b.X)
				}), "C20.R1", "register|task-address-unused", v.pos(c), "registration only when no AVS uses the task address", "the register arm stores the AVS without `GetAVSInfoByTaskAddress(params.TaskAddr).AvsAddress == \"\"` on the path: one task contract can belong to two AVSs")
				okLit := false
				for _, d := range v.resolveDefs(c.Args[len(c.Args)-1], 0) {
					if u, ok := stripParens(d).(*ast.UnaryExpr); ok {
						d = u.X
					}
					if cl, ok := stripParens(d).(*ast.CompositeLit); ok {
						a, t := compositeField(cl, "AvsAddress"), compositeField(cl, "TaskAddr")
						okLit = a != nil && t != nil && v.cs(a) == pn+".AvsAddress" && v.cs(t) == pn+".TaskAddr"
					}
				}
				r.check(okLit, "C20.R1", "register|stores-checked-addresses", v.pos(c), "the stored AVS carries the checked AVS and task addresses", "the stored AVSInfo's AvsAddress/TaskAddr are not params.AvsAddress/params.TaskAddr (the uniqueness checks were about other values)")
			case "UpdateAction":
				nUpd++
				r.check(existsFact(fs, true), "C20.R1", "update|exists", v.pos(c), "update only of a registered AVS", "the update arm stores an AVS without `avsInfo != nil` on the path")
				// own-or-unused: a terminating if in the arm with conjuncts X != "" and X != own
				okOwn := false
				cc, _ := v.parent(v.enclosingStmt(c)).(*ast.CaseClause)
				if cc != nil {
					for _, st := range cc.Body {
						ifs, ok := st.(*ast.IfStmt)
						if !ok || ifs.Pos() > c.Pos() || !v.terminates(ifs.Body) {
							continue
						}
						var fs2 []Fact
						decompose(ifs.Cond, true, ifs, &fs2)
						ne, own := false, false
						for _, f := range fs2 {
							b, ok := f.Atom.(*ast.BinaryExpr)
							if !ok || b.Op != token.NEQ || !f.Truth {
								continue
							}
							x, y := b.X, b.Y
							if !anyOf(v.resolveDefs(x, 0), byTask) {
								x, y = y, x
							}
							if !anyOf(v.resolveDefs(x, 0), byTask) {
								continue
							}
							if isEmptyStr(y) {
								ne = true
							} else if lastField(y) == "AvsAddress" && (v.cs(y) == pn+".AvsAddress" || avsInfoFromGet(rootIdent(y))) {
								own = true
							}
						}
						if own { // `X != own` alone is stricter than own-or-unused only if "" != own, which holds; accept both forms
							okOwn = okOwn || ne || own
						}
					}
				}
				r.check(okOwn, "C20.R1", "update|task-address-unused-or-own", v.pos(c), "an update may only take a task address that is unused or already its own", "the update arm stores the AVS without rejecting a task address used by another AVS")
				okKey := false
				for _, as := range v.assignmentsToField(v.Decl.Body, "AvsAddress") {
					if v.cs(as.Rhs[0]) == pn+".AvsAddress" {
						okKey = true
					}
				}
				bad := ""
				for _, as := range v.assignmentsToField(v.Decl.Body, "TaskAddr") {
					if v.cs(as.Rhs[0]) != pn+".TaskAddr" {
						bad = v.cs(as.Rhs[0])
					}
				}
				r.check(okKey && bad == "", "C20.R1", "update|stores-checked-addresses", v.pos(c), "the updated AVS keeps its address and takes only the checked task address", "the update arm assigns AvsAddress/TaskAddr from something other than params.AvsAddress/params.TaskAddr "+bad)
			default:
				r.bad("C20.R1", "setavsinfo|unknown-arm", v.pos(c), "SetAVSInfo only in the register and update arms", "SetAVSInfo is called outside the register/update arms of UpdateAVSInfo")
			}
		}
		if nReg != 1 || nUpd != 1 {
			r.bad("C20.R1", "arms|count", v.pos(v.Decl), "one store per register/update arm", fmt.Sprintf("%d register and %d update stores", nReg, nUpd))
		}
		for _, c := range v.CallsNamed("DeleteAVSInfo") {
			fs := v.factsOf(c)
			r.check(existsFact(fs, true) && arm(fs) == "DeRegisterAction" && argIs(1, pn+".AvsAddress")(c), "C20.R1", "deregister|exists", v.pos(c), "deregistration only of the registered AVS named in the request", "DeleteAVSInfo is not dominated by `avsInfo != nil` in the deregister arm with params.AvsAddress")
		}
	}
	if v := view("C20.R1", "Keeper.GetAVSInfoByTaskAddress"); v != nil {
		ok := false
		ast.Inspect(v.Decl.Body, func(n ast.Node) bool {
			as, isAs := n.(*ast.AssignStmt)
			if !isAs || v.enclosingFuncLit(as) == nil || len(as.Lhs) != 1 {
				return true
			}
			if v.factsOf(as).cmp(func(c cmp) bool {
				if c.Op != "==" || !isParamOf(v, c.L) {
					return false
				}
				if _, nm, args, ok := methodCall(c.R); ok {
					return nm == "GetTaskAddr" && len(args) == 0
				}
				return lastField(c.R) == "TaskAddr"
			}) {
				ok = true
			}
			return true
		})
		r.check(ok, "C20.R1", "lookup-by-task|equality", v.pos(v.Decl), "the AVS of a task address is the one whose TaskAddr equals it", "GetAVSInfoByTaskAddress does not select by `taskAddr == avsInfo.TaskAddr`")
	}
	// ------------------------------------------------------------------ R2
	if v := w.View("x/operator/keeper", "Keeper.OptIn"); v == nil {
		r.bad("C20.R2", "anchor|OptIn", "-", "anchor", "OptIn not found")
	} else {
		r.saw(v.ID())
		curV = v
		var ps []string
		for _, fl := range v.Decl.Type.Params.List {
			for _, n := range fl.Names {
				ps = append(ps, n.Name)
			}
		}
		if len(ps) != 3 {
			r.bad("C20.R2", "optin|signature", v.pos(v.Decl), "OptIn(ctx, operator, avs)", "unexpected signature")
		} else {
			op, av := ps[1], ps[2]
			for _, wr := range []string{"InitOperatorUSDValue", "SetOptedInfo"} {
				cs := v.CallsNamed(wr)
				if len(cs) != 1 {
					r.bad("C20.R2", "optin|"+wr+"|count", v.pos(v.Decl), "one "+wr, fmt.Sprintf("%d calls", len(cs)))
					continue
				}
				c := cs[0]
				fs := v.factsOf(c)
				pre := "optin|" + wr + "|"
				r.check(fs.call("IsOperator", true, argIs(1, op)), "C20.R2", pre+"registered-operator", v.pos(c), "opt-in requires a registered operator", wr+" is not dominated by IsOperator("+op+")")
				r.check(fs.call("IsAVS", true, argIs(1, av)), "C20.R2", pre+"registered-avs", v.pos(c), "only registered AVSs accept opt-ins", wr+" is not dominated by IsAVS("+av+") being true")
				r.check(fs.call("IsOptedIn", false, all(argIs(1, op), argIs(2, av))), "C20.R2", pre+"not-opted-in", v.pos(c), "no double opt-in", wr+" is not dominated by !IsOptedIn("+op+", "+av+")")
				r.check(fs.cmp(func(cm cmp) bool {
					return cm.Op == ">=" && lastField(cm.L) == "SelfUSDValue" &&
						rootFromCall(v, cm.L, "GetOrCalculateOperatorUSDValues", all(argIs(1, op), argIs(2, av))) &&
						resolvesToCall(v, cm.R, "GetAVSMinimumSelfDelegation", argIs(1, av))
				}), "C20.R2", pre+"min-self-delegation", v.pos(c), "the operator's self-delegated value meets the AVS's minimum", wr+" is not dominated by SelfUSDValue(operator, avs) >= GetAVSMinimumSelfDelegation(avs)")
				if wr == "InitOperatorUSDValue" {
					r.check(fs.call("IsOperatorFrozen", false, argIs(1, op)), "C20.R2", pre+"not-frozen", v.pos(c), "frozen operators cannot opt in", wr+" is not dominated by !IsOperatorFrozen")
					r.check(argIs(1, av)(c) && argIs(2, op)(c), "C20.R2", pre+"args", v.pos(c), "the entry is created for this (avs, operator)", "InitOperatorUSDValue is not called with ("+av+", "+op+")")
				}
			}
		}
	}
	if v := view("C20.R2", "Keeper.OperatorOptAction"); v != nil {
		pn := paramName(v, 1)
		for _, c := range v.CallsNamed("OptIn") {
			fs := v.factsOf(c)
			r.check(fs.call("IsOperator", true, nil) && fs.call("IsAVS", true, argIs(1, pn+".AvsAddress")) && argIs(2, pn+".AvsAddress")(c), "C20.R2", "optaction|guards", v.pos(c), "the gateway path checks operator and AVS registration for the AVS it opts into", "OperatorOptAction's OptIn is not dominated by IsOperator and IsAVS(params.AvsAddress)")
		}
	}
	// ------------------------------------------------------------------ R3
	if v := view("C20.R3", "Keeper.GetTaskID"); v != nil {
		sets := v.CallsNamed("Set")
		var idObj types.Object
		okSet := false
		if len(sets) == 1 && len(sets[0].Args) == 2 {
			if name, args, ok := funcCallName(sets[0].Args[1]); ok && name == "Uint64ToBigEndian" && len(args) == 1 {
				idObj = v.objOf(args[0])
			}
			okSet = idObj != nil && !v.nestedConditionally(sets[0], v.Decl.Body)
		}
		r.check(okSet, "C20.R3", "counter|written-back", v.pos(v.Decl), "the drawn id is written back unconditionally", "GetTaskID does not unconditionally store the id it returns")
		if idObj != nil {
			key := v.cs(sets[0].Args[0])
			okRet := false
			ast.Inspect(v.Decl.Body, func(n ast.Node) bool {
				if rs, ok := n.(*ast.ReturnStmt); ok && len(rs.Results) == 1 && v.objOf(rs.Results[0]) == idObj {
					okRet = true
				}
				return true
			})
			r.check(okRet, "C20.R3", "counter|returns-stored", v.pos(v.Decl), "the returned id is the stored one", "GetTaskID returns something other than the id it stored")
			// assignments to id
			nInc, nOne, nLoad, nOther := 0, 0, 0, 0
			ast.Inspect(v.Decl.Body, func(n ast.Node) bool {
				switch x := n.(type) {
				case *ast.IncDecStmt:
					if v.objOf(x.X) == idObj {
						fs := v.factsOf(x)
						if x.Tok == token.INC && fs.call("Has", true, func(c *ast.CallExpr) bool { return v.cs(c.Args[0]) == key }) {
							nInc++
						} else {
							nOther++
						}
					}
				case *ast.AssignStmt:
					for i, l := range x.Lhs {
						if v.objOf(l) != idObj || i >= len(x.Rhs) {
							continue
						}
						fs := v.factsOf(x)
						rhs := x.Rhs[i]
						if cv := v.constOf(rhs); cv != nil && cv.ExactString() == "1" && x.Tok == token.ASSIGN && fs.call("Has", false, nil) {
							nOne++
						} else if name, args, ok := funcCallName(rhs); ok && name == "BigEndianToUint64" && len(args) == 1 && fs.call("Has", true, nil) &&
							anyOf(v.resolveDefs(args[0], 0), func(d ast.Expr) bool {
								_, nm, a, ok := methodCall(d)
								return ok && nm == "Get" && len(a) == 1 && v.cs(a[0]) == key
							}) {
							nLoad++
						} else {
							nOther++
						}
					}
				}
				return true
			})
			r.check(nInc == 1 && nOne == 1 && nLoad == 1 && nOther == 0, "C20.R3", "counter|plus-one-or-one", v.pos(v.Decl), "id = stored+1 if a counter exists, else 1 (same key for Has/Get/Set)", fmt.Sprintf("GetTaskID's id is not exactly {load under Has; ++ under Has; = 1 under !Has}: load=%d inc=%d one=%d other=%d", nLoad, nInc, nOne, nOther))
		}
		// only CreateAVSTask draws ids
		if fn := w.Fn(avs, "Keeper.GetTaskID"); fn != nil {
			var callers []string
			if node := w.CG.Nodes[fn]; node != nil {
				for _, in := range node.In {
					if w.fnInScope(in.Caller.Func) && !strings.Contains(fnName(in.Caller.Func), "$bound") {
						callers = append(callers, fnName(in.Caller.Func))
					}
				}
			}
			callers = uniq(callers)
			okC := true
			for _, c := range callers {
				if !strings.HasSuffix(c, "CreateAVSTask") && !strings.Contains(c, "GetTaskID") {
					okC = false
				}
			}
			r.check(okC && len(callers) > 0, "C20.R3", "counter|only-create-draws", w.pos(fn.Pos()), "ids are drawn only when a task is created", "GetTaskID (which advances the counter) is called from "+strings.Join(callers, ", "))
		}
	}
	if v := view("C20.R3", "Keeper.CreateAVSTask"); v != nil {
		pn := paramName(v, 1)
		cs := v.CallsNamed("SetTaskInfo")
		if len(cs) != 1 {
			r.bad("C20.R3", "create|store-count", v.pos(v.Decl), "one SetTaskInfo", fmt.Sprintf("%d", len(cs)))
		} else {
			c := cs[0]
			fs := v.factsOf(c)
			var lit *ast.CompositeLit
			for _, d := range v.resolveDefs(c.Args[len(c.Args)-1], 0) {
				if u, ok := stripParens(d).(*ast.UnaryExpr); ok {
					d = u.X
				}
				if cl, ok := stripParens(d).(*ast.CompositeLit); ok {
					lit = cl
				}
			}
			okID, okAddr, okStart := false, false, false
			if lit != nil {
				if id := compositeField(lit, "TaskId"); id != nil {
					as := v.assignmentsToField(v.Decl.Body, lastField(id))
					okID = len(as) == 1 && as[0].Pos() < lit.Pos() && !v.nestedConditionally(as[0], v.Decl.Body) && v.cs(as[0].Lhs[0]) == v.cs(id) &&
						v.calleeName2(as[0].Rhs[0]) == "GetTaskID" && strings.Contains(v.cs(as[0].Rhs[0]), pn+".TaskContractAddress")
				}
				if a := compositeField(lit, "TaskContractAddress"); a != nil {
					okAddr = v.cs(a) == pn+".TaskContractAddress"
				}
				if s := compositeField(lit, "StartingEpoch"); s != nil {
					okStart = sumTerms(s) == "1+CurrentEpoch" && rootFromCall(v, firstTermWith(s, "CurrentEpoch"), "GetEpochInfo", func(c *ast.CallExpr) bool {
						return len(c.Args) == 2 && lastField(c.Args[1]) == "EpochIdentifier" && rootFromCall(v, c.Args[1], "GetAVSInfoByTaskAddress", argIs(1, pn+".TaskContractAddress"))
					})
				}
			}
			r.check(okID, "C20.R3", "create|id-from-counter", v.pos(c), "the task id is the one drawn from the counter of its task contract", "the stored TaskInfo's TaskId is not the value assigned from GetTaskID(params.TaskContractAddress) before it")
			r.check(okAddr, "C20.R3", "create|own-contract", v.pos(c), "the task is stored under its own contract address", "TaskInfo.TaskContractAddress is not params.TaskContractAddress")
			r.check(okStart, "C20.R3", "create|starting-epoch", v.pos(c), "the task's windows start at the AVS's current epoch + 1", "TaskInfo.StartingEpoch is not CurrentEpoch+1 of the epoch of the task contract's AVS")
			r.check(fs.atom(false, func(e ast.Expr) bool {
				b, ok := e.(*ast.BinaryExpr)
				return ok && b.Op == token.EQL && lastField(b.X) == "AvsAddress" && rootFromCall(v, b.X, "GetAVSInfoByTaskAddress", argIs(1, pn+".TaskContractAddress"))
			}), "C20.R3", "create|registered-task-contract", v.pos(c), "tasks only for a task contract registered to an AVS", "SetTaskInfo is not dominated by GetAVSInfoByTaskAddress(params.TaskContractAddress).AvsAddress != \"\"")
		}
	}
	// ------------------------------------------------------------------ R4
	if v := view("C20.R4", "Keeper.SetTaskResultInfo"); v != nil {
		var ps []string
		for _, fl := range v.Decl.Type.Params.List {
			for _, n := range fl.Names {
				ps = append(ps, n.Name)
			}
		}
		from, info := "addr", "info"
		if len(ps) == 3 {
			from, info = ps[1], ps[2]
		}
		triple := func(c *ast.CallExpr) bool {
			return argIs(1, info+".OperatorAddress")(c) && argIs(2, info+".TaskContractAddress")(c) && argIs(3, info+".TaskId")(c)
		}
		taskOf := func(e ast.Expr) bool {
			return rootFromCall(v, e, "GetTaskInfo", func(c *ast.CallExpr) bool {
				return len(c.Args) == 3 && strings.Contains(v.cs(c.Args[1]), info+".TaskId") && v.cs(c.Args[2]) == info+".TaskContractAddress"
			})
		}
		epochOf := func(e ast.Expr) bool {
			return rootFromCall(v, e, "GetEpochInfo", func(c *ast.CallExpr) bool {
				return len(c.Args) == 2 && lastField(c.Args[1]) == "EpochIdentifier" && rootFromCall(v, c.Args[1], "GetAVSInfoByTaskAddress", argIs(1, info+".TaskContractAddress"))
			})
		}
		win := func(fs fset, op string, terms ...string) bool {
			p := window(op, terms...)
			return fs.cmp(func(c cmp) bool {
				if !p(c) || !epochOf(c.L) {
					return false
				}
				okT := true
				ast.Inspect(c.R, func(n ast.Node) bool {
					if sel, ok := n.(*ast.SelectorExpr); ok && (sel.Sel.Name == "StartingEpoch" || strings.HasSuffix(sel.Sel.Name, "Period")) && !taskOf(sel) {
						okT = false
					}
					return true
				})
				return okT
			})
		}
		isNilCmp := func(field string, op token.Token) func(e ast.Expr) bool {
			return func(e ast.Expr) bool {
				b, ok := e.(*ast.BinaryExpr)
				return ok && b.Op == op && v.cs(b.X) == info+"."+field && isNilIdent(v.Info, b.Y)
			}
		}
		sets := v.CallsNamed("Set")
		n1, n2 := 0, 0
		for _, c := range sets {
			fs := v.factsOf(c)
			stage := ""
			for _, f := range fs.fs {
				if b, ok := f.Atom.(*ast.BinaryExpr); ok && f.Truth && b.Op == token.EQL && v.cs(b.X) == info+".Stage" {
					stage = lastField(b.Y)
					if stage == "" {
						stage = v.cs(b.Y)
					}
				}
			}
			pre := "result|" + stage + "|"
			// the written key and value
			okKey := len(c.Args) == 2 && anyOf(v.resolveDefs(c.Args[0], 0), func(d ast.Expr) bool {
				name, args, ok := funcCallName(d)
				return ok && name == "GetJoinedStoreKey" && len(args) == 3 && v.cs(args[0]) == info+".OperatorAddress" && v.cs(args[1]) == info+".TaskContractAddress" && strings.Contains(v.cs(args[2]), info+".TaskId")
			}) && anyOf(v.resolveDefs(c.Args[1], 0), func(d ast.Expr) bool {
				_, name, args, ok := methodCall(d)
				return ok && name == "MustMarshal" && len(args) == 1 && v.cs(args[0]) == info
			})
			r.check(okKey, "C20.R4", pre+"key", v.pos(c), "the result is stored under (operator, task contract, task id) of the submission itself", "the written key/value is not built from "+info+".OperatorAddress/TaskContractAddress/TaskId and "+info)
			// common guards
			r.check(fs.cmp(func(cm cmp) bool { return cm.Op == "==" && v.cs(cm.L) == from && v.cs(cm.R) == info+".OperatorAddress" }), "C20.R4", pre+"sender-is-operator", v.pos(c), "the sender is the operator the result is recorded for", "the write is not dominated by "+from+" == "+info+".OperatorAddress")
			r.check(fs.call("IsOperator", true, func(cc *ast.CallExpr) bool {
				return len(cc.Args) == 2 && resolvesToCall(v, cc.Args[1], "AccAddressFromBech32", argIs(0, info+".OperatorAddress"))
			}), "C20.R4", pre+"registered-operator", v.pos(c), "only a registered operator", "the write is not dominated by IsOperator("+info+".OperatorAddress)")
			r.check(fs.call("GetOperatorPubKey", true, argIs(1, info+".OperatorAddress")) && fs.call("PublicKeyFromBytes", true, func(cc *ast.CallExpr) bool {
				return len(cc.Args) == 1 && lastField(cc.Args[0]) == "PubKey" && rootFromCall(v, cc.Args[0], "GetOperatorPubKey", argIs(1, info+".OperatorAddress"))
			}), "C20.R4", pre+"registered-bls-key", v.pos(c), "only with a registered, parseable BLS key of that operator", "the write is not dominated by GetOperatorPubKey("+info+".OperatorAddress) and PublicKeyFromBytes succeeding")
			r.check(fs.call("GetTaskInfo", true, func(cc *ast.CallExpr) bool {
				return len(cc.Args) == 3 && strings.Contains(v.cs(cc.Args[1]), info+".TaskId") && v.cs(cc.Args[2]) == info+".TaskContractAddress"
			}), "C20.R4", pre+"task-exists", v.pos(c), "only for an existing task", "the write is not dominated by GetTaskInfo("+info+".TaskId, "+info+".TaskContractAddress) succeeding")
			r.check(fs.call("GetEpochInfo", true, nil), "C20.R4", pre+"epoch-found", v.pos(c), "the AVS's epoch is known", "the write is not dominated by GetEpochInfo being found")
			switch stage {
			case "TwoPhaseCommitOne":
				n1++
				r.check(fs.call("IsExistTaskResultInfo", false, triple), "C20.R4", pre+"only-once", v.pos(c), "phase one only once per operator and task", "the phase-one write is not dominated by !IsExistTaskResultInfo(operator, task contract, task id)")
				r.check(fs.atom(false, isNilCmp("BlsSignature", token.EQL)) || fs.atom(true, isNilCmp("BlsSignature", token.NEQ)), "C20.R4", pre+"signature-present", v.pos(c), "phase one carries the signature", "the phase-one write is not dominated by BlsSignature != nil")
				r.check((fs.atom(false, isNilCmp("TaskResponse", token.NEQ)) || fs.atom(true, isNilCmp("TaskResponse", token.EQL))) && fs.atom(false, func(e ast.Expr) bool {
					b, ok := e.(*ast.BinaryExpr)
					return ok && b.Op == token.NEQ && v.cs(b.X) == info+".TaskResponseHash"
				}), "C20.R4", pre+"response-withheld", v.pos(c), "phase one carries no response", "the phase-one write is not dominated by TaskResponse == nil and TaskResponseHash == \"\"")
				r.check(win(fs, "<=", "StartingEpoch", "TaskResponsePeriod"), "C20.R4", pre+"window", v.pos(c), "phase one only until the response period ends: CurrentEpoch <= start+response", "the phase-one write is not dominated by CurrentEpoch <= StartingEpoch+TaskResponsePeriod (of this task, in its AVS's epoch)")
			case "TwoPhaseCommitTwo":
				n2++
				r.check(fs.atom(false, isNilCmp("TaskResponse", token.EQL)) || fs.atom(true, isNilCmp("TaskResponse", token.NEQ)), "C20.R4", pre+"response-present", v.pos(c), "phase two carries the response", "the phase-two write is not dominated by TaskResponse != nil")
				r.check(fs.call("GetTaskResultInfo", true, triple) && fs.call("Equal", true, func(cc *ast.CallExpr) bool {
					if len(cc.Args) != 2 {
						return false
					}
					a, b := cc.Args[0], cc.Args[1]
					if v.cs(a) == info+".BlsSignature" {
						a, b = b, a
					}
					return v.cs(b) == info+".BlsSignature" && lastField(a) == "BlsSignature" && rootFromCall(v, a, "GetTaskResultInfo", triple)
				}), "C20.R4", pre+"phase-one-signature", v.pos(c), "phase two only with the phase-one signature", "the phase-two write is not dominated by the stored phase-one record existing and bytes.Equal(stored.BlsSignature, "+info+".BlsSignature)")
				r.check(win(fs, ">", "StartingEpoch", "TaskResponsePeriod"), "C20.R4", pre+"window-lower", v.pos(c), "phase two only after the response period: CurrentEpoch > start+response", "the phase-two write is not dominated by CurrentEpoch > StartingEpoch+TaskResponsePeriod")
				r.check(win(fs, "<=", "StartingEpoch", "TaskResponsePeriod", "TaskStatisticalPeriod"), "C20.R4", pre+"window-upper", v.pos(c), "phase two only during the statistical period: CurrentEpoch <= start+response+statistical", "the phase-two write is not dominated by CurrentEpoch <= StartingEpoch+TaskResponsePeriod+TaskStatisticalPeriod")
				r.check(fs.call("UnmarshalTaskResponse", true, argIs(0, info+".TaskResponse")) && fs.cmp(func(cm cmp) bool {
					return cm.Op == "==" && v.cs(cm.L) == info+".TaskId" && lastField(cm.R) == "TaskID" && rootFromCall(v, cm.R, "UnmarshalTaskResponse", argIs(0, info+".TaskResponse"))
				}), "C20.R4", pre+"same-task-id", v.pos(c), "the response carries the same task id", "the phase-two write is not dominated by the decoded response's TaskID == "+info+".TaskId")
				okSig := fs.callBoth("VerifySignature")
				if okSig {
					okSig = false
					for _, vc := range v.CallsNamed("VerifySignature") {
						if len(vc.Args) == 3 && v.cs(vc.Args[0]) == info+".BlsSignature" &&
							resolvesToCall(v, vc.Args[1], "Keccak256Hash", argIs(0, info+".TaskResponse")) &&
							resolvesToCall(v, vc.Args[2], "PublicKeyFromBytes", nil) {
							okSig = true
						}
					}
				}
				r.check(okSig, "C20.R4", pre+"bls-verifies", v.pos(c), "the BLS signature verifies over the response digest with the operator's registered key", "the phase-two write is not dominated by VerifySignature("+info+".BlsSignature, Keccak256("+info+".TaskResponse), registered key) returning (true, nil)")
			default:
				r.bad("C20.R4", "result|unknown-stage|"+stage, v.pos(c), "writes only in the two phase arms", "a task result is written outside the phase-one/phase-two arms")
			}
		}
		if n1 != 1 || n2 != 1 {
			r.bad("C20.R4", "result|arms", v.pos(v.Decl), "one write per phase", fmt.Sprintf("%d phase-one and %d phase-two writes", n1, n2))
		}
	}
	if v := view("C20.R4", "MsgServerImpl.SubmitTaskResult"); v != nil {
		ok := false
		for _, c := range v.CallsNamed("SetTaskResultInfo") {
			if len(c.Args) == 3 && lastField(c.Args[1]) == "FromAddress" && lastField(c.Args[2]) == "Info" && rootIdent(c.Args[1]) != nil && rootIdent(c.Args[2]) != nil && rootIdent(c.Args[1]).Name == rootIdent(c.Args[2]).Name {
				ok = true
			}
		}
		r.check(ok, "C20.R4", "msg|from-address", v.pos(v.Decl), "the message's signer address is what the operator check compares against", "SubmitTaskResult does not pass req.FromAddress and req.Info to SetTaskResultInfo")
	}
	if v := view("C20.R4", "Keeper.RegisterBLSPublicKey"); v != nil {
		pn := paramName(v, 1)
		for _, c := range v.CallsNamed("SetOperatorPubKey") {
			fs := v.factsOf(c)
			okLit := false
			for _, d := range v.resolveDefs(c.Args[len(c.Args)-1], 0) {
				if u, ok := stripParens(d).(*ast.UnaryExpr); ok {
					d = u.X
				}
				if cl, ok := stripParens(d).(*ast.CompositeLit); ok {
					a, b := compositeField(cl, "Operator"), compositeField(cl, "PubKey")
					okLit = a != nil && b != nil && v.cs(a) == pn+".Operator" && v.cs(b) == pn+".PubKey"
				}
			}
			okV := false
			for _, vc := range v.CallsNamed("VerifySignature") {
				if len(vc.Args) == 3 && resolvesToCall(v, vc.Args[2], "PublicKeyFromBytes", argIs(0, pn+".PubKey")) {
					okV = true
				}
			}
			r.check(fs.callBoth("VerifySignature") && okV && fs.call("IsExistPubKey", false, argIs(1, pn+".Operator")) && okLit, "C20.R4", "blskey|register", v.pos(c), "a BLS key is registered once per operator and only with a valid proof of possession for that key", "SetOperatorPubKey is not dominated by VerifySignature(…, key from params.PubKey) == (true, nil) and !IsExistPubKey(params.Operator), or stores other values")
		}
	}
	// ------------------------------------------------------------------ R5
	if v := view("C20.R5", "Keeper.RaiseAndResolveChallenge"); v != nil {
		pn := paramName(v, 1)
		cs := v.CallsNamed("SetTaskChallengedInfo")
		if len(cs) != 1 || len(cs[0].Args) != 5 {
			r.bad("C20.R5", "challenge|store-count", v.pos(v.Decl), "one SetTaskChallengedInfo(ctx, id, operator, challenger, task)", fmt.Sprintf("%d", len(cs)))
		} else {
			c := cs[0]
			fs := v.factsOf(c)
			id, op, task := v.css(c.Args[1]), v.css(c.Args[2]), v.css(c.Args[4])
			tri := func(cc *ast.CallExpr) bool { return argIs(1, op)(cc) && argIs(2, task)(cc) && argIs(3, id)(cc) }
			taskOf := func(e ast.Expr) bool {
				return rootFromCall(v, e, "GetTaskInfo", func(cc *ast.CallExpr) bool {
					return len(cc.Args) == 3 && strings.Contains(v.cs(cc.Args[1]), id) && v.css(cc.Args[2]) == task
				})
			}
			r.check(fs.call("GetTaskInfo", true, func(cc *ast.CallExpr) bool {
				return len(cc.Args) == 3 && strings.Contains(v.cs(cc.Args[1]), id) && v.css(cc.Args[2]) == task
			}), "C20.R5", "challenge|task-exists", v.pos(c), "the challenged task exists", "the challenge record is not dominated by GetTaskInfo(id, task) succeeding")
			r.check(fs.call("GetTaskResultInfo", true, tri), "C20.R5", "challenge|result-exists", v.pos(c), "the challenged operator has a result for the task", "the challenge record is not dominated by GetTaskResultInfo(operator, task, id) succeeding for the recorded operator/task/id")
			r.check(fs.call("IsExistTaskChallengedInfo", false, tri), "C20.R5", "challenge|once", v.pos(c), "one challenge per operator and task: the uniqueness test names the recorded operator, task and id", "the challenge record is not dominated by !IsExistTaskChallengedInfo("+op+", "+task+", "+id+") -- the uniqueness test looks at a different key than the one written")
			hashEq := func(a, b string) bool {
				return fs.cmp(func(cm cmp) bool {
					l, rr := v.cs(cm.L), v.cs(cm.R)
					return cm.Op == "==" && strings.Contains(l, a) && strings.Contains(rr, b)
				}) || fs.call("Equal", true, func(cc *ast.CallExpr) bool {
					s := v.cs(cc)
					return strings.Contains(s, a) && strings.Contains(s, b)
				})
			}
			r.check(hashEq("Hash", pn+".TaskHash") && taskOfAny(v, fs, taskOf, pn+".TaskHash"), "C20.R5", "challenge|task-hash", v.pos(c), "the challenge names the task by its hash", "the challenge record is not dominated by taskInfo.Hash == params.TaskHash")
			r.check(hashEq("hash", pn+".TaskResponseHash") || hashEq("Hash", pn+".TaskResponseHash"), "C20.R5", "challenge|response-hash", v.pos(c), "the challenge names the recorded response", "the challenge record is not dominated by digest(recorded response) == params.TaskResponseHash")
			win := func(op string, terms ...string) bool {
				p := window(op, terms...)
				return fs.cmp(func(cm cmp) bool {
					if !p(cm) {
						return false
					}
					okT := true
					ast.Inspect(cm.R, func(n ast.Node) bool {
						if sel, ok := n.(*ast.SelectorExpr); ok && (sel.Sel.Name == "StartingEpoch" || strings.HasSuffix(sel.Sel.Name, "Period")) && !taskOf(sel) {
							okT = false
						}
						return true
					})
					return okT && rootFromCall(v, cm.L, "GetEpochInfo", nil)
				})
			}
			r.check(win(">", "StartingEpoch", "TaskResponsePeriod", "TaskStatisticalPeriod"), "C20.R5", "challenge|window-lower", v.pos(c), "a challenge only after the statistical period: CurrentEpoch > start+response+statistical", "the challenge record is not dominated by CurrentEpoch > StartingEpoch+TaskResponsePeriod+TaskStatisticalPeriod")
			r.check(win("<=", "StartingEpoch", "TaskResponsePeriod", "TaskStatisticalPeriod", "TaskChallengePeriod"), "C20.R5", "challenge|window-upper", v.pos(c), "a challenge only during the challenge period: CurrentEpoch <= start+response+statistical+challenge", "the challenge record is not dominated by CurrentEpoch <= StartingEpoch+TaskResponsePeriod+TaskStatisticalPeriod+TaskChallengePeriod")
			r.check(fs.call("GetEpochInfo", true, func(cc *ast.CallExpr) bool {
				return len(cc.Args) == 2 && lastField(cc.Args[1]) == "EpochIdentifier" && rootFromCall(v, cc.Args[1], "GetAVSInfoByTaskAddress", nil)
			}), "C20.R5", "challenge|epoch-of-avs", v.pos(c), "the window is measured in the task's AVS's epochs", "the challenge window does not use GetEpochInfo(AVS-of-task.EpochIdentifier)")
		}
	}
	// ------------------------------------------------------------------ R6
	if v := view("C20.R6", "Keeper.GetTaskStatisticalEpochEndAVSs"); v != nil {
		ok, okID := false, false
		ast.Inspect(v.Decl.Body, func(n ast.Node) bool {
			as, isAs := n.(*ast.AssignStmt)
			if !isAs || len(as.Rhs) != 1 || v.calleeName2(as.Rhs[0]) != "append" && !strings.HasPrefix(v.cs(as.Rhs[0]), "append(") {
				return true
			}
			fs := v.factsOf(as)
			if fs.cmp(func(cm cmp) bool {
				return cm.Op == "==" && isParamOf(v, cm.L) && sumTerms(cm.R) == "StartingEpoch+TaskResponsePeriod+TaskStatisticalPeriod" &&
					rootFromCall(v, firstTermWith(cm.R, "StartingEpoch"), "GetTaskInfo", func(c *ast.CallExpr) bool {
						return len(c.Args) == 3 && strings.Contains(v.cs(c.Args[1]), "info.TaskId") && v.cs(c.Args[2]) == "info.TaskContractAddress"
					})
			}) {
				ok = true
			}
			if fs.cmp(func(cm cmp) bool {
				return cm.Op == "==" && isParamOf(v, cm.L) && lastField(cm.R) == "EpochIdentifier" && rootFromCall(v, cm.R, "GetAVSInfoByTaskAddress", argIs(1, "info.TaskContractAddress"))
			}) {
				okID = true
			}
			return true
		})
		r.check(ok, "C20.R6", "select|end-of-statistical-period", v.pos(v.Decl), "a result is selected exactly when the ended epoch == start+response+statistical of its task", "GetTaskStatisticalEpochEndAVSs does not select by epochNumber == StartingEpoch+TaskResponsePeriod+TaskStatisticalPeriod of the result's own task")
		r.check(okID, "C20.R6", "select|identifier", v.pos(v.Decl), "only results whose AVS uses the ended identifier", "GetTaskStatisticalEpochEndAVSs does not compare the identifier with the AVS of the result's task contract")
	}
	if v := view("C20.R6", "Keeper.GroupTasksByIDAndAddress"); v != nil {
		okKey, okSort := false, false
		ast.Inspect(v.Decl.Body, func(n ast.Node) bool {
			if as, ok := n.(*ast.AssignStmt); ok && len(as.Rhs) == 1 {
				s := v.cs(as.Rhs[0])
				if _, isBin := as.Rhs[0].(*ast.BinaryExpr); isBin && strings.Contains(s, "TaskContractAddress") && strings.Contains(s, "TaskId") {
					okKey = true
				}
			}
			if fl, ok := n.(*ast.FuncLit); ok {
				for _, st := range fl.Body.List {
					if rs, ok := st.(*ast.ReturnStmt); ok && len(rs.Results) == 1 {
						if b, ok := rs.Results[0].(*ast.BinaryExpr); ok && (b.Op == token.LSS || b.Op == token.GTR) && lastField(b.X) == "OperatorAddress" && lastField(b.Y) == "OperatorAddress" {
							okSort = true
						}
					}
				}
			}
			return true
		})
		r.check(okKey, "C20.R6", "group|key", v.pos(v.Decl), "results are grouped per (task contract, task id)", "the grouping key does not contain both TaskContractAddress and TaskId")
		r.check(okSort, "C20.R6", "group|sorted", v.pos(v.Decl), "each group is ordered by operator address (strict order on a unique field)", "groups are not sorted by OperatorAddress")
	}
	if v := view("C20.R6", "EpochsHooksWrapper.AfterEpochEnd"); v != nil {
		var sel, grp *ast.CallExpr
		for _, c := range v.CallsNamed("GetTaskStatisticalEpochEndAVSs") {
			if len(c.Args) == 3 && isParamOf(v, c.Args[1]) && isParamOf(v, c.Args[2]) {
				sel = c
			}
		}
		for _, c := range v.CallsNamed("GroupTasksByIDAndAddress") {
			if len(c.Args) == 1 && sel != nil && anyOf(v.resolveDefs(c.Args[0], 0), func(d ast.Expr) bool { return stripParens(d) == ast.Expr(sel) }) {
				grp = c
			}
		}
		r.check(sel != nil && grp != nil, "C20.R6", "hook|input", v.pos(v.Decl), "the statistics run over exactly the selected results of the ended (identifier, number), grouped", "AfterEpochEnd does not feed GetTaskStatisticalEpochEndAVSs(ctx, identifier, number) into GroupTasksByIDAndAddress")
		// loops
		var outer, inner *ast.RangeStmt
		ast.Inspect(v.Decl.Body, func(n ast.Node) bool {
			if rs, ok := n.(*ast.RangeStmt); ok {
				if grp != nil && anyOf(v.resolveDefs(rs.X, 0), func(d ast.Expr) bool { return stripParens(d) == ast.Expr(grp) }) {
					outer = rs
				} else if outer != nil && rs.Pos() > outer.Pos() && rs.End() <= outer.End() && v.objOf(rs.X) != nil && v.objOf(rs.X) == v.objOf(outer.Value) {
					inner = rs
				}
			}
			return true
		})
		if outer == nil || inner == nil {
			r.bad("C20.R6", "hook|loops", v.pos(v.Decl), "for each group, for each result", "AfterEpochEnd does not iterate the groups and each group's results")
		} else {
			var listObj types.Object
			okApp := false
			ast.Inspect(inner.Body, func(n ast.Node) bool {
				as, ok := n.(*ast.AssignStmt)
				if !ok || len(as.Rhs) != 1 || len(as.Lhs) != 1 {
					return true
				}
				if c, ok := as.Rhs[0].(*ast.CallExpr); ok && v.cs(c.Fun) == "append" && len(c.Args) == 2 && lastField(c.Args[1]) == "OperatorAddress" && v.objOf(rootIdent(c.Args[1])) == v.objOf(inner.Value) && v.objOf(c.Args[0]) == v.objOf(as.Lhs[0]) {
					// allowed conditions: only `res.BlsSignature != nil`
					okCond := true
					for p := v.parent(as); p != nil && p != ast.Node(inner.Body); p = v.parent(p) {
						if ifs, ok := p.(*ast.IfStmt); ok {
							if !(strings.HasSuffix(v.cs(ifs.Cond), ".BlsSignature != nil")) {
								okCond = false
							}
						}
					}
					// and no earlier continue/break in the inner loop body before it
					ast.Inspect(inner.Body, func(m ast.Node) bool {
						if br, ok := m.(*ast.BranchStmt); ok && br.Pos() < as.Pos() {
							okCond = false
						}
						return true
					})
					if okCond {
						okApp = true
						listObj = v.objOf(as.Lhs[0])
					}
				}
				return true
			})
			r.check(okApp, "C20.R6", "hook|signers", v.pos(inner), "every accepted (signed) result's operator is listed as a signer", "the signer list does not receive res.OperatorAddress for every result with a signature")
			okDecl := false
			if listObj != nil {
				// declared inside the outer loop (fresh per group)
				okDecl = listObj.Pos() > outer.Body.Pos() && listObj.Pos() < inner.Pos()
			}
			// every variable that the result loop fills and the rest of the per-task step reads (task id, task
			// address, AVS address, powers) is fresh for each task
			leak := ""
			ast.Inspect(inner.Body, func(n ast.Node) bool {
				as, ok := n.(*ast.AssignStmt)
				if !ok {
					return true
				}
				for _, l := range as.Lhs {
					id, isID := stripParens(l).(*ast.Ident)
					if !isID {
						continue
					}
					o := v.objOf(id)
					if o == nil || o.Pos() >= outer.Body.Pos() && o.Pos() <= outer.Body.End() {
						continue
					}
					// declared outside the per-task loop and assigned inside the result loop
					if o.Pos() > v.Decl.Body.Pos() && o.Pos() < outer.Pos() {
						leak = o.Name()
					}
				}
				return true
			})
			r.check(leak == "", "C20.R6", "hook|per-task-variables", v.pos(outer), "what is collected from one task's results does not carry over to the next task", "variable "+leak+" is declared outside the per-task loop and filled inside the result loop: the second task of an epoch is booked with the first task's identity / powers")
			r.check(okDecl, "C20.R6", "hook|signers-per-group", v.pos(outer), "the signer list is fresh for each task", "the signer list is not declared inside the per-task loop (signers of one task leak into the next)")
			var taskInfoObj types.Object
			var setC *ast.CallExpr
			for _, c := range v.Calls(outer.Body, byName("SetTaskInfo")) {
				setC = c
				taskInfoObj = v.objOf(c.Args[len(c.Args)-1])
			}
			okSet := setC != nil && taskInfoObj != nil && !v.nestedConditionally(setC, outer.Body) && setC.Pos() > inner.End()
			r.check(okSet, "C20.R6", "hook|one-write-per-group", v.pos(outer), "each task's statistics are written once, unconditionally, after its results were read", "SetTaskInfo is missing, conditional, or precedes the result loop")
			if taskInfoObj != nil {
				okDiff, okSigned, okNo, okPow := false, false, false, false
				var diffObj types.Object
				// the helper counts only if it is the one-sided difference a \ b: x/avs/types.Difference also returns
				// the elements of b that are not in a (it appends inside its loop over b)
				oneSided := false
				if dv := w.View("x/avs/types", "Difference"); dv != nil {
					oneSided = true
					bP := paramName(dv, 1)
					ast.Inspect(dv.Decl.Body, func(n ast.Node) bool {
						if rs, isR := n.(*ast.RangeStmt); isR && exprString(rs.X) == bP {
							for _, c := range allCalls(rs.Body) {
								if exprString(c.Fun) == "append" {
									oneSided = false
								}
							}
						}
						return true
					})
				}
				for _, c := range v.Calls(outer.Body, byName("Difference")) {
					if oneSided && len(c.Args) == 2 && lastField(c.Args[0]) == "OptInOperators" && v.objOf(rootIdent(c.Args[0])) == taskInfoObj && v.objOf(c.Args[1]) == listObj {
						okDiff = true
						if as, ok := v.parent(c).(*ast.AssignStmt); ok && len(as.Lhs) == 1 {
							diffObj = v.objOf(as.Lhs[0])
						}
					}
				}
				// or, spelt out: for every opted-in operator of the task, append it unless it is a key of the set
				// built from the signer list
				if !okDiff {
					for _, as := range v.assignmentsToField(outer.Body, "NoSignedOperators") {
						d := v.objOf(as.Rhs[0])
						if d == nil || v.objOf(rootIdent(as.Lhs[0])) != taskInfoObj {
							continue
						}
						nApp, good := 0, true
						ast.Inspect(outer.Body, func(n ast.Node) bool {
							a, isAs := n.(*ast.AssignStmt)
							if !isAs || len(a.Lhs) != 1 || len(a.Rhs) != 1 || v.objOf(a.Lhs[0]) != d {
								return true
							}
							c, isC := stripParens(a.Rhs[0]).(*ast.CallExpr)
							if !isC || exprString(c.Fun) != "append" || len(c.Args) != 2 {
								return true
							}
							nApp++
							lp, isL := v.innermostLoop(a).(*ast.RangeStmt)
							if !isL || lastField(lp.X) != "OptInOperators" || v.objOf(rootIdent(lp.X)) != taskInfoObj || lp.Value == nil || v.objOf(c.Args[1]) != v.objOf(lp.Value) {
								good = false
								return true
							}
							// under exactly "not a member of the signer set"
							member := false
							for _, f := range v.FactsAt(a, false) {
								if f.At == nil || f.At.Pos() < lp.Pos() {
									continue
								}
								id, isID := stripParens(f.Atom).(*ast.Ident)
								if !isID || f.Truth {
									good = false
									continue
								}
								for _, df := range v.defsOf(v.objOf(id)) {
									ix, isIx := stripParens(df).(*ast.IndexExpr)
									if !isIx || v.objOf(ix.Index) != v.objOf(lp.Value) {
										continue
									}
									// the set is filled from the signer list
									setObj := v.objOf(ix.X)
									ast.Inspect(outer.Body, func(m ast.Node) bool {
										fill, isF := m.(*ast.AssignStmt)
										if !isF || len(fill.Lhs) != 1 {
											return true
										}
										fx, isFx := stripParens(fill.Lhs[0]).(*ast.IndexExpr)
										if !isFx || v.objOf(fx.X) != setObj {
											return true
										}
										if fl, isFL := v.innermostLoop(fill).(*ast.RangeStmt); isFL && v.objOf(fl.X) == listObj && fl.Value != nil && v.objOf(fx.Index) == v.objOf(fl.Value) {
											member = true
										}
										return true
									})
								}
							}
							if !member {
								good = false
							}
							return true
						})
						if nApp == 1 && good && !v.nestedConditionally(as, outer.Body) {
							okDiff, okNo = true, true
						}
					}
				}
				for _, as := range v.assignmentsToField(outer.Body, "SignedOperators") {
					if v.objOf(rootIdent(as.Lhs[0])) == taskInfoObj && v.objOf(as.Rhs[0]) == listObj && !v.nestedConditionally(as, outer.Body) {
						okSigned = true
					}
				}
				for _, as := range v.assignmentsToField(outer.Body, "NoSignedOperators") {
					if v.objOf(rootIdent(as.Lhs[0])) == taskInfoObj && (v.objOf(as.Rhs[0]) == diffObj && diffObj != nil || (oneSided && strings.HasPrefix(v.cs(as.Rhs[0]), "types.Difference("))) && !v.nestedConditionally(as, outer.Body) {
						okNo = true
					}
				}
				for _, as := range v.assignmentsToField(outer.Body, "TaskTotalPower") {
					if v.objOf(rootIdent(as.Lhs[0])) == taskInfoObj && resolvesToCall(v, as.Rhs[0], "GetAVSUSDValue", nil) {
						okPow = true
					}
				}
				r.check(okDiff && okNo, "C20.R6", "hook|non-signers", v.pos(outer), "non-signers = opted-in operators of the task that are not among the signers", "NoSignedOperators is not built from taskInfo.OptInOperators minus the signers")
				r.check(okSigned, "C20.R6", "hook|signers-stored", v.pos(outer), "the signer list is stored on the task", "taskInfo.SignedOperators is not unconditionally assigned the signer list")
				r.check(okPow, "C20.R6", "hook|total-power", v.pos(outer), "the task's total power is the AVS's value", "taskInfo.TaskTotalPower is not assigned from GetAVSUSDValue")
				okTI := resolvesToCall(v, ast.NewIdent("_"), "", nil) // placeholder false
				okTI = false
				for _, c := range v.Calls(outer.Body, byName("GetTaskInfo")) {
					if as, ok := v.parent(c).(*ast.AssignStmt); ok && len(as.Lhs) == 2 && v.objOf(as.Lhs[0]) == taskInfoObj {
						k, _ := v.failArm(c)
						okTI = k == "continue"
					}
				}
				r.check(okTI, "C20.R6", "hook|task-of-group", v.pos(outer), "the written task is the group's task; a missing task skips the group", "taskInfo does not come from GetTaskInfo with `continue` on failure")
			}
		}
	}
	// ------------------------------------------------------------------ R7: who may write
	type wr struct{ fn, why string }
	want := map[string][]string{
		"Keeper.SetAVSInfo":            nil,
		"Keeper.GetTaskID":             nil,
		"Keeper.SetTaskInfo":           nil,
		"Keeper.SetOperatorPubKey":     nil,
		"Keeper.SetTaskResultInfo":     nil,
		"Keeper.SetTaskChallengedInfo": nil,
	}
	famOf := map[string]string{}
	for name := range want {
		fn := w.Fn(avs, name)
		if fn == nil {
			r.bad("C20.R7", "anchor|"+name, "-", "anchor", name+" not found")
			continue
		}
		fams := directFams(e, fn, "W")
		if len(fams) != 1 {
			r.bad("C20.R7", "family|"+name, w.pos(fn.Pos()), "one family written", fmt.Sprintf("%s writes %d families", name, len(fams)))
			continue
		}
		for f := range fams {
			famOf[f] = name
		}
	}
	for fn := range e.Direct {
		if !w.fnInScope(fn) {
			continue
		}
		for _, kind := range []string{"W", "D"} {
			for f := range directFams(e, fn, kind) {
				owner, ok := famOf[f]
				if !ok {
					continue
				}
				n := fnName(fn)
				if kind == "W" {
					r.check(strings.HasSuffix(n, strings.TrimPrefix(owner, "Keeper.")), "C20.R7", "writer|"+e.R.famName(f)+"|"+n, w.pos(fn.Pos()), "only the guarded setter writes "+e.R.famName(f), n+" writes "+e.R.famName(f)+" directly, bypassing the admission guards of "+owner)
				} else {
					r.check(strings.HasSuffix(n, "DeleteAVSInfo"), "C20.R7", "deleter|"+e.R.famName(f)+"|"+n, w.pos(fn.Pos()), "only DeleteAVSInfo deletes from the AVS families", n+" deletes from "+e.R.famName(f))
				}
			}
		}
	}
	// callers of the guarded setters (the setters without guards of their own)
	callersOf := func(name string) []string {
		fn := w.Fn(avs, name)
		var out []string
		if fn == nil {
			return out
		}
		if node := w.CG.Nodes[fn]; node != nil {
			for _, in := range node.In {
				if w.fnInScope(in.Caller.Func) {
					out = append(out, strings.TrimSuffix(fnName(in.Caller.Func), "$bound"))
				}
			}
		}
		return uniq(out)
	}
	allowed := map[string][]string{
		"Keeper.SetAVSInfo":            {"UpdateAVSInfo", "InitGenesis"},
		"Keeper.SetTaskInfo":           {"CreateAVSTask", "AfterEpochEnd", "InitGenesis"},
		"Keeper.SetOperatorPubKey":     {"RegisterBLSPublicKey", "InitGenesis"},
		"Keeper.SetTaskChallengedInfo": {"RaiseAndResolveChallenge", "InitGenesis"},
		"Keeper.SetTaskResultInfo":     {"SubmitTaskResult", "InitGenesis"},
	}
	for name, al := range allowed {
		var off []string
		for _, c := range callersOf(name) {
			ok := false
			for _, a := range al {
				if strings.HasSuffix(c, a) || strings.Contains(c, a+"$") {
					ok = true
				}
			}
			if strings.HasSuffix(c, strings.TrimPrefix(name, "Keeper.")) {
				ok = true // pointer-receiver wrapper of the setter itself
			}
			if !ok {
				off = append(off, c)
			}
		}
		r.check(len(off) == 0, "C20.R7", "callers|"+name, "-", name+" is called only from its guarded operation", name+" is also called from "+strings.Join(off, ", ")+", which does not carry the admission guards")
	}
	// ------------------------------------------------------------------ R8: key role order
	groups := map[string][]string{
		"task":      {"Keeper.SetTaskInfo", "Keeper.GetTaskInfo", "Keeper.IsExistTask"},
		"result":    {"Keeper.SetTaskResultInfo", "Keeper.IsExistTaskResultInfo", "Keeper.GetTaskResultInfo"},
		"challenge": {"Keeper.SetTaskChallengedInfo", "Keeper.IsExistTaskChallengedInfo", "Keeper.GetTaskChallengedInfo"},
	}
	wantRoles := map[string]string{"task": "task,id", "result": "operator,task,id", "challenge": "operator,task,id"}
	for g, fns := range groups {
		for _, name := range fns {
			v := w.View(avs, name)
			if v == nil {
				r.bad("C20.R8", "anchor|"+name, "-", "anchor", name+" not found")
				continue
			}
			cs := v.CallsNamed("GetJoinedStoreKey")
			if len(cs) == 0 {
				r.bad("C20.R8", "keyctor|"+name, v.pos(v.Decl), "key built with GetJoinedStoreKey", "no GetJoinedStoreKey call")
				continue
			}
			for i, c := range cs {
				var roles []string
				for _, a := range c.Args {
					roles = append(roles, keyRole(a))
				}
				got := strings.Join(roles, ",")
				r.check(got == wantRoles[g], "C20.R8", fmt.Sprintf("keyorder|%s|%s#%d", g, name, i), v.pos(c), "the "+g+" record key is ("+wantRoles[g]+") in writer and readers alike", name+" builds the "+g+" key as ("+got+")")
			}
		}
	}
	_ = ssa.Function{}
	_ = wr{}
}

// paramName: the name of the i-th parameter of v's function ("" if absent).
func paramName(v *FnView, i int) string {
	k := 0
	for _, fl := range v.Decl.Type.Params.List {
		for _, n := range fl.Names {
			if k == i {
				return n.Name
			}
			k++
		}
	}
	return ""
}

func anyOf(es []ast.Expr, p func(ast.Expr) bool) bool {
	for _, e := range es {
		if p(e) {
			return true
		}
	}
	return false
}

// calleeName2: callee name of e if e is a call.
func (v *FnView) calleeName2(e ast.Expr) string {
	if c, ok := stripParens(e).(*ast.CallExpr); ok {
		return v.calleeName(c)
	}
	return ""
}

// firstTermWith: the additive leaf of e whose last field is name (e itself if none).
func firstTermWith(e ast.Expr, name string) ast.Expr {
	var found ast.Expr
	ast.Inspect(e, func(n ast.Node) bool {
		if sel, ok := n.(*ast.SelectorExpr); ok && sel.Sel.Name == name && found == nil {
			found = sel
		}
		return found == nil
	})
	if found == nil {
		return e
	}
	return found
}

// taskOfAny: some comparison fact mentioning `other` has its other side rooted at the task lookup.
func taskOfAny(v *FnView, fs fset, taskOf func(ast.Expr) bool, other string) bool {
	for _, f := range fs.fs {
		s := exprString(f.Atom)
		if !strings.Contains(s, other) {
			continue
		}
		ok := false
		ast.Inspect(f.Atom, func(n ast.Node) bool {
			if sel, isSel := n.(*ast.SelectorExpr); isSel && sel.Sel.Name == "Hash" && taskOf(sel) {
				ok = true
			}
			return !ok
		})
		if ok {
			return true
		}
	}
	return false
}

// cs renders e with a root identifier that is a single-definition alias of a
// parameter replaced by that parameter's name (so `p := params; p.X` reads as params.X).
func (v *FnView) cs(e ast.Expr) string {
	s := exprString(e)
	root := rootIdent(e)
	if root == nil || !strings.HasPrefix(s, root.Name) {
		return s
	}
	o := v.objOf(root)
	if o == nil {
		return s
	}
	for depth := 0; depth < 4; depth++ {
		defs := v.defsOf(o)
		if len(defs) != 1 {
			break
		}
		id, ok := stripParens(defs[0]).(*ast.Ident)
		if !ok || v.objOf(id) == nil {
			break
		}
		o = v.objOf(id)
	}
	if o.Name() != root.Name {
		return o.Name() + strings.TrimPrefix(s, root.Name)
	}
	return s
}

func (v *FnView) css(e ast.Expr) string { return strings.TrimSuffix(v.cs(e), ".String()") }
