package main

import (
	"fmt"
	"go/ast"
	"go/token"
	"go/types"
	"strings"
)

func init() { register("C10", runC10) }

// derivesFrom: e is root.path (selector chain) or an identifier / conversion /
// parse call whose single operand derives from it.
func (v *FnView) derivesFrom(e ast.Expr, root types.Object, path []string, depth int) bool {
	if depth > 8 {
		return false
	}
	e = stripParens(e)
	switch x := e.(type) {
	case *ast.SelectorExpr:
		sp := selectorPath(x)
		if id := rootIdent(x); id != nil && v.Info.ObjectOf(id) == root && len(sp) == len(path)+1 {
			ok := true
			for i := range path {
				if sp[i+1] != path[i] {
					ok = false
				}
			}
			if ok {
				return true
			}
		}
	case *ast.Ident:
		if len(path) == 0 && v.Info.ObjectOf(x) == root {
			return true
		}
		obj := v.Info.ObjectOf(x)
		if obj == nil {
			return false
		}
		// all assignments to the identifier must derive
		n, okAll := 0, true
		ast.Inspect(v.Decl.Body, func(nd ast.Node) bool {
			as, ok := nd.(*ast.AssignStmt)
			if !ok {
				return true
			}
			for i, l := range as.Lhs {
				lid, ok := l.(*ast.Ident)
				if !ok || v.Info.ObjectOf(lid) != obj {
					continue
				}
				n++
				var rhs ast.Expr
				if len(as.Rhs) == len(as.Lhs) {
					rhs = as.Rhs[i]
				} else if len(as.Rhs) == 1 && i == 0 {
					rhs = as.Rhs[0] // v, err := f(...)
				}
				if rhs == nil || !v.derivesFrom(rhs, root, path, depth+1) {
					okAll = false
				}
			}
			return true
		})
		return n > 0 && okAll
	case *ast.CallExpr:
		// conversions and parse helpers with exactly one data operand
		name := ""
		if f := v.callee(x); f != nil {
			name = f.Name()
		}
		switch name {
		case "AccAddressFromBech32", "MustAccAddressFromBech32", "HexToAddress", "BytesToAddress":
			if len(x.Args) == 1 {
				return v.derivesFrom(x.Args[0], root, path, depth+1)
			}
		case "Bytes", "String", "Hex":
			if sel, ok := x.Fun.(*ast.SelectorExpr); ok && len(x.Args) == 0 {
				return v.derivesFrom(sel.X, root, path, depth+1)
			}
		}
		if tv, ok := v.Info.Types[x.Fun]; ok && tv.IsType() && len(x.Args) == 1 {
			return v.derivesFrom(x.Args[0], root, path, depth+1)
		}
	case *ast.SliceExpr:
		return v.derivesFrom(x.X, root, path, depth+1)
	}
	return false
}

func runC10(r *Run) {
	w := r.W
	r.Explain = "Static decision of structural necessary conditions of C10: for every state-changing entry point, " +
		"the caller check (gateway address, AVS owner membership, signer field, governance authority, signature result) " +
		"dominates - in the structured control flow of the resolved source - every call whose effect summary contains a store write; " +
		"the checked identity is the caller's (contract.CallerAddress / the field GetSigners reads), not a payload field. " +
		"Entry points are enumerated from the precompile dispatch switches, IsTransaction, the generated MsgServer interfaces and the ante chains."
	r.NotDec = []string{"cryptographic validity of signatures", "what the gateway contract itself lets through",
		"delegated-identity methods (registerOperatorToAVS, deregisterOperatorFromAVS, registerBLSPublicKey, challenge caller): identity is asserted by the calling contract",
		"'every well-formed payload' (input space)"}
	r.Assume = []string{"baseapp runs the ante chain before message handlers", "evmos RunSetup passes the real *vm.Contract",
		"go/types resolution of callees is correct; interface calls resolve to the repo's implementers (CHA over repo types)"}

	r.rule("C10.R1", "every IsTransaction precompile method of assets/delegation/reward: a successful CheckExocoreGatewayAddr(ctx, <contract param>.CallerAddress) dominates every call with a store-write effect; tx methods of other precompiles are classified (avs -> R2, bls -> no write effect) or reported", 20)
	r.rule("C10.R2", "avs precompile tx handlers: the AVS/task-contract address field of the params object is assigned from <contract param>.CallerAddress before the keeper call and nowhere else; owner membership (slices.Contains(owners, CallerAddress)) dominates the store mutation in the handler or in the keeper arm it selects", 10)
	r.rule("C10.R3", "Msg handlers: the acting address handed to the keeper derives from the request field that GetSigners reads", 20)
	r.rule("C10.R4", "every UpdateParams handler: `authority != msg.Authority` (optionally conjoined with IsMainnet(chainID), nothing weaker) leads to an error return before any call with a write effect; MsgUpdateParams.GetSigners reads Authority", 14)
	// an offered public key is bound to the signer in the same slot (not to "some signer of the tx"): otherwise a
	// co-signer without a recorded key gets the attacker's key recorded and its slot verified against it
	if sv := w.View("app/ante/cosmos", "SetPubKeyDecorator.AnteHandle"); sv != nil {
		ok, nLoops := true, 0
		ast.Inspect(sv.Decl.Body, func(n ast.Node) bool {
			rs, isR := n.(*ast.RangeStmt)
			if !isR || rs.Key == nil || rs.Value == nil || !resolvesToMethod(sv, rs.X, "GetPubKeys") {
				return true
			}
			nLoops++
			idx, pk := sv.objOf(rs.Key), sv.objOf(rs.Value)
			if !sv.rejectsWhen(rs.Body, func(f Fact) bool {
				c, isC := stripParens(f.Atom).(*ast.CallExpr)
				if !isC || f.Truth || exprString(c.Fun) != "bytes.Equal" || len(c.Args) != 2 {
					return false
				}
				okPK, okSigner := false, false
				for _, a := range c.Args {
					if ac, isAC := stripParens(a).(*ast.CallExpr); isAC && strings.HasSuffix(exprString(ac.Fun), ".Address") && sv.objOf(rootIdent(ac.Fun)) == pk {
						okPK = true
					}
					if ix, isIx := stripParens(a).(*ast.IndexExpr); isIx && sv.objOf(ix.Index) == idx && resolvesToMethod(sv, ix.X, "GetSigners") {
						okSigner = true
					}
				}
				return okPK && okSigner
			}, func(f Fact) bool {
				id, isID := stripParens(f.Atom).(*ast.Ident)
				return isID && id.Name == "simulate" && !f.Truth
			}) {
				ok = false
			}
			return true
		})
		r.check(ok && nLoops >= 1, "C10.R3", "ante|pubkey-bound-to-signer-slot", sv.pos(sv.Decl), "a public key offered in slot i is rejected unless it is the key of signer i", "SetPubKeyDecorator does not reject a public key whose address differs from signers[i]: the key can be recorded for another signer of the transaction, whose signature slot is then verified against the attacker's key")
	}
	// the network test used by the authority checks covers every revision of the mainnet chain id
	if mv := w.View("utils", "IsMainnet"); mv == nil {
		r.bad("C10.R4", "IsMainnet|anchor", "-", "anchor", "utils.IsMainnet not found")
	} else {
		r.saw(mv.ID())
		ok, why := false, "IsMainnet is not `strings.HasPrefix(chainID, <constant>)`"
		if len(mv.Decl.Body.List) == 1 {
			if rs, isRet := mv.Decl.Body.List[0].(*ast.ReturnStmt); isRet && len(rs.Results) == 1 {
				if c, isC := stripParens(rs.Results[0]).(*ast.CallExpr); isC && strings.HasSuffix(exprString(c.Fun), "HasPrefix") && len(c.Args) == 2 && isParamOf(mv, c.Args[0]) {
					if cv := mv.constOf(c.Args[1]); cv != nil {
						val := strings.Trim(cv.ExactString(), `"`)
						i := strings.LastIndex(val, "-")
						rev := i >= 0 && i+1 < len(val) && strings.Trim(val[i+1:], "0123456789") == ""
						if rev {
							why = "IsMainnet tests the prefix " + val + ", which names one revision: on every other revision of the mainnet chain id the authority checks are switched off"
						} else {
							ok = true
						}
					}
				}
			}
		}
		r.check(ok, "C10.R4", "IsMainnet|all-revisions", mv.pos(mv.Decl), "the mainnet test matches every revision of the mainnet chain id (prefix without revision)", why)
	}
	r.rule("C10.R5", "ante signature decorators: the result of every VerifySignature call is tested and the failing arm cannot reach next(); in the create-price branch the signature count is compared with the signer count before the loop", 4)
	r.rule("C10.R6", "errorsmod.Wrap/Wrapf(err, ...) is never returned on a path where err is known nil (an intended rejection would become success)", 100)
	r.rule("C10.R7", "CheckExocoreGatewayAddr returns nil only when the address equals the configured gateway parameter", 1)

	c10GatewayAndAVS(r)
	c10SignerActor(r)
	c10Authority(r)
	c10SigVerify(r)
	wrapNilRule(r, "C10.R6", func(relFile string) bool {
		return strings.HasPrefix(relFile, "precompiles/") || strings.HasPrefix(relFile, "x/") || strings.HasPrefix(relFile, "app/ante")
	})
	// R7
	if v := w.View("x/assets/keeper", "Keeper.CheckExocoreGatewayAddr"); v == nil {
		r.bad("C10.R7", "anchor:CheckExocoreGatewayAddr", "-", "anchor function", "x/assets/keeper.Keeper.CheckExocoreGatewayAddr not found")
	} else {
		r.saw(v.ID())
		addrParam := v.paramsOfType("common.Address")
		okAll, n := true, 0
		ast.Inspect(v.Decl.Body, func(nd ast.Node) bool {
			rs, ok := nd.(*ast.ReturnStmt)
			if !ok || len(rs.Results) != 1 || !isNilIdent(v.Info, rs.Results[0]) {
				return true
			}
			n++
			good := false
			for _, f := range v.FactsAt(rs, false) {
				be, ok := stripParens(f.Atom).(*ast.BinaryExpr)
				if !ok || (be.Op != token.NEQ && be.Op != token.EQL) {
					continue
				}
				equal := (be.Op == token.EQL) == f.Truth
				if !equal {
					continue
				}
				x, y := be.X, be.Y
				for k := 0; k < 2; k++ {
					if id, ok := stripParens(x).(*ast.Ident); ok && len(addrParam) == 1 && v.Info.ObjectOf(id) == addrParam[0] {
						// other side derives from params' ExocoreLzAppAddress
						if v.mentionsField(y, "ExocoreLzAppAddress") {
							good = true
						}
					}
					x, y = y, x
				}
			}
			if !good {
				okAll = false
			}
			return true
		})
		r.check(okAll && n > 0, "C10.R7", "CheckExocoreGatewayAddr", v.pos(v.Decl), "nil is returned only under addr == gateway param",
			"a `return nil` is reachable without the fact addr == HexToAddress(param.ExocoreLzAppAddress)")
	}
}

// mentionsField: e, or the value assigned to the identifier e, mentions a selector named field.
func (v *FnView) mentionsField(e ast.Expr, field string) bool {
	found := false
	var visit func(ast.Expr, int)
	visit = func(x ast.Expr, d int) {
		if d > 6 || x == nil {
			return
		}
		ast.Inspect(x, func(n ast.Node) bool {
			switch s := n.(type) {
			case *ast.SelectorExpr:
				if s.Sel.Name == field {
					found = true
				}
			case *ast.Ident:
				obj := v.Info.ObjectOf(s)
				if _, isVar := obj.(*types.Var); isVar {
					ast.Inspect(v.Decl.Body, func(m ast.Node) bool {
						if as, ok := m.(*ast.AssignStmt); ok {
							for i, l := range as.Lhs {
								if lid, ok := l.(*ast.Ident); ok && v.Info.ObjectOf(lid) == obj && lid != s {
									if i < len(as.Rhs) && as.Rhs[i] != x {
										visit(as.Rhs[i], d+1)
									} else if len(as.Rhs) == 1 && as.Rhs[0] != x {
										visit(as.Rhs[0], d+1)
									}
								}
							}
						}
						return true
					})
				}
			}
			return !found
		})
	}
	visit(e, 0)
	return found
}

func c10GatewayAndAVS(r *Run) {
	w := r.W
	for _, t := range precompileTable(w) {
		seenHandler := map[*types.Func]bool{}
		for _, m := range t.Methods {
			if !m.IsTx {
				// a method not declared as a transaction must not write (RunSetup makes it read-only only by this flag)
				hv := w.ViewOf(m.HandlerObj)
				if hv != nil {
					wr := false
					for _, c := range allCalls(hv.Decl.Body) {
						if hv.callWrites(c) {
							wr = true
						}
					}
					r.check(!wr, "C10.R1", "query:"+t.Name+"."+m.ABIName, hv.pos(hv.Decl), "non-transaction precompile method has no store-write effect",
						"method is not in IsTransaction but reaches a store write")
				}
				continue
			}
			hv := w.ViewOf(m.HandlerObj)
			key := t.Name + "." + m.ABIName
			if hv == nil {
				r.bad("C10.R1", key, "-", "handler body", "handler has no source body")
				continue
			}
			r.saw(hv.ID())
			switch t.Name {
			case "assets", "delegation", "reward":
				contractParams := hv.paramsOfType("vm.Contract")
				var unguarded []string
				nW := 0
				for _, c := range allCalls(hv.Decl.Body) {
					if !hv.callWrites(c) {
						continue
					}
					nW++
					o := hv.GuardedBy(c, byName("CheckExocoreGatewayAddr"), true)
					if o == nil {
						unguarded = append(unguarded, fmt.Sprintf("%s at %s", exprString(c.Fun), hv.pos(c)))
						continue
					}
					if len(o.Call.Args) != 2 || !hv.isFieldOfParam(o.Call.Args[1], contractParams, "CallerAddress", false) {
						unguarded = append(unguarded, fmt.Sprintf("%s at %s: guard argument is %s, not <contract>.CallerAddress", exprString(c.Fun), hv.pos(c), exprString(o.Call.Args[len(o.Call.Args)-1])))
					}
				}
				if nW == 0 && !(t.Name == "reward") {
					r.bad("C10.R1", key, hv.pos(hv.Decl), "gateway-guarded transaction", "handler has no call with a write effect: effect resolution failed or handler is a stub")
					continue
				}
				if nW == 0 {
					// reward: RewardForWithdraw is "not supported" today; the guard must still be the first keeper interaction
					first := true
					for _, c := range allCalls(hv.Decl.Body) {
						if hv.calleeName(c) == "RewardForWithdraw" && hv.GuardedBy(c, byName("CheckExocoreGatewayAddr"), true) == nil {
							first = false
						}
					}
					r.check(first, "C10.R1", key, hv.pos(hv.Decl), "gateway guard dominates the keeper call", "RewardForWithdraw reachable without a successful gateway check")
					continue
				}
				r.check(len(unguarded) == 0, "C10.R1", key, hv.pos(hv.Decl),
					fmt.Sprintf("CheckExocoreGatewayAddr(contract.CallerAddress) dominates all %d write-effect calls of %s", nW, hv.Obj.Name()),
					"write-effect call not dominated by a successful gateway check: "+strings.Join(unguarded, "; "))
			case "avs":
				if !seenHandler[m.HandlerObj] {
					seenHandler[m.HandlerObj] = true
					c10AVSHandler(r, hv, m)
				}
			default:
				// stateless precompiles (bls): no write effect allowed
				wr := []string{}
				for _, c := range allCalls(hv.Decl.Body) {
					if hv.callWrites(c) {
						wr = append(wr, exprString(c.Fun))
					}
				}
				r.check(len(wr) == 0, "C10.R1", key, hv.pos(hv.Decl), "transaction method of a precompile without caller check has no store-write effect",
					"unclassified state-changing precompile method (no gateway/owner rule covers it): writes via "+strings.Join(wr, ","))
			}
		}
	}
}

// delegated-identity methods: the acting operator is asserted by the calling
// contract (outside static reach); only the AVS-address binding is checked.
var avsDelegatedIdentity = map[string]bool{"registerOperatorToAVS": true, "deregisterOperatorFromAVS": true, "challenge": true}
var avsNoBinding = map[string]string{"registerBLSPublicKey": "operator identity and key ownership are established by the BLS proof-of-possession checked in the keeper (C20), not by the caller address"}

func c10AVSHandler(r *Run, hv *FnView, m *PCMethod) {
	key := "avs." + m.ABIName
	if why, ok := avsNoBinding[m.ABIName]; ok {
		r.note("C10.R2 %s: not bound to caller by design: %s", key, why)
		return
	}
	contractParams := hv.paramsOfType("vm.Contract")
	// the keeper call with a write effect
	var wcalls []*ast.CallExpr
	for _, c := range allCalls(hv.Decl.Body) {
		if hv.callWrites(c) {
			if sel, ok := c.Fun.(*ast.SelectorExpr); ok {
				if strings.HasSuffix(exprString(sel.X), "Keeper") {
					wcalls = append(wcalls, c)
				}
			}
		}
	}
	if len(wcalls) == 0 {
		r.bad("C10.R2", key, hv.pos(hv.Decl), "avs handler keeper call", "no keeper call with a write effect found")
		return
	}
	for _, kc := range wcalls {
		// params object = an identifier argument with a struct(-pointer) type
		var pobj types.Object
		for _, a := range kc.Args {
			if id, ok := stripParens(a).(*ast.Ident); ok {
				t := v_deref(hv.Info.TypeOf(id))
				if _, isStruct := t.Underlying().(*types.Struct); isStruct && !strings.HasSuffix(t.String(), "types.Context") {
					pobj = hv.Info.ObjectOf(id)
				}
			}
		}
		if pobj == nil {
			r.bad("C10.R2", key+"|binding", hv.pos(kc), "params object", "keeper call takes no params object")
			continue
		}
		// assignments to address-binding fields of the params object
		bindFields := map[string]bool{"AvsAddress": true, "TaskContractAddress": true}
		nBind, badBind := 0, []string{}
		var bindStmt ast.Node
		ast.Inspect(hv.Decl.Body, func(n ast.Node) bool {
			as, ok := n.(*ast.AssignStmt)
			if !ok {
				return true
			}
			for i, l := range as.Lhs {
				sel, ok := l.(*ast.SelectorExpr)
				if !ok || !bindFields[sel.Sel.Name] {
					continue
				}
				id, ok := sel.X.(*ast.Ident)
				if !ok || hv.Info.ObjectOf(id) != pobj || i >= len(as.Rhs) {
					continue
				}
				nBind++
				if !hv.isFieldOfParam(as.Rhs[i], contractParams, "CallerAddress", true) {
					badBind = append(badBind, fmt.Sprintf("%s = %s at %s", exprString(l), exprString(as.Rhs[i]), hv.pos(as)))
				} else {
					bindStmt = as
				}
			}
			return true
		})
		okBind := nBind >= 1 && len(badBind) == 0 && bindStmt != nil && hv.precedesInList(bindStmt, kc)
		detail := "the AVS/task address field is not (only) assigned from contract.CallerAddress before the keeper call"
		if len(badBind) > 0 {
			detail += ": " + strings.Join(badBind, "; ")
		}
		r.check(okBind, "C10.R2", key+"|binding", hv.pos(kc), "AVS identity = calling contract address", detail)
		if avsDelegatedIdentity[m.ABIName] {
			continue
		}
		// owner membership
		ownerOK, where := false, ""
		if o := hv.GuardedBy(kc, byName("Contains"), true); o != nil && ownerArgs(hv, o.Call) {
			ownerOK, where = true, "precompile handler"
		} else {
			// in the keeper: every write-effect call of the selected arm is guarded
			for _, tgt := range hv.targetsOf(kc) {
				kf, _ := tgt.Object().(*types.Func)
				kv := hv.W.ViewOf(kf)
				if kv == nil {
					continue
				}
				action := actionConst(hv, pobj)
				ok, n := true, 0
				for _, c := range allCalls(kv.Decl.Body) {
					if !kv.callWrites(c) || !inActionArm(kv, c, action) {
						continue
					}
					// GetTaskID-style id allocation happens after the owner check as well
					n++
					if o := kv.GuardedBy(c, byName("Contains"), true); o == nil || !ownerArgs(kv, o.Call) {
						ok = false
						where = fmt.Sprintf("%s at %s", exprString(c.Fun), kv.pos(c))
					}
				}
				if ok && n > 0 {
					ownerOK, where = true, "keeper "+kf.Name()
				}
			}
		}
		r.check(ownerOK, "C10.R2", key+"|owner", hv.pos(kc), "owner membership dominates the mutation ("+where+")",
			"store mutation reachable without slices.Contains(<owners>, <params>.CallerAddress) being true: "+where)
	}
}

func v_deref(t types.Type) types.Type {
	if p, ok := t.(*types.Pointer); ok {
		return p.Elem()
	}
	return t
}

// ownerArgs: slices.Contains(X.AvsOwnerAddress, Y.CallerAddress)
func ownerArgs(v *FnView, c *ast.CallExpr) bool {
	if len(c.Args) != 2 {
		return false
	}
	a := selectorPath(c.Args[0])
	b := selectorPath(c.Args[1])
	return len(a) > 0 && a[len(a)-1] == "AvsOwnerAddress" && len(b) > 0 && b[len(b)-1] == "CallerAddress"
}

// actionConst: the constant assigned to <pobj>.Action in the handler.
func actionConst(v *FnView, pobj types.Object) types.Object {
	var out types.Object
	ast.Inspect(v.Decl.Body, func(n ast.Node) bool {
		as, ok := n.(*ast.AssignStmt)
		if !ok {
			return true
		}
		for i, l := range as.Lhs {
			if sel, ok := l.(*ast.SelectorExpr); ok && sel.Sel.Name == "Action" && i < len(as.Rhs) {
				if id, ok := sel.X.(*ast.Ident); ok && v.Info.ObjectOf(id) == pobj {
					switch rr := as.Rhs[i].(type) {
					case *ast.Ident:
						out = v.Info.ObjectOf(rr)
					case *ast.SelectorExpr:
						out = v.Info.ObjectOf(rr.Sel)
					}
				}
			}
		}
		return true
	})
	return out
}

// inActionArm: call c lies in a `case <action>` clause of a switch in kv, or
// outside any action switch (then it is shared by all actions).
func inActionArm(kv *FnView, c ast.Node, action types.Object) bool {
	for p := kv.parent(c); p != nil; p = kv.parent(p) {
		cc, ok := p.(*ast.CaseClause)
		if !ok {
			continue
		}
		sw, _ := kv.parent(kv.parent(cc)).(*ast.SwitchStmt)
		if sw == nil || sw.Tag == nil {
			continue
		}
		isAction := false
		for _, e := range cc.List {
			var o types.Object
			switch x := e.(type) {
			case *ast.Ident:
				o = kv.Info.ObjectOf(x)
			case *ast.SelectorExpr:
				o = kv.Info.ObjectOf(x.Sel)
			}
			if _, isConst := o.(*types.Const); isConst {
				isAction = true
				if action != nil && o == action {
					return true
				}
			}
		}
		if isAction {
			return false
		}
	}
	return true
}

// ---------------------------------------------------------------------------

type actorRow struct {
	entry, msgPkg, msgType string
	path                   []string // field path GetSigners must read
	calls                  map[string]int
}

var actorTable = []actorRow{
	{"msg:operator.RegisterOperator", "x/operator/types", "RegisterOperatorReq", []string{"FromAddress"}, map[string]int{"SetOperatorInfo": 1}},
	{"msg:operator.OptIntoAVS", "x/operator/types", "OptIntoAVSReq", []string{"FromAddress"}, map[string]int{"OptIn": 1, "OptInWithConsKey": 1}},
	{"msg:operator.OptOutOfAVS", "x/operator/types", "OptOutOfAVSReq", []string{"FromAddress"}, map[string]int{"OptOut": 1}},
	{"msg:operator.SetConsKey", "x/operator/types", "SetConsKeyReq", []string{"Address"}, map[string]int{"SetOperatorConsKeyForChainID": 1, "IsActive": 1}},
	{"msg:avs.SubmitTaskResult", "x/avs/types", "SubmitTaskResultReq", []string{"FromAddress"}, map[string]int{"SetTaskResultInfo": 1}},
	{"msg:delegation.DelegateAssetToOperator", "x/delegation/types", "MsgDelegation", []string{"BaseInfo", "FromAddress"}, map[string]int{"newDelegationParams": 0}},
	{"msg:delegation.UndelegateAssetFromOperator", "x/delegation/types", "MsgUndelegation", []string{"BaseInfo", "FromAddress"}, map[string]int{"newDelegationParams": 0}},
	{"msg:oracle.CreatePrice", "x/oracle/types", "MsgCreatePrice", []string{"Creator"}, map[string]int{}},
}

func c10SignerActor(r *Run) {
	w := r.W
	cat := catalogue(w)
	// the AVS task result names the operator it is recorded for inside the payload: the keeper must compare
	// it with the signer it was handed, on every path that stores the result
	if kv := w.View("x/avs/keeper", "Keeper.SetTaskResultInfo"); kv != nil {
		r.saw(kv.ID())
		from, info := paramName(kv, 1), paramName(kv, 2)
		n := 0
		for _, c := range kv.CallsNamed("Set") {
			n++
			ok := kv.factsOf(c).cmp(func(cm cmp) bool {
				return cm.Op == "==" && exprString(cm.L) == from && exprString(cm.R) == info+".OperatorAddress"
			})
			r.check(ok, "C10.R3", fmt.Sprintf("msg:avs.SubmitTaskResult|signer-is-recorded-operator#%d", n), kv.pos(c), "a task result is stored only for the operator that signed the message",
				"a store write of SetTaskResultInfo is not dominated by "+from+" == "+info+".OperatorAddress: any account can record a result in another operator's name")
		}
		if n == 0 {
			r.bad("C10.R3", "msg:avs.SubmitTaskResult|signer-is-recorded-operator", kv.pos(kv.Decl), "result writes present", "no store write found in SetTaskResultInfo")
		}
	}
	byName := map[string]*Entry{}
	for _, e := range cat.Cat("msg") {
		byName[e.Name] = e
	}
	// every non-UpdateParams Msg of the custom modules must be in the table
	for _, e := range cat.Cat("msg") {
		if strings.HasSuffix(e.Name, ".UpdateParams") || strings.HasPrefix(e.Name, "msg:appchain") {
			continue
		}
		inTable := false
		for _, row := range actorTable {
			if row.entry == e.Name {
				inTable = true
			}
		}
		if !inTable {
			// stubs that panic("implement me") have no effect
			if fv := w.ViewOf(e.Fn.Object().(*types.Func)); fv != nil {
				wr := false
				for _, c := range allCalls(fv.Decl.Body) {
					if fv.callWrites(c) {
						wr = true
					}
				}
				r.check(!wr, "C10.R3", e.Name+"|unlisted", fv.pos(fv.Decl), "Msg handler outside the signer table has no write effect",
					"state-changing Msg handler has no signer=actor rule")
			}
		}
	}
	for _, row := range actorTable {
		e := byName[row.entry]
		if e == nil {
			r.bad("C10.R3", row.entry, "-", "Msg handler present", "entry point not found in the MsgServer catalogue")
			continue
		}
		// GetSigners reads exactly path
		gs := w.View(row.msgPkg, row.msgType+".GetSigners")
		if gs == nil {
			r.bad("C10.R3", row.entry+"|GetSigners", "-", "GetSigners present", "no GetSigners on "+row.msgType)
			continue
		}
		recv := gs.Info.ObjectOf(gs.Decl.Recv.List[0].Names[0])
		reads := map[string]bool{}
		ast.Inspect(gs.Decl.Body, func(n ast.Node) bool {
			if sel, ok := n.(*ast.SelectorExpr); ok {
				if id := rootIdent(sel); id != nil && gs.Info.ObjectOf(id) == recv {
					if sp := selectorPath(sel); sp != nil {
						if _, isField := gs.Info.ObjectOf(sel.Sel).(*types.Var); isField {
							reads[strings.Join(sp[1:], ".")] = true
							return false
						}
					}
				}
			}
			return true
		})
		want := strings.Join(row.path, ".")
		okSign := reads[want] && len(reads) == 1
		r.check(okSign, "C10.R3", row.entry+"|GetSigners", gs.pos(gs.Decl), "GetSigners reads "+row.msgType+"."+want,
			fmt.Sprintf("GetSigners reads %v, the handler acts for %s", keysOf(reads), want))
		hv := w.ViewOf(e.Fn.Object().(*types.Func))
		if hv == nil {
			r.bad("C10.R3", row.entry, "-", "handler body", "no source")
			continue
		}
		r.saw(hv.ID())
		// request parameter = second parameter
		var req types.Object
		if ps := hv.Decl.Type.Params.List; len(ps) >= 2 && len(ps[1].Names) == 1 {
			req = hv.Info.ObjectOf(ps[1].Names[0])
		}
		for callee, idx := range row.calls {
			cs := hv.CallsNamed(callee)
			if len(cs) == 0 {
				r.bad("C10.R3", row.entry+"|"+callee, hv.pos(hv.Decl), "keeper call present", "anchor call "+callee+" not found in handler (moved?)")
				continue
			}
			for _, c := range cs {
				p := row.path
				if callee == "newDelegationParams" {
					p = row.path[:1]
				}
				ok := idx < len(c.Args) && req != nil && hv.derivesFrom(c.Args[idx], req, p, 0)
				r.check(ok, "C10.R3", row.entry+"|"+callee, hv.pos(c), fmt.Sprintf("argument %d of %s derives from req.%s", idx, callee, strings.Join(p, ".")),
					fmt.Sprintf("acting address %s does not derive from the signed field req.%s", exprString(c.Args[minInt(idx, len(c.Args)-1)]), strings.Join(p, ".")))
			}
		}
	}
	// delegation: staker of the params = baseInfo.FromAddress
	if nv := w.View("x/delegation/keeper", "newDelegationParams"); nv != nil {
		var base types.Object
		if ps := nv.Decl.Type.Params.List; len(ps) > 0 && len(ps[0].Names) > 0 {
			base = nv.Info.ObjectOf(ps[0].Names[0])
		}
		for _, c := range nv.CallsNamed("NewDelegationOrUndelegationParams") {
			ok := len(c.Args) >= 5 && nv.derivesFrom(c.Args[4], base, []string{"FromAddress"}, 0)
			r.check(ok, "C10.R3", "delegation|stakerAddr", nv.pos(c), "staker address of the delegation params derives from baseInfo.FromAddress",
				"staker address is not the signer field")
		}
	} else {
		r.bad("C10.R3", "delegation|stakerAddr", "-", "newDelegationParams present", "anchor not found")
	}
	// oracle CreatePrice: the validator the price is attributed to is msg.Creator everywhere
	if cv := w.View("x/oracle/keeper", "msgServer.CreatePrice"); cv != nil {
		r.saw(cv.ID())
		var req types.Object
		if ps := cv.Decl.Type.Params.List; len(ps) >= 2 && len(ps[1].Names) == 1 {
			req = cv.Info.ObjectOf(ps[1].Names[0])
		}
		// msg is passed whole to NewCreatePrice; no other address-typed value may be substituted for Creator
		n := 0
		for _, c := range cv.CallsNamed("NewCreatePrice") {
			n++
			ok := false
			for _, a := range c.Args {
				if id, isId := stripParens(a).(*ast.Ident); isId && cv.Info.ObjectOf(id) == req {
					ok = true
				}
			}
			r.check(ok, "C10.R3", "msg:oracle.CreatePrice|NewCreatePrice", cv.pos(c), "the signed message itself is what is counted", "NewCreatePrice does not receive the signed message")
		}
		if n == 0 {
			r.bad("C10.R3", "msg:oracle.CreatePrice|NewCreatePrice", cv.pos(cv.Decl), "anchor call", "NewCreatePrice not called from CreatePrice")
		}
	}
}

func keysOf(m map[string]bool) []string {
	var out []string
	for k := range m {
		out = append(out, k)
	}
	return out
}

func minInt(a, b int) int {
	if a < b {
		return a
	}
	return b
}

// ---------------------------------------------------------------------------

func c10Authority(r *Run) {
	w := r.W
	var handlers []*FnView
	for _, e := range catalogue(w).Cat("msg") {
		if strings.HasSuffix(e.Name, ".UpdateParams") {
			if v := w.ViewOf(e.Fn.Object().(*types.Func)); v != nil {
				handlers = append(handlers, v)
			}
		}
	}
	if v := w.View("x/evm/keeper", "Keeper.UpdateParams"); v != nil {
		handlers = append(handlers, v)
	}
	for _, v := range handlers {
		r.saw(v.ID())
		key := rel(v.Pkg.PkgPath) + ".UpdateParams"
		var msg types.Object
		if ps := v.Decl.Type.Params.List; len(ps) >= 2 && len(ps[1].Names) == 1 {
			msg = v.Info.ObjectOf(ps[1].Names[0])
		}
		// find the guard statement among top-level statements
		guardIdx := -1
		weaker := ""
		for i, s := range v.Decl.Body.List {
			ifs, ok := s.(*ast.IfStmt)
			if !ok || !v.terminates(ifs.Body) {
				continue
			}
			conj := conjuncts(ifs.Cond)
			hasAuth := false
			extra := []string{}
			for _, cj := range conj {
				if isAuthorityMismatch(v, cj, msg) {
					hasAuth = true
				} else if ce, ok := stripParens(cj).(*ast.CallExpr); ok && v.calleeName(ce) == "IsMainnet" {
					// accepted conjunct
				} else {
					extra = append(extra, exprString(cj))
				}
			}
			if hasAuth {
				guardIdx = i
				if len(extra) > 0 {
					weaker = strings.Join(extra, " && ")
				}
				// the terminating body must return a non-nil error
				if !returnsNonNilError(v, ifs.Body) {
					weaker = "guard body does not return an error"
				}
				break
			}
		}
		if guardIdx < 0 {
			r.bad("C10.R4", key, v.pos(v.Decl), "authority guard", "no `authority != msg.Authority` early-exit found")
			continue
		}
		if weaker != "" {
			r.bad("C10.R4", key, v.pos(v.Decl.Body.List[guardIdx]), "authority guard strength", "guard is weaker than its siblings: "+weaker)
			continue
		}
		// no write-effect call before the guard
		var early []string
		for i := 0; i < guardIdx; i++ {
			for _, c := range allCalls(v.Decl.Body.List[i]) {
				if v.callWrites(c) || strings.Contains(exprString(c.Fun), "AddCache") || strings.Contains(exprString(c.Fun), "SetParams") {
					early = append(early, exprString(c.Fun))
				}
			}
		}
		r.check(len(early) == 0, "C10.R4", key, v.pos(v.Decl.Body.List[guardIdx]), "authority mismatch returns an error before any write",
			"effectful call before the authority check: "+strings.Join(early, ","))
	}
	// GetSigners of each MsgUpdateParams reads Authority
	for _, p := range w.Pkgs {
		rp := rel(p.PkgPath)
		if !strings.HasPrefix(rp, "x/") || !strings.HasSuffix(rp, "/types") || strings.HasPrefix(rp, "x/appchain") {
			continue
		}
		gs := w.View(rp, "MsgUpdateParams.GetSigners")
		if gs == nil {
			continue
		}
		reads := map[string]bool{}
		ast.Inspect(gs.Decl.Body, func(n ast.Node) bool {
			if sel, ok := n.(*ast.SelectorExpr); ok {
				if _, isField := gs.Info.ObjectOf(sel.Sel).(*types.Var); isField {
					reads[sel.Sel.Name] = true
				}
			}
			return true
		})
		r.check(reads["Authority"] && len(reads) == 1, "C10.R4", rp+".MsgUpdateParams.GetSigners", gs.pos(gs.Decl),
			"signer of MsgUpdateParams is its Authority field", fmt.Sprintf("GetSigners reads %v", keysOf(reads)))
	}
}

func conjuncts(e ast.Expr) []ast.Expr {
	e = stripParens(e)
	if be, ok := e.(*ast.BinaryExpr); ok && be.Op == token.LAND {
		return append(conjuncts(be.X), conjuncts(be.Y)...)
	}
	return []ast.Expr{e}
}

// isAuthorityMismatch: `<x>.authority[.String()] != <msg>.Authority` in either order.
func isAuthorityMismatch(v *FnView, e ast.Expr, msg types.Object) bool {
	be, ok := stripParens(e).(*ast.BinaryExpr)
	if !ok || be.Op != token.NEQ {
		return false
	}
	isKeeperAuth := func(x ast.Expr) bool {
		x = stripParens(x)
		if c, ok := x.(*ast.CallExpr); ok && len(c.Args) == 0 {
			if s, ok := c.Fun.(*ast.SelectorExpr); ok && s.Sel.Name == "String" {
				x = s.X
			}
		}
		sp := selectorPath(x)
		return len(sp) >= 2 && strings.EqualFold(sp[len(sp)-1], "authority") && (msg == nil || v.Info.ObjectOf(rootIdent(x)) != msg)
	}
	isMsgAuth := func(x ast.Expr) bool {
		sp := selectorPath(x)
		if len(sp) != 2 || sp[1] != "Authority" {
			return false
		}
		return msg != nil && v.Info.ObjectOf(rootIdent(x)) == msg
	}
	return (isKeeperAuth(be.X) && isMsgAuth(be.Y)) || (isKeeperAuth(be.Y) && isMsgAuth(be.X))
}

// returnsNonNilError: the block's final return has a non-nil last result.
func returnsNonNilError(v *FnView, b *ast.BlockStmt) bool {
	if len(b.List) == 0 {
		return false
	}
	rs, ok := b.List[len(b.List)-1].(*ast.ReturnStmt)
	if !ok || len(rs.Results) == 0 {
		return false
	}
	last := rs.Results[len(rs.Results)-1]
	return !isNilIdent(v.Info, last) && isErrorLike(v.Info.TypeOf(last))
}

func isErrorLike(t types.Type) bool {
	if t == nil {
		return false
	}
	if isErrorType(t) {
		return true
	}
	return types.Implements(t, errorType.Underlying().(*types.Interface)) ||
		types.Implements(types.NewPointer(t), errorType.Underlying().(*types.Interface))
}

// ---------------------------------------------------------------------------

// c10SigVerify: result-must-be-checked for signature verification in ante decorators.
func c10SigVerify(r *Run) {
	w := r.W
	for _, e := range catalogue(w).Cat("ante") {
		fo, _ := e.Fn.Object().(*types.Func)
		v := w.ViewOf(fo)
		if v == nil {
			continue
		}
		for _, c := range v.CallsNamed("VerifySignature") {
			r.saw(v.ID())
			branch := "std"
			if v.GuardedBy(c, byName("IsOracleCreatePriceTx"), true) != nil {
				branch = "create-price"
			}
			key := e.Name + "|VerifySignature|" + branch
			// the call's result must feed a condition whose failing arm terminates with an error return
			used := v.resultTested(c)
			r.check(used, "C10.R5", key, v.pos(c), "VerifySignature result is tested and failure returns an error",
				"the result of VerifySignature is discarded or its failing arm can reach next(): a transaction with an invalid signature is admitted")
			if branch == "create-price" {
				// signature count vs signer count before the loop
				okCount := false
				for _, f := range v.FactsAt(c, false) {
					be, ok := stripParens(f.Atom).(*ast.BinaryExpr)
					if !ok || !((be.Op == token.NEQ && !f.Truth) || (be.Op == token.EQL && f.Truth)) {
						continue
					}
					if isLenOf(be.X) && isLenOf(be.Y) {
						// the signature list is compared with the list of required signers
						sx, sy := exprString(be.X), exprString(be.Y)
						hasSigs := strings.Contains(sx+sy, "sigs")
						hasSigners := false
						for _, side := range []ast.Expr{be.X, be.Y} {
							arg := stripParens(side).(*ast.CallExpr).Args[0]
							for _, d := range v.resolveDefs(arg, 0) {
								if strings.HasSuffix(exprString(d), ".GetSigners()") {
									hasSigners = true
								}
							}
						}
						if hasSigs && hasSigners {
							okCount = true
						}
					}
				}
				r.check(okCount, "C10.R5", e.Name+"|sigcount|create-price", v.pos(c), "len(signatures) == len(signers) holds before verification",
					"the create-price branch never compares the number of signatures/pubkeys with the number of signers: a transaction with zero signatures skips verification entirely")
			}
		}
	}
}

func isLenOf(e ast.Expr) bool {
	c, ok := stripParens(e).(*ast.CallExpr)
	if !ok {
		return false
	}
	id, ok := c.Fun.(*ast.Ident)
	return ok && id.Name == "len"
}

// resultTested: the call's (bool or error) result is the condition (or an
// assigned variable tested in the next statement) of an if whose failing arm
// terminates in a non-nil error return.
func (v *FnView) resultTested(c *ast.CallExpr) bool {
	par := v.parent(c)
	// used directly inside an if condition
	for p := par; p != nil; p = v.parent(p) {
		switch s := p.(type) {
		case *ast.IfStmt:
			if within(c, s.Cond) {
				return v.failArmReturnsError(s, c)
			}
			if s.Init != nil && within(c, s.Init) {
				return v.failArmReturnsError(s, c)
			}
			return false
		case *ast.ExprStmt:
			return false // result dropped
		case *ast.AssignStmt:
			// if err := f(); err != nil {…}
			if ifs, ok := v.parent(s).(*ast.IfStmt); ok && ifs.Init == ast.Stmt(s) {
				return v.failArmReturnsError(ifs, c)
			}
			// err := f(); if err != nil {…} as the next statement
			if len(s.Lhs) == 0 {
				return false
			}
			id, ok := s.Lhs[len(s.Lhs)-1].(*ast.Ident)
			if !ok || id.Name == "_" {
				return false
			}
			obj := v.Info.ObjectOf(id)
			list := stmtListOf(v.parent(s))
			for i, st := range list {
				if st == ast.Stmt(s) && i+1 < len(list) {
					if ifs, ok := list[i+1].(*ast.IfStmt); ok {
						uses := false
						ast.Inspect(ifs.Cond, func(n ast.Node) bool {
							if x, ok := n.(*ast.Ident); ok && v.Info.ObjectOf(x) == obj {
								uses = true
							}
							return true
						})
						if uses {
							return v.failArmReturnsError(ifs, c)
						}
					}
				}
			}
			return false
		case *ast.BlockStmt, *ast.FuncDecl, *ast.FuncLit:
			return false
		}
	}
	return false
}

func within(n ast.Node, outer ast.Node) bool {
	return outer != nil && outer.Pos() <= n.Pos() && n.End() <= outer.End()
}

// failArmReturnsError: for `if <cond involving call c>` decide which arm is the
// failure arm (call false / err != nil) and require that it terminates with a
// non-nil error return.
func (v *FnView) failArmReturnsError(ifs *ast.IfStmt, c *ast.CallExpr) bool {
	// facts inside the body: does the body assume failure?
	var facts []Fact
	decompose(ifs.Cond, true, ifs, &facts)
	bodyIsFail := false
	for _, f := range facts {
		if o := v.outcome(f); o != nil && o.Call == c && !o.Success {
			bodyIsFail = true
		}
	}
	if bodyIsFail {
		// other conjuncts may only be the SDK's own exemptions (!simulate, !ctx.IsReCheckTx())
		for _, cj := range conjuncts(ifs.Cond) {
			if within(c, cj) {
				continue
			}
			var cf []Fact
			decompose(cj, true, ifs, &cf)
			about := false
			for _, f := range cf {
				if o := v.outcome(f); o != nil && o.Call == c {
					about = true
				}
			}
			if about {
				continue
			}
			u, ok := stripParens(cj).(*ast.UnaryExpr)
			if !ok || u.Op != token.NOT {
				return false
			}
			switch x := stripParens(u.X).(type) {
			case *ast.Ident:
				if x.Name != "simulate" {
					return false
				}
			case *ast.CallExpr:
				if v.calleeName(x) != "IsReCheckTx" {
					return false
				}
			default:
				return false
			}
		}
		return v.terminates(ifs.Body) && v.blockEndsInErrorReturn(ifs.Body)
	}
	// else-arm is failure: `if ok { … } else { return err }`
	var nfacts []Fact
	decompose(ifs.Cond, false, ifs, &nfacts)
	for _, f := range nfacts {
		if o := v.outcome(f); o != nil && o.Call == c && !o.Success {
			if eb, ok := ifs.Else.(*ast.BlockStmt); ok {
				return v.terminates(eb) && v.blockEndsInErrorReturn(eb)
			}
		}
	}
	return false
}

func (v *FnView) blockEndsInErrorReturn(b *ast.BlockStmt) bool {
	if len(b.List) == 0 {
		return false
	}
	rs, ok := b.List[len(b.List)-1].(*ast.ReturnStmt)
	if !ok || len(rs.Results) == 0 {
		return false
	}
	last := rs.Results[len(rs.Results)-1]
	return !isNilIdent(v.Info, last)
}

// ---------------------------------------------------------------------------

// wrapNilRule reports `return …, errorsmod.Wrap(err, …)` where err is nil on
// every path reaching the return (Wrap(nil) == nil).
func wrapNilRule(r *Run, rule string, scope func(relFile string) bool) {
	w := r.W
	n := 0
	for _, p := range w.Pkgs {
		for _, f := range p.Syntax {
			rf := w.relFile(f.Pos())
			if !inScopeFile(rf) || !scope(rf) {
				continue
			}
			for _, d := range f.Decls {
				fd, ok := d.(*ast.FuncDecl)
				if !ok || fd.Body == nil {
					continue
				}
				obj, _ := p.TypesInfo.Defs[fd.Name].(*types.Func)
				v := w.ViewOf(obj)
				if v == nil {
					continue
				}
				for _, c := range allCalls(fd.Body) {
					cal := v.callee(c)
					if cal == nil || (cal.Name() != "Wrap" && cal.Name() != "Wrapf") || cal.Pkg() == nil || cal.Pkg().Path() != "cosmossdk.io/errors" || len(c.Args) < 1 {
						continue
					}
					id, ok := stripParens(c.Args[0]).(*ast.Ident)
					if !ok {
						continue
					}
					n++
					obj := v.Info.ObjectOf(id)
					// err is known nil here if a fact says `err == nil` about this same variable
					// and it has not been reassigned since.
					knownNil := false
					for _, ft := range v.FactsAt(c, true) {
						be, ok := stripParens(ft.Atom).(*ast.BinaryExpr)
						if !ok || (be.Op != token.NEQ && be.Op != token.EQL) {
							continue
						}
						x, y := stripParens(be.X), stripParens(be.Y)
						if isNilIdent(v.Info, x) {
							x, y = y, x
						}
						xi, ok := x.(*ast.Ident)
						if !ok || !isNilIdent(v.Info, y) || v.Info.ObjectOf(xi) != obj {
							continue
						}
						isNil := (be.Op == token.EQL) == ft.Truth
						if isNil && !v.reassignedBetween(obj, ft.At, c) {
							knownNil = true
						}
					}
					key := funcID(v.Obj) + "|" + wrapMsg(c)
					if knownNil {
						r.bad(rule, key, v.pos(c), "Wrap of a nil error", "errorsmod."+cal.Name()+"("+id.Name+", …) is returned where "+id.Name+" is known to be nil: the intended rejection evaluates to a nil error (success)")
					} else {
						r.ok(rule, key, v.pos(c), "Wrap operand not known nil")
					}
				}
			}
		}
	}
	r.note("%s: %d Wrap/Wrapf sites with an identifier operand examined", rule, n)
}

func wrapMsg(c *ast.CallExpr) string {
	if len(c.Args) >= 2 {
		s := exprString(c.Args[1])
		if len(s) > 50 {
			s = s[:50]
		}
		return s
	}
	return ""
}

// reassignedBetween: obj is assigned somewhere positioned after `from` ends and before `to`.
func (v *FnView) reassignedBetween(obj types.Object, from ast.Node, to ast.Node) bool {
	found := false
	ast.Inspect(v.Decl.Body, func(n ast.Node) bool {
		as, ok := n.(*ast.AssignStmt)
		if !ok {
			return true
		}
		if as.Pos() < from.Pos() || as.Pos() >= to.Pos() {
			return true
		}
		// assignments inside the guard `if` body that terminates do not flow onward
		if ifs, ok := from.(*ast.IfStmt); ok && within(as, ifs.Body) {
			return true
		}
		if ifs, ok := from.(*ast.IfStmt); ok && ifs.Init != nil && within(as, ifs.Init) {
			return true
		}
		for _, l := range as.Lhs {
			if id, ok := l.(*ast.Ident); ok && v.Info.ObjectOf(id) == obj {
				found = true
			}
		}
		return true
	})
	return found
}
