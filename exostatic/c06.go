package main

import (
	"fmt"
	"go/ast"
	"go/token"
	"go/types"
	"strings"
)

func init() { register("C06", runC06) }

// comparator audit table: sort sites whose comparator has a single level, with the reason it is still a total/deterministic order.
var comparatorAudit = map[string]struct {
	stable bool
	why    string
}{
	"x/avs/keeper.Keeper.GroupTasksByIDAndAddress":            {false, "compares OperatorAddress, unique within a (task contract, task id) group: one result per operator per task"},
	"x/dogfood/keeper.Keeper.IterateBondedValidatorsByPower":  {true, "stable sort by power over the KV-ordered validator list: ties keep store order"},
	"x/feedistribution/keeper.Keeper.AllocateTokensToStakers": {false, "orders stakers by power only; every consumer writes a per-staker key and the remainder is order-independent (audited with C08)"},
}

type sortSite struct {
	v      *FnView
	call   *ast.CallExpr
	stable bool
	less   *ast.FuncLit
	levels int
}

// sortSites finds sort.Slice/SliceStable calls in consensus code (not x/evm).
func sortSites(w *World) []*sortSite {
	var out []*sortSite
	for _, p := range w.Pkgs {
		for _, f := range p.Syntax {
			rf := w.relFile(f.Pos())
			if !inScopeFile(rf) || strings.HasPrefix(rf, "x/evm/") || strings.HasPrefix(rf, "x/appchain/") || strings.HasPrefix(rf, "app/") {
				continue
			}
			for _, d := range f.Decls {
				fd, ok := d.(*ast.FuncDecl)
				if !ok || fd.Body == nil {
					continue
				}
				obj, _ := p.TypesInfo.Defs[fd.Name].(*types.Func)
				v := w.ViewOf(obj)
				if v == nil {
					continue
				}
				for _, c := range allCalls(fd.Body) {
					cal := v.callee(c)
					if cal == nil || cal.Pkg() == nil || cal.Pkg().Path() != "sort" || (cal.Name() != "Slice" && cal.Name() != "SliceStable") || len(c.Args) != 2 {
						continue
					}
					fl, _ := c.Args[1].(*ast.FuncLit)
					s := &sortSite{v: v, call: c, stable: cal.Name() == "SliceStable", less: fl}
					if fl != nil {
						// levels = number of distinct comparison expressions returned
						set := map[string]bool{}
						ast.Inspect(fl.Body, func(n ast.Node) bool {
							if rs, ok := n.(*ast.ReturnStmt); ok && len(rs.Results) == 1 {
								set[exprString(rs.Results[0])] = true
							}
							return true
						})
						s.levels = len(set)
					}
					out = append(out, s)
				}
			}
		}
	}
	return out
}

// comparatorRule: every comparator is a total order (>= 2 levels) or audited.
func comparatorRule(r *Run, rule string) {
	for _, s := range sortSites(r.W) {
		id := funcID(s.v.Obj)
		key := "comparator|" + id
		r.saw(id)
		if s.less == nil {
			r.undecided(rule, key, s.v.pos(s.call), "comparator is a function literal", "sort comparator is not a literal; cannot classify")
			continue
		}
		if a, ok := comparatorAudit[id]; ok {
			good := s.levels >= 1 && (!a.stable || s.stable)
			r.check(good, rule, key, s.v.pos(s.call), "audited single-level comparator: "+a.why, "audited comparator changed: stable sort required but sort.Slice is used")
			continue
		}
		r.check(s.levels >= 2, rule, key, s.v.pos(s.call), fmt.Sprintf("comparator has %d levels (primary key and tiebreak)", s.levels),
			"comparator has a single level and no tiebreak: elements with equal keys are ordered by the (unstable) sort's input order, which differs between nodes when the input comes from a map")
	}
}

func isEmptyUpdateList(v *FnView, e ast.Expr) bool {
	e = stripParens(e)
	if isNilIdent(v.Info, e) {
		return true
	}
	if cl, ok := e.(*ast.CompositeLit); ok && len(cl.Elts) == 0 {
		return true
	}
	return false
}

func runC06(r *Run) {
	w := r.W
	e := effects(w)
	cat := catalogue(w)
	r.Explain = "Static decision of structural necessary conditions of C06 (validator-set updates): only dogfood's EndBlock returns a non-empty update list and only under the epoch-end marker; what is returned is what is stored (same variable, after the sort); the stored validator set and total power are written only from the dogfood EndBlock/InitGenesis call trees; store change and hook run in one cache context per change and a change is forwarded exactly when committed; zero-power additions and unknown removals are filtered; a key queued in the main loop is removed from the previous-set map before the removal loop; every comparator is a total order (power desc, operator address bytes asc / pubkey); the cap and eligibility sources are wired to MaxValidators, GetActiveOperatorsForChainID and GetVotePowerForChainID."
	r.NotDec = []string{"that the diff equals 'previous set (+) updates = top set' for all inputs (algorithmic correctness)", "power values themselves (C05)"}
	r.Assume = []string{"the SDK panics on two non-empty validator update lists; module.Manager order as wired in app.go"}
	r.rule("C06.R1", "only dogfood EndBlock may return validator updates, and it returns/stores an empty list unless IsEpochEnd", 10)
	r.rule("C06.R2", "told = stored: the list handed to SetValidatorUpdates is the returned (sorted) list; AppModule.EndBlock and Keeper.EndBlock pass it through unchanged", 5)
	r.rule("C06.R3", "the validator-set and total-power families are written only from dogfood EndBlock / InitGenesis call trees", 2)
	r.rule("C06.R4", "ApplyValidatorChanges: cache-context discipline per change; an arm that does not commit ends in `continue`; the append to the outgoing list follows the switch unconditionally", 6)
	r.rule("C06.R5", "no zero-power addition, no unknown removal: the not-found arm forwards only Power > 0; EndBlock breaks on power < 1 before queuing", 3)
	r.rule("C06.R6", "no duplicate key: a key handled in the main loop is deleted from the previous-set map; the removal loop queues only keys still in that map", 2)
	r.rule("C06.R7", "every sort comparator in consensus code is a total order; SortByPower = power desc, then operator address bytes asc", 5)
	r.rule("C06.R8", "cap and eligibility wiring: loop bound GetMaxValidators; candidates from GetActiveOperatorsForChainID (IsActive: opted in, not opted out, not jailed); powers = truncated ActiveUSDValue", 5)

	eb := w.View("x/dogfood/keeper", "Keeper.EndBlock")
	av := w.View("x/dogfood/keeper", "Keeper.ApplyValidatorChanges")
	if eb == nil || av == nil {
		r.bad("C06.R1", "anchor", "-", "anchor", "dogfood Keeper.EndBlock / ApplyValidatorChanges not found")
		return
	}
	r.saw(eb.ID())
	r.saw(av.ID())
	// ---- R1
	for _, en := range cat.Cat("endblock") {
		fo, _ := en.Fn.Object().(*types.Func)
		v := w.ViewOf(fo)
		if v == nil || en.Name == "endblock:dogfood" {
			continue
		}
		ok := true
		ast.Inspect(v.Decl.Body, func(n ast.Node) bool {
			if _, isLit := n.(*ast.FuncLit); isLit {
				return false
			}
			rs, isRet := n.(*ast.ReturnStmt)
			if !isRet || len(rs.Results) != 1 {
				return true
			}
			if isEmptyUpdateList(v, rs.Results[0]) {
				return true
			}
			// return k.EndBlock(...): every return of the callee must be empty
			if c, isCall := stripParens(rs.Results[0]).(*ast.CallExpr); isCall {
				if cv := w.ViewOf(v.callee(c)); cv != nil {
					inner := true
					ast.Inspect(cv.Decl.Body, func(m ast.Node) bool {
						if _, isLit := m.(*ast.FuncLit); isLit {
							return false
						}
						if r2, ok := m.(*ast.ReturnStmt); ok && len(r2.Results) == 1 && !isEmptyUpdateList(cv, r2.Results[0]) {
							inner = false
						}
						return true
					})
					if inner {
						return true
					}
				}
			}
			ok = false
			return true
		})
		r.check(ok, "C06.R1", en.Name, v.pos(v.Decl), "module EndBlock returns no validator updates", "a second module can return validator updates (the SDK panics on two non-empty lists, or consensus receives updates outside the dogfood epoch end)")
	}
	{
		// the !IsEpochEnd arm
		okArm := false
		ast.Inspect(eb.Decl.Body, func(n ast.Node) bool {
			rs, ok := n.(*ast.ReturnStmt)
			if !ok || len(rs.Results) != 1 {
				return true
			}
			if eb.GuardedBy(rs, byName("IsEpochEnd"), false) != nil {
				stored := false
				for _, c := range eb.CallsNamed("SetValidatorUpdates") {
					if eb.GuardedBy(c, byName("IsEpochEnd"), false) != nil && len(c.Args) == 2 && isEmptyUpdateList(eb, c.Args[1]) {
						stored = true
					}
				}
				okArm = isEmptyUpdateList(eb, rs.Results[0]) && stored
			}
			return true
		})
		r.check(okArm, "C06.R1", "dogfood|not-epoch-end", eb.pos(eb.Decl), "outside the epoch end an empty list is stored and returned", "the !IsEpochEnd arm does not store and return an empty update list")
		// every non-empty return is under IsEpochEnd
		okAll := true
		ast.Inspect(eb.Decl.Body, func(n ast.Node) bool {
			rs, ok := n.(*ast.ReturnStmt)
			if ok && len(rs.Results) == 1 && !isEmptyUpdateList(eb, rs.Results[0]) && eb.GuardedBy(rs, byName("IsEpochEnd"), true) == nil {
				okAll = false
			}
			return true
		})
		r.check(okAll, "C06.R1", "dogfood|epoch-end-only", eb.pos(eb.Decl), "updates are produced only under the epoch-end marker", "a non-empty return is reachable without IsEpochEnd")
	}
	// ---- R2
	{
		var retObj types.Object
		okStore, okSorted := false, false
		ast.Inspect(av.Decl.Body, func(n ast.Node) bool {
			if rs, ok := n.(*ast.ReturnStmt); ok && len(rs.Results) == 1 && av.enclosingFuncLit(rs) == nil {
				retObj = av.objOf(rs.Results[0])
			}
			return true
		})
		for _, c := range av.CallsNamed("SetValidatorUpdates") {
			if len(c.Args) == 2 && retObj != nil && av.objOf(c.Args[1]) == retObj && !av.nestedConditionally(c, av.Decl.Body) {
				okStore = true
				for _, s := range sortSites(w) {
					if s.v.Obj == av.Obj && av.objOf(s.call.Args[0]) == retObj && s.call.Pos() < c.Pos() {
						okSorted = true
					}
				}
			}
		}
		r.check(okStore, "C06.R2", "ApplyValidatorChanges|stored=returned", av.pos(av.Decl), "the stored update list is the returned list", "SetValidatorUpdates is not called unconditionally with the variable that is returned")
		r.check(okSorted, "C06.R2", "ApplyValidatorChanges|sorted-before-store", av.pos(av.Decl), "the list is sorted before it is stored and returned", "the outgoing list is not sorted before SetValidatorUpdates")
		// Keeper.EndBlock returns ApplyValidatorChanges' result
		pass := false
		ast.Inspect(eb.Decl.Body, func(n ast.Node) bool {
			if rs, ok := n.(*ast.ReturnStmt); ok && len(rs.Results) == 1 {
				if c, ok := stripParens(rs.Results[0]).(*ast.CallExpr); ok && eb.calleeName(c) == "ApplyValidatorChanges" {
					pass = true
				}
			}
			return true
		})
		// the stored total power agrees with the stored set: it is written when (and only when) the complete
		// update list is non-empty, i.e. after the last append to that list, with the accumulated total
		{
			var listObj types.Object
			for _, c := range eb.CallsNamed("ApplyValidatorChanges") {
				if len(c.Args) == 2 {
					listObj = eb.objOf(c.Args[1])
				}
			}
			okTP := false
			why := "SetLastTotalPower is not called"
			for _, c := range eb.CallsNamed("SetLastTotalPower") {
				why = ""
				guarded := eb.factsOf(c).cmp(func(cm cmp) bool {
					return cm.Op == ">" && exprString(cm.R) == "0" && isLenOf(cm.L) && listObj != nil && eb.objOf(stripParens(cm.L).(*ast.CallExpr).Args[0]) == listObj
				})
				if !guarded {
					why = "SetLastTotalPower is not guarded by len(<update list>) > 0"
				}
				var guardIf ast.Node
				for _, f := range eb.FactsAt(c, false) {
					if f.At != nil && strings.Contains(exprString(f.Atom), "len(") {
						guardIf = f.At
					}
				}
				late := ""
				ast.Inspect(eb.Decl.Body, func(n ast.Node) bool {
					as, ok := n.(*ast.AssignStmt)
					if !ok || len(as.Lhs) != 1 || listObj == nil || eb.objOf(as.Lhs[0]) != listObj {
						return true
					}
					ref := c.Pos()
					if guardIf != nil {
						ref = guardIf.Pos()
					}
					if as.Pos() > ref {
						late = eb.pos(as)
					}
					return true
				})
				if late != "" {
					why = "the update list is still being extended at " + late + " after the `len(...) > 0` test that decides whether the total power is stored: an epoch whose only changes are removals keeps the old total"
				}
				// the stored value is the accumulator that received every kept validator's power
				accOK := false
				if len(c.Args) == 2 {
					acc := eb.objOf(c.Args[1])
					ast.Inspect(eb.Decl.Body, func(n ast.Node) bool {
						if as, ok := n.(*ast.AssignStmt); ok && len(as.Lhs) == 1 && acc != nil && eb.objOf(as.Lhs[0]) == acc && eb.addChainOn(as.Lhs[0], as.Rhs[0]) {
							accOK = true
						}
						return true
					})
				}
				if !accOK && why == "" {
					why = "the stored total is not the accumulated power of the kept validators"
				}
				okTP = why == ""
			}
			r.check(okTP, "C06.R2", "EndBlock|total-power-after-complete-list", eb.pos(eb.Decl), "the stored total power is written after the update list is complete, whenever it is non-empty", why)
		}
		r.check(pass, "C06.R2", "EndBlock|returns-applied", eb.pos(eb.Decl), "EndBlock returns what ApplyValidatorChanges stored", "EndBlock does not return ApplyValidatorChanges' result directly")
		if mv := w.View("x/dogfood", "AppModule.EndBlock"); mv != nil {
			ok := false
			ast.Inspect(mv.Decl.Body, func(n ast.Node) bool {
				if rs, isRet := n.(*ast.ReturnStmt); isRet && len(rs.Results) == 1 {
					if c, isCall := stripParens(rs.Results[0]).(*ast.CallExpr); isCall && mv.calleeName(c) == "EndBlock" {
						ok = true
					}
				}
				return true
			})
			r.check(ok, "C06.R2", "AppModule|pass-through", mv.pos(mv.Decl), "the module returns the keeper's list unchanged", "AppModule.EndBlock does not return keeper.EndBlock(ctx) directly")
		}
	}
	// ---- R3
	{
		valFam, totFam := dogfoodFam(w, "ExocoreValidatorBytePrefix"), dogfoodFam(w, "LastTotalPowerByte")
		for _, fam := range []string{valFam, totFam} {
			var offenders []string
			for _, en := range cat.Entries {
				if en.Name == "endblock:dogfood" || en.Name == "initgenesis:dogfood" || strings.HasPrefix(en.Cat, "exportgenesis") || en.Cat == "epochhook-unwired" {
					continue
				}
				if en.Cat == "sdkcallback" && en.Name == "sdkcallback:dogfood.ApplyAndReturnValidatorSetUpdates" {
					continue
				}
				if e.Sum[en.Fn]["W "+fam] || e.Sum[en.Fn]["D "+fam] {
					offenders = append(offenders, en.Name)
				}
			}
			r.check(len(offenders) == 0, "C06.R3", "writers|"+fam, "-", e.R.famName(fam)+" is written only from the dogfood EndBlock/InitGenesis call trees",
				"the stored validator set / total power can be changed outside the epoch-end update: "+strings.Join(offenders, ", "))
		}
	}
	// ---- R4
	{
		var sites []*ccSite
		for _, s := range ccSites(w, func(rf string) bool { return rf == "x/dogfood/keeper/validators.go" }) {
			if s.V.Obj == av.Obj {
				sites = append(sites, s)
			}
		}
		cacheCtxRule(r, "C06.R4", sites)
		// the append to the outgoing list
		var appendStmt *ast.AssignStmt
		ast.Inspect(av.Decl.Body, func(n ast.Node) bool {
			if as, ok := n.(*ast.AssignStmt); ok && len(as.Rhs) == 1 {
				if c, ok := as.Rhs[0].(*ast.CallExpr); ok {
					if id, ok := c.Fun.(*ast.Ident); ok && id.Name == "append" && strings.Contains(exprString(c), "ValidatorUpdate") {
						appendStmt = as
					}
				}
			}
			return true
		})
		if appendStmt == nil {
			r.bad("C06.R4", "forward|append", av.pos(av.Decl), "append to the outgoing list", "no append of an abci.ValidatorUpdate found")
		} else {
			loop := av.innermostLoop(appendStmt)
			uncond := loop != nil && !av.nestedConditionally(appendStmt, loop)
			r.check(uncond, "C06.R4", "forward|append", av.pos(appendStmt), "a change is forwarded whenever control reaches the end of the loop body", "the append to the outgoing list is conditional")
			// every arm block with a cache context commits last; every arm without one ends in continue
			var bad []string
			nArms := 0
			if loop != nil {
				ast.Inspect(loop, func(n ast.Node) bool {
					blk, ok := n.(*ast.BlockStmt)
					if !ok {
						return true
					}
					par := av.parent(blk)
					_, isIf := par.(*ast.IfStmt)
					if !isIf {
						return true
					}
					// leaf arms only: blocks that contain no nested if/else with further arms creating contexts
					hasCC := false
					for _, s := range sites {
						if s.Stmt.Pos() >= blk.Pos() && s.Stmt.End() <= blk.End() && av.innermostBlock(s.Stmt) == blk {
							hasCC = true
						}
					}
					if hasCC {
						nArms++
						last := blk.List[len(blk.List)-1]
						committed := false
						if es, ok := last.(*ast.ExprStmt); ok {
							if c, ok := es.X.(*ast.CallExpr); ok {
								for _, s := range sites {
									if id, ok := c.Fun.(*ast.Ident); ok && av.Info.ObjectOf(id) == s.Write {
										committed = true
									}
								}
							}
						}
						if !committed {
							bad = append(bad, "arm at "+av.pos(blk)+" does not end with its commit")
						}
					}
					return true
				})
			}
			r.check(len(bad) == 0 && nArms >= 3, "C06.R4", "forward|commit-last", av.pos(av.Decl), fmt.Sprintf("each of the %d change arms ends with its commit (all earlier exits are `continue`)", nArms), strings.Join(bad, "; "))
		}
	}
	// ---- R5
	{
		// not-found arm: the cache context in the `case false` arm is under Power > 0
		ok5 := false
		for _, c := range av.CallsNamed("AfterValidatorBonded") {
			for _, f := range av.FactsAt(c, false) {
				if cm, ok := factCmp(f); ok && strings.HasSuffix(exprString(cm.L), ".Power") && (cm.Op == ">" && exprString(cm.R) == "0" || cm.Op == ">=" && exprString(cm.R) == "1") {
					ok5 = true
				}
			}
		}
		r.check(ok5, "C06.R5", "ApplyValidatorChanges|no-zero-add", av.pos(av.Decl), "a new validator is created only with Power > 0", "the not-found arm can add a validator with zero power")
		// delete arm: found && Power < 1
		ok5b := false
		for _, c := range av.CallsNamed("DeleteExocoreValidator") {
			for _, f := range av.FactsAt(c, false) {
				if cm, ok := factCmp(f); ok && strings.HasSuffix(exprString(cm.L), ".Power") && cm.Op == "<" && exprString(cm.R) == "1" {
					ok5b = true
				}
			}
		}
		r.check(ok5b, "C06.R5", "ApplyValidatorChanges|delete-only-zero", av.pos(av.Decl), "a validator is deleted only for Power < 1", "the delete arm is not guarded by Power < 1")
		// EndBlock: appends in the operators loop are under power >= 1
		okBreak, nApp := true, 0
		ast.Inspect(eb.Decl.Body, func(n ast.Node) bool {
			as, ok := n.(*ast.AssignStmt)
			if !ok {
				return true
			}
			pw, isApp := resAppendPower(as)
			if !isApp {
				return true
			}
			if exprString(pw) == "0" {
				return true // removal
			}
			nApp++
			good := false
			for _, f := range eb.FactsAt(as, false) {
				if cm, ok := factCmp(f); ok && exprString(cm.L) == "power" && (cm.Op == ">=" && exprString(cm.R) == "1" || cm.Op == ">" && exprString(cm.R) == "0") {
					good = true
				}
			}
			if !good {
				okBreak = false
			}
			return true
		})
		r.check(okBreak && nApp >= 2, "C06.R5", "EndBlock|power>=1", eb.pos(eb.Decl), "a key is queued with its power only when power >= 1", "an update with power < 1 can be queued as an addition/change")
	}
	// ---- R6
	{
		del := false
		for _, c := range allCalls(eb.Decl.Body) {
			if id, ok := c.Fun.(*ast.Ident); ok && id.Name == "delete" && len(c.Args) == 2 && exprString(c.Args[0]) == "prevMap" {
				// inside the found arm, unconditional within it: the innermost enclosing
				// if-statement is the `if found` itself
				if blk := eb.innermostBlock(c); blk != nil {
					if ifs, ok := eb.parent(blk).(*ast.IfStmt); ok && ifs.Body == blk {
						if idt, ok := stripParens(ifs.Cond).(*ast.Ident); ok && idt.Name == "found" {
							del = true
						}
					}
				}
			}
		}
		r.check(del, "C06.R6", "EndBlock|delete-from-prev", eb.pos(eb.Decl), "a key present in both sets is removed from the previous-set map", "keys handled in the main loop are not deleted from prevMap: they would also be queued with power 0")
		rem := false
		ast.Inspect(eb.Decl.Body, func(n ast.Node) bool {
			as, ok := n.(*ast.AssignStmt)
			if !ok {
				return true
			}
			if pw, isApp := resAppendPower(as); isApp && exprString(pw) == "0" {
				for _, f := range eb.FactsAt(as, false) {
					if idt, ok := stripParens(f.Atom).(*ast.Ident); ok && idt.Name == "exists" && f.Truth {
						// ordered source: the loop ranges over the KV-ordered list, not the map
						if rs, ok := eb.innermostLoop(as).(*ast.RangeStmt); ok && exprString(rs.X) != "prevMap" {
							rem = true
						}
					}
				}
			}
			return true
		})
		r.check(rem, "C06.R6", "EndBlock|removals", eb.pos(eb.Decl), "removals are the keys still in the previous-set map, enumerated in store order", "the removal loop does not range over the ordered previous list filtered by membership in prevMap")
	}
	// ---- R7
	comparatorRule(r, "C06.R7")
	if sv := w.View("utils", "SortByPower"); sv == nil {
		r.bad("C06.R7", "SortByPower|anchor", "-", "anchor", "utils.SortByPower not found")
	} else {
		var s *sortSite
		for _, x := range sortSites(w) {
			if x.v.Obj == sv.Obj {
				s = x
			}
		}
		okPower, okTie := false, false
		if s != nil && s.less != nil {
			ast.Inspect(s.less.Body, func(n ast.Node) bool {
				rs, ok := n.(*ast.ReturnStmt)
				if !ok || len(rs.Results) != 1 {
					return true
				}
				if be, ok := stripParens(rs.Results[0]).(*ast.BinaryExpr); ok {
					l, rr := exprString(be.X), exprString(be.Y)
					if strings.HasPrefix(l, "powers[") && strings.HasPrefix(rr, "powers[") && be.Op == token.GTR && strings.Contains(l, "[i]") && strings.Contains(rr, "[j]") {
						okPower = true
					}
					if c, ok := stripParens(be.X).(*ast.CallExpr); ok && be.Op == token.LSS && exprString(be.Y) == "0" {
						if f := sv.callee(c); f != nil && f.Pkg() != nil && f.Pkg().Path() == "bytes" && f.Name() == "Compare" && len(c.Args) == 2 &&
							strings.HasPrefix(exprString(c.Args[0]), "operatorAddrs[") && strings.Contains(exprString(c.Args[0]), "[i]") && strings.Contains(exprString(c.Args[1]), "[j]") {
							okTie = true
						}
					}
				}
				return true
			})
		}
		r.check(okPower, "C06.R7", "SortByPower|primary", sv.pos(sv.Decl), "primary order: power descending", "SortByPower's primary comparison is not powers[i] > powers[j]")
		r.check(okTie, "C06.R7", "SortByPower|tiebreak", sv.pos(sv.Decl), "ties: operator address bytes ascending", "SortByPower's tiebreak is not bytes.Compare(operatorAddrs[i], operatorAddrs[j]) < 0 (the order the operator module stores addresses in)")
	}
	// ---- R8
	{
		okCap := false
		for _, c := range eb.CallsNamed("GetMaxValidators") {
			if as, ok := eb.parent(c).(*ast.AssignStmt); ok && len(as.Lhs) == 1 {
				mobj := eb.objOf(as.Lhs[0])
				ast.Inspect(eb.Decl.Body, func(n ast.Node) bool {
					br, ok := n.(*ast.BranchStmt)
					if !ok || br.Tok != token.BREAK {
						return true
					}
					for _, f := range eb.FactsAt(br, false) {
						if cm, ok := factCmp(f); ok && exprString(cm.L) == "i" && cm.Op == ">=" && eb.usesObj(cm.R, mobj) && !strings.ContainsAny(exprString(cm.R), "+-") {
							okCap = true
						}
					}
					return true
				})
			}
		}
		r.check(okCap, "C06.R8", "cap", eb.pos(eb.Decl), "at most MaxValidators keys are considered (break at i >= maxVals)", "the loop bound is not `i >= int(GetMaxValidators)`")
		src := len(eb.CallsNamed("GetActiveOperatorsForChainID")) == 1 && len(eb.CallsNamed("GetVotePowerForChainID")) == 1 && len(eb.CallsNamed("SortByPower")) == 1
		r.check(src, "C06.R8", "sources", eb.pos(eb.Decl), "candidates, powers and order come from GetActiveOperatorsForChainID, GetVotePowerForChainID, SortByPower", "EndBlock no longer obtains candidates/powers/order from the three eligibility functions")
		// the ranking is unconditional: the selection loop stops at the first power below one, which is only
		// right on a list in descending power order
		okUncond := false
		for _, c := range eb.CallsNamed("SortByPower") {
			as, isAs := eb.parent(c).(*ast.AssignStmt)
			if !isAs || eb.parent(as) != ast.Node(eb.Decl.Body) || len(as.Lhs) != 3 || len(c.Args) != 3 {
				continue
			}
			same := true
			for i := range as.Lhs {
				if eb.objOf(as.Lhs[i]) == nil || eb.objOf(as.Lhs[i]) != eb.objOf(c.Args[i]) {
					same = false
				}
			}
			okUncond = same
		}
		r.check(okUncond, "C06.R8", "ranked-always", eb.pos(eb.Decl), "the candidates are ranked by SortByPower on every path to the selection loop", "SortByPower is conditional (or its result is not the list the selection loop walks): the loop's stop at the first power below one skips eligible operators on an unranked list")
		// powers are computed for exactly the operators returned
		okArgs := false
		for _, c := range eb.CallsNamed("GetVotePowerForChainID") {
			for _, g := range eb.CallsNamed("GetActiveOperatorsForChainID") {
				if as, ok := eb.parent(g).(*ast.AssignStmt); ok && len(as.Lhs) == 2 && len(c.Args) >= 2 && eb.objOf(c.Args[1]) == eb.objOf(as.Lhs[0]) {
					okArgs = true
				}
			}
		}
		r.check(okArgs, "C06.R8", "powers-of-candidates", eb.pos(eb.Decl), "powers are computed for the eligible operators", "GetVotePowerForChainID is not given the operators returned by GetActiveOperatorsForChainID")
		if ga := w.View("x/operator/keeper", "Keeper.GetActiveOperatorsForChainID"); ga != nil {
			okAct := false
			ast.Inspect(ga.Decl.Body, func(n ast.Node) bool {
				as, ok := n.(*ast.AssignStmt)
				if ok && len(as.Rhs) == 1 && strings.HasPrefix(exprString(as.Rhs[0]), "append(") && ga.GuardedBy(as, byName("IsActive"), true) != nil {
					okAct = true
				}
				return true
			})
			r.check(okAct, "C06.R8", "eligibility|IsActive", ga.pos(ga.Decl), "only operators passing IsActive are candidates", "GetActiveOperatorsForChainID appends operators without a successful IsActive test")
		}
		if ia := w.View("x/operator/keeper", "Keeper.IsActive"); ia != nil {
			// returns true only if not opted out and not jailed
			okIA := true
			n := 0
			ast.Inspect(ia.Decl.Body, func(nd ast.Node) bool {
				rs, ok := nd.(*ast.ReturnStmt)
				if !ok || len(rs.Results) != 1 || exprString(rs.Results[0]) != "true" {
					return true
				}
				n++
				jailed, out, opted := false, false, false
				for _, f := range ia.FactsAt(rs, false) {
					s := exprString(f.Atom)
					if strings.HasSuffix(s, ".Jailed") && !f.Truth {
						jailed = true
					}
					if cm, ok := factCmp(f); ok && strings.Contains(exprString(cm.L), "OptedOutHeight") && cm.Op == "==" {
						out = true
					}
					if o := ia.outcome(f); o != nil && o.Callee.Name() == "GetOptedInfo" && o.Success {
						opted = true
					}
				}
				if !(jailed && out && opted) {
					okIA = false
				}
				return true
			})
			r.check(okIA && n == 1, "C06.R8", "eligibility|IsActive-body", ia.pos(ia.Decl), "IsActive = opted in and not opted out and not jailed", "IsActive can return true for a jailed, opted-out or never-opted-in operator")
		}
		if gv := w.View("x/operator/keeper", "Keeper.GetVotePowerForChainID"); gv != nil {
			okTr := false
			for _, c := range allCalls(gv.Decl.Body) {
				if recv, name, _, ok := methodCall(c); ok && name == "TruncateInt64" && lastField(recv) == "ActiveUSDValue" {
					okTr = true
				}
			}
			r.check(okTr, "C06.R8", "power|truncated-active-value", gv.pos(gv.Decl), "power = whole-number part of the active USD value", "vote power is not ActiveUSDValue.TruncateInt64()")
		}
	}
}

// resAppend: `res = append(res, T{Key: …, Power: p})` -> (true, p)
func resAppendPower(as *ast.AssignStmt) (ast.Expr, bool) {
	if len(as.Rhs) != 1 {
		return nil, false
	}
	c, ok := as.Rhs[0].(*ast.CallExpr)
	if !ok || len(c.Args) != 2 {
		return nil, false
	}
	if id, ok := c.Fun.(*ast.Ident); !ok || id.Name != "append" {
		return nil, false
	}
	if id, ok := c.Args[0].(*ast.Ident); !ok || id.Name != "res" {
		return nil, false
	}
	cl, ok := c.Args[1].(*ast.CompositeLit)
	if !ok {
		return nil, false
	}
	p := compositeField(cl, "Power")
	return p, p != nil
}

// innermostBlock: the innermost BlockStmt containing n.
func (v *FnView) innermostBlock(n ast.Node) *ast.BlockStmt {
	for p := v.parent(n); p != nil; p = v.parent(p) {
		if b, ok := p.(*ast.BlockStmt); ok {
			return b
		}
	}
	return nil
}
