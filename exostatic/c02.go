package main

import (
	"fmt"
	"go/ast"
	"go/token"
	"go/types"
	"strings"
)

func init() { register("C02", runC02) }

func runC02(r *Run) {
	w := r.W
	r.Explain = "Static decision of structural necessary conditions of C02 (share accounting): (R1) in every share-moving operation the operator's TotalShare and the delegator's UndelegatableShare move by the same symbol, and OperatorShare moves by that symbol exactly under the association test; (R2) the delegator list is maintained with the shares (append on delegation, delete when the share reaches zero, all cleared when a pool is slashed to zero together with the share totals); (R3) rounding direction: shares minted with a truncating division, tokens redeemed truncated, the last share takes the whole pool, sub-unit dust is swept."
	r.NotDec = []string{"the numeric bounds x-1 <= redeemed <= x and the one-unit effect on co-delegators (arithmetic over all exchange rates)", "whole-domain behaviour of the conversion functions"}
	r.Assume = []string{"LegacyDec.QuoInt / TruncateInt truncate toward zero"}
	r.rule("C02.R1", "share delta balance: TotalShare and UndelegatableShare move by the same symbol; OperatorShare moves by it iff the staker is associated with that operator; associate/dissociate move exactly the staker's existing share", 8)
	r.rule("C02.R2", "delegator-list maintenance with the shares", 8)
	r.rule("C02.R3", "rounding direction and last-share rules", 5)
	// delegation keys are stakerID/assetID/operator with variable-length ids: a partial key used as an iterator
	// prefix ends with the separator, otherwise the ids that merely extend it (…_0x65 / …_0x651) are visited too
	{
		n := 0
		for _, fv := range w.allViews() {
			if !strings.HasPrefix(fv.ID(), "x/delegation/keeper.") {
				continue
			}
			for _, c := range fv.CallsNamed("IterateDelegations") {
				if len(c.Args) != 3 {
					continue
				}
				n++
				good := false
				for _, d := range fv.resolveDefs(c.Args[1], 0) {
					switch x := stripParens(d).(type) {
					case *ast.CallExpr:
						fn := exprString(x.Fun)
						if strings.Contains(fn, "IteratorPrefix") {
							good = true
						}
						if fn == "[]byte" && len(x.Args) == 1 {
							if b, isB := stripParens(x.Args[0]).(*ast.BinaryExpr); isB && b.Op == token.ADD && exprString(b.Y) == `"/"` {
								good = true
							}
						}
					case *ast.Ident:
						if x.Name == "nil" || isParamOf(fv, x) {
							good = true // the whole family, or handed through from a caller that is checked itself
						}
					}
				}
				r.check(good, "C02.R1", "iterator-prefix|"+fv.ID()+"|"+exprString(c.Args[1]), fv.pos(c), "a partial delegation key used as iterator prefix ends with the key separator", fv.ID()+" iterates the delegations under the prefix "+exprString(c.Args[1])+", which does not end with the separator: the delegations of every staker whose id extends this one are visited too (their shares are moved into or out of the operator's self-share)")
			}
		}
		if n < 2 {
			r.bad("C02.R1", "iterator-prefix|none", "-", "prefix iterations found", "fewer than two IterateDelegations call sites found")
		}
	}
	// the delegator list is a set kept in arrival order: "already listed" is decided by comparing the staker
	// with every element (a binary search would need a sorted list)
	if av := w.View("x/delegation/keeper", "Keeper.AppendStakerForOperator"); av != nil {
		sp := paramName(av, 3)
		okScan := false
		ast.Inspect(av.Decl.Body, func(n ast.Node) bool {
			rs, isR := n.(*ast.RangeStmt)
			if !isR || lastField(rs.X) != "Stakers" || rs.Value == nil {
				return true
			}
			ast.Inspect(rs.Body, func(m ast.Node) bool {
				ret, isRet := m.(*ast.ReturnStmt)
				if !isRet || len(ret.Results) != 1 || !isNilIdent(av.Info, ret.Results[0]) {
					return true
				}
				for _, f := range av.FactsAt(ret, false) {
					if c, isC := factCmp(f); isC && c.Op == "==" && ((av.objOf(c.L) == av.objOf(rs.Value) && exprString(c.R) == sp) || (av.objOf(c.R) == av.objOf(rs.Value) && exprString(c.L) == sp)) {
						okScan = true
					}
				}
				return true
			})
			return true
		})
		// no other early success exit
		extra := 0
		ast.Inspect(av.Decl.Body, func(n ast.Node) bool {
			ret, isRet := n.(*ast.ReturnStmt)
			if isRet && len(ret.Results) == 1 && isNilIdent(av.Info, ret.Results[0]) && av.innermostLoop(ret) == nil && ret.End() < av.Decl.Body.End()-2 {
				if _, isIf := av.parent(av.parent(ret)).(*ast.IfStmt); isIf {
					extra++
				}
			}
			return true
		})
		r.check(okScan && extra == 0, "C02.R2", "AppendStaker|membership-by-equality-scan", av.pos(av.Decl), "a staker is skipped as already listed only when an element of the list equals it", "AppendStakerForOperator does not decide 'already listed' by comparing the staker with every element of the list (e.g. a binary search on the arrival-ordered list): a staker is listed twice and one copy survives its full exit")
	}
	iteratorVisitsAllRule(r, "C02.R1", map[string]bool{"x/delegation/keeper.Keeper.IterateDelegations": true})

	get := func(pkg, fn string) (*FnView, []DTerm) {
		v := w.View(pkg, fn)
		if v == nil {
			r.bad("C02.R1", "anchor|"+fn, "-", "anchor", pkg+"."+fn+" not found")
			return nil, nil
		}
		r.saw(v.ID())
		return v, v.ledgerTerms()
	}
	one := func(ts []DTerm, col string) (DTerm, bool) {
		m := termsOf(ts, col)
		if len(m) != 1 {
			return DTerm{}, false
		}
		return m[0], true
	}
	// associationCond: a condition comparing the staker's associated operator with the pool's operator
	assocCond := func(v *FnView, t DTerm) bool {
		for _, c := range t.Conds {
			if strings.HasPrefix(c, "!") || !strings.Contains(c, "==") {
				continue
			}
			parts := strings.SplitN(c, "==", 2)
			l, rr := strings.TrimSpace(parts[0]), strings.TrimSpace(parts[1])
			for _, side := range []string{l, rr} {
				// the side that is a local variable assigned from GetAssociatedOperator
				ast.Inspect(v.Decl.Body, func(n ast.Node) bool { return true })
				if id := side; id != "" {
					for _, c2 := range v.CallsNamed("GetAssociatedOperator") {
						if as, ok := v.parent(c2).(*ast.AssignStmt); ok && len(as.Lhs) >= 1 && exprString(as.Lhs[0]) == id {
							other := rr
							if side == rr {
								other = l
							}
							if strings.Contains(other, "String()") || strings.Contains(strings.ToLower(other), "operator") {
								return true
							}
						}
					}
				}
			}
		}
		return false
	}
	// onlyAssocExtra: the OperatorShare term executes under the TotalShare term's conditions plus the association test only
	onlyAssocExtra := func(os, tsT DTerm) (bool, string) {
		base := map[string]bool{}
		for _, c := range tsT.Conds {
			base[c] = true
		}
		for _, c := range os.Conds {
			if base[c] || c == "!err != nil" {
				continue
			}
			if strings.Contains(c, "==") || strings.Contains(c, `!= ""`) {
				continue // the association comparison (its shape is checked by assocCond)
			}
			return false, c
		}
		return true, ""
	}
	// ---- R1
	if v, ts := get("x/delegation/keeper", "Keeper.delegateTo"); v != nil {
		tsT, ok1 := one(ts, "TS")
		us, ok2 := one(ts, "US")
		os, ok3 := one(ts, "OS")
		good := ok1 && ok2 && ok3 && tsT.Sign == 1 && us.Sign == 1 && os.Sign == 1 && tsT.Sym == us.Sym && os.Sym == us.Sym && assocCond(v, os) && !assocCond(v, tsT)
		extraOK, extra := onlyAssocExtra(os, tsT)
		r.check(good && extraOK, "C02.R1", "delegateTo|shares", v.pos(v.Decl), "minted shares go to TotalShare and the delegator alike; to OperatorShare iff associated (under no other condition)", "delegateTo share deltas: "+renderTerms(ts)+"; OperatorShare additionally depends on `"+extra+"`")
		// the share is CalculateShare(operator, assetID, amount) of the delegated amount
		okCalc := false
		for _, c := range v.CallsNamed("CalculateShare") {
			if len(c.Args) == 4 {
				_, sym := v.normTerm(c.Args[3], 0)
				if t, ok := one(ts, "T"); ok && t.Sym == sym {
					okCalc = true
				}
			}
		}
		r.check(okCalc, "C02.R1", "delegateTo|share-of-amount", v.pos(v.Decl), "the minted share is computed from the delegated amount", "CalculateShare is not applied to the amount that is added to the pool")
	}
	if v, ts := get("x/delegation/keeper", "Keeper.RemoveShareFromOperator"); v != nil {
		tsT, ok1 := one(ts, "TS")
		os, ok3 := one(ts, "OS")
		good := ok1 && ok3 && tsT.Sign == -1 && os.Sign == -1 && tsT.Sym == os.Sym && assocCond(v, os) && !assocCond(v, tsT)
		extraOK, extra := onlyAssocExtra(os, tsT)
		r.check(good && extraOK, "C02.R1", "RemoveShareFromOperator|shares", v.pos(v.Decl), "burned shares leave TotalShare; OperatorShare iff associated (under no other condition)", "RemoveShareFromOperator share deltas: "+renderTerms(ts)+"; OperatorShare additionally depends on `"+extra+"`")
	}
	if v, ts := get("x/delegation/keeper", "Keeper.RemoveShare"); v != nil {
		us, ok := one(ts, "US")
		// the same share parameter is handed to RemoveShareFromOperator
		same := false
		for _, c := range v.CallsNamed("RemoveShareFromOperator") {
			if len(c.Args) >= 6 {
				_, sym := v.normTerm(c.Args[5], 0)
				if ok && sym == us.Sym {
					same = true
				}
			}
		}
		r.check(ok && us.Sign == -1 && same, "C02.R1", "RemoveShare|shares", v.pos(v.Decl), "the delegator loses exactly the share removed from the pool", "RemoveShare: delegator share delta "+renderTerms(ts)+" vs the share passed to RemoveShareFromOperator")
	}
	// new shares are priced against the pool as it stands: S * amount / TotalAmount of the same pool record
	if cv := w.View("x/delegation/keeper", "Keeper.CalculateShare"); cv != nil {
		okArgs, n := true, 0
		for _, c := range cv.CallsNamed("SharesFromTokens") {
			n++
			if !(len(c.Args) == 3 && lastField(c.Args[0]) == "TotalShare" && lastField(c.Args[2]) == "TotalAmount" && isParamOf(cv, c.Args[1]) &&
				rootIdent(c.Args[0]) != nil && rootIdent(c.Args[2]) != nil && cv.objOf(rootIdent(c.Args[0])) == cv.objOf(rootIdent(c.Args[2]))) {
				okArgs = false
			}
		}
		r.check(okArgs && n >= 1, "C02.R1", "CalculateShare|priced-against-pool", cv.pos(cv.Decl), "shares for a delegation = TotalShare x amount / TotalAmount of the pool (and nothing else in the denominator)", "CalculateShare does not call SharesFromTokens(info.TotalShare, amount, info.TotalAmount): the newcomer is priced against something else than the pool backing the shares")
	}
	// one association at a time: any existing association rejects the request
	if av := w.View("x/delegation/keeper", "Keeper.AssociateOperatorWithStaker"); av != nil {
		ok := av.rejectsWhen(av.Decl.Body, func(f Fact) bool {
			c, isC := factCmp(f)
			return isC && c.Op == "!=" && resolvesToCallV(av, c.L, "GetAssociatedOperator") && av.constOf(c.R) != nil && av.constOf(c.R).ExactString() == `""`
		}, nil)
		r.check(ok, "C02.R1", "Associate|rejects-existing-association", av.pos(av.Decl), "a staker that is already associated (with any operator) cannot be associated again", "AssociateOperatorWithStaker does not reject every request of an already associated staker: repeating the association adds the staker's shares to OperatorShare a second time")
	}
	for _, spec := range []struct {
		fn   string
		sign int
	}{{"Keeper.AssociateOperatorWithStaker", 1}, {"Keeper.DissociateOperatorFromStaker", -1}} {
		if v, ts := get("x/delegation/keeper", spec.fn); v != nil {
			os, ok := one(ts, "OS")
			condOK := false
			for _, c := range os.Conds {
				if strings.Contains(c, "OperatorAddr ==") && !strings.HasPrefix(c, "!") {
					condOK = true
				}
			}
			r.check(ok && os.Sign == spec.sign && strings.HasSuffix(os.Sym, ".UndelegatableShare") && condOK && len(ts) == 1, "C02.R1", spec.fn+"|self-share", v.pos(v.Decl),
				"(dis)association moves exactly the staker's existing share of the matching operator into/out of OperatorShare", spec.fn+" deltas: "+renderTerms(ts))
			// every delegation of the staker is visited: the callback asks to stop only together with an error
			okAll, bad := true, ""
			nCb := 0
			for _, c := range v.CallsNamed("IterateDelegationsForStaker") {
				for _, a := range c.Args {
					for _, d := range v.resolveDefs(a, 0) {
						fl, isLit := stripParens(d).(*ast.FuncLit)
						if !isLit {
							continue
						}
						nCb++
						ast.Inspect(fl.Body, func(n ast.Node) bool {
							if inner, ok := n.(*ast.FuncLit); ok && inner != fl {
								return false
							}
							rs, ok := n.(*ast.ReturnStmt)
							if !ok || len(rs.Results) != 2 {
								return true
							}
							if cv := v.constOf(rs.Results[0]); cv != nil && cv.ExactString() == "false" {
								return true
							}
							// stop == true (or unknown): the error must be known non-nil here
							errNonNil := false
							for _, f := range v.FactsAt(rs, false) {
								if b, ok := stripParens(f.Atom).(*ast.BinaryExpr); ok && f.Truth && b.Op.String() == "!=" && isNilIdent(v.Info, b.Y) && sameExpr(b.X, rs.Results[1]) {
									errNonNil = true
								}
							}
							if !errNonNil {
								okAll, bad = false, v.pos(rs)
							}
							return true
						})
					}
				}
			}
			r.check(okAll && nCb == 1, "C02.R1", spec.fn+"|every-asset", v.pos(v.Decl), "the share of every asset delegated to the operator is moved: the iteration over the staker's delegations stops early only on an error", spec.fn+": the callback can stop the iteration without an error at "+bad+" -- only the first matching asset's share is moved, the later undelegation of another asset underflows OperatorShare and is rejected")
		}
	}
	// ---- R2
	if v := w.View("x/delegation/keeper", "Keeper.delegateTo"); v != nil {
		apps := v.CallsNamed("AppendStakerForOperator")
		upd := v.CallsNamed("UpdateDelegationState")
		ok := len(apps) == 1 && len(upd) == 1 && apps[0].Pos() > upd[0].Pos() && v.guardedByCall(apps[0], upd[0])
		// not under any further condition than preceding successes
		if ok {
			for p := v.parent(apps[0]); p != nil && p != ast.Node(v.Decl.Body); p = v.parent(p) {
				if ifs, isIf := p.(*ast.IfStmt); isIf && within(apps[0], ifs.Body) {
					ok = false
				}
			}
		}
		r.check(ok, "C02.R2", "delegateTo|append-staker", v.pos(v.Decl), "every successful delegation records the staker in the operator's delegator list", "AppendStakerForOperator is missing or conditional after UpdateDelegationState")
	}
	if v := w.View("x/delegation/keeper", "Keeper.RemoveShare"); v != nil {
		ok := false
		for _, c := range v.CallsNamed("DeleteStakerForOperator") {
			for _, f := range v.FactsAt(c, false) {
				if id, isId := stripParens(f.Atom).(*ast.Ident); isId && f.Truth {
					for _, d := range v.defsOf(v.Info.ObjectOf(id)) {
						if dc, isCall := stripParens(d).(*ast.CallExpr); isCall && v.calleeName(dc) == "UpdateDelegationState" {
							ok = true
						}
					}
				}
			}
		}
		// ... and under nothing else: every other condition on the path must be the success of an earlier call
		if ok {
			for _, c := range v.CallsNamed("DeleteStakerForOperator") {
				for _, f := range v.factsAt(c, false) {
					if v.isSuccessOutcome(f) {
						continue // zero flag of UpdateDelegationState, err == nil of earlier calls
					}
					if ifs, isIf := f.At.(*ast.IfStmt); isIf && v.blockEndKind(ifs.Body) == "return" && !within(c, ifs.Body) {
						continue // an earlier rejection (the whole operation fails)
					}
					ok = false
					_ = f
				}
			}
		}
		r.check(ok, "C02.R2", "RemoveShare|delete-when-zero", v.pos(v.Decl), "a delegator whose share reached zero is removed from the list, whatever operation removed the share", "DeleteStakerForOperator is not called exactly under the shareIsZero result of UpdateDelegationState (an extra condition leaves zero-share stakers on the list)")
		// the delegation-state records are addressed by (staker, asset, operator) in every accessor
		nKeys := 0
		for _, fv := range w.allViews() {
			if !strings.HasPrefix(fv.ID(), "x/delegation/keeper") {
				continue
			}
			// functions that open the delegation-state prefix
			opens := false
			ast.Inspect(fv.Decl.Body, func(n ast.Node) bool {
				if sel, isSel := n.(*ast.SelectorExpr); isSel && sel.Sel.Name == "KeyPrefixRestakerDelegationInfo" {
					opens = true
				}
				return true
			})
			if !opens {
				continue
			}
			for _, c := range fv.CallsNamed("GetJoinedStoreKey") {
				if len(c.Args) != 3 {
					continue
				}
				// only keys that are used for a point access on a store
				used := false
				if as, isAs := fv.parent(c).(*ast.AssignStmt); isAs && len(as.Lhs) == 1 {
					ko := fv.objOf(as.Lhs[0])
					for _, pc := range fv.CallsNamed("Get", "Set", "Has", "Delete") {
						if len(pc.Args) >= 1 && fv.objOf(pc.Args[0]) == ko {
							used = true
						}
					}
				} else if pc, isC := fv.parent(c).(*ast.CallExpr); isC {
					nm := fv.calleeName(pc)
					used = nm == "Get" || nm == "Set" || nm == "Has" || nm == "Delete"
				}
				if !used {
					continue
				}
				nKeys++
				role := func(e ast.Expr) string {
					x := strings.ToLower(exprString(e))
					switch {
					case strings.Contains(x, "staker"):
						return "staker"
					case strings.Contains(x, "asset"):
						return "asset"
					case strings.Contains(x, "operator") || strings.Contains(x, "opaddr"):
						return "operator"
					}
					return "?" + x
				}
				got := role(c.Args[0]) + "," + role(c.Args[1]) + "," + role(c.Args[2])
				r.check(got == "staker,asset,operator", "C02.R2", fmt.Sprintf("delegation-state-key|%s#%d", fv.ID(), nKeys), fv.pos(c), "delegation-state records are addressed by (staker, asset, operator) in every accessor", fv.ID()+" builds the delegation-state key as ("+got+"): it reads/writes other records than the ones the rest of the module uses")
			}
		}
		if nKeys < 3 {
			r.bad("C02.R2", "delegation-state-key|count", "-", "delegation-state accessors found", fmt.Sprintf("only %d keyed accesses found", nKeys))
		}
	}
	if v := w.View("x/delegation/keeper", "Keeper.UpdateDelegationState"); v != nil {
		ok := false
		ast.Inspect(v.Decl.Body, func(n ast.Node) bool {
			as, isAs := n.(*ast.AssignStmt)
			if isAs && len(as.Rhs) == 1 && exprString(as.Rhs[0]) == "true" {
				for _, f := range v.FactsAt(as, false) {
					if strings.HasSuffix(exprString(f.Atom), "UndelegatableShare.IsZero()") && f.Truth {
						ok = true
					}
				}
			}
			return true
		})
		r.check(ok, "C02.R2", "UpdateDelegationState|zero-flag", v.pos(v.Decl), "the zero-share flag is raised exactly when the updated share is zero", "shareIsZero is not set under UndelegatableShare.IsZero()")
	}
	if v := w.View("x/operator/keeper", "Keeper.SlashAssets"); v != nil {
		need := map[string]bool{"SetStakerShareToZero": false, "DeleteStakersListForOperator": false}
		for name := range need {
			for _, c := range v.CallsNamed(name) {
				for _, f := range v.FactsAt(c, false) {
					if strings.HasSuffix(exprString(f.Atom), ".IsZero()") && f.Truth && strings.Contains(strings.ToLower(exprString(f.Atom)), "remaining") {
						need[name] = true
					}
				}
			}
		}
		zeroed := 0
		for _, fld := range []string{"TotalShare", "OperatorShare"} {
			for _, as := range v.assignmentsToField(v.Decl.Body, fld) {
				isZero := false
				if name, args, ok := funcCallName(as.Rhs[0]); ok && (name == "LegacyNewDec" || name == "LegacyZeroDec") && (len(args) == 0 || exprString(args[0]) == "0") {
					isZero = true
				}
				for _, f := range v.FactsAt(as, false) {
					if isZero && strings.HasSuffix(exprString(f.Atom), ".IsZero()") && f.Truth {
						zeroed++
					}
				}
			}
		}
		r.check(need["SetStakerShareToZero"] && need["DeleteStakersListForOperator"] && zeroed == 2, "C02.R2", "SlashAssets|pool-to-zero", v.pos(v.Decl),
			"when a pool is slashed to zero all delegator shares, the delegator list and the share totals are cleared together", fmt.Sprintf("zero-pool branch incomplete: %v, share totals zeroed: %d/2", need, zeroed))
		// SetStakerShareToZero has no other caller
		n := 0
		for fo := range entryReachable(w) {
			if fv := w.ViewOf(fo); fv != nil && fo != v.Obj {
				n += len(fv.CallsNamed("SetStakerShareToZero"))
			}
		}
		r.check(n == 0, "C02.R2", "SetStakerShareToZero|single-caller", v.pos(v.Decl), "shares are force-zeroed only by the slash-to-zero branch", "SetStakerShareToZero has other live callers")
	}
	// ---- R3
	if v := w.View("x/delegation/keeper", "SharesFromTokens"); v != nil {
		r.saw(v.ID())
		ok := false
		ast.Inspect(v.Decl.Body, func(n ast.Node) bool {
			rs, isRet := n.(*ast.ReturnStmt)
			if isRet && len(rs.Results) == 2 && isNilIdent(v.Info, rs.Results[1]) {
				if _, name, args, isC := methodCall(rs.Results[0]); isC && (name == "QuoInt" || name == "QuoTruncate") && len(args) == 1 && strings.Contains(exprString(args[0]), "totalAmount") {
					if recv, n2, a2, isC2 := methodCall(stripParens(rs.Results[0]).(*ast.CallExpr).Fun.(*ast.SelectorExpr).X); isC2 && n2 == "MulInt" && exprString(recv) == "totalShare" && len(a2) == 1 && exprString(a2[0]) == "stakerAmount" {
						ok = true
					}
				}
			}
			return true
		})
		r.check(ok, "C02.R3", "SharesFromTokens|truncating", v.pos(v.Decl), "shares = totalShare*amount / totalAmount with a truncating division", "SharesFromTokens does not end in a truncating QuoInt(totalAmount) of totalShare.MulInt(stakerAmount): rounding up mints shares from nothing")
	} else {
		r.bad("C02.R3", "SharesFromTokens|anchor", "-", "anchor", "SharesFromTokens not found")
	}
	if v := w.View("x/delegation/keeper", "TokensFromShares"); v != nil {
		r.saw(v.ID())
		ok := false
		ast.Inspect(v.Decl.Body, func(n ast.Node) bool {
			rs, isRet := n.(*ast.ReturnStmt)
			if isRet && len(rs.Results) == 2 && isNilIdent(v.Info, rs.Results[1]) {
				if recv, name, _, isC := methodCall(rs.Results[0]); isC && name == "TruncateInt" {
					s := exprString(recv)
					if strings.Contains(s, "MulInt(totalAmount)") && strings.Contains(s, "totalShare") && !strings.Contains(s, "RoundUp") && !strings.Contains(s, "Ceil") {
						ok = true
					}
				}
			}
			return true
		})
		r.check(ok, "C02.R3", "TokensFromShares|truncating", v.pos(v.Decl), "tokens = share*totalAmount / totalShare, truncated", "TokensFromShares does not truncate share*totalAmount/totalShare: rounding up pays out more than the pool holds")
		// share > totalShare rejected
		okG := false
		ast.Inspect(v.Decl.Body, func(n ast.Node) bool {
			if ifs, isIf := n.(*ast.IfStmt); isIf && v.terminates(ifs.Body) {
				var fs []Fact
				decompose(ifs.Cond, true, ifs, &fs)
				for _, f := range mirrorFacts(fs) {
					if c, okc := factCmp(f); okc && c.Op == ">" && exprString(c.L) == paramName(v, 0) && exprString(c.R) == paramName(v, 1) && len(fs) == 1 {
						okG = true
					}
				}
			}
			return true
		})
		r.check(okG, "C02.R3", "TokensFromShares|bounded", v.pos(v.Decl), "a share above the total is rejected", "TokensFromShares accepts stakerShare > totalShare")
	} else {
		r.bad("C02.R3", "TokensFromShares|anchor", "-", "anchor", "TokensFromShares not found")
	}
	if v := w.View("x/delegation/keeper", "Keeper.RemoveShareFromOperator"); v != nil {
		ok := false
		var removed types.Object
		for _, t := range termsOf(v.ledgerTerms(), "T") {
			ast.Inspect(v.Decl.Body, func(n ast.Node) bool {
				if id, isId := n.(*ast.Ident); isId && id.Name == t.Sym {
					removed = v.Info.ObjectOf(id)
				}
				return true
			})
		}
		ast.Inspect(v.Decl.Body, func(n ast.Node) bool {
			as, isAs := n.(*ast.AssignStmt)
			if !isAs || len(as.Lhs) != 1 || removed == nil || v.objOf(as.Lhs[0]) != removed || lastField(as.Rhs[0]) != "TotalAmount" {
				return true
			}
			for _, f := range v.FactsAt(as, false) {
				if cm, okc := factCmp(f); okc && cm.Op == "==" && strings.HasSuffix(exprString(cm.L), "TotalShare") && exprString(cm.R) == "share" {
					ok = true
				}
			}
			return true
		})
		r.check(ok, "C02.R3", "RemoveShareFromOperator|last-share-takes-all", v.pos(v.Decl), "removing the whole TotalShare removes the whole pool amount", "the TotalShare == share arm does not assign the pool's TotalAmount as the removed tokens")
	}
	if v := w.View("x/delegation/keeper", "Keeper.ValidateUndelegationAmount"); v != nil {
		ok := false
		ast.Inspect(v.Decl.Body, func(n ast.Node) bool {
			as, isAs := n.(*ast.AssignStmt)
			if !isAs || len(as.Lhs) != 1 || exprString(as.Lhs[0]) != "share" || !strings.HasSuffix(exprString(as.Rhs[0]), ".UndelegatableShare") {
				return true
			}
			for _, f := range v.FactsAt(as, false) {
				if cm, okc := factCmp(f); okc && cm.Op == "<" && strings.Contains(exprString(cm.L), "UndelegatableShare.Sub(share)") {
					for _, d := range v.resolveDefs(cm.R, 0) {
						if strings.Contains(exprString(d), "SharesFromTokens") && strings.Contains(exprString(d), "OneInt") {
							ok = true
						}
					}
				}
			}
			return true
		})
		r.check(ok, "C02.R3", "ValidateUndelegationAmount|dust-sweep", v.pos(v.Decl), "a remainder below one token's worth of shares is swept into the undelegation", "the sub-unit remainder is not replaced by the whole share (dust would stay delegated forever)")
		okB := false
		ast.Inspect(v.Decl.Body, func(n ast.Node) bool {
			if ifs, isIf := n.(*ast.IfStmt); isIf && strings.Contains(exprString(ifs.Cond), "share.GT(") && strings.Contains(exprString(ifs.Cond), "UndelegatableShare") && v.terminates(ifs.Body) {
				okB = true
			}
			return true
		})
		r.check(okB, "C02.R3", "ValidateUndelegationAmount|within-position", v.pos(v.Decl), "an undelegation above the staker's share is rejected", "share > UndelegatableShare is not rejected")
	}
}
