package main

import (
	"fmt"
	"go/ast"
	"go/token"
	"go/types"
	"strings"
)

func init() { register("C13", runC13) }

// oracleBranches: every `if IsOracleCreatePriceTx(tx) {…}` statement of the function.
func oracleBranches(v *FnView) []*ast.IfStmt {
	var out []*ast.IfStmt
	ast.Inspect(v.Decl.Body, func(n ast.Node) bool {
		ifs, ok := n.(*ast.IfStmt)
		if !ok {
			return true
		}
		if c, ok := stripParens(ifs.Cond).(*ast.CallExpr); ok && v.calleeName(c) == "IsOracleCreatePriceTx" {
			out = append(out, ifs)
		}
		return true
	})
	return out
}

// returnsErr: the return statement's last result is a non-nil expression of error type.
func returnsErr(v *FnView, rs *ast.ReturnStmt) bool {
	if len(rs.Results) == 0 {
		return false
	}
	last := rs.Results[len(rs.Results)-1]
	if isNilIdent(v.Info, last) {
		return false
	}
	t := v.Info.TypeOf(last)
	// a concrete error value (e.g. a registered *errorsmod.Error) returned where the function declares `error`
	return isErrorType(t) || (t != nil && types.Implements(t, errorType.Underlying().(*types.Interface)))
}

func runC13(r *Run) {
	w := r.W
	e := effects(w)
	r.Explain = "Static decision of structural necessary conditions of C13 (oracle submissions): the fee-less classification is 'every message is a create-price message'; every fee-less branch of the ante chain ends in next(...) or an error, and the branches carry the size limit, the signer/public-key binding, the signature check (count equality, result used) and the per-message nonce check with the consensus-address conversion of the creator; the nonce check is '<= MaxNonce and exactly previous+1' and writes only on that arm; nonce records are created at zero only when absent, and removed when a round is sealed or finalised; the counted-only-if guards (validator membership, open round, base block, rule, decimals, timestamp <= block time + 5 s from the unrounded block time) dominate the aggregation; the decorator order puts size, public-key and signature checks before the nonce bump."
	r.NotDec = []string{"CheckTx/ReCheckTx/DeliverTx mode differences of baseapp", "cryptographic validity", "that at most MaxNonce messages are admitted per round as a count over histories (the per-message guard and the reset points are decided)"}
	r.Assume = []string{"baseapp commits the ante handler's writes when the ante chain succeeds and nothing when it fails", "sdk.ChainAnteDecorators runs decorators in argument order"}
	r.rule("C13.R1", "fee-less classification: non-empty and every message is *MsgCreatePrice", 2)
	r.rule("C13.R2", "every fee-less ante branch ends in next(...) or an error; branch-specific duties (gas meter limit 0, top priority, size limit, signer = public-key address, signature verification, nonce check per message)", 16)
	r.rule("C13.R3", "ante chain composition and order for Cosmos transactions", 5)
	r.rule("C13.R4", "nonce check: reject above MaxNonce; write only on the previous+1 arm of the matching feeder; every other exit is an error", 6)
	r.rule("C13.R5", "nonce lifecycle: zero record only when absent; removed for sealed rounds, at finalisation, added for new rounds; writer set of the nonce family", 8)
	r.rule("C13.R6", "counted-only-if guards dominate aggregation: membership, open round, base block, rule, decimals, duplicate filters; rule check rejects any missing source", 14)
	r.rule("C13.R7", "timestamp window: unrounded block time + 5 s, strict 'later than' rejection, every price, empty/unparseable rejected, before any aggregation", 6)
	if r.Prop == "C13" {
		sub := NewRun(r.W, "C12", r.Tier, r.Seed)
		runC12(sub)
		for _, o := range sub.Obs {
			if o.Key != "SealRound|failed-round-is-sealed" {
				continue
			}
			if o.Status == "ok" {
				r.ok("C13.R5", o.Key, o.Pos, o.Desc)
			} else {
				r.bad("C13.R5", o.Key, o.Pos, o.Desc, o.Detail)
			}
		}
	}

	// ------------------------------------------------------------------ R1
	if v := w.View("app/ante/utils", "IsOracleCreatePriceTx"); v == nil {
		r.bad("C13.R1", "anchor|IsOracleCreatePriceTx", "-", "anchor", "not found")
	} else {
		r.saw(v.ID())
		okEmpty, okAll, okTail := false, false, false
		var msgsObj types.Object
		ast.Inspect(v.Decl.Body, func(n ast.Node) bool {
			switch x := n.(type) {
			case *ast.ReturnStmt:
				if len(x.Results) != 1 {
					return true
				}
				val := v.constOf(x.Results[0])
				if val == nil {
					okTail = false
					return true
				}
				isTrue := val.ExactString() == "true"
				fs := v.factsOf(x)
				if !isTrue && fs.cmp(func(c cmp) bool {
					_, args, ok := funcCallName(c.L)
					return ok && c.Op == "==" && exprString(c.R) == "0" && strings.HasPrefix(exprString(c.L), "len(") && len(args) == 1 && resolvesToMethod(v, args[0], "GetMsgs")
				}) {
					okEmpty = true
				}
				if !isTrue {
					if rs, ok := v.innermostLoop(x).(*ast.RangeStmt); ok && resolvesToMethod(v, rs.X, "GetMsgs") {
						msgsObj = v.objOf(rs.Value)
						// fact: the comma-ok of a type assertion of the loop variable to *MsgCreatePrice is false
						for _, f := range fs.fs {
							if id, isID := f.Atom.(*ast.Ident); isID && !f.Truth {
								for _, d := range v.defsOf(v.objOf(id)) {
									if ta, isTA := stripParens(d).(*ast.TypeAssertExpr); isTA && v.objOf(ta.X) == msgsObj && strings.HasSuffix(exprString(ta.Type), "MsgCreatePrice") {
										okAll = true
									}
								}
							}
						}
					}
				}
				if isTrue {
					// `return true` only as the last statement of the function
					list := v.Decl.Body.List
					okTail = len(list) > 0 && list[len(list)-1] == ast.Stmt(x)
				}
			}
			return true
		})
		r.check(okEmpty, "C13.R1", "classify|non-empty", v.pos(v.Decl), "a transaction without messages is not fee-less", "IsOracleCreatePriceTx does not return false for len(msgs) == 0")
		r.check(okAll && okTail, "C13.R1", "classify|every-message", v.pos(v.Decl), "fee-less only if every message is a create-price message", "IsOracleCreatePriceTx does not return false at the first message that is not *MsgCreatePrice, or returns true elsewhere than at the end")
	}
	// ------------------------------------------------------------------ R2
	cos := "app/ante/cosmos"
	nBranches := 0
	for _, v := range w.allViews() {
		if v.Decl.Name.Name != "AnteHandle" || !strings.HasPrefix(v.ID(), "app/ante/") {
			continue
		}
		for _, ifs := range oracleBranches(v) {
			nBranches++
			okAll := true
			why := ""
			ast.Inspect(ifs.Body, func(n ast.Node) bool {
				if _, isLit := n.(*ast.FuncLit); isLit {
					return false
				}
				rs, ok := n.(*ast.ReturnStmt)
				if !ok {
					return true
				}
				if returnsErr(v, rs) {
					return true
				}
				if len(rs.Results) == 1 {
					if c, ok := rs.Results[0].(*ast.CallExpr); ok && exprString(c.Fun) == "next" && len(c.Args) == 3 && exprString(c.Args[1]) == "tx" {
						return true
					}
				}
				okAll = false
				why = exprString0(rs)
				return true
			})
			r.check(okAll && v.terminates(ifs.Body), "C13.R2", "branch|"+v.ID()+"|next-or-error", v.pos(ifs), "the fee-less branch hands the same tx to the next decorator or fails", "a fee-less branch leaves without calling next(ctx, tx, simulate) and without an error: "+why)
		}
	}
	r.note("C13.R2: %d fee-less ante branches examined", nBranches)
	branchOf := func(name string) (*FnView, *ast.IfStmt) {
		v := w.View(cos, name)
		if v == nil {
			r.bad("C13.R2", "anchor|"+name, "-", "anchor", name+" not found")
			return nil, nil
		}
		r.saw(v.ID())
		bs := oracleBranches(v)
		if len(bs) != 1 {
			r.bad("C13.R2", "branch|"+name+"|present", v.pos(v.Decl), "one fee-less branch", fmt.Sprintf("%d branches on IsOracleCreatePriceTx", len(bs)))
			return v, nil
		}
		return v, bs[0]
	}
	if v, b := branchOf("SetUpContextDecorator.AnteHandle"); b != nil {
		ok := false
		for _, c := range v.Calls(b.Body, byName("NewInfiniteGasMeterWithLimit")) {
			if len(c.Args) == 1 && exprString(c.Args[0]) == "0" {
				ok = true
			}
		}
		r.check(ok, "C13.R2", "setup|gas-limit-zero", v.pos(b), "the fee-less tx declares gas limit 0 to the block gas accounting", "the fee-less branch does not install NewInfiniteGasMeterWithLimit(0)")
	}
	if v, b := branchOf("DeductFeeDecorator.AnteHandle"); b != nil {
		ok := false
		for _, c := range v.Calls(b.Body, byName("WithPriority")) {
			if len(c.Args) == 1 && strings.HasSuffix(exprString(c.Args[0]), "MaxInt64") {
				ok = true
			}
		}
		r.check(ok, "C13.R2", "fees|top-priority", v.pos(b), "fee-less txs get top priority", "the fee-less branch does not set priority MaxInt64")
		// the non-oracle path still deducts: deductFee is called after the branch
		okD := false
		for _, c := range v.CallsNamed("deductFee") {
			if c.Pos() > b.End() {
				okD = true
			}
		}
		r.check(okD, "C13.R2", "fees|others-pay", v.pos(v.Decl), "everybody else pays", "deductFee is not called on the non-oracle path")
	}
	if v, b := branchOf("ConsumeTxSizeGasDecorator.AnteHandle"); b != nil {
		ok := v.rejectsWhen(b.Body, func(f Fact) bool {
			c, isC := factCmp(f)
			return isC && c.Op == ">" && exprString(c.L) == "len(ctx.TxBytes())" && v.constOf(c.R) != nil && strings.HasSuffix(exprString(c.R), "TxSizeLimit")
		}, nil)
		r.check(ok, "C13.R2", "txsize|limit", v.pos(b), "a fee-less tx larger than TxSizeLimit is rejected", "the fee-less branch does not reject every tx with len(ctx.TxBytes()) > TxSizeLimit")
	}
	if v, b := branchOf("SetPubKeyDecorator.AnteHandle"); b != nil {
		ok := false
		ast.Inspect(b.Body, func(n ast.Node) bool {
			loop, isLoop := n.(*ast.RangeStmt)
			if !isLoop || !resolvesToMethod(v, loop.X, "GetPubKeys") || v.nestedConditionally(loop, b.Body) {
				return true
			}
			if v.rejectsWhen(loop.Body, func(f Fact) bool {
				o := v.outcome(f)
				if o == nil || o.Callee.Name() != "Equal" || o.Success || len(o.Call.Args) != 2 {
					return false
				}
				a, bb := o.Call.Args[0], o.Call.Args[1]
				if _, isIx := stripParens(a).(*ast.IndexExpr); !isIx {
					a, bb = bb, a
				}
				ix, isIx := stripParens(a).(*ast.IndexExpr)
				if !isIx || !resolvesToMethod(v, ix.X, "GetSigners") || v.objOf(ix.Index) != v.objOf(loop.Key) {
					return false
				}
				recv, nm, _, isM := methodCall(bb)
				return isM && nm == "Address" && v.objOf(recv) == v.objOf(loop.Value)
			}, nil) {
				ok = true
			}
			return true
		})
		r.check(ok, "C13.R2", "pubkey|matches-signer", v.pos(b), "each supplied public key is the key of the signer at the same index", "the fee-less branch does not reject, for every i, a public key whose address differs from signers[i]")
	}
	if v, b := branchOf("SigVerificationDecorator.AnteHandle"); b != nil {
		// (count equality and "result used" are C10.R5 instances; here: called for every signature, nil key rejected)
		okV, okNil := false, false
		for _, c := range v.Calls(b.Body, byName("VerifySignature")) {
			loop, _ := v.innermostLoop(c).(*ast.RangeStmt)
			if loop != nil && resolvesToMethod(v, loop.X, "GetSignaturesV2") {
				k, _ := v.failArm(c)
				okV = k == "return" || v.resultTested(c)
			}
		}
		okNil = v.rejectsWhen(b.Body, func(f Fact) bool {
			bx, ok := stripParens(f.Atom).(*ast.BinaryExpr)
			return ok && ((bx.Op == token.EQL) == f.Truth) && (bx.Op == token.EQL || bx.Op == token.NEQ) && isNilIdent(v.Info, bx.Y) && strings.Contains(strings.ToLower(exprString(bx.X)), "pubkey")
		}, factIsNotSimulate)
		// every signer has a signature and a key: len(sigs) == len(signers) and len(pubKeys) == len(signers)
		okCnt := 0
		for _, c := range v.Calls(b.Body, byName("VerifySignature")) {
			fs := v.factsOf(c)
			for _, what := range []string{"GetSignaturesV2", "GetPubKeys"} {
				if fs.cmp(func(cm cmp) bool {
					if cm.Op != "==" || !isLenOf(cm.L) || !isLenOf(cm.R) {
						return false
					}
					a := stripParens(cm.L).(*ast.CallExpr).Args[0]
					bb := stripParens(cm.R).(*ast.CallExpr).Args[0]
					return resolvesToMethod(v, a, what) && resolvesToMethod(v, bb, "GetSigners")
				}) {
					okCnt++
				}
			}
		}
		r.check(okCnt == 2, "C13.R2", "sigverify|one-per-signer", v.pos(b), "there is exactly one signature and one key per required signer", "verification is not dominated by len(signatures) == len(signers) and len(pubKeys) == len(signers): a creator without a signature is admitted")
		r.check(okV, "C13.R2", "sigverify|every-signature", v.pos(b), "every signature of a fee-less tx is verified and a failure rejects the tx", "VerifySignature is not called inside the loop over all signatures with its result deciding rejection")
		r.check(okNil, "C13.R2", "sigverify|nil-key-rejected", v.pos(b), "a missing public key rejects the tx", "the fee-less branch has no rejection for pubKey == nil")
	}
	if v, b := branchOf("IncrementSequenceDecorator.AnteHandle"); b != nil {
		ok, okErr := false, false
		for _, c := range v.Calls(b.Body, byName("CheckAndIncreaseNonce")) {
			loop, _ := v.innermostLoop(c).(*ast.RangeStmt)
			if loop == nil || !resolvesToMethod(v, loop.X, "GetMsgs") || len(c.Args) != 4 {
				continue
			}
			// args: ConsAddress(acc(msg.Creator)).String(), msg.FeederID, uint32(msg.Nonce)
			a1 := exprString(c.Args[1])
			okAddr := strings.HasPrefix(a1, "sdk.ConsAddress(") && strings.HasSuffix(a1, ").String()")
			if okAddr {
				inner := c.Args[1].(*ast.CallExpr).Fun.(*ast.SelectorExpr).X.(*ast.CallExpr).Args[0]
				okAddr = false
				for _, d := range v.resolveDefs(inner, 0) {
					if name, args, isC := funcCallName(d); isC && name == "AccAddressFromBech32" && len(args) == 1 && lastField(args[0]) == "Creator" {
						okAddr = true
					}
				}
			}
			if okAddr && lastField(c.Args[2]) == "FeederID" && strings.Contains(exprString(c.Args[3]), ".Nonce") {
				ok = true
			}
			k, _ := v.failArm(c)
			okErr = k == "return"
		}
		r.check(ok, "C13.R2", "nonce|per-message", v.pos(b), "every message's nonce is checked for (consensus address of its creator, its feeder, its nonce)", "CheckAndIncreaseNonce is not called for every message with (ConsAddress(AccAddress(msg.Creator)), msg.FeederID, msg.Nonce)")
		r.check(okErr, "C13.R2", "nonce|failure-rejects", v.pos(b), "a nonce failure rejects the tx", "the result of CheckAndIncreaseNonce does not decide rejection")
		// ... in every execution mode: the fee-less branch hands over to the next decorator only after the
		// nonce loop (a CheckTx / ReCheckTx / simulate shortcut in front of it would admit transactions whose
		// nonces were never claimed in that state)
		okModes := true
		var nonceLoop ast.Node
		for _, c := range v.Calls(b.Body, byName("CheckAndIncreaseNonce")) {
			nonceLoop = v.innermostLoop(c)
			for _, f := range v.factsAt(c, false) {
				if f.At != nil && f.At.Pos() >= b.Pos() && !f.LoopCond {
					if o := v.outcome(f); o != nil && o.Callee.Name() == "AccAddressFromBech32" {
						continue
					}
					if f.At == ast.Node(b) {
						continue // the fee-less classification itself
					}
					okModes = false
				}
			}
		}
		if nonceLoop == nil {
			okModes = false
		} else {
			ast.Inspect(b.Body, func(n ast.Node) bool {
				rs, isRet := n.(*ast.ReturnStmt)
				if isRet && rs.Pos() < nonceLoop.Pos() {
					okModes = false
				}
				return true
			})
		}
		r.check(okModes, "C13.R2", "nonce|every-mode", v.pos(b), "the nonce check runs for every fee-less tx in every execution mode before the next decorator is called", "the fee-less branch can return (or skip the nonce loop) before CheckAndIncreaseNonce: re-checked mempool transactions no longer occupy their nonces, so a validator gets MaxNonce more fee-less transactions admitted after every block")
		// the ordinary sequence is not bumped for fee-less txs and is bumped for everyone else
		okSeq := false
		for _, c := range v.CallsNamed("SetSequence") {
			if c.Pos() > b.End() {
				okSeq = true
			}
		}
		r.check(okSeq, "C13.R2", "nonce|others-sequence", v.pos(v.Decl), "ordinary txs still bump the account sequence", "SetSequence is not called on the non-oracle path")
	}
	// ------------------------------------------------------------------ R3
	if v := w.View("app/ante", "newCosmosAnteHandler"); v == nil {
		r.bad("C13.R3", "anchor|newCosmosAnteHandler", "-", "anchor", "not found")
	} else {
		r.saw(v.ID())
		var order []string
		for _, c := range v.CallsNamed("ChainAnteDecorators") {
			for _, a := range c.Args {
				s := exprString(a)
				if i := strings.Index(s, "("); i > 0 {
					s = s[:i]
				}
				s = strings.TrimSuffix(s, "{}")
				order = append(order, s)
			}
		}
		idx := func(name string) int {
			for i, s := range order {
				if s == name {
					return i
				}
			}
			return -1
		}
		need := []string{"cosmosante.NewSetUpContextDecorator", "cosmosante.NewConsumeGasForTxSizeDecorator", "cosmosante.NewDeductFeeDecorator", "cosmosante.NewSetPubKeyDecorator", "cosmosante.NewSigVerificationDecorator", "cosmosante.NewIncrementSequenceDecorator"}
		var miss []string
		for _, n := range need {
			if idx(n) < 0 {
				miss = append(miss, n)
			}
		}
		r.check(len(miss) == 0, "C13.R3", "chain|members", v.pos(v.Decl), "the Cosmos ante chain contains the oracle-aware decorators", "missing from the chain: "+strings.Join(miss, ", "))
		before := func(a, b, key, why string) {
			r.check(idx(a) >= 0 && idx(b) >= 0 && idx(a) < idx(b), "C13.R3", "chain|"+key, v.pos(v.Decl), why, a+" does not precede "+b+" in newCosmosAnteHandler")
		}
		before("cosmosante.NewSigVerificationDecorator", "cosmosante.NewIncrementSequenceDecorator", "sig-before-nonce", "the signature is verified before the nonce is consumed")
		before("cosmosante.NewSetPubKeyDecorator", "cosmosante.NewSigVerificationDecorator", "pubkey-before-sig", "the key/signer binding is checked before the signature")
		before("cosmosante.NewConsumeGasForTxSizeDecorator", "cosmosante.NewIncrementSequenceDecorator", "size-before-nonce", "the size limit applies before the nonce is consumed")
		before("cosmosante.NewSetUpContextDecorator", "cosmosante.NewDeductFeeDecorator", "setup-first", "the gas meter is installed first")
	}
	// ------------------------------------------------------------------ R4
	ok4 := "x/oracle/keeper"
	if v := w.View(ok4, "Keeper.CheckAndIncreaseNonce"); v == nil {
		r.bad("C13.R4", "anchor|CheckAndIncreaseNonce", "-", "anchor", "not found")
	} else {
		r.saw(v.ID())
		nonceP, feederP := paramName(v, 3), paramName(v, 2)
		okMax := false
		nRetNil, nRetNilOK := 0, 0
		ast.Inspect(v.Decl.Body, func(n ast.Node) bool {
			rs, isRet := n.(*ast.ReturnStmt)
			if !isRet || len(rs.Results) != 2 {
				return true
			}
			fs := v.factsOf(rs)
			if returnsErr(v, rs) {
				return true
			}
			nRetNil++
			if fs.cmp(func(c cmp) bool {
				return c.Op == "==" && sumTerms(c.L) == "1+Value" && exprString(c.R) == nonceP
			}) && fs.cmp(func(c cmp) bool {
				return c.Op == "==" && lastField(c.L) == "FeederID" && exprString(c.R) == feederP
			}) {
				nRetNilOK++
			}
			return true
		})
		okMax = v.rejectsWhen(v.Decl.Body, func(f Fact) bool {
			c, isC := factCmp(f)
			if !isC {
				return false
			}
			if exprString(c.L) != nonceP {
				c = cmp{c.R, c.L, flipOp(c.Op)}
			}
			return c.Op == ">" && exprString(c.L) == nonceP && strings.Contains(exprString(c.R), "MaxNonce")
		}, nil)
		r.check(okMax, "C13.R4", "nonce|max", v.pos(v.Decl), "a nonce above MaxNonce is rejected", "CheckAndIncreaseNonce does not return an error under nonce > MaxNonce")
		r.check(nRetNil == 1 && nRetNilOK == 1, "C13.R4", "nonce|success-only-consecutive", v.pos(v.Decl), "success only when stored+1 == nonce for the matching feeder", fmt.Sprintf("%d success returns, %d of them under (Value+1 == nonce and FeederID == feederID)", nRetNil, nRetNilOK))
		// MaxNonce check precedes any store access
		okFirst := false
		if len(v.Decl.Body.List) > 0 {
			if ifs, ok := v.Decl.Body.List[0].(*ast.IfStmt); ok && strings.Contains(exprString(ifs.Cond), "MaxNonce") && v.terminates(ifs.Body) {
				okFirst = true
			}
		}
		r.check(okFirst, "C13.R4", "nonce|max-before-store", v.pos(v.Decl), "the MaxNonce rejection happens before anything is read or written", "the MaxNonce check is not the first statement")
		nW, nWok := 0, 0
		for _, c := range v.CallsNamed("setNonce") {
			nW++
			fs := v.factsOf(c)
			okInc := false
			// the write follows `v.Value++` in the same arm
			if blk := v.innermostBlock(c); blk != nil {
				for _, st := range blk.List {
					if inc, ok := st.(*ast.IncDecStmt); ok && inc.Tok == token.INC && lastField(inc.X) == "Value" && inc.Pos() < c.Pos() {
						okInc = true
					}
				}
			}
			if okInc && fs.cmp(func(cm cmp) bool { return cm.Op == "==" && sumTerms(cm.L) == "1+Value" && exprString(cm.R) == nonceP }) &&
				fs.cmp(func(cm cmp) bool {
					return cm.Op == "==" && lastField(cm.L) == "FeederID" && exprString(cm.R) == feederP
				}) {
				nWok++
			}
		}
		r.check(nW == 1 && nWok == 1, "C13.R4", "nonce|write-only-consecutive", v.pos(v.Decl), "the stored nonce is advanced by one, only on the consecutive arm of the matching feeder", fmt.Sprintf("%d writes, %d under (Value+1 == nonce, FeederID == feederID) after Value++", nW, nWok))
		// direct store writes: none besides setNonce
		if fn := w.Fn(ok4, "Keeper.CheckAndIncreaseNonce"); fn != nil {
			d := 0
			for _, a := range e.Direct[fn] {
				if a.Kind == "W" || a.Kind == "D" {
					d++
				}
			}
			r.check(d == 0, "C13.R4", "nonce|no-other-write", w.pos(fn.Pos()), "no other store write in the nonce check", fmt.Sprintf("%d direct store writes/deletes in CheckAndIncreaseNonce", d))
		}
		nExit := 0
		ast.Inspect(v.Decl.Body, func(n ast.Node) bool {
			if rs, ok := n.(*ast.ReturnStmt); ok && returnsErr(v, rs) {
				nExit++
			}
			return true
		})
		r.check(nExit >= 4 && v.terminates(v.Decl.Body), "C13.R4", "nonce|other-exits-fail", v.pos(v.Decl), "too large, not consecutive, unknown feeder and unknown validator are all errors", fmt.Sprintf("only %d error exits", nExit))
	}
	// ------------------------------------------------------------------ R5
	if v := w.View(ok4, "Keeper.AddZeroNonceItemWithFeederIDForValidators"); v == nil {
		r.bad("C13.R5", "anchor|AddZeroNonce", "-", "anchor", "not found")
	} else {
		r.saw(v.ID())
		okGuard, okZero := true, true
		n := 0
		for _, c := range v.CallsNamed("setNonce") {
			n++
			fs := v.factsOf(c)
			// either the validator has no record at all, or it has none for this feeder
			noRecord := fs.call("getNonce", false, nil)
			noFeeder := false
			for _, f := range fs.fs {
				if id, ok := f.Atom.(*ast.Ident); ok && !f.Truth && id.Name == "found" {
					noFeeder = true
				}
			}
			if !noRecord && !noFeeder {
				okGuard = false
			}
		}
		for _, cl := range v.compositeLits(v.Decl.Body, "Nonce") {
			if val := compositeField(cl, "Value"); val == nil || exprString(val) != "0" {
				okZero = false
			}
			if f := compositeField(cl, "FeederID"); f == nil || exprString(f) != paramName(v, 1) {
				okZero = false
			}
		}
		r.check(n == 2 && okGuard, "C13.R5", "addzero|only-when-absent", v.pos(v.Decl), "a round start never resets an existing nonce", "AddZeroNonceItemWithFeederIDForValidators writes a record although the validator already has a nonce for the feeder")
		r.check(okZero, "C13.R5", "addzero|zero", v.pos(v.Decl), "new records start at 0 for the given feeder", "a new nonce record does not start at Value 0 / the given feeder id")
	}
	if v := w.View("x/oracle", "AppModule.EndBlock"); v == nil {
		r.bad("C13.R5", "anchor|EndBlock", "-", "anchor", "not found")
	} else {
		r.saw(v.ID())
		okRm, okAdd := false, false
		for _, c := range v.CallsNamed("RemoveNonceWithFeederIDForValidators") {
			loop, _ := v.innermostLoop(c).(*ast.RangeStmt)
			if loop != nil && len(c.Args) == 3 && v.objOf(c.Args[1]) == v.objOf(loop.Value) && strings.HasSuffix(exprString(c.Args[2]), "GetValidators()") {
				for _, d := range v.resolveDefs(loop.X, 0) {
					if cc, ok := stripParens(d).(*ast.CallExpr); ok && v.calleeName(cc) == "SealRound" {
						// third result
						if as, ok := v.parent(cc).(*ast.AssignStmt); ok && len(as.Lhs) == 3 && v.objOf(as.Lhs[2]) == v.objOf(loop.X) {
							okRm = !v.nestedConditionally(loop, v.Decl.Body)
						}
					}
				}
			}
		}
		for _, c := range v.CallsNamed("AddZeroNonceItemWithFeederIDForValidators") {
			loop, _ := v.innermostLoop(c).(*ast.RangeStmt)
			if loop != nil && len(c.Args) == 3 && v.objOf(c.Args[1]) == v.objOf(loop.Value) && strings.HasSuffix(exprString(c.Args[2]), "GetValidators()") {
				for _, d := range v.resolveDefs(loop.X, 0) {
					if cc, ok := stripParens(d).(*ast.CallExpr); ok && v.calleeName(cc) == "PrepareRoundEndBlock" {
						okAdd = !v.nestedConditionally(loop, v.Decl.Body)
					}
				}
			}
		}
		// a validator that leaves the set loses its nonce records (the sealed-round removal below only covers
		// the validators of the new set)
		okLeft := false
		for _, c := range v.CallsNamed("RemoveNonceWithValidator") {
			loop, _ := v.innermostLoop(c).(*ast.RangeStmt)
			if loop == nil || !resolvesToCallV(v, loop.X, "GetValidatorUpdates") || len(c.Args) != 2 {
				continue
			}
			vu := v.objOf(loop.Value)
			zero := v.factsOf(c).cmp(func(cm cmp) bool {
				return cm.Op == "==" && lastField(cm.L) == "Power" && v.objOf(rootIdent(cm.L)) == vu && exprString(cm.R) == "0"
			})
			fromKey := v.derivesFromIter(c.Args[1], map[types.Object]bool{vu: true}, loop.Body, 0) && strings.Contains(exprString(c.Args[1]), "ConsAddress(")
			if zero && fromKey {
				okLeft = true
			}
		}
		r.check(okLeft, "C13.R5", "endblock|leaving-validator-loses-nonces", v.pos(v.Decl), "a validator whose power drops to zero loses its nonce records (nobody but current validators is admitted)", "EndBlock does not call RemoveNonceWithValidator(consensus address) for validator updates with Power == 0: the removed validator's fee-less transactions keep passing the ante nonce check")
		r.check(okRm, "C13.R5", "endblock|sealed-rounds-lose-nonces", v.pos(v.Decl), "every sealed round's nonces are removed (no admission after the round closed)", "EndBlock does not unconditionally remove the nonces of every feeder in SealRound's sealed list")
		r.check(okAdd, "C13.R5", "endblock|new-rounds-get-nonces", v.pos(v.Decl), "every newly opened round gets zero nonces for the validators", "EndBlock does not unconditionally add zero nonces for every feeder returned by PrepareRoundEndBlock")
	}
	cp := w.View(ok4, "msgServer.CreatePrice")
	if cp == nil {
		r.bad("C13.R5", "anchor|CreatePrice", "-", "anchor", "not found")
	} else {
		r.saw(cp.ID())
		okFin := false
		msgP := paramName(cp, 1)
		for _, c := range cp.CallsNamed("RemoveNonceWithFeederIDForValidators") {
			fs := cp.factsOf(c)
			if len(c.Args) == 3 && exprString(c.Args[1]) == msgP+".FeederID" && strings.HasSuffix(exprString(c.Args[2]), "GetValidators()") &&
				fs.atom(true, func(e ast.Expr) bool {
					b, ok := e.(*ast.BinaryExpr)
					return ok && b.Op == token.NEQ && isNilIdent(cp.Info, b.Y) && resolvesToCallV(cp, b.X, "NewCreatePrice")
				}) {
				// not nested under further conditions than newItem != nil
				okFin = true
				for p := cp.parent(c); p != nil && p != ast.Node(cp.Decl.Body); p = cp.parent(p) {
					if ifs, ok := p.(*ast.IfStmt); ok {
						if !(strings.Contains(exprString(ifs.Cond), "!= nil") && !strings.Contains(exprString(ifs.Cond), "&&")) {
							okFin = false
						}
					}
				}
			}
		}
		r.check(okFin, "C13.R5", "finalise|nonces-removed", cp.pos(cp.Decl), "the message that finalises a round removes the round's nonces at once (later submissions in the same block are not admitted)", "CreatePrice does not call RemoveNonceWithFeederIDForValidators(ctx, msg.FeederID, validators) whenever a final price was produced")
	}
	// writer set of the nonce family
	if fn := w.Fn(ok4, "Keeper.setNonce"); fn != nil {
		fams := directFams(e, fn, "W")
		var fam string
		for f := range fams {
			fam = f
		}
		if len(fams) != 1 {
			r.bad("C13.R5", "family|nonce", w.pos(fn.Pos()), "setNonce writes one family", fmt.Sprintf("%d families", len(fams)))
		} else {
			var off []string
			for f2 := range e.Direct {
				if !w.fnInScope(f2) {
					continue
				}
				n := fnName(f2)
				if directFams(e, f2, "W")[fam] && !strings.HasSuffix(n, "setNonce") {
					off = append(off, n)
				}
				if directFams(e, f2, "D")[fam] && !strings.HasSuffix(n, "removeNonceWithValidator") {
					off = append(off, n)
				}
			}
			r.check(len(off) == 0, "C13.R5", "writers|nonce-family", w.pos(fn.Pos()), "only setNonce / removeNonceWithValidator touch "+e.R.famName(fam), "other direct writers of the nonce family: "+strings.Join(off, ", "))
			// entry points that may write it
			cat := catalogue(w)
			var offE []string
			for _, en := range cat.Entries {
				if en.Fn == nil {
					continue
				}
				s := e.Sum[en.Fn]
				if s == nil {
					continue
				}
				if s["W "+fam] || s["D "+fam] {
					n := en.Name
					okE := strings.Contains(n, "oracle") || strings.Contains(n, "Oracle") || strings.Contains(n, "IncrementSequenceDecorator") || strings.Contains(n, "CreatePrice") || en.Cat == "genesis" || en.Cat == "ante"
					if !okE {
						offE = append(offE, en.Cat+":"+n)
					}
				}
			}
			r.check(len(offE) == 0, "C13.R5", "entries|nonce-family", "-", "nonces change only in the ante nonce check, the oracle's CreatePrice/EndBlock and genesis", "other entry points can change nonces: "+strings.Join(uniq(offE), ", "))
		}
	} else {
		r.bad("C13.R5", "anchor|setNonce", "-", "anchor", "setNonce not found")
	}
	// ------------------------------------------------------------------ R6
	agg := "x/oracle/keeper/aggregator"
	if v := w.View(agg, "AggregatorContext.NewCreatePrice"); v == nil {
		r.bad("C13.R6", "anchor|NewCreatePrice", "-", "anchor", "not found")
	} else {
		r.saw(v.ID())
		ok := false
		for _, c := range v.CallsNamed("FillPrice") {
			if v.factsOf(c).call("checkMsg", true, nil) {
				ok = true
			}
		}
		r.check(ok, "C13.R6", "count|check-before-fill", v.pos(v.Decl), "a message is aggregated only after checkMsg succeeded", "FillPrice is not dominated by checkMsg(msg) == nil")
	}
	if v := w.View(agg, "AggregatorContext.checkMsg"); v == nil {
		r.bad("C13.R6", "anchor|checkMsg", "-", "anchor", "not found")
	} else {
		r.saw(v.ID())
		msgP := paramName(v, 0)
		// the success exit: facts at the final `return nil`
		var last *ast.ReturnStmt
		if l := v.Decl.Body.List; len(l) > 0 {
			last, _ = l[len(l)-1].(*ast.ReturnStmt)
		}
		if last == nil || !isNilIdent(v.Info, last.Results[0]) {
			r.bad("C13.R6", "checkmsg|shape", v.pos(v.Decl), "single success exit at the end", "checkMsg does not end in `return nil`")
		} else {
			nOK := 0
			ast.Inspect(v.Decl.Body, func(n ast.Node) bool {
				if rs, ok := n.(*ast.ReturnStmt); ok && len(rs.Results) == 1 && isNilIdent(v.Info, rs.Results[0]) {
					nOK++
				}
				return true
			})
			r.check(nOK == 1, "C13.R6", "checkmsg|single-success-exit", v.pos(v.Decl), "checkMsg succeeds only at its end", fmt.Sprintf("%d `return nil` statements", nOK))
			fs := v.factsOf(last)
			r.check(fs.call("sanityCheck", true, nil), "C13.R6", "checkmsg|sanity", v.pos(last), "sender/format checks passed", "success is not dominated by sanityCheck(msg) == nil")
			isRound := func(e ast.Expr) bool {
				for _, d := range v.resolveDefs(e, 0) {
					if ix, ok := stripParens(d).(*ast.IndexExpr); ok && lastField(ix.X) == "rounds" && exprString(ix.Index) == msgP+".FeederID" {
						return true
					}
				}
				return false
			}
			r.check(fs.atom(false, func(e ast.Expr) bool {
				b, ok := e.(*ast.BinaryExpr)
				return ok && b.Op == token.EQL && isNilIdent(v.Info, b.Y) && isRound(b.X)
			}) && fs.cmp(func(c cmp) bool {
				return c.Op == "==" && lastField(c.L) == "status" && isRound(rootExpr(c.L)) && strings.HasSuffix(exprString(c.R), "roundStatusOpen")
			}), "C13.R6", "checkmsg|open-round", v.pos(last), "counted only for an open round of a known feeder", "success is not dominated by rounds[msg.FeederID] != nil && status == roundStatusOpen")
			r.check(fs.cmp(func(c cmp) bool {
				return c.Op == "==" && exprString(c.L) == msgP+".BasedBlock" && lastField(c.R) == "basedBlock" && isRound(rootExpr(c.R))
			}), "C13.R6", "checkmsg|base-block", v.pos(last), "counted only if its base block matches the round", "success is not dominated by msg.BasedBlock == rounds[msg.FeederID].basedBlock")
			r.check(fs.call("CheckRules", true, func(c *ast.CallExpr) bool {
				return len(c.Args) == 2 && exprString(c.Args[0]) == msgP+".FeederID" && exprString(c.Args[1]) == msgP+".Prices"
			}), "C13.R6", "checkmsg|rule", v.pos(last), "counted only if its sources match the feeder's rule", "success is not dominated by CheckRules(msg.FeederID, msg.Prices) being ok")
			// decimals: a failing return inside a loop over all prices of all sources
			okDec := false
			for _, c := range v.CallsNamed("CheckDecimal") {
				in, _ := v.innermostLoop(c).(*ast.RangeStmt)
				if in == nil {
					continue
				}
				out, _ := v.innermostLoop(in).(*ast.RangeStmt)
				if out == nil || exprString(out.X) != msgP+".Prices" || lastField(in.X) != "Prices" || v.objOf(rootIdent(in.X)) != v.objOf(out.Value) {
					continue
				}
				k, _ := v.failArm(c)
				if (k == "return" || v.resultTested(c)) && len(c.Args) == 2 && exprString(c.Args[0]) == msgP+".FeederID" && lastField(c.Args[1]) == "Decimal" && v.objOf(rootIdent(c.Args[1])) == v.objOf(in.Value) && !v.nestedConditionally(out, v.Decl.Body) {
					okDec = true
				}
			}
			r.check(okDec, "C13.R6", "checkmsg|decimals", v.pos(last), "counted only if every price's decimals match the token", "CheckDecimal(msg.FeederID, price.Decimal) is not evaluated for every price of every source with failure rejecting the message")
		}
	}
	if v := w.View(agg, "AggregatorContext.sanityCheck"); v == nil {
		r.bad("C13.R6", "anchor|sanityCheck", "-", "anchor", "not found")
	} else {
		r.saw(v.ID())
		msgP := paramName(v, 0)
		ok := v.rejectsWhen(v.Decl.Body, func(f Fact) bool {
			id, isID := f.Atom.(*ast.Ident)
			if !isID || f.Truth {
				return false
			}
			for _, d := range v.defsOf(v.objOf(id)) {
				ix, isIx := stripParens(d).(*ast.IndexExpr)
				if !isIx || lastField(ix.X) != "validatorsPower" {
					continue
				}
				s := exprString(ix.Index)
				if strings.HasPrefix(s, "sdk.ConsAddress(") && strings.HasSuffix(s, ").String()") {
					inner := ix.Index.(*ast.CallExpr).Fun.(*ast.SelectorExpr).X.(*ast.CallExpr).Args[0]
					for _, d2 := range v.resolveDefs(inner, 0) {
						if name, args, isC := funcCallName(d2); isC && name == "AccAddressFromBech32" && len(args) == 1 && exprString(args[0]) == msgP+".Creator" {
							return true
						}
					}
				}
			}
			return false
		}, nil)
		r.check(ok, "C13.R6", "sanity|current-validator", v.pos(v.Decl), "counted only from a current validator (by the consensus address of the creator)", "sanityCheck does not reject a creator whose consensus address is not in validatorsPower")
	}
	if v := w.View(agg, "filter.filtrate"); v == nil {
		r.bad("C13.R6", "anchor|filtrate", "-", "anchor", "not found")
	} else {
		r.saw(v.ID())
		ok := false
		for _, c := range v.CallsNamed("addPSource") {
			if v.factsOf(c).call("Add", true, func(cc *ast.CallExpr) bool { return len(cc.Args) == 1 && lastField(cc.Args[0]) == "Nonce" }) {
				ok = true
			}
		}
		r.check(ok, "C13.R6", "filter|nonce-once", v.pos(v.Decl), "a (validator, nonce) pair contributes once", "addPSource is not dominated by the nonce set accepting the nonce")
	}
	if v := w.View(agg, "filter.addPSource"); v == nil {
		r.bad("C13.R6", "anchor|addPSource", "-", "anchor", "not found")
	} else {
		r.saw(v.ID())
		ok := false
		ast.Inspect(v.Decl.Body, func(n ast.Node) bool {
			as, isAs := n.(*ast.AssignStmt)
			if !isAs || len(as.Rhs) != 1 || lastField(as.Lhs[0]) != "Prices" {
				return true
			}
			if c, isC := as.Rhs[0].(*ast.CallExpr); isC && exprString(c.Fun) == "append" {
				if v.factsOf(as).call("Add", true, func(cc *ast.CallExpr) bool { return len(cc.Args) == 1 && lastField(cc.Args[0]) == "DetID" }) {
					ok = true
				}
			}
			return true
		})
		okKey := false
		ast.Inspect(v.Decl.Body, func(n ast.Node) bool {
			if as, isAs := n.(*ast.AssignStmt); isAs && len(as.Rhs) == 1 {
				s := exprString(as.Rhs[0])
				if _, isBin := as.Rhs[0].(*ast.BinaryExpr); isBin && strings.Contains(s, paramName(v, 1)) && strings.Contains(s, "SourceID") {
					okKey = true
				}
			}
			return true
		})
		r.check(ok && okKey, "C13.R6", "filter|source-round-once", v.pos(v.Decl), "a source round already reported by this validator is dropped", "deterministic prices are appended without the per-(validator, source) DetID set accepting the id")
	}
	// role-typed indexing of the params tables: Tokens by a token id, TokenFeeders by a feeder id
	{
		nIdx := 0
		for _, fv := range w.allViews() {
			if !strings.HasPrefix(fv.ID(), "x/oracle") || strings.HasSuffix(w.relFile(fv.Decl.Pos()), ".pb.go") {
				continue
			}
			ast.Inspect(fv.Decl.Body, func(n ast.Node) bool {
				ix, ok := n.(*ast.IndexExpr)
				if !ok {
					return true
				}
				tbl := lastField(ix.X)
				if tbl != "Tokens" && tbl != "TokenFeeders" {
					return true
				}
				// only the oracle Params tables
				if t := fv.Info.TypeOf(ix.X); t == nil || !strings.Contains(t.String(), "x/oracle/types.Token") {
					return true
				}
				nIdx++
				idx := strings.ToLower(exprString(ix.Index))
				role := "?"
				switch {
				case strings.Contains(idx, "tokenid"):
					role = "token"
				case strings.Contains(idx, "feederid") || strings.Contains(idx, "tfidx") || strings.Contains(idx, "feeder"):
					role = "feeder"
				case fv.constOf(ix.Index) != nil:
					role = "const"
				}
				// a loop index over the same table is its own role
				if lp, isLoop := fv.innermostLoop(ix).(*ast.RangeStmt); isLoop && lp.Key != nil && fv.objOf(lp.Key) != nil && fv.objOf(lp.Key) == fv.objOf(ix.Index) && lastField(lp.X) == tbl {
					role = map[string]string{"Tokens": "token", "TokenFeeders": "feeder"}[tbl]
				}
				want := map[string]string{"Tokens": "token", "TokenFeeders": "feeder"}[tbl]
				r.check(role == want || role == "const", "C13.R6", fmt.Sprintf("index-role|%s|%s[%s]", fv.ID(), tbl, exprString(ix.Index)), fv.pos(ix), tbl+" is indexed by a "+want+" id", fv.ID()+" indexes "+tbl+" with "+exprString(ix.Index)+" (a "+role+" id): decimals/rules are taken from another token once feeder and token ids are out of step (a resumed feeder)")
				return true
			})
		}
		if nIdx < 5 {
			r.bad("C13.R6", "index-role|count", "-", "params table accesses found", fmt.Sprintf("only %d", nIdx))
		}
	}
	if v := w.View("x/oracle/types", "Params.CheckRules"); v == nil {
		r.bad("C13.R6", "anchor|CheckRules", "-", "anchor", "not found")
	} else {
		r.saw(v.ID())
		// as many price sources as the rule lists: together with "every listed source is present" this makes the
		// submitted sources exactly the rule's (no surplus source, no duplicate)
		pricesP := paramName(v, 1)
		okCount := v.rejectsWhen(v.Decl.Body, func(f Fact) bool {
			c, isC := factCmp(f)
			if !isC || c.Op != "!=" {
				return false
			}
			l, rr := exprString(c.L), exprString(c.R)
			isRule := func(s string) bool { return strings.HasPrefix(s, "len(") && strings.HasSuffix(s, ".SourceIDs)") }
			isPrices := func(s string) bool { return s == "len("+pricesP+")" }
			return (isRule(l) && isPrices(rr)) || (isRule(rr) && isPrices(l))
		}, func(f Fact) bool {
			c, isC := factCmp(f)
			return isC && c.Op == ">" && strings.HasSuffix(exprString(c.L), ".SourceIDs)") && exprString(c.R) == "0"
		})
		r.check(okCount, "C13.R6", "rules|exact-source-count", v.pos(v.Decl), "a submission with more or fewer price sources than the rule lists is rejected", "CheckRules does not reject every submission whose number of price sources differs from the rule's: surplus sources (e.g. the custom source 0 with an arbitrary price, or a duplicate) are counted")
		// contradiction rule: a "not found" flag that is set to true at the top of each
		// outer iteration and cleared by an inner search must be acted upon before the
		// next outer iteration overwrites it.
		var flag types.Object
		ast.Inspect(v.Decl.Body, func(n ast.Node) bool {
			if ifs, ok := n.(*ast.IfStmt); ok && flag == nil {
				if id, ok := stripParens(ifs.Cond).(*ast.Ident); ok && returnsFalseErr(v, ifs.Body) {
					flag = v.objOf(id)
				}
			}
			return true
		})
		if flag == nil {
			r.bad("C13.R6", "rules|shape", v.pos(v.Decl), "a missing-source flag decides rejection", "CheckRules has no `if notFound { return false, err }`")
		} else {
			n := 0
			ast.Inspect(v.Decl.Body, func(nd ast.Node) bool {
				as, ok := nd.(*ast.AssignStmt)
				if !ok || len(as.Lhs) != 1 || v.objOf(as.Lhs[0]) != flag || exprString(as.Rhs[0]) != "true" {
					return true
				}
				outer, _ := v.innermostLoop(as).(*ast.RangeStmt)
				if outer == nil {
					return true
				}
				n++
				// after the inner search the outer loop must leave when the flag is still set
				okLeave := false
				ast.Inspect(outer.Body, func(m ast.Node) bool {
					ifs, ok := m.(*ast.IfStmt)
					if !ok || ifs.Pos() < as.Pos() {
						return true
					}
					if id, ok := stripParens(ifs.Cond).(*ast.Ident); ok && v.objOf(id) == flag && v.innermostLoop(ifs) == ast.Node(outer) && len(ifs.Body.List) > 0 {
						switch st := ifs.Body.List[len(ifs.Body.List)-1].(type) {
						case *ast.BranchStmt:
							okLeave = st.Tok == token.BREAK
						case *ast.ReturnStmt:
							okLeave = true
						}
					}
					return true
				})
				r.check(okLeave, "C13.R6", fmt.Sprintf("rules|every-required-source#%d", n), v.pos(as), "a required source that is missing rejects the message, whichever position it has in the rule", "the missing-source flag is re-initialised on every iteration of the loop over required sources and only tested after the loop: only the last required source is enforced")
				return true
			})
			if n == 0 {
				r.bad("C13.R6", "rules|flag-loop", v.pos(v.Decl), "flag set per required source", "no per-source initialisation of the missing-source flag found")
			}
		}
	}
	// ------------------------------------------------------------------ R7
	if cp != nil {
		ok := false
		for _, c := range cp.CallsNamed("NewCreatePrice") {
			if cp.factsOf(c).call("checkTimestamp", true, nil) {
				ok = true
			}
		}
		okG := true
		for _, c := range cp.CallsNamed("GetAggregatorContext") {
			if !cp.factsOf(c).call("checkTimestamp", true, nil) {
				okG = false
			}
		}
		r.check(ok && okG, "C13.R7", "timestamp|before-aggregation", cp.pos(cp.Decl), "a message with a bad timestamp reaches no aggregation state", "NewCreatePrice / GetAggregatorContext are not dominated by checkTimestamp(ctx, msg) == nil")
	}
	if v := w.View(ok4, "checkTimestamp"); v == nil {
		r.bad("C13.R7", "anchor|checkTimestamp", "-", "anchor", "not found")
	} else {
		r.saw(v.ID())
		msgP := paramName(v, 1)
		blockTimeChain := func(e ast.Expr) bool {
			// e resolves to ctx.BlockTime() optionally followed by .UTC()
			for _, d := range v.resolveDefs(e, 0) {
				cur := stripParens(d)
				okChain := false
				for {
					c, isC := cur.(*ast.CallExpr)
					if !isC {
						break
					}
					sel, isSel := c.Fun.(*ast.SelectorExpr)
					if !isSel {
						break
					}
					if sel.Sel.Name == "BlockTime" && len(c.Args) == 0 {
						okChain = true
						break
					}
					if sel.Sel.Name != "UTC" || len(c.Args) != 0 {
						break
					}
					cur = stripParens(sel.X)
				}
				if !okChain {
					return false
				}
			}
			return true
		}
		okCmp, okEmpty, okParse, okLoops, okConst := false, false, false, false, false
		ast.Inspect(v.Decl.Body, func(n ast.Node) bool {
			in, isLoop := n.(*ast.RangeStmt)
			if !isLoop {
				return true
			}
			out, _ := v.innermostLoop(in).(*ast.RangeStmt)
			if out == nil || exprString(out.X) != msgP+".Prices" || lastField(in.X) != "Prices" || v.objOf(rootIdent(in.X)) != v.objOf(out.Value) || v.nestedConditionally(out, v.Decl.Body) || v.nestedConditionally(in, out.Body) {
				return true
			}
			okLoops = true
			okCmp = v.rejectsWhen(in.Body, func(f Fact) bool {
				c, isC := factCmp(f)
				if !isC {
					return false
				}
				if !resolvesToCallV(v, c.L, "ParseInLocation") {
					c = cmp{c.R, c.L, flipOp(c.Op)}
				}
				// t > now.Add(maxFutureOffset)
				if c.Op != ">" || !resolvesToCallV(v, c.L, "ParseInLocation") {
					return false
				}
				recv, nm, args, ok := methodCall(c.R)
				if !ok || nm != "Add" || len(args) != 1 || !blockTimeChain(recv) {
					return false
				}
				if cv := v.constOf(args[0]); cv != nil && cv.ExactString() == "5000000000" {
					okConst = true
				}
				return true
			}, nil)
			okEmpty = v.rejectsWhen(in.Body, func(f Fact) bool {
				c, isC := factCmp(f)
				return isC && c.Op == "==" && strings.HasPrefix(exprString(c.L), "len(") && exprString(c.R) == "0"
			}, nil)
			okParse = v.rejectsWhen(in.Body, func(f Fact) bool {
				o := v.outcome(f)
				return o != nil && o.Callee.Name() == "ParseInLocation" && !o.Success
			}, nil)
			return true
		})
		r.check(okLoops, "C13.R7", "timestamp|every-price", v.pos(v.Decl), "every price of every source is checked", "the timestamp check does not run for every price of every source (no unconditional loop over msg.Prices and each source's Prices)")
		if okLoops {
			r.check(okCmp, "C13.R7", "timestamp|later-than-block-time-plus-offset", v.pos(v.Decl), "a price timestamp later than (unrounded) block time + offset is rejected", "checkTimestamp does not reject every t > ctx.BlockTime()[.UTC()].Add(maxFutureOffset) with t parsed from the price and the block time taken as is (not rounded or shifted)")
			if okCmp {
				r.check(okConst, "C13.R7", "timestamp|five-seconds", v.pos(v.Decl), "the offset is five seconds", "the future offset is not the constant 5 s")
			}
			r.check(okEmpty && okParse, "C13.R7", "timestamp|malformed", v.pos(v.Decl), "empty or unparseable timestamps are rejected", "checkTimestamp accepts an empty or unparseable timestamp")
		}
		okTs := false
		for _, c := range v.CallsNamed("ParseInLocation") {
			if len(c.Args) == 3 {
				for _, d := range v.resolveDefs(c.Args[1], 0) {
					if lastField(d) == "Timestamp" {
						okTs = true
					}
				}
			}
		}
		r.check(okTs, "C13.R7", "timestamp|of-the-price", v.pos(v.Decl), "the parsed value is the price's timestamp", "ParseInLocation is not applied to price.Timestamp")
	}
}

// resolvesToMethod: e is (an alias of a result of) a call of the method `name`.
func resolvesToMethod(v *FnView, e ast.Expr, name string) bool {
	for _, d := range v.resolveDefs(e, 0) {
		if _, nm, _, ok := methodCall(d); ok && nm == name {
			return true
		}
	}
	return false
}

func resolvesToCallV(v *FnView, e ast.Expr, name string) bool {
	for _, d := range v.resolveDefs(e, 0) {
		if c, ok := stripParens(d).(*ast.CallExpr); ok && v.calleeName(c) == name {
			return true
		}
	}
	return false
}

// rootExpr: x of x.f (one selector stripped).
func rootExpr(e ast.Expr) ast.Expr {
	if sel, ok := stripParens(e).(*ast.SelectorExpr); ok {
		return sel.X
	}
	return e
}

func returnsFalseErr(v *FnView, b *ast.BlockStmt) bool {
	if len(b.List) == 0 {
		return false
	}
	rs, ok := b.List[len(b.List)-1].(*ast.ReturnStmt)
	return ok && len(rs.Results) == 2 && exprString(rs.Results[0]) == "false" && returnsErr(v, rs)
}

func exprString0(rs *ast.ReturnStmt) string {
	var parts []string
	for _, x := range rs.Results {
		parts = append(parts, exprString(x))
	}
	return "return " + strings.Join(parts, ", ")
}

// callAny: some fact is about a call of name (any outcome).
func (s fset) callAny(name string) bool {
	for _, f := range s.fs {
		if o := s.v.outcome(f); o != nil && o.Callee.Name() == name {
			return true
		}
	}
	return false
}

// rejectsWhen: within scope there is an error return that is taken whenever the
// fact accepted by pred holds -- i.e. its path condition consists of that fact
// alone, apart from facts accepted by `allowed` and apart from earlier exits that
// are rejections themselves. An added conjunct (`i > 0 && …`), an enclosing
// condition or an earlier `continue` makes the rejection partial and fails.
func (v *FnView) rejectsWhen(scope ast.Node, pred0 func(Fact) bool, allowed0 func(Fact) bool) bool {
	// a fact counts as matching if it, its mirrored comparison, or the condition a boolean alias stands for matches
	expand := func(f Fact) []Fact { return mirrorFacts(v.expandBoolAliases([]Fact{f})) }
	pred := func(f Fact) bool {
		for _, e := range expand(f) {
			if pred0(e) {
				return true
			}
		}
		return false
	}
	var allowed func(Fact) bool
	if allowed0 != nil {
		allowed = func(f Fact) bool {
			for _, e := range expand(f) {
				if allowed0(e) {
					return true
				}
			}
			return false
		}
	}
	found := false
	ast.Inspect(scope, func(n ast.Node) bool {
		if _, isLit := n.(*ast.FuncLit); isLit {
			return false
		}
		rs, ok := n.(*ast.ReturnStmt)
		if !ok || !returnsErr(v, rs) || found {
			return true
		}
		matched, extra := false, false
		contains := map[ast.Node]bool{}
		child := ast.Node(rs)
		for p := v.parent(rs); p != nil && child != scope; child, p = p, v.parent(p) {
			switch x := p.(type) {
			case *ast.IfStmt:
				contains[x] = true
				truth := child == ast.Node(x.Body)
				if !truth && child != ast.Node(x.Else) {
					continue // inside Init/Cond
				}
				if !truth && v.blockEndKind(x.Body) == "return" {
					continue // the other arm is a rejection itself
				}
				ds := disjuncts(x.Cond)
				if truth && len(ds) > 1 {
					m := false
					for _, d := range ds {
						var fs []Fact
						decompose(d, true, x, &fs)
						if len(fs) == 1 && pred(fs[0]) {
							m = true
						}
					}
					if m {
						matched = true
					} else {
						extra = true
					}
					continue
				}
				var fs []Fact
				decompose(x.Cond, truth, x, &fs)
				if len(fs) == 0 {
					extra = true
				}
				// a conjunct that yields no fact (a parenthesised disjunction, say) still narrows the rejection
				if truth && len(fs) < len(conjuncts(x.Cond)) {
					extra = true
				}
				for _, f := range fs {
					switch {
					case pred(f):
						matched = true
					case allowed != nil && allowed(f):
					default:
						extra = true
					}
				}
			case *ast.CaseClause, *ast.CommClause:
				if p != scope {
					extra = true
				}
			}
		}
		if !matched || extra {
			return true
		}
		// earlier exits in scope that are not rejections restrict the rejection
		for _, f := range v.factsAt(rs, false) {
			ifs, isIf := f.At.(*ast.IfStmt)
			if !isIf || contains[ifs] || ifs.Pos() < scope.Pos() || ifs.End() > scope.End() {
				continue
			}
			if pred(f) || (allowed != nil && allowed(f)) {
				continue
			}
			if v.blockEndKind(ifs.Body) != "return" && v.blockEndKind(ifs.Body) != "panic" {
				extra = true
			}
		}
		if !extra {
			found = true
		}
		return true
	})
	return found
}

func factIsNotSimulate(f Fact) bool {
	id, ok := stripParens(f.Atom).(*ast.Ident)
	return ok && id.Name == "simulate" && !f.Truth
}
