package main

import (
	"fmt"
	"go/ast"
	"go/constant"
	"go/types"
	"strings"
)

func init() { register("C16", runC16) }

// dogfoodFam resolves a byte constant of x/dogfood/types to its family id.
func dogfoodFam(w *World, constName string) string {
	p := w.Pkg("x/dogfood/types")
	if p == nil {
		return ""
	}
	c, _ := p.Types.Scope().Lookup(constName).(*types.Const)
	if c == nil {
		return ""
	}
	v, ok := constant.Int64Val(c.Val())
	if !ok {
		return ""
	}
	return fmt.Sprintf("dogfood:0x%02x", v)
}

type effCall struct {
	c    *ast.CallExpr
	effs map[string]bool
}

// effCalls lists the calls of a function with their R/W/D/I effects.
func (v *FnView) effCalls(node ast.Node) []effCall {
	var out []effCall
	for _, c := range allCalls(node) {
		es := v.callEffects(c, "RWDI")
		if len(es) == 0 {
			continue
		}
		m := map[string]bool{}
		for _, e := range es {
			m[e] = true
		}
		out = append(out, effCall{c, m})
	}
	return out
}

// argIsParamNamed: call has an argument that is exactly the function parameter obj.
func (v *FnView) hasArgObj(c *ast.CallExpr, obj types.Object) bool { return v.argIsObj(c, obj) }

// nestedConditionally: n lies under an if/for/switch nested inside root (i.e.
// it does not execute on every pass through root's statement list).
func (v *FnView) nestedConditionally(n ast.Node, root ast.Node) bool {
	for p := v.parent(n); p != nil && p != root; p = v.parent(p) {
		switch p.(type) {
		case *ast.IfStmt, *ast.ForStmt, *ast.RangeStmt, *ast.SwitchStmt, *ast.CaseClause, *ast.FuncLit:
			return true
		}
	}
	return false
}

func runC16(r *Run) {
	w := r.W
	r.Explain = "Static decision of structural necessary conditions of C16 (epoch-scheduled unbonding queues): per queue (opt-outs, key prunings, undelegation holds) - the per-epoch append reads and writes its own family at the same epoch; the epoch hook promotes exactly the ended epoch's list to the pending list and clears it, unconditionally, under the identifier test; EndBlock applies and clears every pending list under the epoch-end marker; every scheduling site writes the reverse lookup and the hold with the same key and epoch; the completion epoch is current + EpochsUntilUnbonded; the hold decision exits early exactly for 'no key' and 'not in the validator set' and uses the opt-out's finish epoch on the opting-out arm."
	r.NotDec = []string{"timing under parameter changes and chain downtime as a temporal statement", "what happens to entries registered for an epoch that already ended"}
	r.Assume = []string{"effect summaries identify which queue family a helper touches; key families are resolved from the SSA"}
	r.rule("C16.R1", "queue family agreement: codec and key-constructor agreement of every dogfood family; each per-epoch append reads its own queue family and no other queue/pending family", 20)
	r.rule("C16.R2", "promote-then-clear: in the dogfood epoch hook, under the identifier equality, for each queue: Get(epoch) -> SetPending(that list) -> Clear(epoch), each unconditional and in this order; the epoch-end marker is set on that arm", 7)
	r.rule("C16.R3", "apply-then-clear: dogfood EndBlock, under the epoch-end marker, reads each pending list, applies each element, then deletes the list unconditionally; the marker is cleared (deferred)", 5)
	r.rule("C16.R4", "schedule pairing: every live scheduling site writes queue + reverse lookup (+ hold) with the same key and epoch", 2)
	r.rule("C16.R5", "completion epoch = CurrentEpoch(of the dogfood identifier) + EpochsUntilUnbonded", 1)
	r.rule("C16.R6", "hold decision: the maturity epoch is the opt-out finish epoch iff the operator is removing its key, else the default completion epoch; early exits (no hold) happen exactly for 'no key set', 'neither current nor previous key in the validator set' and 'opt-out finished in this block'; an absent finish epoch never becomes a queue key", 4)

	dog := map[string]bool{"dogfood": true}
	codecAgreementRule(r, "C16.R1", dog)
	keyCtorAgreementRule(r, "C16.R1", dog)

	type queue struct{ name, qConst, pConst, q, p string }
	queues := []*queue{
		{name: "opt-outs", qConst: "OptOutsToFinishBytePrefix", pConst: "PendingOptOutsByte"},
		{name: "key-prunings", qConst: "ConsensusAddrsToPruneBytePrefix", pConst: "PendingConsensusAddrsByte"},
		{name: "undelegation-holds", qConst: "UnbondingReleaseMaturityBytePrefix", pConst: "PendingUndelegationsByte"},
	}
	allQ := map[string]bool{}
	for _, q := range queues {
		q.q, q.p = dogfoodFam(w, q.qConst), dogfoodFam(w, q.pConst)
		if q.q == "" || q.p == "" {
			r.bad("C16.R1", "anchor|"+q.name, "-", "queue constants", "constants "+q.qConst+"/"+q.pConst+" not found in x/dogfood/types")
			return
		}
		allQ[q.q], allQ[q.p] = true, true
	}
	e := effects(w)
	// R1: append closure. An "append" function = a dogfood keeper function whose summary writes q and reads q,
	// and that is not the raw setter (it has a callee that writes q).
	dk := w.Pkg("x/dogfood/keeper")
	appendFns := map[string][]*FnView{}
	for _, f := range dk.Syntax {
		for _, d := range f.Decls {
			fd, ok := d.(*ast.FuncDecl)
			if !ok || fd.Body == nil || !inScopeFile(w.relFile(fd.Pos())) {
				continue
			}
			obj, _ := dk.TypesInfo.Defs[fd.Name].(*types.Func)
			v := w.ViewOf(obj)
			sf := w.Prog.FuncValue(obj)
			if v == nil || sf == nil {
				continue
			}
			for _, q := range queues {
				if !e.Sum[sf]["W "+q.q] || len(e.Direct[sf]) > 0 {
					continue
				}
				// exactly the append shape: calls a reader and a writer of q, nothing else effectful
				ecs := v.effCalls(fd.Body)
				if len(ecs) != 2 {
					continue
				}
				appendFns[q.q] = append(appendFns[q.q], v)
				var readsOther []string
				readsOwn := false
				for _, ec := range ecs {
					for k := range ec.effs {
						if k[0] == 'R' && allQ[k[2:]] {
							if k[2:] == q.q {
								readsOwn = true
							} else {
								readsOther = append(readsOther, k)
							}
						}
					}
				}
				r.saw(v.ID())
				r.check(readsOwn && len(readsOther) == 0, "C16.R1", "append|"+q.name+"|"+obj.Name(), v.pos(fd), "append to the "+q.name+" queue extends the list stored for that epoch",
					fmt.Sprintf("the append reads %v instead of (only) its own queue family %s: entries already queued for the epoch are overwritten", readsOther, q.q))
				// same epoch argument to reader and writer
				var epochParam types.Object
				for _, fl := range fd.Type.Params.List {
					for _, n := range fl.Names {
						if b, ok := v.Info.TypeOf(fl.Type).Underlying().(*types.Basic); ok && b.Kind() == types.Int64 {
							epochParam = v.Info.ObjectOf(n)
						}
					}
				}
				same := epochParam != nil
				for _, ec := range ecs {
					if !v.hasArgObj(ec.c, epochParam) {
						same = false
					}
				}
				r.check(same, "C16.R1", "append-epoch|"+q.name+"|"+obj.Name(), v.pos(fd), "read and write use the caller's epoch", "the append does not read and write at the same epoch parameter")
			}
		}
	}
	for _, q := range queues {
		if len(appendFns[q.q]) == 0 {
			r.bad("C16.R1", "append|"+q.name, "-", "append function present", "no read-extend-write function found for queue "+q.q)
		}
	}

	// R2
	hook := w.View("x/dogfood/keeper", "EpochsHooksWrapper.AfterEpochEnd")
	if hook != nil {
		// every end of a dogfood epoch promotes its queues: once the identifier matched, nothing returns
		// before the last SetPending… (an "it is too early for anything to mature" shortcut strands the
		// entries of an epoch when the unbonding parameter changes)
		var lastPromote ast.Node
		for _, c := range hook.CallsNamed("SetPendingOptOuts", "SetPendingConsensusAddrs", "SetPendingUndelegations") {
			if lastPromote == nil || c.Pos() > lastPromote.Pos() {
				lastPromote = c
			}
		}
		var early []string
		if lastPromote != nil {
			ast.Inspect(hook.Decl.Body, func(n ast.Node) bool {
				if _, isLit := n.(*ast.FuncLit); isLit {
					return false
				}
				rs, isRet := n.(*ast.ReturnStmt)
				if isRet && rs.Pos() < lastPromote.Pos() {
					early = append(early, hook.pos(rs))
				}
				return true
			})
		}
		r.check(lastPromote != nil && len(early) == 0, "C16.R2", "promote|every-epoch-end", hook.pos(hook.Decl), "every end of a dogfood epoch promotes that epoch's queues (no return in front of the promotions)", "the epoch hook can return at "+strings.Join(early, ", ")+" before it promotes the epoch's queues: entries registered for that epoch are never released")
	}
	// "no opt-out in progress" is reported with a value that is not an epoch: the consumer tests `< 0`
	if gv := w.View("x/dogfood/keeper", "Keeper.GetOperatorOptOutFinishEpoch"); gv != nil {
		okSent := false
		ast.Inspect(gv.Decl.Body, func(n ast.Node) bool {
			rs, isRet := n.(*ast.ReturnStmt)
			if !isRet || len(rs.Results) != 1 {
				return true
			}
			absent := false
			for _, f := range gv.FactsAt(rs, false) {
				if c, isC := factCmp(f); isC && c.Op == "==" && isNilIdent(gv.Info, c.R) {
					absent = true
				}
			}
			if absent {
				if cv := gv.constOf(rs.Results[0]); cv != nil && constant.Sign(cv) < 0 {
					okSent = true
				}
			}
			return true
		})
		r.check(okSent, "C16.R6", "finish-epoch-absent-is-negative", gv.pos(gv.Decl), "an absent opt-out finish epoch is reported as a negative number (epochs start at 0/1, and the consumers test `< 0`)", "GetOperatorOptOutFinishEpoch does not return a negative constant when no finish epoch is stored: the hold hook takes the value for an epoch, queues the undelegation for an epoch that never ends, and the hold is never released")
	}
	if hook == nil {
		r.bad("C16.R2", "anchor", "-", "anchor", "dogfood EpochsHooksWrapper.AfterEpochEnd not found")
	} else {
		r.saw(hook.ID())
		var idParam, epochParam types.Object
		for _, fl := range hook.Decl.Type.Params.List {
			for _, n := range fl.Names {
				switch t := hook.Info.TypeOf(fl.Type).Underlying().(type) {
				case *types.Basic:
					if t.Kind() == types.String {
						idParam = hook.Info.ObjectOf(n)
					}
					if t.Kind() == types.Int64 {
						epochParam = hook.Info.ObjectOf(n)
					}
				}
			}
		}
		ecs := hook.effCalls(hook.Decl.Body)
		// the arm: the if-statement whose condition mentions the identifier parameter
		var arm *ast.IfStmt
		ast.Inspect(hook.Decl.Body, func(n ast.Node) bool {
			if ifs, ok := n.(*ast.IfStmt); ok && arm == nil && hook.usesObj(ifs.Cond, idParam) {
				arm = ifs
			}
			return true
		})
		armOK := false
		if arm != nil {
			s := exprString(arm.Cond)
			armOK = strings.Contains(s, "GetEpochIdentifier") && (strings.Contains(s, "== 0") || strings.Contains(s, "=="))
		}
		// the per-operator finish epoch is dropped when the opt-out is promoted (so that nothing can be appended to
		// a queue entry that has already been drained)
		{
			okDel := false
			for _, c := range hook.CallsNamed("DeleteOperatorOptOutFinishEpoch") {
				lp, isLoop := hook.innermostLoop(c).(*ast.RangeStmt)
				if !isLoop || len(c.Args) != 2 || hook.objOf(c.Args[1]) != hook.objOf(lp.Value) {
					continue
				}
				for _, d := range hook.resolveDefs(lp.X, 0) {
					if cc, ok := stripParens(d).(*ast.CallExpr); ok && hook.calleeName(cc) == "GetOptOutsToFinish" {
						okDel = true
					}
				}
			}
			r.check(okDel, "C16.R2", "optout|finish-epoch-dropped-at-promotion", hook.pos(hook.Decl), "when an opt-out is promoted to pending its per-operator finish epoch is deleted in the same step", "the epoch hook does not delete the finish epoch of every promoted opt-out: an undelegation in the completion block is queued under an epoch that has already been drained and is never released")
			var callers []string
			if fn := w.Fn("x/dogfood/keeper", "Keeper.DeleteOperatorOptOutFinishEpoch"); fn != nil {
				if node := w.CG.Nodes[fn]; node != nil {
					for _, in := range node.In {
						if w.fnInScope(in.Caller.Func) {
							callers = append(callers, fnName(in.Caller.Func))
						}
					}
				}
			}
			callers = uniq(callers)
			okC := len(callers) > 0
			for _, c := range callers {
				if !strings.Contains(c, "AfterEpochEnd") && !strings.HasSuffix(c, "DeleteOperatorOptOutFinishEpoch") {
					okC = false
				}
			}
			r.check(okC, "C16.R2", "optout|finish-epoch-only-dropped-at-promotion", hook.pos(hook.Decl), "the finish epoch is deleted only at promotion", "DeleteOperatorOptOutFinishEpoch is called from "+strings.Join(callers, ", "))
		}
		r.check(armOK, "C16.R2", "identifier-arm", hook.pos(hook.Decl), "promotion happens only for the dogfood epoch identifier", "no `identifier == GetEpochIdentifier(ctx)` arm found")
		if arm != nil {
			mark := dogfoodFam(w, "EpochEndByte")
			marked := false
			for _, ec := range ecs {
				if ec.effs["W "+mark] && within(ec.c, arm.Body) && !hook.nestedConditionally(ec.c, arm.Body) {
					marked = true
				}
			}
			r.check(marked, "C16.R2", "mark-epoch-end", hook.pos(arm), "the epoch-end marker is set unconditionally on the identifier arm", "MarkEpochEnd is missing or conditional on the identifier arm")
			for _, q := range queues {
				var g, s, c *ast.CallExpr
				for _, ec := range ecs {
					if !within(ec.c, arm.Body) {
						continue
					}
					switch {
					case ec.effs["R "+q.q] && !ec.effs["W "+q.q] && !ec.effs["D "+q.q]:
						g = ec.c
					case ec.effs["W "+q.p]:
						s = ec.c
					case ec.effs["D "+q.q]:
						c = ec.c
					}
				}
				key := "promote|" + q.name
				if g == nil || s == nil || c == nil {
					r.bad("C16.R2", key, hook.pos(arm), "Get/SetPending/Clear present", fmt.Sprintf("missing step for queue %s: get=%v setPending=%v clear=%v", q.q, g != nil, s != nil, c != nil))
					continue
				}
				var problems []string
				if !(g.Pos() < s.Pos() && s.Pos() < c.Pos()) {
					problems = append(problems, "order is not Get -> SetPending -> Clear")
				}
				for name, call := range map[string]*ast.CallExpr{"SetPending": s, "Clear": c, "Get": g} {
					if hook.nestedConditionally(call, arm.Body) {
						problems = append(problems, name+" is conditional (a stale pending list or an uncleared queue survives)")
					}
				}
				if !hook.hasArgObj(g, epochParam) || !hook.hasArgObj(c, epochParam) {
					problems = append(problems, "Get/Clear do not use the ended epoch parameter unchanged")
				}
				// the list handed to SetPending is Get's result
				okList := false
				if as, ok := hook.parent(g).(*ast.AssignStmt); ok && len(as.Lhs) == 1 {
					lobj := hook.objOf(as.Lhs[0])
					for _, a := range s.Args {
						if hook.usesObj(a, lobj) {
							okList = true
						}
					}
				}
				if !okList {
					problems = append(problems, "SetPending is not given the list returned by Get")
				}
				r.check(len(problems) == 0, "C16.R2", key, hook.pos(g), "queue "+q.name+": Get(epoch) -> SetPending(list) -> Clear(epoch)", strings.Join(problems, "; "))
			}
		}
	}

	// R3
	eb := w.View("x/dogfood/keeper", "Keeper.EndBlock")
	if eb == nil {
		r.bad("C16.R3", "anchor", "-", "anchor", "dogfood Keeper.EndBlock not found")
	} else {
		r.saw(eb.ID())
		ecs := eb.effCalls(eb.Decl.Body)
		mark := dogfoodFam(w, "EpochEndByte")
		for _, q := range queues {
			var g, c *ast.CallExpr
			for _, ec := range ecs {
				if ec.effs["R "+q.p] && !ec.effs["D "+q.p] && len(ec.effs) == 1 {
					g = ec.c
				}
				if ec.effs["D "+q.p] && len(ec.effs) == 1 {
					c = ec.c
				}
			}
			key := "apply|" + q.name
			if g == nil || c == nil {
				r.bad("C16.R3", key, eb.pos(eb.Decl), "GetPending/ClearPending present", fmt.Sprintf("pending list %s: read=%v clear=%v (a list that is not cleared is applied again at every later epoch end)", q.p, g != nil, c != nil))
				continue
			}
			var problems []string
			if eb.GuardedBy(g, byName("IsEpochEnd"), true) == nil || eb.GuardedBy(c, byName("IsEpochEnd"), true) == nil {
				problems = append(problems, "not under the epoch-end marker")
			}
			if eb.nestedConditionally(c, eb.Decl.Body) {
				problems = append(problems, "the clear is conditional")
			}
			if !(g.Pos() < c.Pos()) {
				problems = append(problems, "cleared before read")
			}
			// a loop over the list between read and clear with an effectful body
			loopOK := false
			ast.Inspect(eb.Decl.Body, func(n ast.Node) bool {
				rs, ok := n.(*ast.RangeStmt)
				if !ok || rs.Pos() < g.End() || rs.Pos() > c.Pos() {
					return true
				}
				if as, ok := eb.parent(g).(*ast.AssignStmt); ok && len(as.Lhs) == 1 && eb.usesObj(rs.X, eb.objOf(as.Lhs[0])) {
					for _, bc := range allCalls(rs.Body) {
						if eb.callWrites(bc) {
							loopOK = true
						}
					}
				}
				return true
			})
			if !loopOK {
				problems = append(problems, "no loop applying each element between read and clear")
			}
			// nothing but the epoch-end gate can leave EndBlock before the list is applied: an earlier bail-out
			// (e.g. on a vote-power error) would leave the pending list to be overwritten at the next epoch end
			ast.Inspect(eb.Decl.Body, func(n ast.Node) bool {
				if _, isLit := n.(*ast.FuncLit); isLit {
					return false
				}
				rs, ok := n.(*ast.ReturnStmt)
				if !ok || rs.Pos() > c.Pos() {
					return true
				}
				gate := false
				for _, f := range eb.FactsAt(rs, false) {
					if o := eb.outcome(f); o != nil && o.Callee.Name() == "IsEpochEnd" && !o.Success {
						gate = true
					}
				}
				if !gate {
					problems = append(problems, "EndBlock can return at "+eb.pos(rs)+" before the list is applied and cleared")
				}
				return true
			})
			r.check(len(problems) == 0, "C16.R3", key, eb.pos(g), "pending "+q.name+": read -> apply each -> clear", strings.Join(problems, "; "))
		}
		// marker cleared
		cleared := false
		for _, ec := range ecs {
			if ec.effs["D "+mark] {
				cleared = true
			}
		}
		r.check(cleared, "C16.R3", "clear-epoch-end", eb.pos(eb.Decl), "the epoch-end marker is cleared by EndBlock", "EndBlock never clears the epoch-end marker")
		// hold release: decrement + reverse-lookup clear in the undelegation loop
		dec, clr := false, false
		matFam := dogfoodFam(w, "UndelegationMaturityEpochByte")
		for _, ec := range ecs {
			if ec.effs["W delegation:0x06"] {
				dec = true
			}
			if ec.effs["D "+matFam] {
				clr = true
			}
		}
		r.check(dec && clr, "C16.R3", "hold-release", eb.pos(eb.Decl), "a matured hold is decremented and its reverse lookup cleared", "EndBlock does not both decrement the hold count and clear the maturity-epoch lookup")
	}

	// R4: schedule pairing at live call sites of the append functions
	live := entryReachable(w)
	matFam := dogfoodFam(w, "UndelegationMaturityEpochByte")
	finFam := dogfoodFam(w, "OperatorOptOutFinishEpochBytePrefix")
	nPair := 0
	for fo := range live {
		v := w.ViewOf(fo)
		if v == nil || !strings.HasPrefix(funcID(fo), "x/dogfood/keeper") {
			continue
		}
		ecs := v.effCalls(v.Decl.Body)
		for _, ec := range ecs {
			tgt := v.callee(ec.c)
			if tgt == nil {
				continue
			}
			for _, q := range []*queue{queues[0], queues[2]} {
				isAppend := false
				for _, av := range appendFns[q.q] {
					if av.Obj == tgt {
						isAppend = true
					}
				}
				if !isAppend {
					continue
				}
				nPair++
				partner := finFam
				if q == queues[2] {
					partner = matFam
				}
				var problems []string
				var pc *ast.CallExpr
				for _, o := range ecs {
					if o.effs["W "+partner] && len(o.effs) == 1 {
						pc = o.c
					}
				}
				if pc == nil {
					problems = append(problems, "no reverse-lookup write ("+partner+") next to the queue append")
				} else {
					// same epoch and same key arguments (as expressions)
					args := map[string]bool{}
					for _, a := range ec.c.Args[1:] {
						args[exprString(a)] = true
					}
					for _, a := range pc.Args[1:] {
						if !args[exprString(a)] {
							problems = append(problems, "reverse lookup is written with a different key/epoch ("+exprString(a)+")")
						}
					}
				}
				if q == queues[2] {
					hold := false
					for _, o := range ecs {
						if o.effs["W delegation:0x06"] && len(ec.c.Args) >= 3 && len(o.c.Args) >= 2 && exprString(o.c.Args[len(o.c.Args)-1]) == exprString(ec.c.Args[2]) {
							hold = true
						}
					}
					if !hold {
						problems = append(problems, "no IncrementUndelegationHoldCount on the same record key")
					}
				}
				r.check(len(problems) == 0, "C16.R4", "pairing|"+q.name+"|"+funcID(fo), v.pos(ec.c), "scheduling of "+q.name+" writes queue, reverse lookup and hold consistently", strings.Join(problems, "; "))
			}
		}
	}
	if nPair == 0 {
		r.bad("C16.R4", "pairing|none", "-", "scheduling sites found", "no live call site of a queue append was found")
	}

	// R5
	if v := w.View("x/dogfood/keeper", "Keeper.GetUnbondingCompletionEpoch"); v == nil {
		r.bad("C16.R5", "anchor", "-", "anchor", "GetUnbondingCompletionEpoch not found")
	} else {
		r.saw(v.ID())
		ok := false
		ast.Inspect(v.Decl.Body, func(n ast.Node) bool {
			rs, isRet := n.(*ast.ReturnStmt)
			if !isRet || len(rs.Results) != 1 {
				return true
			}
			if be, isBin := stripParens(rs.Results[0]).(*ast.BinaryExpr); isBin && be.Op.String() == "+" {
				s := exprString(be.X) + "|" + exprString(be.Y)
				if strings.Contains(s, "CurrentEpoch") && strings.Contains(s, "EpochsUntilUnbonded") && !strings.Contains(s, " - ") && !strings.Contains(s, "+ 1") && !strings.Contains(s, "- 1") {
					ok = true
				}
			}
			return true
		})
		idOK := false
		for _, c := range v.CallsNamed("GetEpochInfo") {
			if len(c.Args) == 2 && strings.HasSuffix(exprString(c.Args[1]), "EpochIdentifier") {
				idOK = true
			}
		}
		r.check(ok && idOK, "C16.R5", "completion-epoch", v.pos(v.Decl), "completion epoch = CurrentEpoch + EpochsUntilUnbonded of the dogfood identifier", "GetUnbondingCompletionEpoch does not return epochInfo.CurrentEpoch + EpochsUntilUnbonded for params.EpochIdentifier")
	}

	// R6
	if v := w.View("x/dogfood/keeper", "DelegationHooksWrapper.AfterUndelegationStarted"); v == nil {
		r.bad("C16.R6", "anchor", "-", "anchor", "AfterUndelegationStarted not found")
	} else {
		r.saw(v.ID())
		var epochVar types.Object
		for _, av := range appendFns[queues[2].q] {
			for _, c := range v.Calls(v.Decl.Body, func(f *types.Func) bool { return f == av.Obj }) {
				if len(c.Args) >= 2 {
					epochVar = v.objOf(c.Args[1])
				}
			}
		}
		if epochVar == nil {
			r.bad("C16.R6", "epoch-variable", v.pos(v.Decl), "maturity epoch variable", "the maturity epoch handed to the queue append is not a plain variable")
		} else {
			// every assignment to the variable
			nOpt, nDef, nOther := 0, 0, 0
			ast.Inspect(v.Decl.Body, func(n ast.Node) bool {
				as, ok := n.(*ast.AssignStmt)
				if !ok {
					return true
				}
				for i, l := range as.Lhs {
					if v.objOf(l) != epochVar || i >= len(as.Rhs) {
						continue
					}
					c, isCall := stripParens(as.Rhs[i]).(*ast.CallExpr)
					removing := v.GuardedBy(as, byName("IsOperatorRemovingKeyFromChainID"), true) != nil
					notRemoving := v.GuardedBy(as, byName("IsOperatorRemovingKeyFromChainID"), false) != nil
					switch {
					case isCall && v.calleeName(c) == "GetOperatorOptOutFinishEpoch" && removing:
						nOpt++
					case isCall && v.calleeName(c) == "GetUnbondingCompletionEpoch" && notRemoving:
						nDef++
					default:
						nOther++
					}
				}
				return true
			})
			r.check(nOpt == 1 && nDef == 1 && nOther == 0, "C16.R6", "maturity-epoch", v.pos(v.Decl), "maturity = opt-out finish epoch when removing the key, default completion epoch otherwise",
				fmt.Sprintf("assignments to the maturity epoch: %d from the opt-out finish epoch under 'removing', %d from the default under 'not removing', %d others (any other assignment lets a hold mature apart from the opt-out)", nOpt, nDef, nOther))
		}
		// early exits
		var bad []string
		nExit, nFinishing := 0, 0
		ast.Inspect(v.Decl.Body, func(n ast.Node) bool {
			rs, ok := n.(*ast.ReturnStmt)
			if !ok || len(rs.Results) != 1 || !isNilIdent(v.Info, rs.Results[0]) {
				return true
			}
			nExit++
			okExit := false
			for _, f := range v.FactsAt(rs, false) {
				if o := v.outcome(f); o != nil && o.Callee.Name() == "GetOperatorConsKeyForChainID" && !o.Success && o.Result == 0 {
					okExit = true
				}
				if id, isId := stripParens(f.Atom).(*ast.Ident); isId && !f.Truth && strings.Contains(strings.ToLower(id.Name), "validator") {
					okExit = true
				}
				// the opt-out is being finished in this very block: removing, and its finish epoch is gone (< 0)
				if c, isC := factCmp(f); isC && c.Op == "<" && exprString(c.R) == "0" && resolvesToCallV(v, c.L, "GetOperatorOptOutFinishEpoch") &&
					v.GuardedBy(rs, byName("IsOperatorRemovingKeyFromChainID"), true) != nil {
					okExit = true
					nFinishing++
				}
			}
			if !okExit {
				bad = append(bad, v.pos(rs))
			}
			return true
		})
		r.check(len(bad) == 0 && nExit-nFinishing == 2, "C16.R6", "early-exits", v.pos(v.Decl), "no hold exactly for 'no key set', 'not in the validator set' and 'the opt-out is finished in this block'", fmt.Sprintf("%d nil-returning exits, unexplained at %v", nExit, bad))
		// a finish epoch of -1 ("none") never reaches the maturity queue: its key constructor fails on a negative
		// epoch and the store write panics, which rejects the undelegation (C03: always accepted)
		okNeg := false
		for _, c := range v.CallsNamed("AppendUndelegationToMature") {
			if len(c.Args) != 3 {
				continue
			}
			epochFromOptOut := false
			for _, d := range v.defsOf(v.objOf(c.Args[1])) {
				if dc, isC := stripParens(d).(*ast.CallExpr); isC && v.calleeName(dc) == "GetOperatorOptOutFinishEpoch" {
					epochFromOptOut = true
				}
			}
			if !epochFromOptOut {
				okNeg = true
				continue
			}
			okNeg = nFinishing >= 1
		}
		r.check(okNeg, "C16.R6", "finish-epoch-present", v.pos(v.Decl), "an absent opt-out finish epoch (-1) is handled before the epoch is used as a queue key", "AfterUndelegationStarted hands GetOperatorOptOutFinishEpoch's result to the maturity queue without testing it for 'absent' (< 0): in the block that finishes the opt-out the key constructor fails and the undelegation is rejected with a panic")
		// isValidator derives from GetExocoreValidator on current and previous key
		nVal := len(v.CallsNamed("GetExocoreValidator"))
		prev := len(v.CallsNamed("GetOperatorPrevConsKeyForChainID"))
		r.check(nVal >= 2 && prev >= 1, "C16.R6", "membership", v.pos(v.Decl), "validator-set membership is tested for the current and the previous key", "the hold decision no longer checks both the current and the previous key against the validator set")
	}
}
