package main

import (
	"fmt"
	"go/ast"
	"go/token"
	"go/types"
	"sort"
	"strings"

	"golang.org/x/tools/go/ssa"
)

func init() { register("C08", runC08) }

// consensusReachable: repo source functions reachable from anything that runs as
// part of block execution or genesis initialisation (CheckTx-only code included,
// because the ante chain is shared).
var consensusReachCache map[*types.Func]string

func consensusReachable(w *World) map[*types.Func]string {
	if consensusReachCache != nil {
		return consensusReachCache
	}
	cat := catalogue(w)
	roots := cat.Fns("beginblock", "endblock", "epochhook", "delegationhook", "operatorhook", "dogfoodhook", "msg", "ante", "precompile", "sdkcallback", "initgenesis")
	parent := w.Reach(roots, func(f *ssa.Function) bool { return !w.fnInScope(f) && f.Pkg != nil })
	out := map[*types.Func]string{}
	for f := range parent {
		if !w.fnInScope(f) {
			continue
		}
		root := f
		for root.Parent() != nil {
			root = root.Parent()
		}
		if fo, ok := root.Object().(*types.Func); ok && w.declOf[fo] != nil {
			if _, seen := out[fo]; !seen {
				out[fo] = pathTo(parent, f)
			}
		}
	}
	consensusReachCache = out
	return out
}

// mapRange describes one `for k, v := range m` over a Go map.
type mapRange struct {
	V     *FnView
	Loop  *ast.RangeStmt
	Class string   // "commutative" or "order-sensitive"
	Why   []string // per construct: what was seen and how it was judged
	Bad   []string // order-sensitive constructs
}

func isMapType(t types.Type) bool {
	if t == nil {
		return false
	}
	_, ok := t.Underlying().(*types.Map)
	return ok
}

func isNumericExact(t types.Type) bool {
	if t == nil {
		return false
	}
	if b, ok := t.Underlying().(*types.Basic); ok {
		return b.Info()&types.IsInteger != 0
	}
	return false
}

func isFloat(t types.Type) bool {
	if t == nil {
		return false
	}
	if b, ok := t.Underlying().(*types.Basic); ok {
		return b.Info()&types.IsFloat != 0
	}
	return false
}

// exactNumericNamed: arbitrary-precision / fixed-point types whose Add is exact,
// hence commutative and associative.
func exactNumericNamed(t types.Type) bool {
	if t == nil {
		return false
	}
	if p, ok := t.(*types.Pointer); ok {
		t = p.Elem()
	}
	nt, ok := t.(*types.Named)
	if !ok || nt.Obj().Pkg() == nil {
		return false
	}
	full := nt.Obj().Pkg().Path() + "." + nt.Obj().Name()
	switch full {
	case "math/big.Int", "cosmossdk.io/math.Int", "cosmossdk.io/math.LegacyDec", "cosmossdk.io/math.Uint",
		"github.com/cosmos/cosmos-sdk/types.Coins", "github.com/cosmos/cosmos-sdk/types.DecCoins", "github.com/cosmos/cosmos-sdk/types.Coin", "github.com/cosmos/cosmos-sdk/types.DecCoin":
		return true
	}
	return false
}

// declaredOutside: obj is declared outside node n (and is a local variable or a named result/param).
func declaredOutside(obj types.Object, n ast.Node) bool {
	return obj != nil && (obj.Pos() < n.Pos() || obj.Pos() > n.End())
}

// orderCtx carries the interprocedural state of the order analysis.
type orderCtx struct {
	w *World
	// functions found to return a slice built in map order: func -> result indices
	producers map[*types.Func]map[int]bool
}

var c08Quiet = map[string]bool{"Info": true, "Error": true, "Debug": true, "Warn": true, "Logger": true, "EmitEvent": true, "EmitEvents": true, "EmitTypedEvent": true, "With": true,
	"Sprintf": true, "Errorf": true, "Wrap": true, "Wrapf": true, "String": true, "New": true}

// derivesFromIter: e mentions the loop's key/value, directly or through local
// variables defined (transitively) from them inside the loop body.
func (v *FnView) derivesFromIter(e ast.Node, roots map[types.Object]bool, within ast.Node, depth int) bool {
	hit := false
	ast.Inspect(e, func(n ast.Node) bool {
		if hit {
			return false
		}
		id, ok := n.(*ast.Ident)
		if !ok {
			return true
		}
		o := v.Info.ObjectOf(id)
		if o == nil {
			return true
		}
		if roots[o] {
			hit = true
			return false
		}
		if depth < 5 && !declaredOutside(o, within) {
			if _, isVar := o.(*types.Var); isVar {
				for _, d := range v.defsOf(o) {
					if d != e && v.derivesFromIter(d, roots, within, depth+1) {
						hit = true
						return false
					}
				}
				// range variables of inner loops: derived if the ranged expression is
				ast.Inspect(within, func(m ast.Node) bool {
					if rs, ok := m.(*ast.RangeStmt); ok && !hit {
						if (rs.Key != nil && v.objOf(rs.Key) == o) || (rs.Value != nil && v.objOf(rs.Value) == o) {
							if v.derivesFromIter(rs.X, roots, within, depth+1) {
								hit = true
							}
						}
					}
					return !hit
				})
			}
		}
		return !hit
	})
	return hit
}

// sameExpr: two expressions render identically.
func sameExpr(a, b ast.Expr) bool { return exprString(a) == exprString(b) }

// addChainOn: rhs is lhs.Add(..).Add(..) / lhs.Sub(..) (exact, unclamped arithmetic) or new(big.Int).Add(lhs, y).
func (v *FnView) addChainOn(lhs, rhs ast.Expr) bool {
	cur := stripParens(rhs)
	n := 0
	for {
		recv, nm, args, ok := methodCall(cur)
		if !ok || (nm != "Add" && nm != "Sub") {
			break
		}
		if len(args) == 2 && (sameExpr(args[0], lhs) || sameExpr(args[1], lhs)) && exactNumericNamed(v.Info.TypeOf(lhs)) {
			return true // z.Add(lhs, y)
		}
		n++
		cur = stripParens(recv)
	}
	return n > 0 && sameExpr(cur, lhs) && exactNumericNamed(v.Info.TypeOf(lhs))
}

// diagnosticOnly: every use of obj outside `skip` is len(obj), its own concatenation, or an
// argument of an error-text / logging call.
func (v *FnView) diagnosticOnly(obj types.Object) bool {
	ok := true
	ast.Inspect(v.Decl.Body, func(n ast.Node) bool {
		id, isID := n.(*ast.Ident)
		if !isID || v.Info.ObjectOf(id) != obj || !ok {
			return true
		}
		// walk up to the nearest call / assignment
		for p := v.parent(id); p != nil; p = v.parent(p) {
			switch x := p.(type) {
			case *ast.CallExpr:
				fn := exprString(x.Fun)
				if fn == "len" {
					return true
				}
				name := fn
				if i := strings.LastIndex(fn, "."); i >= 0 {
					name = fn[i+1:]
				}
				if c08Quiet[name] {
					return true
				}
				ok = false
				return true
			case *ast.AssignStmt:
				if len(x.Lhs) == 1 && v.objOf(x.Lhs[0]) == obj {
					return true // info = info + …  /  declaration
				}
				ok = false
				return true
			case *ast.ValueSpec:
				return true
			case *ast.BinaryExpr, *ast.ParenExpr:
				continue
			default:
				ok = false
				return true
			}
		}
		return true
	})
	return ok
}

// classifyLoop decides whether the loop's observable effect can depend on the
// iteration order. It is used for range-over-map loops and for loops over slices
// that were built in map order.
func (oc *orderCtx) classifyLoop(v *FnView, rs *ast.RangeStmt, depth int) *mapRange {
	mr := &mapRange{V: v, Loop: rs}
	roots := map[types.Object]bool{}
	if rs.Key != nil {
		if o := v.objOf(rs.Key); o != nil {
			roots[o] = true
		}
	}
	if rs.Value != nil {
		if o := v.objOf(rs.Value); o != nil {
			roots[o] = true
		}
	}
	fromIter := func(e ast.Node) bool { return v.derivesFromIter(e, roots, rs.Body, 0) }
	bad := func(n ast.Node, format string, a ...interface{}) {
		mr.Bad = append(mr.Bad, v.pos(n)+": "+fmt.Sprintf(format, a...))
	}
	ok := func(n ast.Node, format string, a ...interface{}) {
		mr.Why = append(mr.Why, v.pos(n)+": "+fmt.Sprintf(format, a...))
	}
	rangedRoot := v.objOf(rootIdent(rs.X))
	// outer variables the loop accumulates into, the variables that signal an early exit, and what the
	// exiting blocks overwrite (see partialAfterExit below)
	accum := map[types.Object]ast.Node{}
	var exits []*earlyExit
	ast.Inspect(rs.Body, func(n ast.Node) bool {
		switch x := n.(type) {
		case *ast.AssignStmt:
			for i, l := range x.Lhs {
				lhs := stripParens(l)
				if id, isID := lhs.(*ast.Ident); isID && id.Name == "_" {
					continue
				}
				if ix, isIx := lhs.(*ast.IndexExpr); isIx {
					root := v.objOf(rootIdent(ix.X))
					if root == nil || !declaredOutside(root, rs.Body) || roots[root] {
						continue
					}
					if _, seen := accum[root]; !seen {
						accum[root] = x
					}
					if isMapType(v.Info.TypeOf(ix.X)) {
						if fromIter(ix.Index) {
							ok(x, "map write %s indexed by a value derived from the iteration variables", exprString(l))
						} else {
							bad(x, "map write %s whose index does not depend on the iteration variables: the last iteration wins", exprString(l))
						}
					} else {
						bad(x, "slice/array element write %s inside an unordered iteration", exprString(l))
					}
					continue
				}
				obj := v.objOf(rootIdent(lhs))
				if obj == nil || !declaredOutside(obj, rs.Body) || roots[obj] {
					continue
				}
				if x.Tok == token.DEFINE {
					if _, isID := lhs.(*ast.Ident); isID && obj.Pos() >= rs.Body.Pos() && obj.Pos() <= rs.Body.End() {
						continue
					}
				}
				// a field of an object that itself is derived from the iteration (e.g. round.status = …)
				if _, isSel := lhs.(*ast.SelectorExpr); isSel && fromIter(lhs.(*ast.SelectorExpr).X) {
					continue
				}
				if _, seen := accum[obj]; !seen {
					accum[obj] = x
				}
				var rhs ast.Expr
				if i < len(x.Rhs) {
					rhs = x.Rhs[i]
				} else if len(x.Rhs) == 1 {
					rhs = x.Rhs[0]
				}
				t := v.Info.TypeOf(lhs)
				switch x.Tok {
				case token.ADD_ASSIGN, token.OR_ASSIGN, token.AND_ASSIGN, token.XOR_ASSIGN, token.MUL_ASSIGN:
					switch {
					case isNumericExact(t):
						ok(x, "integer accumulation %s %s … (commutative)", exprString(l), x.Tok)
					case isFloat(t):
						bad(x, "floating-point accumulation %s %s …: not associative, the result depends on the order", exprString(l), x.Tok)
					default:
						if v.diagnosticOnly(obj) {
							ok(x, "%s %s … only feeds error/log text", exprString(l), x.Tok)
						} else {
							bad(x, "%s %s … on a non-integer (concatenation): depends on the order", exprString(l), x.Tok)
						}
					}
				case token.ASSIGN, token.DEFINE:
					if rhs == nil {
						continue
					}
					if c, isC := stripParens(rhs).(*ast.CallExpr); isC && exprString(c.Fun) == "append" && len(c.Args) >= 1 && sameExpr(c.Args[0], lhs) {
						if _, isID := lhs.(*ast.Ident); !isID {
							bad(x, "append to %s (not a local slice) in iteration order", exprString(l))
							continue
						}
						if why, good := oc.sliceFate(v, obj, rs.End(), depth); good {
							ok(x, "append to %s in iteration order; %s", obj.Name(), why)
						} else {
							bad(x, "append to %s in iteration order; %s", obj.Name(), why)
						}
						continue
					}
					if v.addChainOn(lhs, rhs) {
						ok(x, "exact accumulation %s = %s (commutative)", exprString(l), exprString(rhs))
						continue
					}
					if cv := v.constOf(rhs); cv != nil {
						ok(x, "constant assignment %s = %s (idempotent)", exprString(l), cv.ExactString())
						continue
					}
					if isNilIdent(v.Info, rhs) {
						ok(x, "assignment %s = nil (idempotent)", exprString(l))
						continue
					}
					// running maximum / minimum: x = e under (e > x) or (e < x)
					isRunning := false
					for _, f := range v.FactsAt(x, false) {
						if c, isC := factCmp(f); isC && (c.Op == ">" || c.Op == "<") {
							if (sameExpr(c.L, rhs) && sameExpr(c.R, lhs)) || (sameExpr(c.R, rhs) && sameExpr(c.L, lhs)) {
								isRunning = true
							}
						}
					}
					if isRunning {
						ok(x, "running maximum/minimum %s = %s under a strict comparison with itself", exprString(l), exprString(rhs))
						continue
					}
					if isErrorLike(t) {
						ok(x, "error value %s = … (which element is named in the text depends on the order; the failure itself does not)", exprString(l))
						continue
					}
					if bt, isB := t.Underlying().(*types.Basic); isB && bt.Kind() == types.String && v.diagnosticOnly(obj) {
						ok(x, "string %s only feeds error/log text", exprString(l))
						continue
					}
					bad(x, "assignment %s = %s to a variable that outlives the iteration: which element's value is kept depends on the order", exprString(l), exprString(rhs))
				default:
					bad(x, "%s %s … inside an unordered iteration", exprString(l), x.Tok)
				}
			}
		case *ast.IncDecStmt:
			obj := v.objOf(rootIdent(x.X))
			if obj != nil && declaredOutside(obj, rs.Body) && !roots[obj] {
				ok(x, "counter %s%s", exprString(x.X), x.Tok)
			}
		case *ast.ReturnStmt:
			if v.enclosingFuncLit(x) != v.enclosingFuncLit(rs) {
				return true
			}
			allConst := true
			for _, res := range x.Results {
				if v.constOf(res) == nil && !isNilIdent(v.Info, res) && !isErrorLike(v.Info.TypeOf(res)) {
					allConst = false
				}
			}
			if allConst {
				if why := meteredBeforeExit(v, rs); why != "" {
					if aud, isAud := gasOrderAudit[v.ID()]; isAud {
						ok(x, "early return of constants / an error after metered store access (%s) - audited: %s", why, aud)
					} else {
						bad(x, "early exit of an unordered iteration that reads the store (%s): how many reads are charged to the gas meter before the exit depends on the order, and gas used is part of the transaction result", why)
					}
				} else {
					ok(x, "early return of constants / an error (an existence test; which element triggers it does not change the outcome class)")
				}
			} else {
				bad(x, "early return of a value taken from the iteration: the first match depends on the order")
			}
		case *ast.BranchStmt:
			if x.Tok == token.BREAK && x.Label == nil && v.innermostLoop(x) == ast.Node(rs) {
				// leaving the loop early makes the set of processed elements depend on the order, unless the
				// block that breaks is an error exit (it assigns an error variable that outlives the loop) or a
				// found-flag exit (it assigns a constant)
				okExit := false
				ee := &earlyExit{at: x, kills: map[types.Object]bool{}}
				exits = append(exits, ee)
				if blk := v.innermostBlock(x); blk != nil {
					for _, st := range blk.List {
						if as, isAs := st.(*ast.AssignStmt); isAs && as.Tok == token.ASSIGN {
							for _, l := range as.Lhs {
								if o := v.objOf(l); o != nil {
									ee.kills[o] = true
								}
							}
						}
					}
					for _, st := range blk.List {
						as, isAs := st.(*ast.AssignStmt)
						if !isAs || len(as.Lhs) != 1 || len(as.Rhs) != 1 {
							continue
						}
						o := v.objOf(rootIdent(as.Lhs[0]))
						if o == nil || !declaredOutside(o, rs.Body) {
							continue
						}
						if isErrorLike(v.Info.TypeOf(as.Lhs[0])) && !isNilIdent(v.Info, as.Rhs[0]) {
							okExit = true
							ee.errVar = o
						}
						if cv := v.constOf(as.Rhs[0]); cv != nil {
							okExit = true
						}
					}
				}
				if okExit {
					if why := meteredBeforeExit(v, rs); why != "" {
						if aud, isAud := gasOrderAudit[v.ID()]; isAud {
							ok(x, "break on an error / found-flag exit after metered store access (%s) - audited: %s", why, aud)
						} else {
							bad(x, "early exit of an unordered iteration that reads the store (%s): how many reads are charged to the gas meter before the exit depends on the order, and gas used is part of the transaction result", why)
						}
					} else {
						ok(x, "break on an error / found-flag exit")
					}
				} else {
					bad(x, "break out of an unordered iteration: which elements were processed before it depends on the order")
				}
			}
		case *ast.GoStmt:
			bad(x, "goroutine started inside an unordered iteration")
		case *ast.ExprStmt:
			c, isC := x.X.(*ast.CallExpr)
			if !isC {
				return true
			}
			fn := exprString(c.Fun)
			name := fn
			if i := strings.LastIndex(fn, "."); i >= 0 {
				name = fn[i+1:]
			}
			if fn == "delete" && len(c.Args) == 2 {
				if fromIter(c.Args[1]) {
					ok(x, "delete(%s, %s) keyed by the iteration variables", exprString(c.Args[0]), exprString(c.Args[1]))
				} else {
					bad(x, "delete(%s, %s) with a key that does not depend on the iteration variables", exprString(c.Args[0]), exprString(c.Args[1]))
				}
				return true
			}
			if c08Quiet[name] || fn == "panic" {
				return true
			}
			oc.effectCall(v, rs, c, fromIter, ok, bad)
		}
		return true
	})
	// calls whose results are used but which write the store
	ast.Inspect(rs.Body, func(n ast.Node) bool {
		c, isC := n.(*ast.CallExpr)
		if !isC {
			return true
		}
		if es, isE := v.parent(c).(*ast.ExprStmt); isE && es.X == ast.Expr(c) {
			return true // handled above
		}
		if v.callWrites(c) {
			if fromIter(c) {
				ok(c, "store-writing call %s with arguments derived from the iteration variables (distinct targets commute)", exprString(c.Fun))
			} else {
				bad(c, "store-writing call %s whose arguments do not depend on the iteration variables", exprString(c.Fun))
			}
		}
		return true
	})
	_ = rangedRoot
	// An accepted early exit still leaves the loop after an order-dependent subset of the elements: what
	// the loop accumulated so far may be read afterwards only where the exit is known not to have
	// happened (the exit's error variable tested nil), unless the exiting block overwrites it.
	for _, ee := range exits {
		for obj, first := range accum {
			if ee.kills[obj] || obj == ee.errVar || isErrorLike(obj.Type()) {
				continue
			}
			for _, use := range v.usesAfter(obj, rs.End()) {
				guarded := false
				if ee.errVar != nil {
					for _, f := range v.FactsAt(use, false) {
						if c, isC := factCmp(f); isC && c.Op == "==" && v.objOf(c.L) == ee.errVar && isNilIdent(v.Info, c.R) {
							guarded = true
						}
					}
				}
				if !guarded {
					bad(use, "%s (accumulated at %s) is read after the loop although the loop may have been left early at %s after an order-dependent subset of the elements", obj.Name(), v.pos(first), v.pos(ee.at))
					break
				}
			}
		}
	}
	if len(mr.Bad) > 0 {
		mr.Class = "order-sensitive"
	} else {
		mr.Class = "commutative"
	}
	return mr
}

// effectCall judges a call statement (result discarded) inside an unordered loop.
func (oc *orderCtx) effectCall(v *FnView, rs *ast.RangeStmt, c *ast.CallExpr, fromIter func(ast.Node) bool, ok, bad func(ast.Node, string, ...interface{})) {
	if v.callWrites(c) {
		if fromIter(c) {
			ok(c, "store-writing call %s with arguments derived from the iteration variables (distinct targets commute)", exprString(c.Fun))
		} else {
			bad(c, "store-writing call %s whose arguments do not depend on the iteration variables", exprString(c.Fun))
		}
		return
	}
	// a method call on something created inside the loop or derived from the element: local effect
	if sel, isSel := c.Fun.(*ast.SelectorExpr); isSel {
		root := v.objOf(rootIdent(sel.X))
		if root != nil && (!declaredOutside(root, rs.Body) || fromIter(sel.X)) {
			return
		}
	}
	// in-memory effect on something that outlives the loop: commutative only under the running-max idiom
	for _, f := range v.FactsAt(c, false) {
		if cm, isC := factCmp(f); isC && (cm.Op == ">" || cm.Op == "<") && f.At != nil && f.At.Pos() >= rs.Body.Pos() {
			// the compared outer variable is re-assigned the compared iteration value in the same block
			blk := v.innermostBlock(c)
			if blk == nil {
				continue
			}
			for _, st := range blk.List {
				if as, isAs := st.(*ast.AssignStmt); isAs && len(as.Lhs) == 1 && len(as.Rhs) == 1 {
					if (sameExpr(as.Lhs[0], cm.R) && sameExpr(as.Rhs[0], cm.L)) || (sameExpr(as.Lhs[0], cm.L) && sameExpr(as.Rhs[0], cm.R)) {
						if fromIter(c) {
							ok(c, "call %s under the running-maximum guard %s: the call for the extreme element is the last one whatever the order (the callee overwrites)", exprString(c.Fun), exprString(f.Atom))
							return
						}
					}
				}
			}
		}
	}
	cal := v.callee(c)
	if cal != nil && !oc.w.inScopeObj(cal) && len(implsOfMethod(oc.w, cal)) == 0 {
		// library call: it can only affect repository state through its arguments
		if strings.HasPrefix(exprString(c.Fun), "sort.") || strings.HasPrefix(exprString(c.Fun), "slices.Sort") {
			return
		}
		outerRef := ""
		for _, a := range c.Args {
			t := v.Info.TypeOf(a)
			if t == nil {
				continue
			}
			switch t.Underlying().(type) {
			case *types.Pointer, *types.Map, *types.Slice, *types.Chan:
				root := v.objOf(rootIdent(a))
				if root != nil && declaredOutside(root, rs.Body) && !fromIter(a) {
					if _, isVar := root.(*types.Var); isVar {
						outerRef = exprString(a)
					}
				}
			}
		}
		if outerRef == "" {
			return
		}
	}
	bad(c, "call %s with effects on state that outlives the iteration, executed in iteration order", exprString(c.Fun))
}

// sliceFate: obj is a local slice that received appends in an unordered loop `after`.
// Its later uses must not expose the order.
func (oc *orderCtx) sliceFate(v *FnView, obj types.Object, after token.Pos, depth int) (string, bool) {
	if depth > 3 {
		return "analysis depth exceeded", false
	}
	type use struct {
		id *ast.Ident
	}
	var uses []*ast.Ident
	ast.Inspect(v.Decl.Body, func(n ast.Node) bool {
		if id, ok := n.(*ast.Ident); ok && v.Info.ObjectOf(id) == obj && (id.Pos() > after) {
			uses = append(uses, id)
		}
		return true
	})
	// named result returned by a bare return counts as returned
	isResult := false
	if v.Decl.Type.Results != nil {
		idx := 0
		for _, fl := range v.Decl.Type.Results.List {
			for _, nm := range fl.Names {
				if v.Info.ObjectOf(nm) == obj {
					isResult = true
					oc.markProducer(v.Obj, idx)
				}
				idx++
			}
			if len(fl.Names) == 0 {
				idx++
			}
		}
	}
	var notes []string
	sorted := false
	for _, id := range uses {
		if sorted {
			break
		}
		par := v.parent(id)
		switch p := par.(type) {
		case *ast.CallExpr:
			fn := exprString(p.Fun)
			if fn == "len" || fn == "cap" {
				continue
			}
			if strings.HasPrefix(fn, "sort.") || strings.HasPrefix(fn, "slices.Sort") {
				if len(p.Args) >= 1 && p.Args[0] == ast.Expr(id) {
					if fn == "sort.Strings" || fn == "sort.Ints" || fn == "slices.Sort" {
						sorted = true
						notes = append(notes, "sorted by "+fn+" (total order) before further use")
						continue
					}
					if fn == "sort.Sort" || fn == "sort.Stable" {
						if lessIsElementOrder(oc.w, v.Info.TypeOf(id)) {
							sorted = true
							notes = append(notes, "sorted by "+fn+" with an element-level Less (total order) before further use")
							continue
						}
					}
					if why, okc := v.totalOrderComparator(p); okc {
						sorted = true
						notes = append(notes, "sorted by "+fn+" with "+why+" before further use")
						continue
					}
					notes = append(notes, "sorted by "+fn+" on a key that may tie (ties keep the iteration order)")
					continue
				}
			}
			if fn == "append" && len(p.Args) >= 1 && p.Args[0] == ast.Expr(id) {
				continue // further appends (judged at their own loop)
			}
			// conversion T(x) followed by a method: judge the method's use of its receiver
			if len(p.Args) == 1 && p.Args[0] == ast.Expr(id) {
				if tv, ok := v.Info.Types[p.Fun]; ok && tv.IsType() {
					if sel, ok := v.parent(p).(*ast.SelectorExpr); ok {
						if mc, ok := v.parent(sel).(*ast.CallExpr); ok {
							if cal := v.callee(mc); cal != nil {
								if why, good := oc.paramOrderInsensitive(cal, -1, depth+1); good {
									notes = append(notes, "handed to "+cal.Name()+": "+why)
									continue
								} else {
									return "handed to " + cal.Name() + ", which exposes the order: " + why, false
								}
							}
						}
					}
				}
			}
			// passed as an argument
			argIdx := -1
			for i, a := range p.Args {
				if a == ast.Expr(id) {
					argIdx = i
				}
			}
			if argIdx >= 0 {
				cal := v.callee(p)
				if cal == nil {
					return "passed to an unresolved call " + fn, false
				}
				if why, good := oc.paramOrderInsensitive(cal, argIdx, depth+1); good {
					notes = append(notes, "passed to "+cal.Name()+": "+why)
					continue
				} else {
					return "passed to " + cal.Name() + ", which exposes the order: " + why, false
				}
			}
			return "used in call " + fn, false
		case *ast.RangeStmt:
			if p.X == ast.Expr(id) {
				mr := oc.classifyLoop(v, p, depth+1)
				if mr.Class == "commutative" {
					notes = append(notes, "consumed by an order-insensitive loop at "+v.pos(p))
					continue
				}
				return "consumed by an order-sensitive loop at " + v.pos(p) + ": " + strings.Join(mr.Bad, "; "), false
			}
			continue
		case *ast.ReturnStmt:
			idx := 0
			for i, res := range p.Results {
				if res == ast.Expr(id) {
					idx = i
				}
			}
			oc.markProducer(v.Obj, idx)
			isResult = true
			continue
		case *ast.IndexExpr:
			if p.X == ast.Expr(id) {
				// element access: fine inside a comparator of its own sort, otherwise exposes positions
				if fl := v.enclosingFuncLit(id); fl != nil {
					if c, ok := v.parent(fl).(*ast.CallExpr); ok && strings.HasPrefix(exprString(c.Fun), "sort.") {
						continue
					}
				}
				return "indexed at " + v.pos(id) + " (positions depend on the order)", false
			}
			continue
		case *ast.AssignStmt:
			// x = append(x, …) handled; x = nil etc.
			isLhs := false
			for _, l := range p.Lhs {
				if l == ast.Expr(id) {
					isLhs = true
				}
			}
			if isLhs {
				continue
			}
			return "copied to another variable at " + v.pos(id), false
		default:
			return fmt.Sprintf("used at %s in a way the analysis does not model", v.pos(id)), false
		}
	}
	if isResult && !sorted {
		notes = append(notes, "returned to callers in iteration order (every caller's use is checked)")
	}
	if len(notes) == 0 {
		notes = append(notes, "never used afterwards")
	}
	return strings.Join(uniq(notes), "; "), true
}

func (oc *orderCtx) markProducer(f *types.Func, idx int) {
	if oc.producers[f] == nil {
		oc.producers[f] = map[int]bool{}
	}
	oc.producers[f][idx] = true
}

// totalOrderComparator: the comparator of sort.Slice(x, func(i, j int) bool {…}) is a
// strict comparison of one field/element of x[i] and x[j] -- accepted as a total
// order only for element-level comparisons (x[i] < x[j]); field comparisons may tie.
func (v *FnView) totalOrderComparator(c *ast.CallExpr) (string, bool) {
	if len(c.Args) != 2 {
		return "", false
	}
	fl, ok := c.Args[1].(*ast.FuncLit)
	if !ok || len(fl.Body.List) != 1 {
		return "", false
	}
	rs, ok := fl.Body.List[0].(*ast.ReturnStmt)
	if !ok || len(rs.Results) != 1 {
		return "", false
	}
	b, ok := rs.Results[0].(*ast.BinaryExpr)
	if !ok || (b.Op != token.LSS && b.Op != token.GTR) {
		return "", false
	}
	_, lIx := stripParens(b.X).(*ast.IndexExpr)
	_, rIx := stripParens(b.Y).(*ast.IndexExpr)
	if lIx && rIx {
		return "an element-level strict comparison", true
	}
	return "", false
}

// paramOrderInsensitive: every use of the callee's parameter #idx (or its receiver for
// idx == -1) hides the order: len, sort-first, order-insensitive range loops, or passing on.
func (oc *orderCtx) paramOrderInsensitive(cal *types.Func, idx int, depth int) (string, bool) {
	if depth > 4 {
		return "analysis depth exceeded", false
	}
	cv := oc.w.ViewOf(cal)
	if cv == nil {
		// interface method or library function: resolve implementations in scope
		impls := implsOfMethod(oc.w, cal)
		if len(impls) == 0 {
			return "callee " + cal.FullName() + " has no source in scope", false
		}
		var notes []string
		for _, im := range impls {
			why, good := oc.paramOrderInsensitive(im, idx, depth+1)
			if !good {
				return why, false
			}
			notes = append(notes, why)
		}
		return strings.Join(uniq(notes), "; "), true
	}
	var pobj types.Object
	if idx == -1 {
		if cv.Decl.Recv != nil && len(cv.Decl.Recv.List) == 1 && len(cv.Decl.Recv.List[0].Names) == 1 {
			pobj = cv.Info.ObjectOf(cv.Decl.Recv.List[0].Names[0])
		}
	} else {
		k := 0
		for _, fl := range cv.Decl.Type.Params.List {
			for _, nm := range fl.Names {
				if k == idx {
					pobj = cv.Info.ObjectOf(nm)
				}
				k++
			}
		}
	}
	if pobj == nil {
		return "parameter not found in " + cal.Name(), false
	}
	why, good := oc.sliceFate(cv, pobj, cv.Decl.Body.Lbrace, depth)
	return cal.Name() + ": " + why, good
}

// implsOfMethod: in-scope concrete methods that implement the interface method m.
func implsOfMethod(w *World, m *types.Func) []*types.Func {
	sig, ok := m.Type().(*types.Signature)
	if !ok || sig.Recv() == nil {
		return nil
	}
	iface, ok := sig.Recv().Type().Underlying().(*types.Interface)
	if !ok {
		return nil
	}
	var out []*types.Func
	for fo := range w.declOf {
		if fo.Name() != m.Name() {
			continue
		}
		s2, ok := fo.Type().(*types.Signature)
		if !ok || s2.Recv() == nil {
			continue
		}
		rt := s2.Recv().Type()
		if types.Implements(rt, iface) || types.Implements(types.NewPointer(rt), iface) {
			out = append(out, fo)
		}
	}
	sort.Slice(out, func(i, j int) bool { return funcID(out[i]) < funcID(out[j]) })
	return out
}

// mapRangesOf: every range-over-map statement of the function (closures included).
func (v *FnView) mapRangesOf() []*ast.RangeStmt {
	var out []*ast.RangeStmt
	ast.Inspect(v.Decl.Body, func(n ast.Node) bool {
		if rs, ok := n.(*ast.RangeStmt); ok && isMapType(v.Info.TypeOf(rs.X)) {
			out = append(out, rs)
		}
		return true
	})
	return out
}

func dumpMapRanges(w *World) {
	oc := &orderCtx{w: w, producers: map[*types.Func]map[int]bool{}}
	defer func() {
		for f, idx := range oc.producers {
			fmt.Printf("producer: %s results %v\n", funcID(f), idx)
		}
	}()
	reach := consensusReachable(w)
	var fos []*types.Func
	for fo := range reach {
		fos = append(fos, fo)
	}
	sort.Slice(fos, func(i, j int) bool { return funcID(fos[i]) < funcID(fos[j]) })
	for _, fo := range fos {
		v := w.ViewOf(fo)
		if v == nil {
			continue
		}
		for _, rs := range v.mapRangesOf() {
			mr := oc.classifyLoop(v, rs, 0)
			fmt.Printf("%s  %s  range %s  => %s\n", v.pos(rs), v.ID(), exprString(rs.X), mr.Class)
			for _, s := range mr.Why {
				fmt.Printf("      ok   %s\n", s)
			}
			for _, s := range mr.Bad {
				fmt.Printf("      BAD  %s\n", s)
			}
		}
	}
}

// nondetSources: calls / statements in fv that read something outside the block's inputs.
type nondetSite struct {
	Pos, What string
	Node      ast.Node
}

func (v *FnView) nondetSources() []nondetSite {
	var out []nondetSite
	ast.Inspect(v.Decl.Body, func(n ast.Node) bool {
		switch x := n.(type) {
		case *ast.GoStmt:
			out = append(out, nondetSite{v.pos(x), "go statement (goroutine scheduling)", x})
		case *ast.SelectStmt:
			out = append(out, nondetSite{v.pos(x), "select statement (scheduling)", x})
		case *ast.SelectorExpr:
			if id, ok := x.X.(*ast.Ident); ok {
				if pn, ok := v.Info.ObjectOf(id).(*types.PkgName); ok && pn.Imported().Path() == "time" && x.Sel.Name == "Local" {
					out = append(out, nondetSite{v.pos(x), "the process's local time zone (time.Local)", x})
				}
			}
		case *ast.CallExpr:
			cal := v.callee(x)
			if cal == nil || cal.Pkg() == nil {
				return true
			}
			pk, nm := cal.Pkg().Path(), cal.Name()
			if sig, ok := cal.Type().(*types.Signature); ok && sig.Recv() != nil {
				return true // methods (ctx.BlockTime().After(..)) are not sources
			}
			what := ""
			switch {
			case pk == "time" && (nm == "Now" || nm == "Since" || nm == "Until" || nm == "After" || nm == "Tick" || nm == "Sleep" || nm == "NewTimer" || nm == "NewTicker" || nm == "LoadLocation"):
				what = "wall clock time." + nm
			case pk == "math/rand" || pk == "math/rand/v2" || pk == "crypto/rand":
				what = "randomness " + pk + "." + nm
			case pk == "os" && (nm == "Getenv" || nm == "LookupEnv" || nm == "Environ" || nm == "Hostname" || nm == "Getpid" || nm == "Getwd" || nm == "ReadFile" || nm == "Open" || nm == "Stat"):
				what = "process environment os." + nm
			case pk == "runtime" && (nm == "NumCPU" || nm == "NumGoroutine" || nm == "GOMAXPROCS" || nm == "ReadMemStats"):
				what = "runtime." + nm
			}
			if what == "" {
				return true
			}
			// exemption: the value only feeds telemetry
			for p := v.parent(x); p != nil; p = v.parent(p) {
				if c, ok := p.(*ast.CallExpr); ok && c != x {
					if cc := v.callee(c); cc != nil && cc.Pkg() != nil && strings.HasSuffix(cc.Pkg().Path(), "/telemetry") {
						return true
					}
				}
				if _, ok := p.(ast.Stmt); ok {
					break
				}
			}
			out = append(out, nondetSite{v.pos(x), what, x})
		}
		return true
	})
	return out
}

// globalWrites: package-level variables of the repository assigned in fv.
func (v *FnView) globalWrites() map[*types.Var][]ast.Node {
	out := map[*types.Var][]ast.Node{}
	isGlobal := func(e ast.Expr) *types.Var {
		id := rootIdent(e)
		if id == nil {
			return nil
		}
		// pkg.Var: the root ident is a package name
		if pn, ok := v.Info.ObjectOf(id).(*types.PkgName); ok {
			_ = pn
			if sel, ok := firstSelector(e); ok {
				if gv, ok := v.Info.ObjectOf(sel.Sel).(*types.Var); ok && gv.Pkg() != nil && gv.Parent() == gv.Pkg().Scope() {
					return gv
				}
			}
			return nil
		}
		gv, ok := v.Info.ObjectOf(id).(*types.Var)
		if !ok || gv.Pkg() == nil || gv.Parent() != gv.Pkg().Scope() {
			return nil
		}
		return gv
	}
	ast.Inspect(v.Decl.Body, func(n ast.Node) bool {
		switch x := n.(type) {
		case *ast.AssignStmt:
			if x.Tok == token.DEFINE {
				return true
			}
			for _, l := range x.Lhs {
				if gv := isGlobal(l); gv != nil && strings.HasPrefix(gv.Pkg().Path(), modPath) {
					out[gv] = append(out[gv], x)
				}
			}
		case *ast.IncDecStmt:
			if gv := isGlobal(x.X); gv != nil && strings.HasPrefix(gv.Pkg().Path(), modPath) {
				out[gv] = append(out[gv], x)
			}
		case *ast.CallExpr:
			if exprString(x.Fun) == "delete" && len(x.Args) == 2 {
				if gv := isGlobal(x.Args[0]); gv != nil && strings.HasPrefix(gv.Pkg().Path(), modPath) {
					out[gv] = append(out[gv], x)
				}
			}
		}
		return true
	})
	return out
}

// firstSelector: for pkg.Var.f.g returns the selector pkg.Var.
func firstSelector(e ast.Expr) (*ast.SelectorExpr, bool) {
	var last *ast.SelectorExpr
	for {
		switch x := stripParens(e).(type) {
		case *ast.SelectorExpr:
			last = x
			e = x.X
			continue
		case *ast.IndexExpr:
			e = x.X
			continue
		case *ast.StarExpr:
			e = x.X
			continue
		case *ast.Ident:
			return last, last != nil
		}
		return nil, false
	}
}

func dumpNondet(w *World) {
	reach := consensusReachable(w)
	var fos []*types.Func
	for fo := range reach {
		fos = append(fos, fo)
	}
	sort.Slice(fos, func(i, j int) bool { return funcID(fos[i]) < funcID(fos[j]) })
	for _, fo := range fos {
		v := w.ViewOf(fo)
		if v == nil {
			continue
		}
		for _, s := range v.nondetSources() {
			fmt.Printf("SRC  %s  %s  %s\n", s.Pos, v.ID(), s.What)
		}
		for gv, ns := range v.globalWrites() {
			fmt.Printf("GLOB %s  %s  writes %s.%s (%d sites)\n", v.pos(ns[0]), v.ID(), gv.Pkg().Name(), gv.Name(), len(ns))
		}
	}
}

// c08Globals: package-level variables the consensus paths may write, each with the
// reason it cannot make two nodes diverge. Anything else is reported.
var c08Globals = map[string]string{
	"x/oracle/keeper.agc":               "oracle aggregator singleton: built from the committed store on first use (C14) and then updated only by block execution",
	"x/oracle/keeper.agcCheckTx":        "CheckTx/simulate copy of the aggregator: never read by DeliverTx/EndBlock (R4 checks the copy does not alias the deliver state)",
	"x/oracle/keeper.cs":                "oracle cache singleton: filled from the committed store / block execution, committed to the store in EndBlock",
	"x/oracle/keeper.updatedFeederIDs":  "per-block scratch list for an event attribute; reset in EndBlock",
	"x/oracle/keeper/common.MaxNonce":   "mirrors the oracle params held in the store (setCommonParams)",
	"x/oracle/keeper/common.ThresholdA": "mirrors the oracle params held in the store (setCommonParams)",
	"x/oracle/keeper/common.ThresholdB": "mirrors the oracle params held in the store (setCommonParams)",
	"x/oracle/keeper/common.MaxDetID":   "mirrors the oracle params held in the store (setCommonParams)",
	"x/oracle/keeper/common.Mode":       "mirrors the oracle params held in the store (setCommonParams)",
}

func runC08(r *Run) {
	w := r.W
	r.Explain = "Static decision of structural necessary conditions of C08 (determinism): in every repository function reachable from block execution, transaction handling, the ante chain, the precompiles, the wired hooks and InitGenesis, (R1) every range over a Go map is order-insensitive: what it does to state that outlives one iteration is an exact commutative accumulation, an idempotent/constant assignment, a running maximum/minimum, a write/delete/store call addressed by the iteration variables, a diagnostic string, or an append to a local slice whose every later use hides the order (sorted by a total order, consumed by order-insensitive loops, or returned to callers whose uses are checked the same way, interprocedurally); (R2) nothing reads the wall clock, randomness, the process environment or starts goroutines; (R3) the only package-level variables written are the audited oracle singletons; (R4) the CheckTx/simulate copy of the oracle aggregator shares no mutable object with the deliver-state aggregator."
	r.NotDec = []string{"byte-identical app hashes as a run-time fact", "non-determinism inside dependencies (cosmos-sdk, evmos, go-ethereum)", "floating point in dependencies", "restart equivalence of the oracle singletons (C14)"}
	r.Assume = []string{"distinct iteration keys address distinct store keys / map entries when the key or index expression is derived from the iteration variables", "sdk Int/Dec/Coins Add and Sub are exact"}
	r.rule("C08.R1", "every reachable range-over-map loop is order-insensitive (per loop: constructs judged and why)", 15)
	r.rule("C08.R6", "stored protobuf messages encode deterministically: a map field that the generated marshaller writes in Go map order does not occur in a stored message, or cannot be populated", 1)
	c08ProtoMaps(r)
	r.rule("C08.R1p", "slices built in map order and returned: every caller's use hides the order", 3)
	// witness for an order-insensitive consumer: the feeder ids SealRound returns come in map order; removing
	// their nonce items commutes only because the removal keeps the order of the remaining items
	for _, nm := range []string{"Keeper.RemoveNonceWithValidatorAndFeederID", "Keeper.removeNonceWithValidatorAndFeederID"} {
		nv := w.View("x/oracle/keeper", nm)
		if nv == nil {
			r.bad("C08.R1p", "witness|nonce-removal-order-preserving|"+nm, "-", "anchor", nm+" not found")
			continue
		}
		okApp, swaps := false, false
		ast.Inspect(nv.Decl.Body, func(n ast.Node) bool {
			as, isAs := n.(*ast.AssignStmt)
			if !isAs || len(as.Lhs) != 1 || len(as.Rhs) != 1 {
				return true
			}
			if lastField(as.Lhs[0]) == "NonceList" {
				if c, isC := stripParens(as.Rhs[0]).(*ast.CallExpr); isC && exprString(c.Fun) == "append" && len(c.Args) == 2 && c.Ellipsis.IsValid() {
					a0, ok0 := stripParens(c.Args[0]).(*ast.SliceExpr)
					a1, ok1 := stripParens(c.Args[1]).(*ast.SliceExpr)
					if ok0 && ok1 && a0.Low == nil && a0.High != nil && a1.High == nil && a1.Low != nil && sumTerms(a1.Low) == sumTerms(&ast.BinaryExpr{X: a0.High, Op: token.ADD, Y: &ast.BasicLit{Kind: token.INT, Value: "1"}}) {
						okApp = true
					}
				}
			}
			if ix, isIx := stripParens(as.Lhs[0]).(*ast.IndexExpr); isIx && lastField(ix.X) == "NonceList" {
				if _, rhsIx := stripParens(as.Rhs[0]).(*ast.IndexExpr); rhsIx {
					swaps = true
				}
			}
			return true
		})
		r.check(okApp && !swaps, "C08.R1p", "witness|nonce-removal-order-preserving|"+nm, nv.pos(nv.Decl), "removing a feeder's nonce item keeps the order of the remaining items (so removals in any order give the same stored list)", nm+" does not delete with append(list[:i], list[i+1:]...) (or moves another element into the gap): the stored nonce list then depends on the order of the sealed feeder ids, which comes from a map iteration")
	}
	r.rule("C08.R7", "what one module's EndBlock writes and another's only reads is written first (SetOrderEndBlockers): no EndBlocker acts on a value that a restart would show it one block earlier", 3)
	endBlockOrderRule(r, "C08.R7")
	r.rule("C08.R2", "no wall clock, randomness, process environment, goroutines or select in consensus-reachable code", 400)
	r.rule("C08.R3", "package-level variables written from consensus-reachable code are exactly the audited set", 8)
	r.rule("C08.R5", "node-local configuration (AppOptions) reaches consensus-reachable code only under ctx.IsCheckTx(), or through an audited field", 2)
	r.rule("C08.R4", "CheckTx/simulate copy of the aggregator context: every mutable field is a fresh object with fresh elements; shared fields are never written on the CheckTx path; the process-wide cache is mutated by keeper code on the DeliverTx path only", 11)

	oc := &orderCtx{w: w, producers: map[*types.Func]map[int]bool{}}
	reach := consensusReachable(w)
	var fos []*types.Func
	for fo := range reach {
		fos = append(fos, fo)
	}
	sort.Slice(fos, func(i, j int) bool { return funcID(fos[i]) < funcID(fos[j]) })
	nFn := 0
	for _, fo := range fos {
		v := w.ViewOf(fo)
		if v == nil {
			continue
		}
		nFn++
		// R1
		perFn := map[string]int{}
		for _, rs := range v.mapRangesOf() {
			r.saw(v.ID())
			mr := oc.classifyLoop(v, rs, 0)
			k := exprString(rs.X)
			perFn[k]++
			key := fmt.Sprintf("maprange|%s|%s#%d", v.ID(), k, perFn[k])
			if mr.Class == "commutative" {
				r.ok("C08.R1", key, v.pos(rs), "order-insensitive: "+strings.Join(mr.Why, " | "))
			} else {
				r.bad("C08.R1", key, v.pos(rs), "the loop's effect does not depend on Go's randomised map iteration order", "order-sensitive: "+strings.Join(mr.Bad, " | "))
			}
		}
		// R2
		srcs := v.nondetSources()
		if len(srcs) == 0 {
			r.ok("C08.R2", "sources|"+v.ID(), v.pos(v.Decl), "no nondeterministic source")
		}
		for i, s := range srcs {
			r.bad("C08.R2", fmt.Sprintf("sources|%s#%d", v.ID(), i+1), s.Pos, "consensus code reads only the block's inputs and the store", s.What+" in code reachable from block execution ("+reach[fo]+")")
		}
		// R3
		for gv, ns := range v.globalWrites() {
			name := rel(gv.Pkg().Path()) + "." + gv.Name()
			key := "global|" + name + "|" + v.ID()
			if why, ok := c08Globals[name]; ok {
				r.ok("C08.R3", key, v.pos(ns[0]), "audited: "+why)
			} else {
				r.bad("C08.R3", key, v.pos(ns[0]), "no process-local mutable state feeds consensus results", "package-level variable "+name+" is written from consensus-reachable code ("+reach[fo]+"); it survives across blocks and restarts differently from the store")
			}
		}
	}
	r.note("C08: %d consensus-reachable source functions scanned", nFn)
	// R1p: fixpoint over producers
	done := map[string]bool{}
	for round := 0; round < 4; round++ {
		var prods []*types.Func
		for f := range oc.producers {
			prods = append(prods, f)
		}
		sort.Slice(prods, func(i, j int) bool { return funcID(prods[i]) < funcID(prods[j]) })
		for _, pf := range prods {
			idxs := oc.producers[pf]
			for _, fv := range w.allViews() {
				n := 0
				for _, c := range fv.CallsNamed(pf.Name()) {
					if fv.callee(c) != pf {
						// interface dispatch: compare by implementation set
						cal := fv.callee(c)
						if cal == nil {
							continue
						}
						match := false
						for _, im := range implsOfMethod(w, cal) {
							if im == pf {
								match = true
							}
						}
						if !match {
							continue
						}
					}
					n++
					key := fmt.Sprintf("producer|%s|%s#%d", funcID(pf), fv.ID(), n)
					if done[key] {
						continue
					}
					done[key] = true
					why, good := oc.useOfCallResult(fv, c, idxs)
					r.check(good, "C08.R1p", key, fv.pos(c), "the map-ordered result of "+pf.Name()+" is used order-insensitively: "+why, "the map-ordered result of "+pf.Name()+" is exposed: "+why)
				}
			}
		}
	}
	// R4
	c08CheckTxCopy(r)
	// R5
	c08NodeLocalConfig(r)
}

// useOfCallResult: how the (unordered) results idxs of call c are used in fv.
func (oc *orderCtx) useOfCallResult(fv *FnView, c *ast.CallExpr, idxs map[int]bool) (string, bool) {
	switch p := fv.parent(c).(type) {
	case *ast.ExprStmt:
		return "result discarded", true
	case *ast.AssignStmt:
		if len(p.Rhs) != 1 {
			return "used in a multi-value assignment", false
		}
		var notes []string
		for i, l := range p.Lhs {
			if !idxs[i] {
				continue
			}
			if id, ok := l.(*ast.Ident); ok && id.Name == "_" {
				continue
			}
			obj := fv.objOf(l)
			if obj == nil {
				return "assigned to " + exprString(l), false
			}
			why, good := oc.sliceFate(fv, obj, p.End(), 1)
			if !good {
				return obj.Name() + ": " + why, false
			}
			notes = append(notes, obj.Name()+": "+why)
		}
		if len(notes) == 0 {
			return "unordered results discarded", true
		}
		return strings.Join(notes, "; "), true
	case *ast.CallExpr:
		for i, a := range p.Args {
			if a == ast.Expr(c) {
				cal := fv.callee(p)
				if cal == nil {
					return "passed to an unresolved call", false
				}
				return oc.paramOrderInsensitive(cal, i, 1)
			}
		}
		return "used as a callee", false
	case *ast.RangeStmt:
		mr := oc.classifyLoop(fv, p, 1)
		if mr.Class == "commutative" {
			return "ranged by an order-insensitive loop", true
		}
		return "ranged by an order-sensitive loop: " + strings.Join(mr.Bad, "; "), false
	case *ast.ReturnStmt:
		for i, res := range p.Results {
			if res == ast.Expr(c) {
				oc.markProducer(fv.Obj, i)
			}
		}
		return "returned on to its own callers (checked in turn)", true
	}
	return "used in a way the analysis does not model", false
}

// c08CheckTxCopy: AggregatorContext.Copy4CheckTx must not share mutable objects with its receiver.
func c08CheckTxCopy(r *Run) {
	w := r.W
	v := w.View("x/oracle/keeper/aggregator", "AggregatorContext.Copy4CheckTx")
	if v == nil {
		r.bad("C08.R4", "anchor|Copy4CheckTx", "-", "anchor", "Copy4CheckTx not found")
		return
	}
	r.saw(v.ID())
	recv := v.Info.ObjectOf(v.Decl.Recv.List[0].Names[0])
	// the composite literal of the result
	var lit *ast.CompositeLit
	var retObj types.Object
	ast.Inspect(v.Decl.Body, func(n ast.Node) bool {
		if as, ok := n.(*ast.AssignStmt); ok && lit == nil && len(as.Rhs) == 1 {
			e := stripParens(as.Rhs[0])
			if u, ok := e.(*ast.UnaryExpr); ok {
				e = u.X
			}
			if cl, ok := e.(*ast.CompositeLit); ok && strings.HasSuffix(exprString(cl.Type), "AggregatorContext") {
				lit = cl
				retObj = v.objOf(as.Lhs[0])
			}
		}
		return true
	})
	if lit == nil || retObj == nil {
		r.bad("C08.R4", "copy|shape", v.pos(v.Decl), "the copy is built as a literal", "Copy4CheckTx does not build its result from an AggregatorContext literal")
		return
	}
	st, _ := v.Info.TypeOf(lit).Underlying().(*types.Struct)
	if st == nil {
		r.bad("C08.R4", "copy|type", v.pos(lit), "struct literal", "not a struct")
		return
	}
	// fields shared on purpose: they must not be written by anything reachable from the transaction path
	shared := map[string]bool{}
	for i := 0; i < st.NumFields(); i++ {
		f := st.Field(i)
		switch f.Type().Underlying().(type) {
		case *types.Pointer, *types.Map, *types.Slice:
		default:
			continue
		}
		key := "copy|field|" + f.Name()
		var vals []ast.Expr
		if val := compositeField(lit, f.Name()); val != nil {
			vals = append(vals, val)
		}
		for _, as := range v.assignmentsToField(v.Decl.Body, f.Name()) {
			if sel, ok := stripParens(as.Lhs[0]).(*ast.SelectorExpr); ok && v.objOf(sel.X) == retObj {
				vals = append(vals, as.Rhs[0])
			}
		}
		if len(vals) == 0 {
			r.ok("C08.R4", key, v.pos(lit), "left nil in the copy")
			continue
		}
		allFresh := true
		what := ""
		for _, val := range vals {
			if v.usesObj(val, recv) {
				shared[f.Name()] = true
				continue
			}
			e := stripParens(val)
			if u, ok := e.(*ast.UnaryExpr); ok && u.Op == token.AND {
				e = stripParens(u.X)
			}
			_, isLit := e.(*ast.CompositeLit)
			name, _, isCall := funcCallName(val)
			if !(isLit || (isCall && (name == "make" || name == "new"))) {
				allFresh = false
				what = exprString(val)
			}
		}
		if shared[f.Name()] {
			continue
		}
		r.check(allFresh, "C08.R4", key, v.pos(lit), "field "+f.Name()+" of the copy is a fresh container", "field "+f.Name()+" of the CheckTx copy is "+what+", neither fresh nor the receiver's")
	}
	// element copies: every `ret.F[k] = X` with X derived from the receiver's elements must be a fresh object
	ast.Inspect(v.Decl.Body, func(n ast.Node) bool {
		as, ok := n.(*ast.AssignStmt)
		if !ok || len(as.Lhs) != 1 || len(as.Rhs) != 1 {
			return true
		}
		ix, isIx := stripParens(as.Lhs[0]).(*ast.IndexExpr)
		if !isIx || v.objOf(rootIdent(ix.X)) != retObj {
			return true
		}
		fld := lastField(ix.X)
		rhs := stripParens(as.Rhs[0])
		t := v.Info.TypeOf(rhs)
		if _, isPtr := t.Underlying().(*types.Pointer); !isPtr {
			if _, isMap := t.Underlying().(*types.Map); !isMap {
				r.ok("C08.R4", "copy|element|"+fld, v.pos(as), "value element copied")
				return true
			}
		}
		// fresh: &local where local := *src (a struct without reference fields), or a call to a copy function
		fresh := false
		why := exprString(rhs)
		if u, isU := rhs.(*ast.UnaryExpr); isU && u.Op == token.AND {
			if o := v.objOf(u.X); o != nil && !declaredOutside(o, v.innermostLoop(as)) {
				// the pointee's own reference-typed fields would still be shared
				if stt, ok := o.Type().Underlying().(*types.Struct); ok {
					fresh = true
					for i := 0; i < stt.NumFields(); i++ {
						switch stt.Field(i).Type().Underlying().(type) {
						case *types.Pointer, *types.Map, *types.Slice:
							fresh = false
							why = "&" + o.Name() + " is a shallow copy whose field " + stt.Field(i).Name() + " still points into the deliver state"
						}
					}
				}
			}
		}
		if c, isC := rhs.(*ast.CallExpr); isC {
			nm := v.calleeName(c)
			if strings.Contains(strings.ToLower(nm), "copy") || nm == "newWorker" {
				fresh = true
			}
		}
		r.check(fresh, "C08.R4", "copy|element|"+fld, v.pos(as), "elements of "+fld+" are fresh objects in the copy", "the CheckTx copy stores "+why+" in "+fld+": CheckTx/simulate activity on this node then changes the state DeliverTx reads (node-local mempool traffic changes transaction results)")
		return true
	})
	// shared fields: the objects they point to must not be mutated (element / pointee writes) by anything the
	// transaction path can reach once the copy exists. Replacing the field itself (agc.f = x) does not touch
	// the shared object. The lazy initialisers fill a context that GetAggregatorContext has just created with
	// NewAggregatorContext(), never a copy: traversal stops there, and that freshness is checked below.
	cat := catalogue(w)
	txRoots := cat.Fns("msg", "ante", "precompile")
	isInit := func(f *ssa.Function) bool {
		n := fnName(f)
		return strings.HasSuffix(n, "recacheAggregatorContext") || strings.HasSuffix(n, "initAggregatorContext")
	}
	txReach := w.Reach(txRoots, func(f *ssa.Function) bool { return (!w.fnInScope(f) && f.Pkg != nil) || isInit(f) })
	var names []string
	for n := range shared {
		names = append(names, n)
	}
	sort.Strings(names)
	for _, fld := range names {
		var writers []string
		for f := range txReach {
			if !w.fnInScope(f) || isInit(f) {
				continue
			}
			fo, _ := f.Object().(*types.Func)
			if fo == nil {
				continue
			}
			fv := w.ViewOf(fo)
			if fv == nil || fv.Decl.Recv == nil || !strings.HasSuffix(exprString(fv.Decl.Recv.List[0].Type), "AggregatorContext") {
				continue
			}
			rcv := fv.Info.ObjectOf(fv.Decl.Recv.List[0].Names[0])
			mut := func(e ast.Expr) bool {
				// e is rcv.fld[...] or rcv.fld.X (a write through the shared pointer / into the shared map)
				e = stripParens(e)
				for {
					switch x := e.(type) {
					case *ast.IndexExpr:
						if lastField(x.X) == fld && fv.objOf(rootIdent(x.X)) == rcv {
							return true
						}
						e = stripParens(x.X)
						continue
					case *ast.SelectorExpr:
						if inner, ok := stripParens(x.X).(*ast.SelectorExpr); ok && inner.Sel.Name == fld && fv.objOf(rootIdent(inner)) == rcv {
							return true
						}
						e = stripParens(x.X)
						continue
					case *ast.StarExpr:
						e = stripParens(x.X)
						continue
					}
					return false
				}
			}
			ast.Inspect(fv.Decl.Body, func(n ast.Node) bool {
				switch x := n.(type) {
				case *ast.AssignStmt:
					for _, l := range x.Lhs {
						if mut(l) {
							writers = append(writers, fv.ID())
						}
					}
				case *ast.CallExpr:
					if exprString(x.Fun) == "delete" && len(x.Args) == 2 && lastField(x.Args[0]) == fld && fv.objOf(rootIdent(x.Args[0])) == rcv {
						writers = append(writers, fv.ID())
					}
					// in-place big.Int arithmetic on the shared pointer: rcv.fld.Add(…)
					if recv, nm, _, ok := methodCall(x); ok && lastField(recv) == fld && fv.objOf(rootIdent(recv)) == rcv {
						switch nm {
						case "Add", "Sub", "Mul", "Set", "SetInt64", "SetUint64", "Quo", "Div", "Neg":
							if _, isPtr := fv.Info.TypeOf(recv).(*types.Pointer); isPtr {
								writers = append(writers, fv.ID())
							}
						}
					}
				}
				return true
			})
		}
		writers = uniq(writers)
		r.check(len(writers) == 0, "C08.R4", "copy|shared|"+fld, v.pos(lit), "field "+fld+" is shared with the deliver state but the shared object is never mutated on the transaction path", "field "+fld+" is shared between the CheckTx copy and the deliver state and its object is mutated by "+strings.Join(writers, ", ")+", which transactions can reach")
	}
	// the lazy initialisers are only ever handed a context fresh from NewAggregatorContext()
	if gv := w.View("x/oracle/keeper", "GetAggregatorContext"); gv == nil {
		r.bad("C08.R4", "anchor|GetAggregatorContext", "-", "anchor", "not found")
	} else {
		okFresh, n := true, 0
		for _, c := range gv.CallsNamed("recacheAggregatorContext", "initAggregatorContext") {
			n++
			if len(c.Args) < 2 {
				okFresh = false
				continue
			}
			fresh := false
			// the nearest preceding assignment to the argument in the same block is NewAggregatorContext()
			target := exprString(c.Args[1])
			var lastDef ast.Expr
			ast.Inspect(gv.Decl.Body, func(m ast.Node) bool {
				if as, ok := m.(*ast.AssignStmt); ok && as.End() < c.Pos() && len(as.Lhs) == 1 && len(as.Rhs) == 1 && exprString(as.Lhs[0]) == target && gv.reaches(as, c) {
					lastDef = as.Rhs[0]
				}
				return true
			})
			if lastDef != nil && gv.calleeName2(lastDef) == "NewAggregatorContext" {
				fresh = true
			}
			if !fresh {
				okFresh = false
			}
		}
		r.check(okFresh && n >= 2, "C08.R4", "init|fresh-context", gv.pos(gv.Decl), "the (re)cache initialisers fill a context created by NewAggregatorContext(), never a copy that shares objects", "recacheAggregatorContext/initAggregatorContext are handed a context that is not fresh from NewAggregatorContext()")
	}
	// the process-wide cache (package variable of x/oracle/keeper, committed to the store by EndBlock) has no
	// CheckTx copy: keeper code that names the variable directly runs on the transaction path (message handlers
	// and the functions they call), so every mutation through it is on the DeliverTx path only.
	{
		n := 0
		seenKey := map[string]int{}
		for _, v := range w.allViews() {
			if w.relPkg(v.Obj.Pkg().Path()) != "x/oracle/keeper" || v.Decl.Body == nil {
				continue
			}
			for _, c := range allCalls(v.Decl.Body) {
				sel, ok := c.Fun.(*ast.SelectorExpr)
				if !ok {
					continue
				}
				id, ok := stripParens(sel.X).(*ast.Ident)
				if !ok {
					continue
				}
				vo, ok := v.Info.Uses[id].(*types.Var)
				if !ok || vo.Pkg() == nil || vo.Parent() != vo.Pkg().Scope() {
					continue
				}
				nt := namedOf(vo.Type())
				if nt == nil || nt.Obj().Name() != "Cache" || !strings.HasSuffix(nt.Obj().Pkg().Path(), "x/oracle/keeper/cache") {
					continue
				}
				switch sel.Sel.Name {
				case "AddCache", "RemoveCache", "ResetCaches", "CommitCache", "SkipCommit":
				default:
					continue
				}
				n++
				deliverOnly := v.factsOf(c).call("IsCheckTx", false, nil)
				key := "cache|deliver-only|" + v.ID() + "|" + sel.Sel.Name + "(" + argText(c) + ")"
				seenKey[key]++
				if seenKey[key] > 1 {
					key += fmt.Sprintf("#%d", seenKey[key])
				}
				r.check(deliverOnly, "C08.R4", key, v.pos(c), "the process-wide cache is changed here only when ctx.IsCheckTx() is false",
					v.ID()+" calls "+id.Name+"."+sel.Sel.Name+" at "+v.pos(c)+" in every execution mode: a simulated or checked transaction on one node (RPC gas estimation needs no signature) leaves an entry in that node's cache, and its next EndBlock commits the entry to the store")
			}
		}
		if n < 5 {
			r.bad("C08.R4", "cache|deliver-only|matcher", "-", "at least 5 mutations of the package-level cache in x/oracle/keeper", fmt.Sprintf("only %d found (matcher lost its anchor)", n))
		}
	}
}

func argText(c *ast.CallExpr) string {
	var out []string
	for _, a := range c.Args {
		out = append(out, exprString(a))
	}
	return strings.Join(out, ",")
}

// inScopeObj: the function is declared in the repository's own source.
func (w *World) inScopeObj(f *types.Func) bool { return w.declOf[f] != nil }

// lessIsElementOrder: the type's Less method (sort.Interface) compares whole elements:
// `b[i] < b[j]` or `b[i].Cmp(b[j]) < 0`.
func lessIsElementOrder(w *World, t types.Type) bool {
	if t == nil {
		return false
	}
	nt, ok := t.(*types.Named)
	if !ok {
		return false
	}
	for i := 0; i < nt.NumMethods(); i++ {
		m := nt.Method(i)
		if m.Name() != "Less" {
			continue
		}
		lv := w.ViewOf(m)
		if lv == nil || len(lv.Decl.Body.List) != 1 {
			return false
		}
		rs, ok := lv.Decl.Body.List[0].(*ast.ReturnStmt)
		if !ok || len(rs.Results) != 1 {
			return false
		}
		b, ok := rs.Results[0].(*ast.BinaryExpr)
		if !ok || b.Op != token.LSS {
			return false
		}
		_, lIx := stripParens(b.X).(*ast.IndexExpr)
		_, rIx := stripParens(b.Y).(*ast.IndexExpr)
		if lIx && rIx {
			return true
		}
		if recv, nm, args, isM := methodCall(b.X); isM && nm == "Cmp" && len(args) == 1 && exprString(b.Y) == "0" {
			_, a := stripParens(recv).(*ast.IndexExpr)
			_, c := stripParens(args[0]).(*ast.IndexExpr)
			return a && c
		}
	}
	return false
}

// earlyExit: a `break` out of an unordered iteration, the error variable its block sets and the outer
// variables its block overwrites.
type earlyExit struct {
	at     ast.Node
	errVar types.Object
	kills  map[types.Object]bool
}

// usesAfter: identifiers referring to obj that are read at or after pos in the function.
func (v *FnView) usesAfter(obj types.Object, pos token.Pos) []*ast.Ident {
	var out []*ast.Ident
	ast.Inspect(v.Decl, func(n ast.Node) bool {
		id, ok := n.(*ast.Ident)
		if !ok || id.Pos() < pos || v.Info.Uses[id] != obj {
			return true
		}
		if as, isAs := v.parent(id).(*ast.AssignStmt); isAs && as.Tok == token.ASSIGN {
			for _, l := range as.Lhs {
				if l == ast.Expr(id) {
					return true // overwritten, not read
				}
			}
		}
		out = append(out, id)
		return true
	})
	return out
}

func namedOf(t types.Type) *types.Named {
	if p, ok := t.(*types.Pointer); ok {
		t = p.Elem()
	}
	n, _ := t.(*types.Named)
	return n
}

// gasOrderAudit: map-ordered loops with an early exit after store access whose exit is argued unreachable.
var gasOrderAudit = map[string]string{
	"x/assets/keeper.Keeper.GetStakerSpecifiedAssetInfo": "the exits are failures of GetOperatorSpecifiedAssetInfo / TokensFromShares for an operator named by one of the staker's own delegation records; the operator's asset record is written by the delegation that creates the record and is never deleted, and a non-zero share of an empty pool is excluded by C02's share rules",
}

// meteredBeforeExit: the loop body makes a call that can be charged to the gas meter (an sdk.Context argument, or
// a KVStore access). Returns a description of the first such call, or "".
func meteredBeforeExit(v *FnView, rs *ast.RangeStmt) string {
	out := ""
	ast.Inspect(rs.Body, func(n ast.Node) bool {
		c, ok := n.(*ast.CallExpr)
		if !ok || out != "" {
			return out == ""
		}
		for _, a := range c.Args {
			if t := v.Info.TypeOf(a); t != nil && strings.HasSuffix(t.String(), "cosmos-sdk/types.Context") {
				if nm := v.calleeName(c); !strings.HasPrefix(nm, "Logger") && nm != "Wrap" && nm != "Wrapf" {
					out = exprString(c.Fun) + "(ctx, ...) at " + v.pos(c)
					return false
				}
			}
		}
		if sel, isSel := c.Fun.(*ast.SelectorExpr); isSel {
			switch sel.Sel.Name {
			case "Get", "Has", "Set", "Delete", "Iterator", "ReverseIterator":
				if t := v.Info.TypeOf(sel.X); t != nil && (strings.Contains(t.String(), "Store") || strings.Contains(t.String(), "store")) {
					out = exprString(c.Fun) + " at " + v.pos(c)
					return false
				}
			}
		}
		return true
	})
	return out
}
