package main

import (
	"fmt"
	"go/ast"
	"go/token"
	"go/types"
	"sort"
	"strings"
)

// C11.R8 -- "assignment to entry in nil map" cannot happen in the repository's own structs.
//
// For every map-typed field of a struct declared in hand-written repository code that is written by index
// somewhere (x.f[k] = v, x.f[k] op= v, x.f[k]++), each construction site of the struct (composite literal,
// new(T), zero-value declaration) either initialises the field, or every indexed write of the field is
// dominated by an initialisation of it (x.f = make(..)/literal, or the lazy `if x.f == nil { x.f = … }`).
// What is decided is the pairing writer <-> initialiser in the shape of the code; which construction site
// reaches which write at run time is not (a site that does not initialise the field is accepted only when
// all writes are self-protecting).

type mapFieldUse struct {
	field  *types.Var
	owner  *types.Named
	writes []mapFieldWrite
}

type mapFieldWrite struct {
	v     *FnView
	at    ast.Node
	recv  ast.Expr // x of x.f[k]
	guard bool
}

func mapFieldFacts(w *World) (map[*types.Var]*mapFieldUse, map[*types.Named][]string, map[*types.Named]map[string][]string) {
	uses := map[*types.Var]*mapFieldUse{}
	// owner of each field
	ownerOf := map[*types.Var]*types.Named{}
	for _, p := range w.Pkgs {
		sc := p.Types.Scope()
		for _, nm := range sc.Names() {
			tn, ok := sc.Lookup(nm).(*types.TypeName)
			if !ok {
				continue
			}
			named, ok := tn.Type().(*types.Named)
			if !ok {
				continue
			}
			st, ok := named.Underlying().(*types.Struct)
			if !ok || !inScopeFile(w.relFile(tn.Pos())) {
				continue
			}
			for i := 0; i < st.NumFields(); i++ {
				f := st.Field(i)
				if _, isMap := f.Type().Underlying().(*types.Map); isMap {
					ownerOf[f] = named
				}
			}
		}
	}
	for _, v := range w.allViews() {
		if !inScopeFile(w.relFile(v.Decl.Pos())) || v.Decl.Body == nil {
			continue
		}
		note := func(at ast.Node, target ast.Expr) {
			ix, ok := stripParens(target).(*ast.IndexExpr)
			if !ok {
				return
			}
			sel, ok := stripParens(ix.X).(*ast.SelectorExpr)
			if !ok {
				return
			}
			fo, ok := v.Info.Uses[sel.Sel].(*types.Var)
			if !ok || !fo.IsField() || ownerOf[fo] == nil {
				return
			}
			u := uses[fo]
			if u == nil {
				u = &mapFieldUse{field: fo, owner: ownerOf[fo]}
				uses[fo] = u
			}
			u.writes = append(u.writes, mapFieldWrite{v: v, at: at, recv: sel.X, guard: v.mapFieldInitialisedBefore(at, sel, fo)})
		}
		ast.Inspect(v.Decl.Body, func(n ast.Node) bool {
			switch x := n.(type) {
			case *ast.AssignStmt:
				for _, l := range x.Lhs {
					note(x, l)
				}
			case *ast.IncDecStmt:
				note(x, x.X)
			}
			return true
		})
	}
	// construction sites per owner: which map fields they leave nil
	missing := map[*types.Named]map[string][]string{} // owner -> field name -> sites leaving it nil
	sites := map[*types.Named][]string{}
	record := func(named *types.Named, pos string, set map[string]bool) {
		sites[named] = append(sites[named], pos)
		st := named.Underlying().(*types.Struct)
		for i := 0; i < st.NumFields(); i++ {
			f := st.Field(i)
			if uses[f] == nil || set[f.Name()] {
				continue
			}
			if missing[named] == nil {
				missing[named] = map[string][]string{}
			}
			missing[named][f.Name()] = append(missing[named][f.Name()], pos)
		}
	}
	interesting := map[*types.Named]bool{}
	for _, u := range uses {
		interesting[u.owner] = true
	}
	asOwner := func(t types.Type) *types.Named {
		if t == nil {
			return nil
		}
		if p, ok := t.(*types.Pointer); ok {
			t = p.Elem()
		}
		n, ok := t.(*types.Named)
		if ok && interesting[n] {
			return n
		}
		return nil
	}
	for _, p := range w.Pkgs {
		for _, f := range p.Syntax {
			rel := w.relFile(f.Pos())
			if !inScopeFile(rel) {
				continue
			}
			ast.Inspect(f, func(n ast.Node) bool {
				switch x := n.(type) {
				case *ast.CompositeLit:
					named := asOwner(p.TypesInfo.TypeOf(x))
					if named == nil {
						return true
					}
					set := map[string]bool{}
					st := named.Underlying().(*types.Struct)
					for i, el := range x.Elts {
						if kv, ok := el.(*ast.KeyValueExpr); ok {
							if id, ok := kv.Key.(*ast.Ident); ok && !isNilIdent(p.TypesInfo, kv.Value) {
								set[id.Name] = true
							}
						} else if i < st.NumFields() && !isNilIdent(p.TypesInfo, el) {
							set[st.Field(i).Name()] = true
						}
					}
					record(named, w.pos(x.Pos()), set)
				case *ast.CallExpr:
					if id, ok := x.Fun.(*ast.Ident); ok && id.Name == "new" && len(x.Args) == 1 {
						if named := asOwner(p.TypesInfo.TypeOf(x.Args[0])); named != nil {
							if _, isPtr := p.TypesInfo.TypeOf(x.Args[0]).(*types.Pointer); !isPtr {
								record(named, w.pos(x.Pos()), map[string]bool{})
							}
						}
					}
				case *ast.ValueSpec:
					if x.Type != nil && len(x.Values) == 0 {
						t := p.TypesInfo.TypeOf(x.Type)
						if _, isPtr := t.(*types.Pointer); !isPtr {
							if named := asOwner(t); named != nil {
								record(named, w.pos(x.Pos()), map[string]bool{})
							}
						}
					}
				}
				return true
			})
		}
	}
	return uses, sites, missing
}

// mapFieldInitialisedBefore: the indexed write at `at` of recv.f is dominated by an initialisation of the
// same field: an earlier statement `recv.f = <non-nil>` of an enclosing block, or the lazy form
// `if recv.f == nil { recv.f = … }` (whose join leaves the field non-nil), or the write sits in a branch where
// `recv.f != nil` holds.
func (v *FnView) mapFieldInitialisedBefore(at ast.Node, sel *ast.SelectorExpr, fo *types.Var) bool {
	want := exprString(sel)
	isInit := func(st ast.Stmt) bool {
		as, ok := st.(*ast.AssignStmt)
		if !ok || as.Tok != token.ASSIGN {
			return false
		}
		for i, l := range as.Lhs {
			if exprString(stripParens(l)) == want && i < len(as.Rhs) && !isNilIdent(v.Info, as.Rhs[i]) {
				return true
			}
		}
		return false
	}
	for _, f := range v.FactsAt(at, false) {
		if c, ok := factCmp(f); ok && c.Op == "!=" && exprString(stripParens(c.L)) == want && isNilIdent(v.Info, c.R) {
			return true
		}
	}
	child := at
	for p := v.parent(at); p != nil; child, p = p, v.parent(p) {
		blk, ok := p.(*ast.BlockStmt)
		if !ok {
			if _, isLit := p.(*ast.FuncLit); isLit {
				return false
			}
			continue
		}
		for _, st := range blk.List {
			if st.Pos() >= child.Pos() {
				break
			}
			if isInit(st) {
				return true
			}
			if ifs, ok := st.(*ast.IfStmt); ok && ifs.Else == nil {
				if b, ok := stripParens(ifs.Cond).(*ast.BinaryExpr); ok && b.Op == token.EQL && exprString(stripParens(b.X)) == want && isNilIdent(v.Info, b.Y) {
					for _, s2 := range ifs.Body.List {
						if isInit(s2) {
							return true
						}
					}
				}
			}
		}
	}
	return false
}

func c11MapFields(r *Run) {
	w := r.W
	uses, sites, missing := mapFieldFacts(w)
	var fields []*types.Var
	for f := range uses {
		fields = append(fields, f)
	}
	sort.Slice(fields, func(i, j int) bool {
		return uses[fields[i]].owner.Obj().Name()+"."+fields[i].Name() < uses[fields[j]].owner.Obj().Name()+"."+fields[j].Name()
	})
	br := blockReachable(w)
	for _, f := range fields {
		u := uses[f]
		onBlockPath := false
		for _, wr := range u.writes {
			if _, ok := br[wr.v.Obj]; ok {
				onBlockPath = true
			}
		}
		if !onBlockPath {
			continue // every write runs inside a recovered transaction: not a liveness question
		}
		name := u.owner.Obj().Pkg().Name() + "." + u.owner.Obj().Name() + "." + f.Name()
		var unprotected []string
		for _, wr := range u.writes {
			if !wr.guard {
				unprotected = append(unprotected, wr.v.pos(wr.at))
			}
		}
		nilSites := missing[u.owner][f.Name()]
		ok := len(nilSites) == 0 || len(unprotected) == 0
		desc := fmt.Sprintf("%d indexed writes; %d construction sites of %s, %d leave the field nil; %d writes initialise it themselves", len(u.writes), len(sites[u.owner]), u.owner.Obj().Name(), len(nilSites), len(u.writes)-len(unprotected))
		if !ok {
			if why, audited := c11MapFieldAudit[name]; audited {
				r.ok("C11.R8", "mapfield|"+name, w.pos(f.Pos()), desc+"; audited: "+why)
				continue
			}
		}
		if len(sites[u.owner]) == 0 && len(unprotected) > 0 {
			ok = false
		}
		r.check(ok, "C11.R8", "mapfield|"+name, w.pos(f.Pos()), desc,
			fmt.Sprintf("%s is written by index at %s without initialising it, and is left nil by the construction at %s: an 'assignment to entry in nil map' panic", name, strings.Join(unprotected, ", "), strings.Join(nilSites, ", ")))
	}
}

// nestedMapWrites: m[a][b] = v needs m[a] to be a non-nil map. Accepted when an earlier statement of an
// enclosing block is `m[a] = <fresh>` or an `if` that tests the presence of m[a] (comma-ok lookup, possibly
// through a boolean local, or m[a] == nil) and whose body stores a fresh map under m[a].
func c11NestedMapWrites(r *Run) {
	w := r.W
	n, seenOff := 0, 0
	br := blockReachable(w)
	for _, v := range w.allViews() {
		if !inScopeFile(w.relFile(v.Decl.Pos())) || v.Decl.Body == nil {
			continue
		}
		_, onBlockPath := br[v.Obj]
		ast.Inspect(v.Decl.Body, func(nd ast.Node) bool {
			var targets []ast.Expr
			switch x := nd.(type) {
			case *ast.AssignStmt:
				targets = x.Lhs
			case *ast.IncDecStmt:
				targets = []ast.Expr{x.X}
			default:
				return true
			}
			for _, t := range targets {
				outer, ok := stripParens(t).(*ast.IndexExpr)
				if !ok {
					continue
				}
				inner, ok := stripParens(outer.X).(*ast.IndexExpr)
				if !ok {
					continue
				}
				if _, isMap := v.Info.TypeOf(inner).Underlying().(*types.Map); !isMap {
					continue
				}
				if _, isMap := v.Info.TypeOf(inner.X).Underlying().(*types.Map); !isMap {
					continue // a slice of maps: element presence is a bounds question (R7)
				}
				n++
				if !onBlockPath {
					// outside block processing a panic is recovered per transaction / aborts a CLI command: the
					// site only shows that the matcher recognises the construct on this tree
					seenOff++
					continue
				}
				r.check(v.innerMapInitialised(nd, inner), "C11.R8", "nestedmap|"+v.ID()+"|"+exprString(inner), v.pos(nd), "the inner map "+exprString(inner)+" is created before it is written", "the write "+exprString(t)+" is not preceded by a creation of "+exprString(inner)+" under a presence test: 'assignment to entry in nil map'")
			}
			return true
		})
	}
	r.check(n >= 1, "C11.R8", "nestedmap|matcher", "-", fmt.Sprintf("%d nested map writes recognised in scope, %d of them outside block processing (not an obligation of this property)", n, seenOff), "no nested map write recognised anywhere: the matcher no longer sees the construct")
}

func (v *FnView) innerMapInitialised(at ast.Node, inner *ast.IndexExpr) bool {
	want := exprString(inner)
	storesFresh := func(st ast.Stmt) bool {
		as, ok := st.(*ast.AssignStmt)
		if !ok || as.Tok != token.ASSIGN {
			return false
		}
		for i, l := range as.Lhs {
			if exprString(stripParens(l)) == want && i < len(as.Rhs) && isFreshContainer(as.Rhs[i]) {
				return true
			}
		}
		return false
	}
	mentionsLookup := func(ifs *ast.IfStmt) bool {
		found := false
		look := func(n ast.Node) {
			ast.Inspect(n, func(m ast.Node) bool {
				if e, ok := m.(ast.Expr); ok && exprString(e) == want {
					found = true
				}
				if id, ok := m.(*ast.Ident); ok {
					if o := v.objOf(id); o != nil {
						for _, d := range v.defsOf(o) {
							if exprString(stripParens(d)) == want {
								found = true
							}
						}
					}
				}
				return true
			})
		}
		if ifs.Init != nil {
			look(ifs.Init)
		}
		look(ifs.Cond)
		return found
	}
	child := at
	for p := v.parent(at); p != nil; child, p = p, v.parent(p) {
		blk, ok := p.(*ast.BlockStmt)
		if !ok {
			if _, isLit := p.(*ast.FuncLit); isLit {
				return false
			}
			continue
		}
		for _, st := range blk.List {
			if st.Pos() >= child.Pos() {
				break
			}
			if storesFresh(st) {
				return true
			}
			if ifs, ok := st.(*ast.IfStmt); ok && ifs.Else == nil && mentionsLookup(ifs) {
				for _, s2 := range ifs.Body.List {
					if storesFresh(s2) {
						return true
					}
				}
			}
		}
	}
	return false
}

// c11MapFieldAudit: fields for which a construction site leaves the map nil and a write does not initialise
// it itself, with the reason the write cannot meet that site. One line per field, read and confirmed.
var c11MapFieldAudit = map[string]string{}

func dumpMapFields(w *World) {
	uses, sites, missing := mapFieldFacts(w)
	for f, u := range uses {
		fmt.Printf("%s.%s.%s: %d writes, %d sites\n", u.owner.Obj().Pkg().Name(), u.owner.Obj().Name(), f.Name(), len(u.writes), len(sites[u.owner]))
		for _, wr := range u.writes {
			fmt.Printf("    write %s guard=%v\n", wr.v.pos(wr.at), wr.guard)
		}
		for _, s := range missing[u.owner][f.Name()] {
			fmt.Printf("    nil-at %s\n", s)
		}
	}
}
