package main

import (
	"fmt"
	"go/ast"
	"go/token"
	"go/types"
	"sort"
	"strings"

	"golang.org/x/tools/go/ssa"
)

func init() { register("C17", runC17) }

// remainderPattern checks the remainder-accumulator booking idiom in fn:
//
//	R := T            (R initialised from the total)
//	for … { sink(…, a); R = R.Sub(a) }   (every allotted amount is subtracted)
//	pool.Add(R...)    (the remainder is booked)
//
// sinkNames are the callees that book an allotted amount (argument index given).
func (v *FnView) remainderPattern(total types.Object, sinks map[string]int) (ok bool, problems []string) {
	// R: a variable with a definition that is exactly `total`
	var R types.Object
	ast.Inspect(v.Decl.Body, func(n ast.Node) bool {
		as, isAs := n.(*ast.AssignStmt)
		if !isAs || len(as.Lhs) != 1 || len(as.Rhs) != 1 {
			return true
		}
		if v.objOf(as.Rhs[0]) == total && total != nil {
			if o := v.objOf(as.Lhs[0]); o != nil && o != total {
				R = o
			}
		}
		return true
	})
	if R == nil {
		return false, []string{"no remainder variable initialised from the total"}
	}
	// every sink call with amount a is paired with R = R.Sub(a) in the same block
	nSinks := 0
	for _, c := range allCalls(v.Decl.Body) {
		idx, isSink := sinks[v.calleeName(c)]
		if !isSink || idx >= len(c.Args) {
			continue
		}
		nSinks++
		a := v.objOf(c.Args[idx])
		blk := v.innermostBlock(c)
		paired := false
		if a != nil && blk != nil {
			for _, s := range blk.List {
				as, isAs := s.(*ast.AssignStmt)
				if !isAs || len(as.Lhs) != 1 || v.objOf(as.Lhs[0]) != R {
					continue
				}
				if recv, name, args, isCall := methodCall(as.Rhs[0]); isCall && name == "Sub" && v.objOf(recv) == R && len(args) == 1 && v.objOf(args[0]) == a {
					paired = true
				}
			}
		}
		if !paired {
			problems = append(problems, fmt.Sprintf("amount handed to %s at %s is not subtracted from the remainder", v.calleeName(c), v.pos(c)))
		}
	}
	if nSinks == 0 {
		problems = append(problems, "no booking sink call found")
	}
	// R is assigned nowhere else (apart from the initialisation and the Sub updates)
	ast.Inspect(v.Decl.Body, func(n ast.Node) bool {
		as, isAs := n.(*ast.AssignStmt)
		if !isAs {
			return true
		}
		for i, l := range as.Lhs {
			if v.objOf(l) != R || i >= len(as.Rhs) {
				continue
			}
			if v.objOf(as.Rhs[i]) == total {
				continue
			}
			if recv, name, _, isCall := methodCall(as.Rhs[i]); isCall && name == "Sub" && v.objOf(recv) == R {
				continue
			}
			problems = append(problems, "the remainder is reassigned at "+v.pos(as))
		}
		return true
	})
	// the community pool receives R
	booked := false
	for _, as := range v.assignmentsToField(v.Decl.Body, "CommunityPool") {
		if recv, name, args, isCall := methodCall(as.Rhs[0]); isCall && name == "Add" && lastField(recv) == "CommunityPool" && len(args) == 1 && v.objOf(args[0]) == R {
			if lp := v.innermostLoop(as); lp == nil {
				booked = true
			}
		}
	}
	if !booked {
		problems = append(problems, "the community pool is not credited with the remainder variable after the loop")
	}
	return len(problems) == 0, problems
}

func runC17(r *Run) {
	w := r.W
	r.Explain = "Static decision of structural necessary conditions of C17 (native supply and fee distribution): the only mint/burn site of the custom modules that is reachable from a live entry point is the exomint epoch hook, which mints once (no loop) under the configured identifier and a non-zero reward and forwards the same coins to the fee collector; AllocateTokens moves exactly the fee collector's whole balance before any early exit and derives the booked total from it; each allocation function follows the remainder-accumulator idiom (every allotted amount is subtracted from a remainder initialised to the total, and the remainder goes to the community pool), the validator split is commission + (tokens - commission); portions are truncating; the distribution hook precedes the mint hook."
	r.NotDec = []string{"solvency as a run-time inequality", "proportionality numerics", "ordinary EVM/bank burns (inherited evmos code, excluded by package)"}
	r.Assume = []string{"bank keeper MintCoins/BurnCoins are the only ways to change supply", "DecCoins.Sub/Add are exact"}
	r.rule("C17.R1", "who-may-mint: MintCoins/BurnCoins call sites of the custom modules are reachable only from the exomint epoch hook; the hook mints once, under identifier == params.EpochIdentifier and a non-zero reward and under nothing else, and forwards the same coins", 5)
	r.rule("C17.R2", "move-all: AllocateTokens sends GetAllBalances(fee collector) to the distribution account unconditionally, before any early exit, and the booked total derives from the same value", 3)
	r.rule("C17.R3", "booking balance: remainder-accumulator idiom in AllocateTokens and AllocateTokensToStakers; validator split = commission + (tokens - commission); zero-power arm books everything to the community pool; the staker allocation books on every exit", 9)
	r.rule("C17.R4", "portions are truncating (MulDecTruncate / QuoTruncate)", 3)
	r.rule("C17.R5", "the distribution epoch hook is registered before the mint epoch hook", 1)
	r.rule("C17.R6", "the community tax stays within [0, 1] (outside it the validator share or the remainder is negative and the allocation panics): Params.Validate rejects it, the update message and the genesis state validate their params, and nothing else stores fee-distribution params", 4)
	c17CommunityTax(r)

	e := effects(w)
	cat := catalogue(w)
	_ = e
	// ---- R1: mint/burn sites outside x/evm
	type site struct {
		fn   *ssa.Function
		name string
	}
	var sites []site
	for f := range w.AllFuncs {
		if !w.fnInScope(f) {
			continue
		}
		rf := w.relFile(f.Pos())
		if f.Parent() != nil {
			rf = w.relFile(f.Parent().Pos())
		}
		if strings.HasPrefix(rf, "x/evm/") || strings.HasPrefix(rf, "app/ante/evm") || strings.HasPrefix(rf, "x/appchain/") {
			continue
		}
		for _, ci := range calls(f) {
			if eff, ok := isExternalKeeperCall(ci); ok && (eff == "W bank:mint" || eff == "W bank:burn") {
				sites = append(sites, site{f, eff})
			}
		}
	}
	sort.Slice(sites, func(i, j int) bool { return fnName(sites[i].fn) < fnName(sites[j].fn) })
	var mintHook *ssa.Function
	var others []*ssa.Function
	for _, en := range cat.Entries {
		switch {
		case en.Name == "epochhook:exomint.AfterEpochEnd":
			mintHook = en.Fn
		case strings.HasPrefix(en.Cat, "initgenesis"), strings.HasPrefix(en.Cat, "exportgenesis"), en.Cat == "epochhook-unwired":
		default:
			others = append(others, en.Fn)
		}
	}
	stop := func(f *ssa.Function) bool { return !w.fnInScope(f) && f.Pkg != nil }
	fromMint := w.Reach([]*ssa.Function{mintHook}, stop)
	fromOthers := w.Reach(others, func(f *ssa.Function) bool {
		if stop(f) || f == mintHook {
			return true // reaching the mint hook itself (through the epochs fan-out) is the allowed path
		}
		// the inherited EVM is the statement's "ordinary EVM burns": do not traverse it
		rf := w.relFile(f.Pos())
		return strings.HasPrefix(rf, "x/evm/")
	})
	nLive := 0
	for _, s := range sites {
		key := "mint-site|" + fnName(s.fn)
		_, viaMint := fromMint[s.fn]
		_, viaOther := fromOthers[s.fn]
		switch {
		case viaOther:
			r.bad("C17.R1", key, w.pos(s.fn.Pos()), "mint/burn only from the mint hook", "a "+s.name+" site of a custom module is reachable from another entry point: "+pathTo(fromOthers, s.fn))
		case viaMint:
			nLive++
			r.ok("C17.R1", key, w.pos(s.fn.Pos()), "reachable only from the exomint epoch hook")
		default:
			r.ok("C17.R1", key, w.pos(s.fn.Pos()), "dead minter: not reachable from any live entry point (wiring it into a live path is reported)")
		}
	}
	if nLive != 1 {
		r.bad("C17.R1", "mint-site|count", "-", "exactly one live mint site", fmt.Sprintf("%d live mint/burn sites found in custom modules", nLive))
	}
	if hv := w.View("x/exomint/keeper", "EpochsHooksWrapper.AfterEpochEnd"); hv == nil {
		r.bad("C17.R1", "hook|anchor", "-", "anchor", "exomint AfterEpochEnd not found")
	} else {
		r.saw(hv.ID())
		var idParam types.Object
		for _, fl := range hv.Decl.Type.Params.List {
			for _, n := range fl.Names {
				if b, ok := hv.Info.TypeOf(fl.Type).Underlying().(*types.Basic); ok && b.Kind() == types.String {
					idParam = hv.Info.ObjectOf(n)
				}
			}
		}
		mints := hv.CallsNamed("MintCoins")
		r.check(len(mints) == 1, "C17.R1", "hook|mint-once", hv.pos(hv.Decl), "one MintCoins call", fmt.Sprintf("%d MintCoins calls in the hook", len(mints)))
		for _, c := range mints {
			inLoop := hv.innermostLoop(c) != nil
			idOK, nzOK := false, false
			var others []string
			for _, f := range hv.FactsAt(c, false) {
				s := exprString(f.Atom)
				idBefore := idOK
				if cm, ok := factCmp(f); ok && cm.Op == "==" && exprString(cm.R) == "0" {
					// strings.Compare(identifier, params.EpochIdentifier) == 0
					if call, ok := stripParens(cm.L).(*ast.CallExpr); ok && len(call.Args) == 2 {
						a, b := call.Args[0], call.Args[1]
						if hv.objOf(b) == idParam {
							a, b = b, a
						}
						if hv.objOf(a) == idParam && lastField(b) == "EpochIdentifier" {
							for _, d := range hv.resolveDefs(rootIdent(b), 0) {
								if strings.Contains(exprString(d), "GetParams") {
									idOK = true
								}
							}
						}
					}
				}
				if cm, ok := factCmp(f); ok && cm.Op == "==" && hv.objOf(cm.L) == idParam && lastField(cm.R) == "EpochIdentifier" {
					idOK = true
				}
				isNZ := strings.HasSuffix(s, "EpochReward.IsZero()") && !f.Truth
				if isNZ {
					nzOK = true
				}
				// anything else on the way to the mint makes some epoch end of the configured identifier pass without one
				isID := idOK && !idBefore
				if !isID && !isNZ && !hv.isExpandedAlias(f) && !mintIdentifierFact(hv, f, idParam) {
					if f.Truth {
						others = append(others, s)
					} else {
						others = append(others, "!("+s+")")
					}
				}
			}
			r.check(len(others) == 0, "C17.R1", "hook|mint-every-epoch-end", hv.pos(c), "nothing but the identifier match and the non-zero reward decides whether the hook mints", "the mint is also conditioned on "+strings.Join(uniq(others), ", ")+": an epoch of the configured identifier can end without the reward being minted")
			r.check(!inLoop && idOK && nzOK, "C17.R1", "hook|mint-guards", hv.pos(c), "mint happens once, for the configured identifier, with a non-zero reward",
				fmt.Sprintf("mint call: inLoop=%v identifier==params.EpochIdentifier=%v reward!=0=%v", inLoop, idOK, nzOK))
			// forwarded
			fwd := false
			for _, a := range hv.CallsNamed("AddCollectedFees") {
				if len(a.Args) == 2 && len(c.Args) == 2 && hv.objOf(a.Args[1]) == hv.objOf(c.Args[1]) && hv.objOf(a.Args[1]) != nil && hv.guardedByCall(a, c) {
					fwd = true
				}
			}
			r.check(fwd, "C17.R1", "hook|forwarded", hv.pos(c), "the minted coins are forwarded to the fee collector", "AddCollectedFees is not called with the minted coins after a successful mint")
		}
	}
	// ---- R2 / R3 / R4
	at := w.View("x/feedistribution/keeper", "Keeper.AllocateTokens")
	av := w.View("x/feedistribution/keeper", "Keeper.AllocateTokensToValidator")
	as := w.View("x/feedistribution/keeper", "Keeper.AllocateTokensToStakers")
	if at == nil || av == nil || as == nil {
		r.bad("C17.R2", "anchor", "-", "anchor", "feedistribution allocation functions not found")
		return
	}
	r.saw(at.ID())
	r.saw(av.ID())
	r.saw(as.ID())
	{
		sends := at.CallsNamed("SendCoinsFromModuleToModule")
		r.check(len(sends) == 1, "C17.R2", "send|once", at.pos(at.Decl), "one transfer fee collector -> distribution", fmt.Sprintf("%d SendCoinsFromModuleToModule calls", len(sends)))
		for _, c := range sends {
			all := false
			var balObj types.Object
			if len(c.Args) == 4 {
				balObj = at.objOf(c.Args[3])
				for _, d := range at.resolveDefs(c.Args[3], 0) {
					if strings.Contains(exprString(d), "GetAllBalances") {
						all = true
					}
				}
				src := strings.Contains(exprString(c.Args[1]), "feeCollectorName")
				all = all && src
			}
			r.check(all, "C17.R2", "send|whole-balance", at.pos(c), "the whole fee-collector balance is moved", "the amount sent is not GetAllBalances(fee collector)")
			// before any return that is not the send's own failure
			early := []string{}
			ast.Inspect(at.Decl.Body, func(n ast.Node) bool {
				rs, ok := n.(*ast.ReturnStmt)
				if ok && rs.Pos() < c.Pos() {
					early = append(early, at.pos(rs))
				}
				return true
			})
			uncond := !at.nestedConditionally(c, at.Decl.Body) || func() bool {
				// allowed: `if err := Send(…); err != nil { return err }`
				ifs, ok := at.parent(at.parent(c)).(*ast.IfStmt)
				return ok && ifs.Init != nil && within(c, ifs.Init) && at.parent(ifs) == ast.Node(at.Decl.Body)
			}()
			r.check(len(early) == 0 && uncond, "C17.R2", "send|before-exits", at.pos(c), "the transfer precedes every exit and is unconditional", fmt.Sprintf("the transfer is conditional or preceded by returns at %v: fees can be booked without being moved", early))
			// feesCollected derives from the same balance
			derived := false
			ast.Inspect(at.Decl.Body, func(n ast.Node) bool {
				a, ok := n.(*ast.AssignStmt)
				if ok && len(a.Rhs) == 1 && strings.Contains(exprString(a.Rhs[0]), "NewDecCoinsFromCoins") && balObj != nil && at.usesObj(a.Rhs[0], balObj) {
					derived = true
				}
				return true
			})
			r.check(derived, "C17.R2", "send|total-derived", at.pos(c), "the booked total is the moved amount", "the total to book is not NewDecCoinsFromCoins(<the moved balance>)")
		}
	}
	{
		var total types.Object
		ast.Inspect(at.Decl.Body, func(n ast.Node) bool {
			a, ok := n.(*ast.AssignStmt)
			if ok && len(a.Lhs) == 1 && len(a.Rhs) == 1 && strings.Contains(exprString(a.Rhs[0]), "NewDecCoinsFromCoins") {
				total = at.objOf(a.Lhs[0])
			}
			return true
		})
		ok, probs := at.remainderPattern(total, map[string]int{"AllocateTokensToValidator": 2})
		r.check(ok, "C17.R3", "AllocateTokens|remainder", at.pos(at.Decl), "total = sum(validator portions) + remainder -> community pool", strings.Join(probs, "; "))
		// zero-power arm
		zp := false
		for _, a := range at.assignmentsToField(at.Decl.Body, "CommunityPool") {
			if recv, name, args, isCall := methodCall(a.Rhs[0]); isCall && name == "Add" && lastField(recv) == "CommunityPool" && len(args) == 1 && at.objOf(args[0]) == total {
				for _, f := range at.FactsAt(a, false) {
					if cm, ok := factCmp(f); ok && cm.Op == "==" && exprString(cm.R) == "0" && strings.Contains(strings.ToLower(exprString(cm.L)), "power") {
						zp = true
					}
				}
			}
		}
		r.check(zp, "C17.R3", "AllocateTokens|zero-power", at.pos(at.Decl), "with zero total power everything is booked to the community pool", "the zero-power arm does not add the whole collected amount to the community pool")
		// SetFeePool after both
		// the pool is an in-memory object that the callees add dust and unallotted shares to: every success exit
		// after it was loaded stores it, unconditionally, as the statement before the return
		sf, nRet := len(at.CallsNamed("SetFeePool")) >= 2, 0
		var poolDef ast.Node
		var poolObj types.Object
		ast.Inspect(at.Decl.Body, func(n ast.Node) bool {
			a, ok := n.(*ast.AssignStmt)
			if ok && len(a.Lhs) == 1 && len(a.Rhs) == 1 && at.calleeName2(a.Rhs[0]) == "GetFeePool" && poolDef == nil {
				poolDef, poolObj = a, at.objOf(a.Lhs[0])
			}
			return true
		})
		why := "SetFeePool is missing on an arm"
		if poolDef == nil {
			sf, why = false, "the fee pool is not loaded by GetFeePool"
		} else {
			ast.Inspect(at.Decl.Body, func(n ast.Node) bool {
				if _, isLit := n.(*ast.FuncLit); isLit {
					return false
				}
				rs, ok := n.(*ast.ReturnStmt)
				if !ok || rs.Pos() < poolDef.End() || returnsErr(at, rs) || contradictoryFacts(at.FactsAt(rs, false)) {
					return true
				}
				nRet++
				stored := false
				if blk, isB := at.parent(rs).(*ast.BlockStmt); isB {
					for i, st := range blk.List {
						if st == ast.Stmt(rs) && i > 0 {
							if es, isE := blk.List[i-1].(*ast.ExprStmt); isE {
								if c, isC := es.X.(*ast.CallExpr); isC && at.calleeName(c) == "SetFeePool" && len(c.Args) == 2 && at.objOf(c.Args[1]) == poolObj {
									stored = true
								}
							}
						}
					}
				}
				if !stored {
					sf, why = false, "the success exit at "+at.pos(rs)+" is not directly preceded by SetFeePool(ctx, <the loaded pool>): what the validator and staker allocations added to the in-memory pool (dust, the staker share of an inactive operator) is moved to the distribution account but booked nowhere"
				}
				return true
			})
		}
		r.check(sf && nRet >= 2, "C17.R3", "AllocateTokens|pool-stored", at.pos(at.Decl), "the fee pool is stored, unconditionally, right before every success exit of AllocateTokens", why)
	}
	{
		var total types.Object
		for _, fl := range as.Decl.Type.Params.List {
			for _, n := range fl.Names {
				if strings.HasSuffix(as.Info.TypeOf(fl.Type).String(), "DecCoins") {
					total = as.Info.ObjectOf(n)
				}
			}
		}
		ok, probs := as.remainderPattern(total, map[string]int{"AllocateTokensToSingleStaker": 2})
		// every validator of the set is allocated to: the validator loop of AllocateTokens is not left by `break`
		{
			brk := ""
			ast.Inspect(at.Decl.Body, func(n ast.Node) bool {
				if b, isB := n.(*ast.BranchStmt); isB && b.Tok == token.BREAK && b.Label == nil {
					if lp, isL := at.innermostLoop(b).(*ast.RangeStmt); isL && strings.Contains(exprString(lp.X), "alidators") {
						brk = at.pos(b)
					}
				}
				return true
			})
			// ... and a validator is skipped only when it cannot be resolved (public key, operator lookup): any
			// other skip hands a validator's portion to the community pool although its power was counted
			var skips []string
			ast.Inspect(at.Decl.Body, func(n ast.Node) bool {
				b, isB := n.(*ast.BranchStmt)
				if !isB || b.Tok != token.CONTINUE {
					return true
				}
				lp, isL := at.innermostLoop(b).(*ast.RangeStmt)
				if !isL || !strings.Contains(exprString(lp.X), "alidators") {
					return true
				}
				for _, f := range at.FactsAt(b, false) {
					if f.At == nil || f.At.Pos() < lp.Pos() || f.LoopCond || at.isExpandedAlias(f) {
						continue
					}
					if o := at.outcome(f); o != nil && (o.Callee.Name() == "ConsPubKey" || o.Callee.Name() == "ValidatorByConsAddrForChainID") {
						continue
					}
					skips = append(skips, at.pos(b)+" under "+ifNot(f.Truth)+exprString(f.Atom))
				}
				return true
			})
			r.check(len(skips) == 0, "C17.R3", "AllocateTokens|skip-only-unresolvable", at.pos(at.Decl), "a validator is skipped only when its key or its operator cannot be resolved", "the validator loop of AllocateTokens skips a validator at "+strings.Join(skips, "; ")+": its portion is no longer proportional to its voting power (it goes to the community pool)")
			r.check(brk == "", "C17.R3", "AllocateTokens|every-validator", at.pos(at.Decl), "a validator that cannot be resolved is skipped; the validators after it still get their portions", "the validator loop of AllocateTokens is left by `break` at "+brk+": the portions of all later validators go to the community pool")
		}
		// the whole portion of a validator is booked: commission, stakers' share and outstanding rewards are
		// written unconditionally (no early return between the split and the writes)
		if vv := w.View("x/feedistribution/keeper", "Keeper.AllocateTokensToValidator"); vv != nil {
			var miss []string
			for _, nm := range []string{"SetValidatorAccumulatedCommission", "AllocateTokensToStakers", "SetValidatorOutstandingRewards"} {
				cs := vv.CallsNamed(nm)
				if len(cs) != 1 {
					miss = append(miss, nm+" (not called exactly once)")
					continue
				}
				for _, f := range vv.factsAt(cs[0], false) {
					if vv.isSuccessOutcome(f) {
						continue
					}
					miss = append(miss, nm+" (only under "+ifNot(f.Truth)+exprString(f.Atom)+")")
				}
			}
			r.check(len(miss) == 0, "C17.R3", "AllocateTokensToValidator|booked-unconditionally", vv.pos(vv.Decl), "a validator's portion is always booked: commission, stakers' share, outstanding rewards", "not unconditional: "+strings.Join(miss, ", ")+" -- the caller still subtracts the portion from the remainder, so it is moved but booked to nobody")
		}
		r.check(ok, "C17.R3", "AllocateTokensToStakers|remainder", as.pos(as.Decl), "stakers' share = sum(staker rewards) + remainder -> community pool", strings.Join(probs, "; "))
		// the function books only at its very end (remainder -> community pool): any other way out leaves the
		// share it was handed moved but booked nowhere. The one early exit (the opt-in list cannot be read) is a
		// parse failure of the store's own keys.
		{
			var exits []string
			ast.Inspect(as.Decl.Body, func(n ast.Node) bool {
				if _, isLit := n.(*ast.FuncLit); isLit {
					return false
				}
				rs, isR := n.(*ast.ReturnStmt)
				if !isR {
					return true
				}
				audited := false
				for _, f := range as.FactsAt(rs, false) {
					if o := as.outcome(f); o != nil && o.Callee.Name() == "GetOptedInAVSForOperator" && !o.Success {
						audited = true
					}
				}
				// the only other facts allowed at that exit are none: it sits at the top level
				if audited && as.innermostLoop(rs) == nil {
					return true
				}
				exits = append(exits, as.pos(rs))
				return true
			})
			r.check(len(exits) == 0, "C17.R3", "AllocateTokensToStakers|books-on-every-exit", as.pos(as.Decl), "the staker allocation is left only at its end, after the remainder was booked (apart from the unreadable opt-in list)", "AllocateTokensToStakers returns early at "+strings.Join(exits, ", ")+": the share it was handed has already been taken from the validator-level remainder and is booked to nobody")
		}
		// the fractions paid out sum to at most one: what a list entry is paid with (its weight in the map) is
		// exactly what it added to the total. In the accumulating block: the total grows by w unconditionally;
		// the entry is appended and its weight set to w only when the key is new, and otherwise the weight
		// grows by w and nothing is appended.
		{
			var accAs *ast.AssignStmt
			ast.Inspect(as.Decl.Body, func(n ast.Node) bool {
				a, isAs := n.(*ast.AssignStmt)
				if isAs && len(a.Lhs) == 1 && len(a.Rhs) == 1 && as.addChainOn(a.Lhs[0], a.Rhs[0]) && as.innermostLoop(a) != nil && strings.Contains(strings.ToLower(exprString(a.Lhs[0])), "power") {
					accAs = a
				}
				return true
			})
			okPair := false
			why := "no accumulation of the total staker power found"
			if accAs != nil {
				blk := as.innermostBlock(accAs)
				// w: the term added to the total
				var wExpr ast.Expr
				if c, isC := stripParens(accAs.Rhs[0]).(*ast.CallExpr); isC && len(c.Args) == 1 {
					wExpr = c.Args[0]
				}
				why = "the block that grows the total does not keep one map entry per staker whose weight is what the staker added"
				if blk != nil && wExpr != nil {
					for _, st := range blk.List {
						ifs, isIf := st.(*ast.IfStmt)
						if !isIf || ifs.Else == nil || ifs.Init == nil {
							continue
						}
						// `prev, seen := weights[k]; seen`
						init, isInit := ifs.Init.(*ast.AssignStmt)
						if !isInit || len(init.Lhs) != 2 || len(init.Rhs) != 1 {
							continue
						}
						ix, isIx := stripParens(init.Rhs[0]).(*ast.IndexExpr)
						if !isIx {
							continue
						}
						seenObj, prevObj := as.objOf(init.Lhs[1]), as.objOf(init.Lhs[0])
						condIsSeen, condIsNotSeen := false, false
						if id, isID := stripParens(ifs.Cond).(*ast.Ident); isID && as.objOf(id) == seenObj {
							condIsSeen = true
						}
						if u, isU := stripParens(ifs.Cond).(*ast.UnaryExpr); isU && u.Op == token.NOT && as.objOf(u.X) == seenObj {
							condIsNotSeen = true
						}
						if !condIsSeen && !condIsNotSeen {
							continue
						}
						seenArm := ifs.Body
						newArm, _ := ifs.Else.(*ast.BlockStmt)
						if condIsNotSeen {
							seenArm, newArm = newArm, ifs.Body
						}
						if seenArm == nil || newArm == nil {
							continue
						}
						mapAssign := func(b *ast.BlockStmt) ast.Expr {
							for _, s2 := range b.List {
								if a, isAs := s2.(*ast.AssignStmt); isAs && len(a.Lhs) == 1 && len(a.Rhs) == 1 && exprString(stripParens(a.Lhs[0])) == exprString(ix) {
									return a.Rhs[0]
								}
							}
							return nil
						}
						appends := func(b *ast.BlockStmt) bool {
							for _, c := range allCalls(b) {
								if exprString(c.Fun) == "append" && len(c.Args) == 2 && sameExpr(c.Args[1], ix.Index) {
									return true
								}
							}
							return false
						}
						sv, nv := mapAssign(seenArm), mapAssign(newArm)
						okSeen := false
						if c, isC := stripParens(sv).(*ast.CallExpr); sv != nil && isC && len(c.Args) == 1 && sameExpr(c.Args[0], wExpr) {
							if sel, isS := c.Fun.(*ast.SelectorExpr); isS && sel.Sel.Name == "Add" && as.objOf(sel.X) == prevObj {
								okSeen = true
							}
						}
						okNew := nv != nil && sameExpr(nv, wExpr) && appends(newArm) && !appends(seenArm)
						// nothing else appends to the list in this block
						extra := 0
						for _, c := range allCalls(blk) {
							if exprString(c.Fun) == "append" && len(c.Args) == 2 && sameExpr(c.Args[1], ix.Index) {
								extra++
							}
						}
						if okSeen && okNew && extra == 1 {
							okPair = true
						}
					}
				}
			}
			r.check(okPair, "C17.R3", "AllocateTokensToStakers|paid-what-it-added", as.pos(as.Decl), "a staker is listed once and its weight is everything it added to the total (so the fractions add up to at most one)", why+": a staker reached under several assets or AVSs is paid several fractions of a total that counts it differently (the payouts exceed the share and `remaining.Sub` panics in BeginBlock)")
		}
	}
	{
		// validator split
		var tokens types.Object
		for _, fl := range av.Decl.Type.Params.List {
			for _, n := range fl.Names {
				if strings.HasSuffix(av.Info.TypeOf(fl.Type).String(), "DecCoins") {
					tokens = av.Info.ObjectOf(n)
				}
			}
		}
		var commission, shared types.Object
		ast.Inspect(av.Decl.Body, func(n ast.Node) bool {
			a, ok := n.(*ast.AssignStmt)
			if !ok || len(a.Lhs) != 1 || len(a.Rhs) != 1 {
				return true
			}
			recv, name, args, isCall := methodCall(a.Rhs[0])
			if !isCall || av.objOf(recv) != tokens {
				return true
			}
			if strings.HasPrefix(name, "MulDec") && len(args) == 1 && strings.Contains(exprString(args[0]), "Rate") {
				commission = av.objOf(a.Lhs[0])
			}
			if name == "Sub" && len(args) == 1 && av.objOf(args[0]) == commission && commission != nil {
				shared = av.objOf(a.Lhs[0])
			}
			return true
		})
		okC, okS := false, false
		for _, a := range av.assignmentsToField(av.Decl.Body, "Commission") {
			if _, name, args, isCall := methodCall(a.Rhs[0]); isCall && name == "Add" && len(args) == 1 && av.objOf(args[0]) == commission && commission != nil {
				okC = true
			}
		}
		for _, c := range av.CallsNamed("AllocateTokensToStakers") {
			if len(c.Args) >= 3 && av.objOf(c.Args[2]) == shared && shared != nil {
				okS = true
			}
		}
		r.check(commission != nil && shared != nil && okC && okS, "C17.R3", "AllocateTokensToValidator|split", av.pos(av.Decl), "validator portion = commission (booked) + (tokens - commission) (to stakers)",
			"the validator portion is not split into commission = tokens*rate, booked to the accumulated commission, and shared = tokens - commission, handed to the stakers")
	}
	// ---- R4
	{
		for _, item := range []struct {
			v    *FnView
			name string
			want string
		}{{at, "powerFraction", "QuoTruncate"}, {at, "reward", "MulDecTruncate"}, {as, "powerFraction", "QuoTruncate"}, {as, "rewardToSingleStaker", "MulDecTruncate"}} {
			found := false
			ast.Inspect(item.v.Decl.Body, func(n ast.Node) bool {
				a, ok := n.(*ast.AssignStmt)
				if ok && len(a.Lhs) == 1 && len(a.Rhs) == 1 {
					if id, ok := a.Lhs[0].(*ast.Ident); ok && id.Name == item.name {
						if _, nm, _, isCall := methodCall(a.Rhs[0]); isCall && nm == item.want {
							found = true
						}
					}
				}
				return true
			})
			r.check(found, "C17.R4", funcID(item.v.Obj)+"|"+item.name, item.v.pos(item.v.Decl), item.name+" is computed with "+item.want, item.name+" is not computed with the truncating "+item.want+" (rounding up can book more than was moved)")
		}
	}
	// ---- R5
	{
		order, node, v := epochHookOrder(w)
		iD, iM := -1, -1
		for i, t := range order {
			if t == nil || t.Pkg() == nil {
				continue
			}
			switch moduleOfPkg(t.Pkg().Path()) {
			case "feedistribution":
				iD = i
			case "exomint":
				iM = i
			}
		}
		pos := "-"
		if node != nil {
			pos = v.pos(node)
		}
		r.check(iD >= 0 && iM >= 0 && iD < iM, "C17.R5", "hook-order", pos, "distribution hook runs before the mint hook", fmt.Sprintf("epoch hook order: distribution at %d, mint at %d", iD, iM))
	}
}

// triBool evaluation of a condition over the two atoms "tax < 0" (a) and "tax > 1" (b) for a non-nil tax.
// Returns (value, known).
func evalTaxCond(v *FnView, e ast.Expr, a, b bool) (bool, bool) {
	switch x := stripParens(e).(type) {
	case *ast.UnaryExpr:
		if x.Op == token.NOT {
			val, ok := evalTaxCond(v, x.X, a, b)
			return !val, ok
		}
	case *ast.BinaryExpr:
		switch x.Op {
		case token.LAND:
			l, lok := evalTaxCond(v, x.X, a, b)
			rr, rok := evalTaxCond(v, x.Y, a, b)
			if (lok && !l) || (rok && !rr) {
				return false, true
			}
			return l && rr, lok && rok
		case token.LOR:
			l, lok := evalTaxCond(v, x.X, a, b)
			rr, rok := evalTaxCond(v, x.Y, a, b)
			if (lok && l) || (rok && rr) {
				return true, true
			}
			return l || rr, lok && rok
		}
	case *ast.CallExpr:
		recv, name, args, ok := methodCall(x)
		if !ok || lastField(recv) != "CommunityTax" {
			return false, false
		}
		isOne := func(e ast.Expr) bool {
			s := exprString(e)
			return strings.HasSuffix(s, "OneDec()") && !strings.Contains(s, "Zero") || s == "sdk.NewDec(1)" || s == "math.LegacyNewDec(1)"
		}
		isZero := func(e ast.Expr) bool {
			s := exprString(e)
			return strings.HasSuffix(s, "ZeroDec()") || s == "sdk.NewDec(0)" || s == "math.LegacyNewDec(0)"
		}
		switch {
		case name == "IsNil" && len(args) == 0:
			return false, true
		case name == "IsNegative" && len(args) == 0:
			return a, true
		case name == "IsPositive" && len(args) == 0:
			return false, false // 0 < tax says nothing about either bound in the three probes used
		case name == "GT" && len(args) == 1 && isOne(args[0]):
			return b, true
		case name == "LTE" && len(args) == 1 && isOne(args[0]):
			return !b, true
		case name == "LT" && len(args) == 1 && isZero(args[0]):
			return a, true
		case name == "GTE" && len(args) == 1 && isZero(args[0]):
			return !a, true
		}
	case *ast.Ident:
		if defs := v.defsOf(v.objOf(x)); len(defs) == 1 {
			return evalTaxCond(v, defs[0], a, b)
		}
	}
	return false, false
}

func c17CommunityTax(r *Run) {
	w := r.W
	pv := w.View("x/feedistribution/types", "Params.Validate")
	if pv == nil {
		r.bad("C17.R6", "anchor|Params.Validate", "-", "anchor", "x/feedistribution/types.Params.Validate not found")
	} else {
		r.saw(pv.ID())
		// rejected(a, b): some top-level `if` whose body returns an error is entered
		rejected := func(a, b bool) bool {
			for _, st := range pv.Decl.Body.List {
				ifs, ok := st.(*ast.IfStmt)
				if !ok || ifs.Init != nil || len(ifs.Body.List) == 0 {
					continue
				}
				rs, isRet := ifs.Body.List[len(ifs.Body.List)-1].(*ast.ReturnStmt)
				if !isRet || !returnsErr(pv, rs) {
					continue
				}
				if val, known := evalTaxCond(pv, ifs.Cond, a, b); known && val {
					return true
				}
			}
			return false
		}
		r.check(rejected(true, false), "C17.R6", "tax|negative-rejected", pv.pos(pv.Decl), "a negative community tax is rejected", "Params.Validate accepts a negative community tax: the remainder booked to the community pool is negative and AllocateTokens panics in BeginBlock")
		r.check(rejected(false, true), "C17.R6", "tax|above-one-rejected", pv.pos(pv.Decl), "a community tax above one is rejected", "Params.Validate accepts a community tax above one: the validators' share 1 - tax is negative and AllocateTokens panics in BeginBlock")
	}
	// the writers validate
	okMsg := false
	if mv := w.View("x/feedistribution/types", "MsgUpdateParams.ValidateBasic"); mv != nil {
		for _, c := range mv.CallsNamed("Validate") {
			if strings.HasSuffix(exprString(c.Fun), ".Params.Validate") {
				if k, _ := mv.failArm(c); k == "return" {
					okMsg = true
				}
			}
		}
	}
	r.check(okMsg, "C17.R6", "writer|msg-validates", "-", "MsgUpdateParams.ValidateBasic returns the error of Params.Validate", "the update message no longer validates its params")
	okGen := false
	if gv := w.View("x/feedistribution/types", "GenesisState.Validate"); gv != nil {
		for _, c := range gv.CallsNamed("Validate") {
			if strings.HasSuffix(exprString(c.Fun), ".Params.Validate") {
				if k, _ := gv.failArm(c); k == "return" {
					okGen = true
				}
			}
		}
	}
	r.check(okGen, "C17.R6", "writer|genesis-validates", "-", "GenesisState.Validate returns the error of Params.Validate", "the genesis state no longer validates its params")
	// nobody else stores the params
	var others []string
	for _, v := range w.allViews() {
		if !inScopeFile(w.relFile(v.Decl.Pos())) {
			continue
		}
		for _, c := range v.CallsNamed("SetParams") {
			fo := v.callee(c)
			if fo == nil || fo.Pkg() == nil || !strings.HasSuffix(fo.Pkg().Path(), "x/feedistribution/keeper") {
				continue
			}
			switch v.ID() {
			case "x/feedistribution/keeper.msgServer.UpdateParams", "x/feedistribution/keeper.Keeper.InitGenesis", "x/feedistribution/module.InitGenesis":
			default:
				others = append(others, v.ID())
			}
		}
	}
	r.check(len(others) == 0, "C17.R6", "writer|only-validated-paths", "-", "fee-distribution params are stored only by the update message handler and InitGenesis", "fee-distribution params are also stored by "+strings.Join(others, ", ")+", which does not go through Params.Validate")
}

// mintIdentifierFact: the fact compares the hook's identifier parameter with the configured identifier (either
// spelling: strings.Compare(...) == 0 or ==); several facts of that kind can hold at once (mirrored forms).
func mintIdentifierFact(hv *FnView, f Fact, idParam types.Object) bool {
	cm, ok := factCmp(f)
	if !ok {
		return false
	}
	mentions := func(e ast.Expr) bool {
		found := false
		ast.Inspect(e, func(n ast.Node) bool {
			if id, ok := n.(*ast.Ident); ok && hv.Info.ObjectOf(id) == idParam {
				found = true
			}
			return true
		})
		return found
	}
	return (mentions(cm.L) || mentions(cm.R)) && (strings.Contains(exprString(cm.L), "EpochIdentifier") || strings.Contains(exprString(cm.R), "EpochIdentifier"))
}

// contradictoryFacts: the facts name one atom both true and false -- the node is unreachable.
func contradictoryFacts(fs []Fact) bool {
	for i := range fs {
		for j := i + 1; j < len(fs); j++ {
			if fs[i].Truth != fs[j].Truth && sameExpr(fs[i].Atom, fs[j].Atom) {
				return true
			}
		}
	}
	return false
}
