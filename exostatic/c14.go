package main

import (
	"fmt"
	"go/ast"
	"go/token"
	"go/types"
	"sort"
	"strings"
)

func init() { register("C14", runC14) }

func runC14(r *Run) {
	w := r.W
	r.Explain = "Static decision of structural necessary conditions of C14 (oracle restart equivalence): (R1) the replay in recacheAggregatorContext re-executes, for every block of the window and in the live order, 'params in force -> PrepareRoundEndBlock(block-1) -> FillPrice of that block's logged messages -> SealRound at that block's height', then prepares the current block; (R2) nothing process-local is read before it has been restored from the store; on every path to PrepareRoundEndBlock the context has params; (R3) the restart branch resets the caches before and marks them clean after the whole recache, and nowhere in between; (R4) every change the live node makes to the replay inputs is logged: accepted non-final submissions, validator-set and power changes (update flag on every mutating arm), params updates, and the caches are committed unconditionally every EndBlock; (R5) pruning keeps the store and its index in agreement and never drops the newest params older than the window; (R6) the singletons are reached only through their lazy accessors."
	r.NotDec = []string{"equality of app hashes after a restart as a run-time fact", "what the replay cannot reconstruct by design (e.g. rounds finalised before the end of their window)", "CheckTx state after a restart"}
	r.Assume = []string{"the store content at the restart height is the committed one", "PrepareRoundEndBlock/FillPrice/SealRound are deterministic functions of the context and their arguments (C08)"}
	r.rule("C14.R1", "replay order and arguments in recacheAggregatorContext", 9)
	r.rule("C14.R2", "restore-before-use of process-local values; params present before the first round preparation", 3)
	r.rule("C14.R3", "restart branch: caches reset before, marked clean after the recache, and not inside it", 4)
	r.rule("C14.R4", "logging completeness: submissions, validator changes (flag on every mutating arm), params updates; unconditional commit in EndBlock; commit clears the flags", 8)
	r.rule("C14.R5", "pruning: store and index agree; the newest params older than the window are kept", 3)
	r.rule("C14.R6", "singletons only through the lazy accessors; first use in BeginBlock", 3)

	ok4 := "x/oracle/keeper"
	rv := w.View(ok4, "recacheAggregatorContext")
	if rv == nil {
		r.bad("C14.R1", "anchor|recache", "-", "anchor", "recacheAggregatorContext not found")
		return
	}
	r.saw(rv.ID())
	agcP, cP := paramName(rv, 1), paramName(rv, 3)
	// the replay loop: for ; from < to; from++
	var loop *ast.ForStmt
	ast.Inspect(rv.Decl.Body, func(n ast.Node) bool {
		if fs, ok := n.(*ast.ForStmt); ok && fs.Cond != nil && fs.Post != nil && loop == nil {
			if b, ok := fs.Cond.(*ast.BinaryExpr); ok && b.Op == token.LSS {
				if inc, ok := fs.Post.(*ast.IncDecStmt); ok && inc.Tok == token.INC && sameExpr(inc.X, b.X) {
					loop = fs
				}
			}
		}
		return true
	})
	if loop == nil {
		r.bad("C14.R1", "replay|loop", rv.pos(rv.Decl), "a loop over the blocks of the window", "no `for ; from < to; from++` loop in recacheAggregatorContext")
	} else {
		cur := exprString(loop.Cond.(*ast.BinaryExpr).X) // "from"
		end := exprString(loop.Cond.(*ast.BinaryExpr).Y) // "to"
		var prep, seal, fill, setp *ast.CallExpr
		for _, c := range rv.Calls(loop.Body, byName("PrepareRoundEndBlock")) {
			prep = c
		}
		for _, c := range rv.Calls(loop.Body, byName("SealRound")) {
			seal = c
		}
		for _, c := range rv.Calls(loop.Body, byName("FillPrice")) {
			fill = c
		}
		for _, c := range rv.Calls(loop.Body, byName("SetParams")) {
			setp = c
		}
		top := func(c *ast.CallExpr) bool { return c != nil && rv.parent(rv.enclosingStmt(c)) == ast.Node(loop.Body) }
		r.check(prep != nil && top(prep) && len(prep.Args) == 1 && sumTerms(stripConv(prep.Args[0])) == "-1+"+cur, "C14.R1", "replay|prepare-previous-block", rv.pos(loop), "each replayed block starts by preparing rounds as the live EndBlock of the previous block did", "the replay loop does not unconditionally call PrepareRoundEndBlock("+cur+" - 1)")
		okFill := false
		if fill != nil {
			// inside `for _, msg := range msgs` with msgs := recentMsgs[from]
			if rs, ok := rv.innermostLoop(fill).(*ast.RangeStmt); ok {
				for _, d := range rv.resolveDefs(rs.X, 0) {
					if ix, ok := stripParens(d).(*ast.IndexExpr); ok && exprString(ix.Index) == cur && resolvesToCallV(rv, ix.X, "GetAllRecentMsgAsMap") {
						okFill = true
					}
				}
			}
			// the replayed message carries creator, feeder and prices of the logged item
			if okFill {
				okFill = false
				if len(fill.Args) == 1 {
					e := stripParens(fill.Args[0])
					if u, ok := e.(*ast.UnaryExpr); ok {
						e = u.X
					}
					if cl, ok := e.(*ast.CompositeLit); ok {
						a, b, c := compositeField(cl, "Creator"), compositeField(cl, "FeederID"), compositeField(cl, "Prices")
						okFill = a != nil && b != nil && c != nil && lastField(a) == "Validator" && lastField(b) == "FeederID" && lastField(c) == "PSources"
					}
				}
			}
		}
		// the log has no nonces and the price filter drops a repeated (validator, nonce): every replayed message
		// of a validator and feeder gets its own nonce -- a per-(validator, feeder) counter bumped per message
		okNonce := false
		if fill != nil && len(fill.Args) == 1 {
			e := stripParens(fill.Args[0])
			if u, ok := e.(*ast.UnaryExpr); ok {
				e = u.X
			}
			if cl, ok := e.(*ast.CompositeLit); ok {
				if nv := compositeField(cl, "Nonce"); nv != nil {
					if ix, isIx := stripParens(nv).(*ast.IndexExpr); isIx {
						keyOK := false
						for _, d := range rv.resolveDefs(ix.Index, 0) {
							ks := exprString(d)
							if strings.Contains(ks, ".Validator") && strings.Contains(ks, ".FeederID") {
								keyOK = true
							}
						}
						bumped := false
						if ml := rv.innermostLoop(fill); ml != nil {
							ast.Inspect(ml, func(n ast.Node) bool {
								if inc, isInc := n.(*ast.IncDecStmt); isInc && inc.Tok == token.INC && inc.Pos() < fill.Pos() && exprString(inc.X) == exprString(ix) && !rv.nestedConditionally(inc, ml.(*ast.RangeStmt).Body) {
									bumped = true
								}
								return true
							})
						}
						// the counter outlives the blocks of the window (declared outside the block loop)
						outlives := false
						if o := rv.objOf(rootIdent(ix.X)); o != nil && (o.Pos() < loop.Pos() || o.Pos() > loop.End()) {
							outlives = true
						}
						okNonce = keyOK && bumped && outlives
					}
				}
			}
		}
		r.check(okNonce, "C14.R1", "replay|distinct-nonces", rv.pos(loop), "each replayed message of a validator and feeder carries its own nonce", "replayed messages do not get distinct nonces per validator and feeder: the price filter drops a validator's second submission of a round on the restarted node, which the running nodes counted")
		r.check(okFill, "C14.R1", "replay|messages-of-the-block", rv.pos(loop), "the block's logged submissions are re-applied (creator, feeder, prices)", "the replay loop does not FillPrice every logged message of recentMsgs["+cur+"] with its Validator/FeederID/PSources")
		okSeal := false
		if seal != nil && top(seal) && len(seal.Args) == 2 && exprString(seal.Args[1]) == "false" {
			for _, d := range rv.resolveDefs(seal.Args[0], 0) {
				_, nm, args, ok := methodCall(d)
				if ok && nm == "WithBlockHeight" && len(args) == 1 && exprString(args[0]) == cur {
					okSeal = true
				}
			}
		}
		r.check(okSeal, "C14.R1", "replay|seal-at-replayed-height", rv.pos(loop), "rounds are sealed as at the replayed block's own height (the window test uses that height), not forced", "the replay loop does not call SealRound(ctx.WithBlockHeight("+cur+"), false): rounds would be sealed relative to the restart height")
		okOrder := prep != nil && fill != nil && seal != nil && prep.Pos() < fill.Pos() && fill.Pos() < seal.Pos() && (setp == nil || setp.Pos() < prep.Pos())
		r.check(okOrder, "C14.R1", "replay|order", rv.pos(loop), "params -> prepare -> messages -> seal, as in the live block", "the replay steps are not in the order SetParams, PrepareRoundEndBlock, FillPrice, SealRound")
		// params in force: the selection compares the params' block with the replayed block strictly
		okSel := false
		if setp != nil {
			fs := rv.factsOf(setp)
			okSel = fs.cmp(func(c cmp) bool { return c.Op == "<" && exprString(c.R) == cur }) && fs.cmp(func(c cmp) bool { return c.Op == ">" })
		}
		r.check(okSel, "C14.R1", "replay|params-in-force", rv.pos(loop), "the params used for a replayed block are the latest ones written before it", "SetParams in the replay loop is not guarded by `b < "+cur+" && b > prev`")
		// on every path recache ends by preparing the current block's rounds: after the replay loop, and in the
		// arm that has nothing to replay
		var prepEnd, prepNoReplay *ast.CallExpr
		for _, c := range rv.CallsNamed("PrepareRoundEndBlock") {
			if len(c.Args) != 1 || sumTerms(stripConv(c.Args[0])) != "-1+"+end {
				continue
			}
			if c.Pos() > loop.End() && rv.reaches(loop, c) {
				prepEnd = c
			}
			if c.Pos() < loop.Pos() && !rv.reaches(c, loop) {
				prepNoReplay = c
			}
		}
		r.check(prepEnd != nil, "C14.R1", "replay|prepare-current", rv.pos(rv.Decl), "after the replay the rounds of the current block are prepared", "recache does not end with PrepareRoundEndBlock("+end+" - 1) after the replay loop")
		r.check(prepNoReplay != nil && rv.factsOf(prepNoReplay).cmp(func(c cmp) bool { return c.Op == ">=" && exprString(c.L) == cur && exprString(c.R) == end }), "C14.R1", "noreplay|prepare-current", rv.pos(rv.Decl), "with nothing to replay the rounds of the current block are still prepared, as the live node's previous EndBlock did", "the `"+cur+" >= "+end+"` arm of recache does not call PrepareRoundEndBlock("+end+" - 1): a round opening at the restart height exists on the live node only")
		// window bounds: to = height, loop from the computed start
		okTo := false
		for _, d := range rv.resolveDefs(ast.NewIdent(end), 0) {
			_ = d
		}
		ast.Inspect(rv.Decl.Body, func(n ast.Node) bool {
			if as, ok := n.(*ast.AssignStmt); ok && len(as.Lhs) == 1 && exprString(as.Lhs[0]) == end && len(as.Rhs) == 1 && strings.HasSuffix(exprString(as.Rhs[0]), ".BlockHeight()") {
				okTo = true
			}
			return true
		})
		okFrom := false
		ast.Inspect(rv.Decl.Body, func(n ast.Node) bool {
			if as, ok := n.(*ast.AssignStmt); ok && len(as.Lhs) == 1 && exprString(as.Lhs[0]) == cur && len(as.Rhs) == 1 && as.Pos() < loop.Pos() && !rv.nestedConditionally(as, rv.Decl.Body) {
				t := sumTerms(stripConvDeep(as.Rhs[0]))
				if t == "-MaxNonce+1+BlockHeight()" || t == "-MaxNonce+1+"+end || t == "-MaxNonce+1+ctx.BlockHeight()" {
					okFrom = true
				}
			}
			return true
		})
		r.check(okFrom, "C14.R1", "replay|window-start", rv.pos(rv.Decl), "the replay starts MaxNonce-1 blocks before the current height (the oldest block whose round can still be open)", cur+" is not initialised to height - MaxNonce + 1: submissions of the first block of a still open window are not replayed")
		r.check(okTo, "C14.R1", "replay|until-current-height", rv.pos(rv.Decl), "the replay runs up to the current height", end+" is not ctx.BlockHeight()")
	}
	// ---- R2
	{
		// reads of restorable globals (common.*) in recache must follow a setCommonParams call on every path;
		// decided positionally for straight-line prefix: a read in the function's top-level statements before any setCommonParams call
		firstSet := token.Pos(1 << 40)
		for _, c := range rv.CallsNamed("setCommonParams") {
			if c.Pos() < firstSet {
				firstSet = c.Pos()
			}
		}
		var early []string
		ast.Inspect(rv.Decl.Body, func(n ast.Node) bool {
			sel, ok := n.(*ast.SelectorExpr)
			if !ok || sel.Pos() > firstSet {
				return true
			}
			if gv, ok := rv.Info.ObjectOf(sel.Sel).(*types.Var); ok && gv.Pkg() != nil && gv.Parent() == gv.Pkg().Scope() {
				name := rel(gv.Pkg().Path()) + "." + gv.Name()
				if _, audited := c08Globals[name]; audited && strings.Contains(name, "/common.") {
					early = append(early, name+" at "+rv.pos(sel))
				}
			}
			return true
		})
		r.check(len(early) == 0, "C14.R2", "restore-before-use|common", rv.pos(rv.Decl), "the replay window is computed from restored values, not from process defaults", "recache reads "+strings.Join(early, ", ")+" before setCommonParams has restored it from the stored params: after a restart it still holds the package default, so the window differs from the live node's whenever the stored value is not the default")
		// params present before the first PrepareRoundEndBlock on the replay path: SetParams must not be
		// only conditional -- decided through the writer-side invariant (R5) plus an unconditional call in the
		// no-replay arm
		okArm := false
		for _, c := range rv.CallsNamed("SetParams") {
			if loop != nil && (c.Pos() < loop.Pos()) {
				// the `from >= to` arm
				if ifs, ok := rv.parent(rv.parent(rv.enclosingStmt(c))).(*ast.IfStmt); ok && rv.parent(rv.enclosingStmt(c)) == ast.Node(ifs.Body) {
					okArm = true
				}
			}
		}
		r.check(okArm, "C14.R2", "params|no-replay-arm", rv.pos(rv.Decl), "without replay the latest stored params are installed unconditionally", "the `from >= to` arm does not install params unconditionally")
		// final hot-fix lines: current params installed at the end unconditionally
		okFinal := false
		list := rv.Decl.Body.List
		for _, st := range list {
			if es, ok := st.(*ast.ExprStmt); ok {
				if c, ok := es.X.(*ast.CallExpr); ok && rv.calleeName(c) == "setCommonParams" {
					okFinal = true
				}
			}
		}
		r.check(okFinal, "C14.R2", "params|final-restore", rv.pos(rv.Decl), "the process-local mirrors end up restored from the stored params on every successful recache", "setCommonParams is not called unconditionally at the top level of recache")
	}
	// ---- R3
	if gv := w.View(ok4, "GetAggregatorContext"); gv == nil {
		r.bad("C14.R3", "anchor|GetAggregatorContext", "-", "anchor", "not found")
	} else {
		r.saw(gv.ID())
		// the deliver-state recache: the call whose context argument is the global agc
		var rc *ast.CallExpr
		for _, c := range gv.CallsNamed("recacheAggregatorContext") {
			if len(c.Args) == 4 && exprString(c.Args[1]) == "agc" {
				rc = c
			}
		}
		if rc == nil {
			r.bad("C14.R3", "restart|recache-call", gv.pos(gv.Decl), "deliver-state recache", "GetAggregatorContext does not recache the deliver-state context")
		} else {
			cacheArg := exprString(rc.Args[3])
			okReset, okSkip, okNoLate := false, false, true
			for _, c := range gv.CallsNamed("ResetCaches") {
				if recv, _, _, ok := methodCall(c); ok && exprString(recv) == cacheArg {
					if c.Pos() < rc.Pos() && gv.reaches(c, rc) {
						okReset = true
					}
					if c.Pos() > rc.Pos() && gv.reaches(rc, c) {
						okNoLate = false
					}
				}
			}
			for _, c := range gv.CallsNamed("SkipCommit") {
				if recv, _, _, ok := methodCall(c); ok && exprString(recv) == cacheArg && c.Pos() > rc.Pos() {
					if gv.factsOf(c).call("recacheAggregatorContext", true, nil) {
						okSkip = true
					}
				}
			}
			r.check(okReset, "C14.R3", "restart|reset-before", gv.pos(rc), "the caches are emptied before they are refilled from the store", "ResetCaches does not precede the deliver-state recache")
			r.check(okSkip, "C14.R3", "restart|clean-after", gv.pos(rc), "after a successful recache the refilled caches are marked clean (nothing to commit that the live node did not commit)", "the restart branch does not call SkipCommit after recacheAggregatorContext returned true")
			r.check(okNoLate, "C14.R3", "restart|no-reset-after", gv.pos(rc), "the refilled caches are kept", "ResetCaches is called after the recache: the restarted node forgets the validator/params caches the live node has")
		}
		var inside []string
		for _, c := range rv.CallsNamed("SkipCommit", "ResetCaches", "CommitCache") {
			inside = append(inside, rv.calleeName(c)+" at "+rv.pos(c))
		}
		r.check(len(inside) == 0, "C14.R3", "restart|flags-untouched-inside-recache", rv.pos(rv.Decl), "the caches' dirty flags are decided once, after the whole refill", "recacheAggregatorContext itself calls "+strings.Join(inside, ", ")+": caches filled after that point are committed by the restarted node only")
		_ = cP
		_ = agcP
	}
	// ---- R4
	cache := "x/oracle/keeper/cache"
	if v := w.View(cache, "cacheValidator.add"); v == nil {
		r.bad("C14.R4", "anchor|cacheValidator.add", "-", "anchor", "not found")
	} else {
		r.saw(v.ID())
		n, nOK := 0, 0
		var badPos []string
		flagged := func(blk *ast.BlockStmt) bool {
			for _, st := range blk.List {
				if as, ok := st.(*ast.AssignStmt); ok && len(as.Lhs) == 1 && lastField(as.Lhs[0]) == "update" && exprString(as.Rhs[0]) == "true" {
					return true
				}
			}
			return false
		}
		ast.Inspect(v.Decl.Body, func(nd ast.Node) bool {
			var at ast.Node
			switch x := nd.(type) {
			case *ast.AssignStmt:
				for _, l := range x.Lhs {
					if ix, ok := stripParens(l).(*ast.IndexExpr); ok && lastField(ix.X) == "validators" {
						at = x
					}
				}
			case *ast.CallExpr:
				if exprString(x.Fun) == "delete" && len(x.Args) == 2 && lastField(x.Args[0]) == "validators" {
					at = x
				}
				if recv, nm, _, ok := methodCall(x); ok && (nm == "Set" || nm == "Add" || nm == "Sub") {
					if ix, ok := stripParens(recv).(*ast.IndexExpr); ok && lastField(ix.X) == "validators" {
						at = x
					}
				}
			}
			if at == nil {
				return true
			}
			n++
			if blk := v.innermostBlock(at); blk != nil && flagged(blk) {
				nOK++
			} else {
				badPos = append(badPos, v.pos(at))
			}
			return true
		})
		r.check(n >= 3 && n == nOK, "C14.R4", "validators|flag-on-every-change", v.pos(v.Decl), "every change of the cached validator set (new, removed, power changed) marks the cache dirty, so the change block is logged", fmt.Sprintf("%d of %d mutations of the validator cache do not set update = true in their arm (%s): a restart replays across a change the live node force-sealed", n-nOK, n, strings.Join(badPos, ", ")))
	}
	if v := w.View(cache, "cacheParams.add"); v != nil {
		ok := false
		for _, as := range v.assignmentsToField(v.Decl.Body, "update") {
			if exprString(as.Rhs[0]) == "true" && !v.nestedConditionally(as, v.Decl.Body) {
				ok = true
			}
		}
		r.check(ok, "C14.R4", "params|flag", v.pos(v.Decl), "a params change marks the cache dirty", "cacheParams.add does not unconditionally set update = true")
	}
	if v := w.View(cache, "Cache.CommitCache"); v == nil {
		r.bad("C14.R4", "anchor|CommitCache", "-", "anchor", "not found")
	} else {
		r.saw(v.ID())
		okAll := true
		for _, kind := range []string{"validators", "params"} {
			found := false
			for _, c := range v.CallsNamed("commit") {
				recv, _, _, _ := methodCall(c)
				if lastField(recv) != kind {
					continue
				}
				fs := v.factsOf(c)
				if fs.atom(true, func(e ast.Expr) bool { return lastField(e) == "update" && strings.Contains(exprString(e), kind) }) {
					// flag cleared in the same block
					if blk := v.innermostBlock(c); blk != nil {
						for _, st := range blk.List {
							if as, ok := st.(*ast.AssignStmt); ok && lastField(as.Lhs[0]) == "update" && strings.Contains(exprString(as.Lhs[0]), kind) && exprString(as.Rhs[0]) == "false" {
								found = true
							}
						}
					}
				}
			}
			if !found {
				okAll = false
			}
		}
		okMsg := false
		for _, c := range v.CallsNamed("commit") {
			recv, _, _, _ := methodCall(c)
			if lastField(recv) == "msg" {
				okMsg = true
			}
		}
		r.check(okAll && okMsg, "C14.R4", "commit|dirty-kinds", v.pos(v.Decl), "a dirty cache kind is written to the store and its flag cleared; messages are written whenever there are any", "CommitCache does not commit-and-clear validators and params under their update flags, or does not commit messages")
	}
	if v := w.View("x/oracle", "AppModule.EndBlock"); v == nil {
		r.bad("C14.R4", "anchor|EndBlock", "-", "anchor", "not found")
	} else {
		okCommit := false
		for _, c := range v.CallsNamed("CommitCache") {
			if (!v.nestedConditionally(c, v.Decl.Body) || isIfInit(v, c, v.Decl.Body)) && len(v.FactsAt(c, false)) == 0 {
				okCommit = true
			}
		}
		r.check(okCommit, "C14.R4", "endblock|commit-every-block", v.pos(v.Decl), "the caches are committed at every EndBlock", "CommitCache is not reached unconditionally in EndBlock (nested under a condition, or after an early return)")
		okV := false
		for _, c := range v.CallsNamed("AddCache") {
			if len(c.Args) == 1 && strings.Contains(exprString(c.Args[0]), "ItemV(") {
				if v.factsOf(c).cmp(func(cm cmp) bool {
					return cm.Op == ">" && strings.HasPrefix(exprString(cm.L), "len(") && exprString(cm.R) == "0"
				}) {
					// only that condition
					okV = true
				}
			}
		}
		r.check(okV, "C14.R4", "endblock|validator-changes-logged", v.pos(v.Decl), "every validator-set update reaches the validator cache", "EndBlock does not add the validator updates to the cache whenever there are any")
	}
	if v := w.View(ok4, "msgServer.CreatePrice"); v != nil {
		okAdd := false
		for _, c := range v.CallsNamed("AddCache") {
			fs := v.factsOf(c)
			// accepted (no error), not final (newItem == nil), DeliverTx -- and nothing else
			if fs.call("NewCreatePrice", true, nil) && fs.call("IsCheckTx", false, nil) {
				okAdd = true
				for _, f := range fs.fs {
					if o := v.outcome(f); o != nil && (o.Callee.Name() == "NewCreatePrice" || o.Callee.Name() == "IsCheckTx" || o.Callee.Name() == "checkTimestamp") {
						continue
					}
					if b, ok := stripParens(f.Atom).(*ast.BinaryExpr); ok && (b.Op == token.EQL || b.Op == token.NEQ) && isNilIdent(v.Info, b.Y) && resolvesToCallV(v, b.X, "NewCreatePrice") {
						continue // caches == nil / newItem != nil tests on NewCreatePrice's own results
					}
					okAdd = false
				}
			}
		}
		r.check(okAdd, "C14.R4", "submission|logged", v.pos(v.Decl), "every accepted, not yet final submission delivered in a block is logged for replay", "CreatePrice does not AddCache the accepted submission on the DeliverTx path")
	}
	if v := w.View(ok4, "msgServer.CreatePrice"); v != nil {
		// the transition "round finalised" (status closed, worker sealed, its logged messages dropped from the
		// block's cache) must be visible to the replay: either the final-price arm logs something the recache
		// reads, or the recache consults the price store. Otherwise a round finalised before the end of its
		// window re-opens on a restarted node and is failed-sealed a second time.
		logs := false
		for _, c := range v.CallsNamed("AddCache") {
			fs := v.factsOf(c)
			if fs.atom(true, func(e ast.Expr) bool {
				b, ok := e.(*ast.BinaryExpr)
				return ok && b.Op == token.NEQ && isNilIdent(v.Info, b.Y) && resolvesToCallV(v, b.X, "NewCreatePrice")
			}) {
				logs = true
			}
		}
		consults := len(rv.CallsNamed("GetNextRoundID", "GetPriceTRLatest", "GetPriceTRRoundID", "GetAllPrices")) > 0
		r.check(logs || consults, "C14.R4", "finalisation|replay-visible", v.pos(v.Decl), "a round finalised inside its window is known to the replay", "the final-price arm of CreatePrice only removes the feeder's messages from the block cache (RemoveCache) and nothing the recache reads records the finalisation: after a restart inside the window the round is open again with the earlier blocks' submissions, and is failed-sealed at the window's end (an extra round with the previous price)")
	}
	if v := w.View(ok4, "msgServer.UpdateParams"); v != nil {
		okP := false
		for _, c := range v.CallsNamed("AddCache") {
			if len(c.Args) == 1 && strings.Contains(exprString(c.Args[0]), "ItemP(") {
				for _, sc := range v.CallsNamed("SetParams") {
					if sc.Pos() < c.Pos() && sameExpr(sc.Args[len(sc.Args)-1], c.Args[0].(*ast.CallExpr).Args[0]) {
						// between the store write and the log: no condition but "this is not CheckTx/simulate"
						okCond := true
						for _, f := range v.FactsAt(c, false) {
							if f.At == nil || f.At.Pos() < sc.End() {
								continue
							}
							if o := v.outcome(f); o != nil && o.Callee.Name() == "IsCheckTx" && !o.Success {
								continue
							}
							if v.isExpandedAlias(f) {
								continue
							}
							okCond = false
						}
						if okCond {
							okP = true
						}
					}
				}
			}
		}
		r.check(okP, "C14.R4", "params|update-logged", v.pos(v.Decl), "a params update is logged with the params that were stored", "UpdateParams does not AddCache(ItemP(p)) for the p it stored")
	}
	// when the window starts right after a validator-set change, the rebuild reproduces that block's force-seal
	// (prepare the previous block's rounds, seal them all at the change's height) before it prepares anything else
	{
		var helper *FnView
		for _, fv := range w.allViews() {
			if !strings.HasPrefix(fv.ID(), "x/oracle/keeper.") {
				continue
			}
			for _, c := range fv.CallsNamed("SealRound") {
				if len(c.Args) == 2 && exprString(c.Args[1]) == "true" {
					helper = fv
				}
			}
		}
		okHelper, okSites := false, false
		if helper != nil {
			var seal, prep *ast.CallExpr
			for _, c := range helper.CallsNamed("SealRound") {
				if len(c.Args) == 2 && exprString(c.Args[1]) == "true" {
					seal = c
				}
			}
			for _, c := range helper.CallsNamed("PrepareRoundEndBlock") {
				if seal != nil && c.Pos() < seal.Pos() {
					prep = c
				}
			}
			if seal != nil && prep != nil && len(prep.Args) == 1 {
				// SealRound(ctx.WithBlockHeight(h), true) after PrepareRoundEndBlock(h - 1), h a parameter
				if wc, isC := stripParens(seal.Args[0]).(*ast.CallExpr); isC && helper.calleeName(wc) == "WithBlockHeight" && len(wc.Args) == 1 && isParamOf(helper, wc.Args[0]) {
					hp := exprString(wc.Args[0])
					okHelper = sumTerms(stripConv(prep.Args[0])) == "-1+"+hp
				}
			}
			// both arms of the rebuild call it before their first PrepareRoundEndBlock, with the height of the
			// validator-set change that bounded the window
			if helper != rv {
				calls := rv.CallsNamed(helper.Decl.Name.Name)
				preps := rv.CallsNamed("PrepareRoundEndBlock")
				nBefore := 0
				for _, pc := range preps {
					blk := rv.innermostBlock(pc)
					for _, hc := range calls {
						if hc.Pos() < pc.Pos() && blk != nil && blk.Pos() <= hc.Pos() && hc.End() <= blk.End() {
							nBefore++
							break
						}
					}
				}
				// the height comes from the stored force-seal mark (not from the validator-update block, which
				// the block that first initialised the oracle state writes as well, without sealing anything)
				fromChange := len(calls) >= 2
				for _, hc := range calls {
					last := hc.Args[len(hc.Args)-1]
					good := false
					for _, d := range rv.defsOf(rv.objOf(last)) {
						ok := false
						ast.Inspect(d, func(n ast.Node) bool {
							if id, isID := n.(*ast.Ident); isID && rv.objOf(id) != nil && resolvesToCallV(rv, id, "GetForceSealBlock") {
								ok = true
							}
							return true
						})
						if ok {
							good = true
						}
					}
					if !good {
						fromChange = false
					}
				}
				okSites = fromChange && nBefore >= 2
			}
		}
		// the mark is written by exactly the EndBlock arm that force-seals
		if ev := w.View("x/oracle", "AppModule.EndBlock"); ev != nil {
			okMark, nMark := true, 0
			for _, c := range ev.CallsNamed("SetForceSealBlock") {
				nMark++
				blk := ev.innermostBlock(c)
				sets := false
				if blk != nil {
					for _, st := range blk.List {
						if as, isAs := st.(*ast.AssignStmt); isAs && len(as.Lhs) == 1 && len(as.Rhs) == 1 && exprString(as.Rhs[0]) == "true" {
							for _, sc := range ev.CallsNamed("SealRound") {
								if len(sc.Args) == 2 && ev.objOf(sc.Args[1]) == ev.objOf(as.Lhs[0]) {
									sets = true
								}
							}
						}
					}
				}
				if !sets {
					okMark = false
				}
			}
			// and every place that turns the force flag on writes the mark
			ast.Inspect(ev.Decl.Body, func(n ast.Node) bool {
				as, isAs := n.(*ast.AssignStmt)
				if !isAs || len(as.Lhs) != 1 || len(as.Rhs) != 1 || exprString(as.Rhs[0]) != "true" || as.Tok != token.ASSIGN {
					return true
				}
				isFlag := false
				for _, sc := range ev.CallsNamed("SealRound") {
					if len(sc.Args) == 2 && ev.objOf(sc.Args[1]) == ev.objOf(as.Lhs[0]) {
						isFlag = true
					}
				}
				if !isFlag {
					return true
				}
				blk := ev.innermostBlock(as)
				has := false
				if blk != nil {
					for _, c := range allCalls(blk) {
						if ev.calleeName(c) == "SetForceSealBlock" {
							has = true
						}
					}
				}
				if !has {
					okMark = false
				}
				return true
			})
			r.check(okMark && nMark >= 1, "C14.R1", "replay|force-seal-marked", ev.pos(ev.Decl), "EndBlock marks exactly the blocks in which it force-seals", "the force-seal mark is not written in (exactly) the arm that turns the force flag of SealRound on: the rebuild replays a force-seal that did not happen, or misses one that did")
		}
		// the mark counts whenever it lies inside the replay window or in the block right before it:
		// mark + 1 >= from (and mark < to)
		{
			okWin := false
			ast.Inspect(rv.Decl.Body, func(n ast.Node) bool {
				ifs, isIf := n.(*ast.IfStmt)
				if !isIf || ifs.Init == nil {
					return true
				}
				init, isAs := ifs.Init.(*ast.AssignStmt)
				if !isAs || len(init.Rhs) != 1 {
					return true
				}
				if c, isC := stripParens(init.Rhs[0]).(*ast.CallExpr); !isC || rv.calleeName(c) != "GetForceSealBlock" {
					return true
				}
				mark := rv.objOf(init.Lhs[0])
				var fs []Fact
				decompose(ifs.Cond, true, ifs, &fs)
				lower, upper, extra := false, false, 0
				for _, f := range fs {
					if id, isID := stripParens(f.Atom).(*ast.Ident); isID && f.Truth && len(init.Lhs) == 2 && rv.objOf(id) == rv.objOf(init.Lhs[1]) {
						continue
					}
					cm, isC := factCmp(f)
					if !isC {
						extra++
						continue
					}
					diff := sumTerms(&ast.BinaryExpr{X: stripConvDeep(cm.L), Op: token.SUB, Y: stripConvDeep(cm.R)})
					mn := mark.Name()
					nf := func(terms ...string) string { sort.Strings(terms); return strings.Join(terms, "+") }
					switch {
					case (cm.Op == ">=" && diff == nf("1", mn, "-from")) || (cm.Op == ">" && diff == nf("2", mn, "-from")) || (cm.Op == "<=" && diff == nf("-1", "from", "-"+mn)) || (cm.Op == "<" && diff == nf("-2", "from", "-"+mn)):
						lower = true
					case (cm.Op == "<" && diff == nf(mn, "-to")) || (cm.Op == ">" && diff == nf("to", "-"+mn)) || (cm.Op == "<=" && diff == nf("1", mn, "-to")):
						upper = true
					default:
						extra++
					}
				}
				if lower && upper && extra == 0 {
					okWin = true
				}
				return true
			})
			r.check(okWin, "C14.R1", "replay|force-seal-window", rv.pos(rv.Decl), "the force-seal mark is honoured exactly when it lies in the replay window or in the block right before it", "the rebuild does not test the force-seal mark with `mark+1 >= from && mark < to`: a validator-set change on the first block of the window (or right before it) is replayed as an ordinary block and its force-seal is lost")
		}
		r.check(okHelper, "C14.R1", "replay|force-seal-reproduced", rv.pos(rv.Decl), "the force-seal of a validator-set change is reproduced as the live EndBlock did it: rounds of the previous block prepared, all sealed at the change's height", "no helper of the rebuild calls PrepareRoundEndBlock(h-1) and then SealRound(ctx.WithBlockHeight(h), true)")
		r.check(okSites, "C14.R1", "replay|force-seal-before-first-prepare", rv.pos(rv.Decl), "both arms of the rebuild reproduce the force-seal before they prepare any round, with the height of the validator-set change", "the rebuild does not reproduce the force-seal of the validator-set change that bounds the window (in both arms, before PrepareRoundEndBlock): a round whose window is still running is re-created open on the restarted node, which accepts submissions the other nodes reject and closes the round twice")
	}
	// every params write of the running chain (message handler, token registration) reaches the node's memory
	// and the RecentParams log in the same step: a store-only write is seen by a restarted node and not by the
	// nodes that kept running
	{
		n := 0
		for _, fv := range w.allViews() {
			if !strings.HasPrefix(fv.ID(), "x/oracle/keeper.") || fv.Decl.Name.Name == "SetParams" || fv.Decl.Name.Name == "InitGenesis" {
				continue
			}
			for _, sc := range fv.CallsNamed("SetParams") {
				fo := fv.callee(sc)
				if fo == nil || fo.Pkg() == nil || !strings.HasSuffix(fo.Pkg().Path(), "x/oracle/keeper") || len(sc.Args) != 2 {
					continue
				}
				n++
				blk := fv.innermostBlock(sc)
				handed := false
				if blk != nil {
					for _, c := range allCalls(blk) {
						if c.Pos() < sc.End() || fv.calleeName(c) != "AddCache" || len(c.Args) != 1 {
							continue
						}
						ip, isCall := stripParens(c.Args[0]).(*ast.CallExpr)
						if !isCall || !strings.HasSuffix(exprString(ip.Fun), "ItemP") || len(ip.Args) != 1 || !sameExpr(stripDeref(ip.Args[0]), stripDeref(sc.Args[1])) {
							continue
						}
						// conditioned on nothing but "not CheckTx"
						okCond := true
						for _, f := range fv.FactsAt(c, false) {
							if f.At == nil || f.At.Pos() < sc.End() {
								continue
							}
							if o := fv.outcome(f); o != nil && o.Callee.Name() == "IsCheckTx" && !o.Success {
								continue
							}
							if fv.isExpandedAlias(f) {
								continue // a boolean local; the condition it stands for is judged in its place
							}
							okCond = false
						}
						if okCond {
							handed = true
						}
					}
				}
				r.check(handed, "C14.R4", "params|store-write-reaches-memory|"+fv.ID()+"|"+fv.pos(sc), fv.pos(sc), "the params stored here are handed to the in-memory caches (and so to the RecentParams log) right after", fv.ID()+" stores oracle params at "+fv.pos(sc)+" without AddCache(ItemP(<the same params>)): the running node keeps the old params until the next update while a restarted node loads the new ones from the store")
			}
		}
		if n < 3 {
			r.bad("C14.R4", "params|store-write-reaches-memory|none", "-", "params writers present", fmt.Sprintf("only %d SetParams call sites found in x/oracle/keeper", n))
		}
	}
	// during the replay the context's params and the package-level mirrors (MaxNonce, thresholds, MaxDetID) change
	// together: every agc.SetParams(p) of recacheAggregatorContext is followed in the same block by setCommonParams(p)
	{
		n, okPair := 0, true
		var lone []string
		for _, sc := range rv.CallsNamed("SetParams") {
			if len(sc.Args) != 1 {
				continue
			}
			n++
			blk := rv.innermostBlock(sc)
			paired := false
			if blk != nil {
				for _, st := range blk.List {
					es, isE := st.(*ast.ExprStmt)
					if !isE || es.Pos() < sc.End() {
						continue
					}
					if c, isC := es.X.(*ast.CallExpr); isC && rv.calleeName(c) == "setCommonParams" && len(c.Args) == 1 && sameExpr(c.Args[0], sc.Args[0]) {
						paired = true
					}
				}
			}
			if !paired {
				okPair = false
				lone = append(lone, rv.pos(sc))
			}
		}
		r.check(okPair && n >= 3, "C14.R2", "restore|params-and-mirrors-together", rv.pos(rv.Decl), "whenever the replay puts params in force it also restores the package-level mirrors from them", "agc.SetParams at "+strings.Join(lone, ", ")+" is not followed by setCommonParams with the same params: the replayed blocks run SealRound/newWorker/ExceedsThreshold on the process defaults (MaxNonce 3, 2/3, MaxDetID 5) instead of the stored values")
	}
	// ---- R5
	for _, kind := range []struct{ fn, rm, set string }{{"cacheMsgs.commit", "RemoveRecentMsg", "SetIndexRecentMsg"}, {"cacheParams.commit", "RemoveRecentParams", "SetIndexRecentParams"}} {
		v := w.View(cache, kind.fn)
		if v == nil {
			r.bad("C14.R5", "anchor|"+kind.fn, "-", "anchor", "not found")
			continue
		}
		r.saw(v.ID())
		// the pruning loop and the index slicing that follows it
		var loop *ast.ForStmt
		ast.Inspect(v.Decl.Body, func(n ast.Node) bool {
			if fs, ok := n.(*ast.ForStmt); ok && len(v.Calls(fs.Body, byName(kind.rm))) > 0 {
				loop = fs
			}
			return true
		})
		if loop == nil {
			r.bad("C14.R5", "prune|"+kind.fn+"|loop", v.pos(v.Decl), "pruning loop", "no loop calling "+kind.rm)
			continue
		}
		var iObj types.Object
		if inc, ok := loop.Post.(*ast.IncDecStmt); ok {
			iObj = v.objOf(inc.X)
		}
		// between the loop and the slicing `index.Index = index.Index[i:]` the cursor must not be modified
		okAgree := iObj != nil
		sliced := false
		list := stmtListOf(v.parent(loop))
		after := false
		for _, st := range list {
			if st == ast.Stmt(loop) {
				after = true
				continue
			}
			if !after {
				continue
			}
			if as, ok := st.(*ast.AssignStmt); ok && len(as.Rhs) == 1 {
				if se, ok := stripParens(as.Rhs[0]).(*ast.SliceExpr); ok && se.Low != nil && v.objOf(se.Low) == iObj && se.High == nil {
					sliced = true
					break
				}
			}
			// any other statement touching the cursor before the slicing
			ast.Inspect(st, func(n ast.Node) bool {
				switch x := n.(type) {
				case *ast.IncDecStmt:
					if v.objOf(x.X) == iObj {
						okAgree = false
					}
				case *ast.AssignStmt:
					for _, l := range x.Lhs {
						if v.objOf(l) == iObj {
							okAgree = false
						}
					}
				}
				return true
			})
		}
		r.check(okAgree && sliced, "C14.R5", "prune|"+kind.fn+"|index-agrees-with-store", v.pos(loop), "exactly the entries removed from the store are dropped from the index", kind.fn+" adjusts its cursor between removing entries and slicing the index: the index then names entries that no longer exist (or forgets ones that do)")
		if kind.fn == "cacheParams.commit" {
			// an entry is removed only if the next one is also older than the window (look-ahead), so the
			// newest out-of-window params -- those in force at the window's start -- stay available
			okKeep := false
			for _, c := range v.Calls(loop.Body, byName(kind.rm)) {
				_ = c
			}
			cond := ""
			if loop.Cond != nil {
				cond = exprString(loop.Cond)
			}
			// look-ahead either in the loop condition (i+1 < len) with the break test on index[i+1], or an equivalent guard
			brk := ""
			ast.Inspect(loop.Body, func(n ast.Node) bool {
				if ifs, ok := n.(*ast.IfStmt); ok && v.blockEndKind(ifs.Body) == "break" {
					for _, d := range v.resolveDefsIn(ifs.Cond) {
						brk += d + ";"
					}
				}
				return true
			})
			i := ""
			if iObj != nil {
				i = iObj.Name()
			}
			if strings.Contains(strings.ReplaceAll(cond, " ", ""), i+"+1<len(") && strings.Contains(strings.ReplaceAll(brk, " ", ""), "["+i+"+1]") {
				okKeep = true
			}
			r.check(okKeep, "C14.R5", "prune|params|keeps-params-in-force", v.pos(loop), "the newest params older than the replay window are kept: they are the params in force at the window's start", "cacheParams.commit removes every entry older than the window: after a params update at block P a node restarted at P+1..P+MaxNonce-1 finds no params for the first replayed block and PrepareRoundEndBlock dereferences nil params (the node cannot restart)")
		}
	}
	// ---- R6
	{
		// every read of the globals agc / cs outside single.go's accessors
		var off []string
		for _, fv := range w.allViews() {
			if !strings.HasPrefix(fv.ID(), "x/oracle") {
				continue
			}
			nm := fv.Decl.Name.Name
			accessor := nm == "GetAggregatorContext" || nm == "GetCaches" || strings.HasPrefix(nm, "Reset") || nm == "resetSingle"
			if accessor {
				continue
			}
			ast.Inspect(fv.Decl.Body, func(n ast.Node) bool {
				id, ok := n.(*ast.Ident)
				if !ok {
					return true
				}
				gv, ok := fv.Info.ObjectOf(id).(*types.Var)
				if !ok || gv.Pkg() == nil || gv.Parent() != gv.Pkg().Scope() || !strings.HasSuffix(gv.Pkg().Path(), "x/oracle/keeper") {
					return true
				}
				if gv.Name() == "agc" || gv.Name() == "agcCheckTx" {
					// (1) the nil test itself, (2) a use under `agc != nil` with a store fallback in the other arm,
					// (3) a use in a function all of whose callers obtained the context through the accessor first
					if b, isB := fv.parent(id).(*ast.BinaryExpr); isB && (b.Op == token.NEQ || b.Op == token.EQL) && (isNilIdent(fv.Info, b.X) || isNilIdent(fv.Info, b.Y)) {
						return true
					}
					guarded := false
					for _, f := range fv.FactsAt(id, false) {
						if b, isB := stripParens(f.Atom).(*ast.BinaryExpr); isB && b.Op == token.NEQ && f.Truth && fv.objOf(b.X) == types.Object(gv) && isNilIdent(fv.Info, b.Y) {
							guarded = true
						}
					}
					if guarded {
						return true
					}
					if callersInitFirst(w, fv) {
						return true
					}
					off = append(off, fv.ID()+" uses "+gv.Name()+" at "+fv.pos(id)+" without a nil test and not all of its callers call GetAggregatorContext first")
				}
				if gv.Name() == "cs" {
					// allowed only after a GetAggregatorContext/GetCaches call in the same function (initialised)
					init := false
					for _, c := range fv.CallsNamed("GetAggregatorContext", "GetCaches") {
						if c.Pos() < id.Pos() {
							init = true
						}
					}
					if !init {
						off = append(off, fv.ID()+" uses cs before any accessor call at "+fv.pos(id))
					}
				}
				return true
			})
		}
		r.check(len(off) == 0, "C14.R6", "singletons|through-accessors", "-", "the singletons are reached through the lazy accessors, so a restarted process rebuilds them before first use", strings.Join(uniq(off), "; "))
		if bv := w.View("x/oracle", "AppModule.BeginBlock"); bv != nil {
			ok := len(bv.CallsNamed("GetAggregatorContext")) == 1 && len(bv.CallsNamed("GetCaches")) == 1
			r.check(ok, "C14.R6", "beginblock|first-use", bv.pos(bv.Decl), "the first block after a start rebuilds the singletons before any transaction", "BeginBlock does not call GetCaches and GetAggregatorContext")
		}
		if ev := w.View("x/oracle", "AppModule.EndBlock"); ev != nil {
			ok := len(ev.CallsNamed("GetAggregatorContext")) >= 1 && len(ev.CallsNamed("GetCaches")) >= 1
			r.check(ok, "C14.R6", "endblock|through-accessors", ev.pos(ev.Decl), "EndBlock obtains the singletons through the accessors", "EndBlock does not use GetCaches/GetAggregatorContext")
		}
	}
}

// stripConv removes integer conversions around an expression: uint64(from - 1) -> from - 1.
func stripConv(e ast.Expr) ast.Expr {
	for {
		c, ok := stripParens(e).(*ast.CallExpr)
		if !ok || len(c.Args) != 1 {
			return e
		}
		id, ok := c.Fun.(*ast.Ident)
		if !ok || !(id.Name == "uint64" || id.Name == "int64" || id.Name == "int" || id.Name == "uint32") {
			return e
		}
		e = c.Args[0]
	}
}

// isIfInit: the call is the init statement of a top-level if of body (an unconditional evaluation).
func isIfInit(v *FnView, c *ast.CallExpr, body *ast.BlockStmt) bool {
	for p := v.parent(c); p != nil; p = v.parent(p) {
		if ifs, ok := p.(*ast.IfStmt); ok {
			return ifs.Init != nil && within(c, ifs.Init) && v.parent(ifs) == ast.Node(body)
		}
	}
	return false
}

// resolveDefsIn: renders cond with single-definition local aliases expanded one level.
func (v *FnView) resolveDefsIn(e ast.Expr) []string {
	out := []string{exprString(e)}
	ast.Inspect(e, func(n ast.Node) bool {
		if id, ok := n.(*ast.Ident); ok {
			if o := v.objOf(id); o != nil {
				for _, d := range v.defsOf(o) {
					out = append(out, id.Name+"="+exprString(d))
				}
			}
		}
		return true
	})
	return out
}

// callersInitFirst: every in-scope caller of fv's function calls GetAggregatorContext before calling it.
func callersInitFirst(w *World, fv *FnView) bool { return callersInitFirstD(w, fv, 0) }

func callersInitFirstD(w *World, fv *FnView, depth int) bool {
	if depth > 3 {
		return false
	}
	fn := w.CG.Nodes[w.Prog.FuncValue(fv.Obj)]
	if fn == nil {
		return false
	}
	n := 0
	for _, in := range fn.In {
		cf := in.Caller.Func
		if !w.fnInScope(cf) {
			continue
		}
		root := cf
		for root.Parent() != nil {
			root = root.Parent()
		}
		co, _ := root.Object().(*types.Func)
		if co == nil {
			return false
		}
		cv := w.ViewOf(co)
		if cv == nil {
			// synthetic wrapper: look through it
			continue
		}
		if cv.Obj == fv.Obj {
			continue
		}
		n++
		ok := false
		for _, c := range cv.CallsNamed(fv.Decl.Name.Name) {
			for _, g := range cv.CallsNamed("GetAggregatorContext") {
				if g.Pos() < c.Pos() {
					ok = true
				}
			}
		}
		if !ok && !callersInitFirstD(w, cv, depth+1) {
			return false
		}
	}
	return n > 0
}

// stripConvDeep removes integer conversions anywhere in an additive expression.
func stripConvDeep(e ast.Expr) ast.Expr {
	e = stripParens(e)
	switch x := e.(type) {
	case *ast.BinaryExpr:
		return &ast.BinaryExpr{X: stripConvDeep(x.X), Op: x.Op, Y: stripConvDeep(x.Y), OpPos: x.OpPos}
	case *ast.CallExpr:
		if id, ok := x.Fun.(*ast.Ident); ok && len(x.Args) == 1 && (id.Name == "int64" || id.Name == "uint64" || id.Name == "int" || id.Name == "uint32" || id.Name == "int32") {
			return stripConvDeep(x.Args[0])
		}
	}
	return e
}

func stripDeref(e ast.Expr) ast.Expr {
	e = stripParens(e)
	if st, ok := e.(*ast.StarExpr); ok {
		return stripParens(st.X)
	}
	if u, ok := e.(*ast.UnaryExpr); ok && u.Op == token.AND {
		return stripParens(u.X)
	}
	return e
}
