package main

import (
	"fmt"
	"go/ast"
	"go/types"
	"sort"
	"strings"

	"golang.org/x/tools/go/ssa"
)

func init() { register("C01", runC01) }

var ledgerFamilies = map[string]string{
	"assets:0x03":     "staker asset rows",
	"assets:0x04":     "operator pools",
	"assets:0x02":     "staking asset info (StakingTotalAmount)",
	"delegation:0x01": "delegation states",
	"delegation:0x03": "undelegation records",
}

// expectTerm: exactly one term in column col with the given sign; returns its symbol.
func expectTerm(r *Run, rule, key string, v *FnView, ts []DTerm, col string, sign int, condSub string) (string, bool) {
	var m []DTerm
	for _, t := range termsOf(ts, col) {
		if condSub == "" || hasCond(t, condSub) {
			m = append(m, t)
		}
	}
	if len(m) != 1 || m[0].Sign != sign {
		return "", false
	}
	return m[0].Sym, true
}

func runC01(r *Run) {
	w := r.W
	e := effects(w)
	r.Explain = "Static decision of structural necessary conditions of C01 (ledger conservation) by a symbolic delta algebra over the resolved source: every ledger operation changes the books only through delta calls whose signed symbolic terms are extracted per column; the obligations are that (R3) the terms of each transfer cancel (delegate: pool +x against staker -x or escrow +x; undelegate: pool -y against pending +y on all three aggregates and the record; completion: pending -Amount on all aggregates, +ActualCompletedAmount to the staker or out of escrow, record removed), that only the deposit arm and the positive NST arm contribute an uncancelled positive term, and that deposits/withdrawals move TotalDeposit, Withdrawable and the published staking total by the same symbol; (R1) the ledger families are written directly by a fixed set of writer functions of known shape; (R2) every subtraction goes through UpdateAssetValue/UpdateAssetDecValue (which refuse to go below zero) or a capped direct update; (R4) the withdraw arm negates the amount and delegation checks withdrawable >= amount before writing."
	r.NotDec = []string{"that the run-time sums match (numeric)", "share<->token rounding (C02)", "failed-operation behaviour (C09)", "interleavings beyond per-operation cancellation", "2^255 overflow (sdk.Int panics, C11)"}
	r.Assume = []string{"UpdateAssetValue/UpdateAssetDecValue implement checked addition of a signed delta (verified structurally by R2)", "delta calls are the only writers (R1)"}
	r.rule("C01.R1", "direct writers of the ledger families (staker rows, operator pools, staking asset info, delegation states, undelegation records) are the known set; a new direct writer is reported", 5)
	r.rule("C01.R2", "guarded arithmetic: the delta appliers change numeric fields only through UpdateAssetValue/UpdateAssetDecValue; those reject a result below zero; the NST decrease caps each subtraction to what is present", 8)
	r.rule("C01.R3", "delta balance per operation (symbolic cancellation) and no other increaser", 10)
	r.rule("C01.R4", "withdraw precondition: the withdraw arm negates the amount; delegation requires WithdrawableAmount >= amount before any write", 2)
	r.rule("C01.R5", "iterator helpers with an isUpdate flag always write the modified record back (own key) once the callback succeeded -- also for the element on which the iteration stops", 2)
	iteratorVisitsAllRule(r, "C01.R5", map[string]bool{"x/delegation/keeper.Keeper.IterateDelegations": true})
	iteratorWriteBackRule(r, "C01.R5", map[string]bool{"IterateUndelegationsByStakerAndAsset": true, "IterateUndelegationsByOperator": true, "IterateAssetsForOperator": true})
	// the direct (unguarded) subtractions of the slash path stay non-negative because the applied proportion is
	// capped at 1: that cap is C04.R1's obligation, repeated here because "no pool is ever negative" depends on it
	r.rule("C01.R6", "slash path non-negativity: the proportion applied to pools and undelegations is the capped one (C04.R1/R2 obligations)", 3)
	r.rule("C01.R7", "the published staking total moves only through the non-negativity-checked helper with the requested amount; a native-restaking decrease that reaches the delegated share is spread over its token value", 3)
	r.rule("C01.R8", "iteration callbacks (stop bool, err error) of the restaking keepers ask the iterator to stop only together with an error; deliberate stops are audited and stay under their condition", 8)
	callbacksStopOnlyWithError(r, "C01.R8")
	if pv := w.View("x/assets/keeper", "Keeper.PerformDepositOrWithdraw"); pv != nil {
		prm := paramName(pv, 1)
		ok := pv.rejectsWhen(pv.Decl.Body, func(f Fact) bool {
			c, isC := stripParens(f.Atom).(*ast.CallExpr)
			return isC && f.Truth && exprString(c.Fun) == prm+".OpAmount.IsNegative"
		}, nil)
		r.check(ok, "C01.R7", "deposit-withdraw|rejects-negative-amount", pv.pos(pv.Decl), "a negative amount is rejected for every action before anything else happens", "PerformDepositOrWithdraw does not reject a negative amount on every path: a withdrawal of -X is negated into an unchecked credit of X (balance, deposit record and published total rise without a deposit)")
	}
	if tv := w.View("x/assets/keeper", "Keeper.UpdateStakingAssetTotalAmount"); tv == nil {
		r.bad("C01.R7", "anchor|UpdateStakingAssetTotalAmount", "-", "anchor", "not found")
	} else {
		r.saw(tv.ID())
		amt := paramName(tv, 2)
		okCall, okNoRewrite := false, true
		for _, c := range tv.CallsNamed("UpdateAssetValue") {
			if len(c.Args) == 2 && strings.HasSuffix(exprString(c.Args[0]), "StakingTotalAmount") && exprString(c.Args[1]) == "&"+amt {
				k, _ := tv.failArm(c)
				okCall = k == "return"
			}
		}
		ast.Inspect(tv.Decl.Body, func(n ast.Node) bool {
			if as, ok := n.(*ast.AssignStmt); ok {
				for _, l := range as.Lhs {
					if exprString(l) == amt {
						okNoRewrite = false
					}
				}
			}
			return true
		})
		r.check(okCall && okNoRewrite, "C01.R7", "staking-total|checked-and-exact", tv.pos(tv.Decl), "the staking total changes by exactly the requested amount and a decrease below zero is an error", "UpdateStakingAssetTotalAmount does not apply the requested amount through UpdateAssetValue with its error returned (clamping or rewriting the amount makes the total differ from deposits minus withdrawals)")
	}
	if nv := w.View("x/delegation/keeper", "Keeper.UpdateNSTBalance"); nv == nil {
		r.bad("C01.R7", "anchor|UpdateNSTBalance", "-", "anchor", "not found")
	} else {
		// slashProportion = pending / <token value of the staker's shares>
		okDen, okGuard := false, false
		ast.Inspect(nv.Decl.Body, func(n ast.Node) bool {
			as, ok := n.(*ast.AssignStmt)
			if !ok || len(as.Lhs) != 1 || len(as.Rhs) != 1 || !strings.Contains(strings.ToLower(exprString(as.Lhs[0])), "proportion") {
				return true
			}
			_, nm, args, isM := methodCall(as.Rhs[0])
			if !isM || nm != "Quo" || len(args) != 1 {
				return true
			}
			if id := identFromCall(nv, args[0], "TotalDelegatedAmountForStakerAsset", 0); id != nil {
				okDen = true
				for _, f := range nv.FactsAt(as, false) {
					if o := nv.outcome(f); o != nil && o.Callee.Name() == "IsZero" && !o.Success && nv.objOf(rootIdent(o.Call.Fun)) == nv.objOf(id) {
						okGuard = true
					}
				}
			}
			return true
		})
		r.check(okDen, "C01.R7", "nst|proportion-over-share-value", nv.pos(nv.Decl), "the part of a balance decrease that reaches the delegated share is divided by the current token value of the staker's shares", "UpdateNSTBalance does not divide by TotalDelegatedAmountForStakerAsset(staker, asset): a figure derived from the staker's deposit record is stale after an operator slash and the decrease is only partly taken out")
		// RemoveShare refuses a share that is not positive; inside the spreading loop such a refusal fails the
		// whole update, so records that carry nothing (share 0 while an undelegation is pending) are skipped
		okPos, nRem := true, 0
		for _, c := range nv.CallsNamed("RemoveShare") {
			if len(c.Args) != 6 {
				continue
			}
			nRem++
			share := nv.objOf(c.Args[5])
			pos := false
			for _, f := range nv.FactsAt(c, false) {
				if fc, isC := stripParens(f.Atom).(*ast.CallExpr); isC && share != nil && nv.objOf(rootIdent(fc.Fun)) == share {
					nm := nv.calleeName(fc)
					if (nm == "IsPositive" && f.Truth) || (nm == "IsZero" && !f.Truth) {
						pos = true
					}
				}
			}
			if !pos {
				okPos = false
			}
		}
		r.check(okPos && nRem >= 1, "C01.R7", "nst|skips-empty-delegations", nv.pos(nv.Decl), "a delegation record without shares is skipped when the decrease is spread", "UpdateNSTBalance hands RemoveShare a share that may be zero (a record left behind by a full undelegation): RemoveShare refuses it and the whole balance decrease fails")
		r.check(okGuard, "C01.R7", "nst|proportion-divisor-nonzero", nv.pos(nv.Decl), "the division is skipped when nothing is delegated", "the proportion is computed without a !IsZero() test of the divisor")
	}
	if r.Prop == "C01" {
		sub := NewRun(r.W, "C04", r.Tier, r.Seed)
		runC04(sub)
		n := 0
		for _, o := range sub.Obs {
			if o.Rule != "C04.R1" && o.Rule != "C04.R2" {
				continue
			}
			n++
			if o.Status == "ok" {
				r.ok("C01.R6", o.Key, o.Pos, o.Desc)
			} else {
				r.bad("C01.R6", o.Key, o.Pos, o.Desc, o.Detail)
			}
		}
		if n == 0 {
			r.bad("C01.R6", "slash|none", "-", "C04.R1 obligations present", "no obligations")
		}
	}

	// ---- R1
	knownWriters := map[string]map[string]bool{
		"assets:0x03":     {"UpdateStakerAssetState": true},
		"assets:0x04":     {"UpdateOperatorAssetState": true, "IterateAssetsForOperator": true},
		"assets:0x02":     {"SetStakingAssetInfo": true, "UpdateStakingAssetTotalAmount": true, "UpdateStakingAssetMetaInfo": true},
		"delegation:0x01": {"UpdateDelegationState": true, "SetStakerShareToZero": true, "SetAllDelegationStates": true, "IterateDelegations": true},
		"delegation:0x03": {"SetUndelegationRecords": true, "DeleteUndelegationRecord": true, "IterateUndelegationsByOperator": true, "IterateUndelegationsByStakerAndAsset": true},
	}
	got := map[string]map[string]bool{}
	for fn, accs := range e.Direct {
		if !w.fnInScope(fn) {
			continue
		}
		for _, a := range accs {
			if a.Kind != "W" && a.Kind != "D" {
				continue
			}
			for _, f := range a.Families {
				if _, isL := ledgerFamilies[f]; isL {
					if got[f] == nil {
						got[f] = map[string]bool{}
					}
					root := fn
					for root.Parent() != nil {
						root = root.Parent()
					}
					got[f][root.Name()] = true
				}
			}
		}
	}
	var fams []string
	for f := range ledgerFamilies {
		fams = append(fams, f)
	}
	sort.Strings(fams)
	for _, f := range fams {
		var extra []string
		for n := range got[f] {
			if !knownWriters[f][n] {
				extra = append(extra, n)
			}
		}
		sort.Strings(extra)
		r.check(len(extra) == 0 && len(got[f]) > 0, "C01.R1", "writers|"+f, "-", ledgerFamilies[f]+": direct writers are the known delta appliers/iterate-and-update helpers/genesis setters",
			"new direct writer(s) of "+ledgerFamilies[f]+" bypass the delta rules: "+strings.Join(extra, ", "))
	}
	// ---- R2
	for _, spec := range []struct{ pkg, fn string }{{"x/assets/keeper", "Keeper.UpdateStakerAssetState"}, {"x/assets/keeper", "Keeper.UpdateOperatorAssetState"}, {"x/assets/keeper", "Keeper.UpdateStakingAssetTotalAmount"}, {"x/delegation/keeper", "Keeper.UpdateDelegationState"}} {
		v := w.View(spec.pkg, spec.fn)
		if v == nil {
			r.bad("C01.R2", "applier|"+spec.fn, "-", "anchor", spec.fn+" not found")
			continue
		}
		r.saw(v.ID())
		// numeric fields are only touched through UpdateAssetValue / UpdateAssetDecValue
		nUpd := len(v.CallsNamed("UpdateAssetValue", "UpdateAssetDecValue"))
		var raw []string
		ast.Inspect(v.Decl.Body, func(n ast.Node) bool {
			as, ok := n.(*ast.AssignStmt)
			if !ok {
				return true
			}
			for i, l := range as.Lhs {
				sel, ok := l.(*ast.SelectorExpr)
				if !ok || i >= len(as.Rhs) {
					continue
				}
				t := v.Info.TypeOf(sel)
				if t == nil {
					continue
				}
				ts := t.String()
				if strings.HasSuffix(ts, "math.Int") || strings.HasSuffix(ts, "LegacyDec") {
					// allowed: initialisation to zero of a fresh struct
					if name, args, ok := funcCallName(as.Rhs[i]); ok && (name == "NewInt" || name == "LegacyNewDec" || name == "ZeroInt" || name == "LegacyZeroDec") && (len(args) == 0 || exprString(args[0]) == "0") {
						continue
					}
					raw = append(raw, exprString(l)+" at "+v.pos(as))
				}
			}
			return true
		})
		r.check(nUpd >= 1 && len(raw) == 0, "C01.R2", "applier|"+spec.fn, v.pos(v.Decl), fmt.Sprintf("numeric fields change only through %d UpdateAssetValue/UpdateAssetDecValue calls", nUpd),
			"a ledger field is assigned directly (bypassing the non-negativity check): "+strings.Join(raw, "; "))
		// ... and the record is stored only after every one of those calls succeeded (also for a record that
		// does not exist yet: the delta is added to a zero state, it is not the state)
		upds := v.CallsNamed("UpdateAssetValue", "UpdateAssetDecValue")
		var unchecked []string
		nSet := 0
		for _, sc := range v.CallsNamed("Set") {
			if len(sc.Args) != 2 {
				continue
			}
			nSet++
			okAll := true
			for _, uc := range upds {
				seen := false
				for _, f := range v.FactsAt(sc, false) {
					if o := v.outcome(f); o != nil && o.Call == uc && o.Success {
						seen = true
					}
				}
				if !seen {
					okAll = false
				}
			}
			if !okAll {
				unchecked = append(unchecked, v.pos(sc))
			}
		}
		r.check(nSet >= 1 && len(unchecked) == 0, "C01.R2", "applier-store|"+spec.fn, v.pos(v.Decl), "the record is written only after all its fields went through the checked update", spec.fn+" stores the record at "+strings.Join(unchecked, ", ")+" without every UpdateAssetValue having succeeded on that path: a first delta that is negative is stored as a negative balance")
	}
	for _, name := range []string{"UpdateAssetValue", "UpdateAssetDecValue"} {
		v := w.View("x/assets/types", name)
		if v == nil {
			r.bad("C01.R2", "guard|"+name, "-", "anchor", "x/assets/types."+name+" not found")
			continue
		}
		r.saw(v.ID())
		// shape: `if change.IsNegative() { if value.LT(change.Neg()) { return err } }` precedes `*value = value.Add(*change)`
		okNeg := false
		var params []types.Object
		for _, fl := range v.Decl.Type.Params.List {
			for _, n := range fl.Names {
				params = append(params, v.Info.ObjectOf(n))
			}
		}
		for _, as := range allAssignsToDeref(v) {
			if len(params) != 2 {
				break
			}
			// the stored value is value.Add(*change)
			recv, nm, args, isC := methodCall(as.Rhs[0])
			if !isC || nm != "Add" || v.objOf(recv) != params[0] || len(args) != 1 || !v.usesObj(args[0], params[1]) {
				continue
			}
			ast.Inspect(v.Decl.Body, func(n ast.Node) bool {
				s1, ok := n.(*ast.IfStmt)
				if !ok || s1.Pos() > as.Pos() {
					return true
				}
				r1, n1, _, c1 := methodCall(s1.Cond)
				if !c1 || n1 != "IsNegative" || v.objOf(r1) != params[1] {
					return true
				}
				for _, st := range s1.Body.List {
					s2, ok := st.(*ast.IfStmt)
					if !ok || !v.terminates(s2.Body) || !v.blockEndsInErrorReturn(s2.Body) {
						continue
					}
					r2, n2, a2, c2 := methodCall(s2.Cond)
					if c2 && n2 == "LT" && v.objOf(r2) == params[0] && len(a2) == 1 {
						if r3, n3, _, c3 := methodCall(a2[0]); c3 && n3 == "Neg" && v.objOf(r3) == params[1] {
							okNeg = true
						}
					}
				}
				return true
			})
		}
		r.check(okNeg, "C01.R2", "guard|"+name, v.pos(v.Decl), "the stored value is replaced only when old+delta is not negative", name+" can store a negative result: balances may go below zero")
	}
	// ---- R3
	type fnTerms struct {
		v  *FnView
		ts []DTerm
	}
	get := func(pkg, fn string) *fnTerms {
		v := w.View(pkg, fn)
		if v == nil {
			r.bad("C01.R3", "anchor|"+fn, "-", "anchor", pkg+"."+fn+" not found")
			return nil
		}
		r.saw(v.ID())
		return &fnTerms{v, v.ledgerTerms()}
	}
	nonNative := "assetID != "
	if ft := get("x/delegation/keeper", "Keeper.delegateTo"); ft != nil {
		a, okT := expectTerm(r, "C01.R3", "", ft.v, ft.ts, "T", 1, "")
		var okW, okE bool
		for _, t := range termsOf(ft.ts, "W") {
			if t.Sign == -1 && t.Sym == a && hasCond(t, nonNative) && !hasCond(t, "!"+nonNative) {
				okW = true
			}
		}
		for _, t := range termsOf(ft.ts, "E") {
			if t.Sign == 1 && t.Sym == a && hasCond(t, "!"+nonNative) {
				okE = true
			}
		}
		extra := len(termsOf(ft.ts, "D")) + len(termsOf(ft.ts, "G")) + len(termsOf(ft.ts, "PS")) + len(termsOf(ft.ts, "PO")) + len(termsOf(ft.ts, "RA"))
		r.check(okT && okW && okE && len(termsOf(ft.ts, "W")) == 1 && len(termsOf(ft.ts, "E")) == 1 && extra == 0, "C01.R3", "delegateTo|transfer", ft.v.pos(ft.v.Decl),
			"delegation moves x: pool +x against staker withdrawable -x (LST/NST) or escrow +x (native token)", "delegateTo's deltas do not cancel: "+renderTerms(ft.ts))
	}
	var rsfoRet string
	if ft := get("x/delegation/keeper", "Keeper.RemoveShareFromOperator"); ft != nil {
		x, okT := expectTerm(r, "C01.R3", "", ft.v, ft.ts, "T", -1, "")
		po, okPO := expectTerm(r, "C01.R3", "", ft.v, ft.ts, "PO", 1, "isUndelegation")
		rsfoRet = ft.v.retSym(0)
		r.check(okT && okPO && po == x && rsfoRet == x && len(termsOf(ft.ts, "PO")) == 1, "C01.R3", "RemoveShareFromOperator|pool-to-pending", ft.v.pos(ft.v.Decl),
			"undelegation moves y out of the pool into the operator's pending figure, and y is what the function returns", fmt.Sprintf("terms: %s; returns %q", renderTerms(ft.ts), rsfoRet))
	}
	if ft := get("x/delegation/keeper", "Keeper.RemoveShare"); ft != nil {
		y := "result(k.RemoveShareFromOperator)"
		wd, okWD := expectTerm(r, "C01.R3", "", ft.v, ft.ts, "WD", 1, "isUndelegation")
		ps, okPS := expectTerm(r, "C01.R3", "", ft.v, ft.ts, "PS", 1, "isUndelegation")
		psArm := false
		for _, t := range termsOf(ft.ts, "PS") {
			if hasCond(t, nonNative) {
				psArm = true
			}
		}
		ret := ft.v.retSym(0)
		r.check(okWD && okPS && wd == y && ps == y && ret == y && psArm, "C01.R3", "RemoveShare|pending-aggregates", ft.v.pos(ft.v.Decl),
			"the removed tokens y are added to the delegation's and the staker's pending figures and returned", fmt.Sprintf("terms: %s; returns %q", renderTerms(ft.ts), ret))
	}
	if ft := get("x/delegation/keeper", "Keeper.UndelegateFrom"); ft != nil {
		z := "result(k.RemoveShare)"
		ra, okRA := expectTerm(r, "C01.R3", "", ft.v, ft.ts, "RA", 1, "")
		rc, okRC := expectTerm(r, "C01.R3", "", ft.v, ft.ts, "RC", 1, "")
		r.check(okRA && okRC && ra == z && rc == z, "C01.R3", "UndelegateFrom|record", ft.v.pos(ft.v.Decl),
			"the pending record's Amount and ActualCompletedAmount are the tokens actually removed from the pool", "the record is created with "+renderTerms(ft.ts)+" (must both be the value returned by RemoveShare, which is what the aggregates were raised by)")
	}
	if ft := get("x/delegation/keeper", "Keeper.EndBlock"); ft != nil {
		hold := "GetUndelegationHoldCount"
		var comp, requeue []DTerm
		for _, t := range ft.ts {
			if hasCond(t, "!k."+hold) || hasCond(t, "!"+hold) {
				comp = append(comp, t)
			} else if hasCond(t, hold) {
				requeue = append(requeue, t)
			}
		}
		rec := ""
		ok := true
		need := func(col string, sign int, field string, cond string) {
			var m []DTerm
			for _, t := range termsOf(comp, col) {
				if cond == "" || hasCond(t, cond) {
					m = append(m, t)
				}
			}
			if len(m) != 1 || m[0].Sign != sign || !strings.HasSuffix(m[0].Sym, "."+field) {
				ok = false
				return
			}
			base := strings.TrimSuffix(m[0].Sym, "."+field)
			if rec == "" {
				rec = base
			} else if rec != base {
				ok = false
			}
		}
		need("WD", -1, "Amount", "")
		need("PO", -1, "Amount", "")
		need("RA", -1, "Amount", "")
		need("RC", -1, "ActualCompletedAmount", "")
		need("PS", -1, "Amount", "!record.AssetID ==")
		need("W", 1, "ActualCompletedAmount", "!record.AssetID ==")
		need("E", -1, "ActualCompletedAmount", "record.AssetID ==")
		if len(termsOf(comp, "T"))+len(termsOf(comp, "D"))+len(termsOf(comp, "G")) != 0 {
			ok = false
		}
		r.check(ok, "C01.R3", "EndBlock|completion", ft.v.pos(ft.v.Decl), "completion: pending -Amount on delegation, operator and staker; +ActualCompletedAmount to the staker (or out of escrow); record removed - all of the same record",
			"completion deltas are not the expected cancellation: "+renderTerms(comp))
		// re-queue: -record then +record
		rq := len(termsOf(requeue, "RA")) == 2 && len(termsOf(requeue, "RC")) == 2 && len(requeue) == 4
		if rq {
			s := 0
			for _, t := range requeue {
				s += t.Sign
			}
			rq = s == 0
		}
		r.check(rq, "C01.R3", "EndBlock|requeue", ft.v.pos(ft.v.Decl), "a held record is removed and re-added unchanged (no ledger movement)", "the re-queue arm changes the ledger: "+renderTerms(requeue))
	}
	if ft := get("x/assets/keeper", "Keeper.PerformDepositOrWithdraw"); ft != nil {
		d, okD := expectTerm(r, "C01.R3", "", ft.v, ft.ts, "D", 1, "")
		wv, okW := expectTerm(r, "C01.R3", "", ft.v, ft.ts, "W", 1, "")
		g, okG := expectTerm(r, "C01.R3", "", ft.v, ft.ts, "G", 1, "")
		r.check(okD && okW && okG && d == wv && wv == g && len(ft.ts) == 3, "C01.R3", "PerformDepositOrWithdraw|same-symbol", ft.v.pos(ft.v.Decl),
			"deposit/withdraw moves TotalDeposit, Withdrawable and the published staking total by the same signed amount", "deposit/withdraw deltas disagree: "+renderTerms(ft.ts))
		// R4: every case clause naming a Withdraw* action negates the amount variable; no Deposit* clause does
		okNeg := true
		nWithdrawClauses := 0
		ast.Inspect(ft.v.Decl.Body, func(n ast.Node) bool {
			cc, ok := n.(*ast.CaseClause)
			if !ok || len(cc.List) == 0 {
				return true
			}
			hasW, hasD := false, false
			for _, ex := range cc.List {
				nm := lastField(ex)
				if id, isId := ex.(*ast.Ident); isId {
					nm = id.Name
				}
				if strings.HasPrefix(nm, "Withdraw") {
					hasW = true
				}
				if strings.HasPrefix(nm, "Deposit") {
					hasD = true
				}
			}
			if !hasW && !hasD {
				return true
			}
			negates := false
			for _, st := range cc.Body {
				if as, ok := st.(*ast.AssignStmt); ok && len(as.Lhs) == 1 && len(as.Rhs) == 1 {
					if recv, nm, _, isC := methodCall(as.Rhs[0]); isC && nm == "Neg" && ft.v.objOf(recv) == ft.v.objOf(as.Lhs[0]) && ft.v.objOf(recv) != nil {
						// and it is the variable the deltas use
						if sg, sym := ft.v.normTerm(as.Lhs[0], 0); sg == 1 && sym == d {
							negates = true
						} else if exprString(as.Lhs[0]) == d {
							negates = true
						}
					}
				}
			}
			if hasW {
				nWithdrawClauses++
				if !negates || hasD {
					okNeg = false
				}
			}
			if hasD && !hasW && negates {
				okNeg = false
			}
			return true
		})
		if nWithdrawClauses == 0 {
			okNeg = false
		}
		r.check(okNeg, "C01.R4", "PerformDepositOrWithdraw|withdraw-negates", ft.v.pos(ft.v.Decl), "the amount is negated exactly on the withdraw arm (so UpdateAssetValue enforces withdrawable >= amount)", "the withdraw arm does not negate the amount")
	}
	if ft := get("x/delegation/keeper", "Keeper.UpdateNSTBalance"); ft != nil {
		okPos, okNeg := true, true
		nPos := 0
		for _, t := range ft.ts {
			if hasCond(t, "amount.IsPositive()") && !hasCond(t, "!amount.IsPositive()") {
				nPos++
				if !(t.Sign == 1 && t.Sym == "amount" && (t.Col == "D" || t.Col == "W")) {
					okPos = false
				}
			} else if t.Sign != -1 {
				okNeg = false
			}
		}
		r.check(okPos && nPos == 2, "C01.R3", "UpdateNSTBalance|positive", ft.v.pos(ft.v.Decl), "a positive NST adjustment credits TotalDeposit and Withdrawable by the adjustment", "positive arm: "+renderTerms(ft.ts))
		r.check(okNeg, "C01.R3", "UpdateNSTBalance|negative-only-decreases", ft.v.pos(ft.v.Decl), "a negative NST adjustment only subtracts", "the negative arm contains a positive delta: "+renderTerms(ft.ts))
	}
	// clamp idiom in the NST decrease path: `rem := a.Sub(X.F); if rem.IsPositive() { a = X.F }` must clamp to the
	// same quantity it compared against, and the capped amount is what is subtracted.
	if v := w.View("x/delegation/keeper", "Keeper.UpdateNSTBalance"); v != nil {
		nClamp := 0
		var bad []string
		ast.Inspect(v.Decl.Body, func(n ast.Node) bool {
			ifs, ok := n.(*ast.IfStmt)
			if !ok {
				return true
			}
			recv, nm, _, isC := methodCall(ifs.Cond)
			if !isC || nm != "IsPositive" || v.objOf(recv) == nil {
				return true
			}
			rem := v.objOf(recv)
			for _, st := range ifs.Body.List {
				as, isAs := st.(*ast.AssignStmt)
				if !isAs || len(as.Lhs) != 1 || len(as.Rhs) != 1 || v.objOf(as.Lhs[0]) == nil || !isSelectorChain(as.Rhs[0]) {
					continue
				}
				a := v.objOf(as.Lhs[0])
				// the latest definition of rem before the if: a.Sub(E2)
				var e2 ast.Expr
				ast.Inspect(v.Decl.Body, func(m ast.Node) bool {
					d, isAs2 := m.(*ast.AssignStmt)
					if !isAs2 || d.Pos() > ifs.Pos() {
						return true
					}
					for i, l := range d.Lhs {
						if v.objOf(l) == rem && i < len(d.Rhs) {
							if r2, n2, a2, c2 := methodCall(d.Rhs[i]); c2 && n2 == "Sub" && v.objOf(r2) == a && len(a2) == 1 {
								e2 = a2[0]
							}
						}
					}
					return true
				})
				if e2 == nil {
					continue
				}
				nClamp++
				if exprString(e2) != exprString(as.Rhs[0]) {
					bad = append(bad, fmt.Sprintf("clamp at %s compares against %s but caps to %s", v.pos(ifs), exprString(e2), exprString(as.Rhs[0])))
				}
			}
			return true
		})
		r.check(len(bad) == 0 && nClamp >= 2, "C01.R2", "UpdateNSTBalance|clamps", v.pos(v.Decl), fmt.Sprintf("%d cap-to-what-is-present clamps compare against the quantity they cap to", nClamp), strings.Join(bad, "; ")+" (a slash larger than what is left would drive the figure negative)")
		// the record's ActualCompletedAmount is reduced by the capped variable
		okSub := false
		for _, as := range v.assignmentsToField(v.Decl.Body, "ActualCompletedAmount") {
			if recv, nm, args, isC := methodCall(as.Rhs[0]); isC && nm == "Sub" && lastField(recv) == "ActualCompletedAmount" && len(args) == 1 && v.objOf(args[0]) != nil {
				okSub = true
			}
		}
		r.check(okSub, "C01.R2", "UpdateNSTBalance|record-decrease", v.pos(v.Decl), "a pending record is reduced by the capped slash amount", "ActualCompletedAmount is not updated as ACA.Sub(<capped amount>)")
	}
	// delegateTo withdrawable guard
	if v := w.View("x/delegation/keeper", "Keeper.delegateTo"); v != nil {
		ok := false
		for _, c := range v.CallsNamed("UpdateStakerAssetState") {
			for _, f := range v.FactsAt(c, false) {
				if cm, okc := factCmp(f); okc && strings.HasSuffix(exprString(cm.L), "WithdrawableAmount") && cm.Op == ">=" && strings.HasSuffix(exprString(cm.R), "OpAmount") {
					ok = true
				}
			}
		}
		r.check(ok, "C01.R4", "delegateTo|withdrawable>=amount", v.pos(v.Decl), "delegation debits the staker only after WithdrawableAmount >= amount", "the withdrawable debit in delegateTo is not dominated by WithdrawableAmount >= OpAmount")
	}
	// no other increaser among live functions
	allowedInc := map[string]bool{
		"x/delegation/keeper.Keeper.delegateTo": true, "x/delegation/keeper.Keeper.UndelegateFrom": true, "x/delegation/keeper.Keeper.EndBlock": true,
		"x/assets/keeper.Keeper.PerformDepositOrWithdraw": true, "x/delegation/keeper.Keeper.UpdateNSTBalance": true,
		"x/delegation/keeper.Keeper.RemoveShare": true, "x/delegation/keeper.Keeper.RemoveShareFromOperator": true,
	}
	live := entryReachable(w)
	var names []string
	byName := map[string]*types.Func{}
	for fo := range live {
		names = append(names, funcID(fo))
		byName[funcID(fo)] = fo
	}
	sort.Strings(names)
	nScanned := 0
	for _, id := range names {
		fo := byName[id]
		if strings.HasPrefix(id, "x/evm") || strings.HasPrefix(id, "x/appchain") {
			continue
		}
		v := w.ViewOf(fo)
		if v == nil {
			continue
		}
		ts := v.ledgerTerms()
		if len(ts) == 0 {
			continue
		}
		nScanned++
		if allowedInc[id] {
			continue
		}
		var inc []string
		for _, t := range ts {
			if t.Col == "?" {
				inc = append(inc, t.Sym)
			}
			if t.Sign > 0 && (t.Col == "W" || t.Col == "D" || t.Col == "T" || t.Col == "G" || t.Col == "RC" || t.Col == "RA") {
				inc = append(inc, t.String())
			}
		}
		r.check(len(inc) == 0, "C01.R3", "no-other-increaser|"+id, v.pos(v.Decl), "no positive delta on a balance column outside the known operations", "a function outside the audited ledger operations raises a balance: "+strings.Join(inc, " "))
	}
	r.note("C01.R3: %d live functions with ledger delta terms scanned", nScanned)
	_ = ssa.BuilderMode(0)
}

// allAssignsToDeref: assignments of the form *p = … in a function.
func allAssignsToDeref(v *FnView) []*ast.AssignStmt {
	var out []*ast.AssignStmt
	ast.Inspect(v.Decl.Body, func(n ast.Node) bool {
		if as, ok := n.(*ast.AssignStmt); ok {
			for _, l := range as.Lhs {
				if _, isStar := l.(*ast.StarExpr); isStar {
					out = append(out, as)
				}
			}
		}
		return true
	})
	return out
}

// identFromCall: the identifier inside e (followed through single-definition aliases, conversions and
// wrapping calls) that holds the result of a call to the named function.
func identFromCall(v *FnView, e ast.Expr, name string, depth int) *ast.Ident {
	var found *ast.Ident
	ast.Inspect(e, func(n ast.Node) bool {
		id, ok := n.(*ast.Ident)
		if !ok || found != nil {
			return found == nil
		}
		o, isVar := v.objOf(id).(*types.Var)
		if !isVar || o.IsField() {
			return true
		}
		if resolvesToCallV(v, id, name) {
			found = id
			return false
		}
		if depth < 4 {
			if defs := v.defsOf(o); len(defs) == 1 {
				if _, isCall := stripParens(defs[0]).(*ast.CallExpr); isCall {
					found = identFromCall(v, defs[0], name, depth+1)
				}
			}
		}
		return true
	})
	return found
}
