package main

import (
	"fmt"
	"go/ast"
	"go/token"
	"go/types"
	"strings"
)

func init() { register("C19", runC19) }

func runC19(r *Run) {
	w := r.W
	r.Explain = "Static decision of structural necessary conditions of C19 (Ethereum transactions) on the repository's own copies of the ante decorators and the state transition: (R1) the EVM ante chain contains the decorators in the order signature -> account verification -> can-transfer -> gas consume (fee deduction) -> nonce increment; (R2) the nonce decorator rejects any nonce other than the account's and stores exactly nonce+1, for every message; (R3) with hooks installed the message and the post-processing hooks run on the same cache context, which is committed only when the execution did not fail and the hooks succeeded; an apply error consumes the whole gas limit; (R4) leftover gas (limit - used) is refunded on every path that returns a response, at the effective gas price, from the fee collector to the sender, and a refund failure fails the transaction; (R5) gas used = max(gas limit x minimum-gas multiplier, raw usage - capped refund counter), and nothing changes it afterwards; (R6) the fee deducted in the ante handler is VerifyFee's result (effective fee, fee cap >= base fee) for the message's sender, every message, before the next decorator, gas above the block limit is rejected, and the minimum-gas-price decorator compares the fee with the unrounded product minimum price x gas limit in every execution mode; (R7) the delegation tx-hash is put into the context the EVM and its StateDB are built from."
	r.NotDec = []string{"the accounting identity as arithmetic over all field combinations", "go-ethereum / evmos StateDB semantics (inner-frame reverts, precompile journal)", "admission rules implemented in dependencies (mempool fee, min gas price)"}
	r.Assume = []string{"sdk.ChainAnteDecorators runs decorators in argument order", "CacheContext writes are discarded unless its write function is called"}
	r.rule("C19.R1", "EVM ante chain members and order", 6)
	r.rule("C19.R2", "nonce: exact-match rejection, nonce+1 stored, every message; the execution does not take back what the ante handler advanced", 5)
	r.rule("C19.R3", "revert containment in ApplyTransaction", 6)
	r.rule("C19.R4", "refund of unused gas: always, at the effective price, fee collector -> sender", 6)
	r.rule("C19.R5", "gas used = max(minimum rounded up, raw - refund), fixed afterwards", 6)
	r.rule("C19.R6", "fee deduction in the ante handler, block gas limit, the balance-versus-cost check in every execution mode, and the unrounded minimum-gas-price threshold", 9)
	r.rule("C19.R7", "tx-hash context value precedes EVM construction", 1)
	r.rule("C19.R8", "the state-DB commit writes every touched account's balance to the bank: SetAccount calls SetBalance with the account's balance unconditionally and returns its error; SetBalance mints a positive and burns a negative difference", 3)
	c19Balances(r)
	r.rule("C19.R9", "an Ethereum message is executed only behind the Ethereum ante chain: both Cosmos chains reject a MsgEthereumTx among the tx messages and, through the authz limiter, inside a MsgExec at any depth", 9)
	c19Authz(r)

	// ---------------------------------------------------------------- R1
	if v := w.View("app/ante", "newEVMAnteHandler"); v == nil {
		r.bad("C19.R1", "anchor|newEVMAnteHandler", "-", "anchor", "not found")
	} else {
		r.saw(v.ID())
		var order []string
		for _, c := range v.CallsNamed("ChainAnteDecorators") {
			for _, a := range c.Args {
				s := exprString(a)
				if i := strings.Index(s, "("); i > 0 {
					s = s[:i]
				}
				order = append(order, s)
			}
		}
		idx := func(name string) int {
			for i, s := range order {
				if s == name {
					return i
				}
			}
			return -1
		}
		seq := []string{"evmante.NewEthSetUpContextDecorator", "evmante.NewEthValidateBasicDecorator", "evmante.NewEthSigVerificationDecorator", "evmante.NewEthAccountVerificationDecorator", "evmante.NewCanTransferDecorator", "evmante.NewEthGasConsumeDecorator", "evmante.NewEthIncrementSenderSequenceDecorator"}
		var miss []string
		for _, n := range seq {
			if idx(n) < 0 {
				miss = append(miss, n)
			}
		}
		r.check(len(miss) == 0, "C19.R1", "chain|members", v.pos(v.Decl), "the EVM ante chain contains the accounting decorators", "missing: "+strings.Join(miss, ", "))
		for i := 0; i+1 < len(seq); i++ {
			a, b := seq[i], seq[i+1]
			r.check(idx(a) >= 0 && idx(b) >= 0 && idx(a) < idx(b), "C19.R1", "chain|"+strings.TrimPrefix(a, "evmante.New")+"<"+strings.TrimPrefix(b, "evmante.New"), v.pos(v.Decl), a+" runs before "+b, a+" does not precede "+b)
		}
		// the decorators are the repository's own (app/ante/evm), which the other rules analyse
		okOwn := false
		for _, imp := range v.Pkg.Syntax {
			for _, is := range imp.Imports {
				if is.Name != nil && is.Name.Name == "evmante" && strings.HasSuffix(strings.Trim(is.Path.Value, `"`), "exocore/app/ante/evm") {
					okOwn = true
				}
			}
		}
		r.check(okOwn, "C19.R1", "chain|own-decorators", v.pos(v.Decl), "the chain uses the repository's decorators (the ones analysed here)", "evmante is not the repository's app/ante/evm package")
	}
	// ---------------------------------------------------------------- R2
	if v := w.View("app/ante/evm", "EthIncrementSenderSequenceDecorator.AnteHandle"); v == nil {
		r.bad("C19.R2", "anchor|increment", "-", "anchor", "not found")
	} else {
		r.saw(v.ID())
		var loop *ast.RangeStmt
		ast.Inspect(v.Decl.Body, func(n ast.Node) bool {
			if rs, ok := n.(*ast.RangeStmt); ok && resolvesToMethod(v, rs.X, "GetMsgs") && !v.nestedConditionally(rs, v.Decl.Body) {
				loop = rs
			}
			return true
		})
		if loop == nil {
			r.bad("C19.R2", "nonce|every-message", v.pos(v.Decl), "loop over all messages", "no unconditional loop over tx.GetMsgs()")
		} else {
			r.ok("C19.R2", "nonce|every-message", v.pos(loop), "every message of the tx is processed")
			isSeq := func(e ast.Expr) bool { return resolvesToMethod(v, e, "GetSequence") }
			okRej := v.rejectsWhen(loop.Body, func(f Fact) bool {
				c, ok := factCmp(f)
				if !ok || c.Op != "!=" {
					return false
				}
				l, rr := c.L, c.R
				if !isSeq(rr) {
					l, rr = rr, l
				}
				_, nm, _, isM := methodCall(l)
				return isSeq(rr) && isM && nm == "GetNonce"
			}, nil)
			r.check(okRej, "C19.R2", "nonce|exact-match", v.pos(loop), "a tx whose nonce differs from the account's sequence is rejected", "the decorator does not reject every txData.GetNonce() != acc.GetSequence()")
			nSet, okSet := 0, false
			for _, c := range v.Calls(loop.Body, byName("SetSequence")) {
				nSet++
				if len(c.Args) == 1 {
					if b, ok := stripParens(c.Args[0]).(*ast.BinaryExpr); ok && b.Op == token.ADD && exprString(b.Y) == "1" && isSeq(b.X) {
						okSet = true
					}
				}
			}
			// ... for every message: nothing skips the increment (a `continue` for some kind of message leaves
			// the nonce unchanged when the execution fails, and the signed tx can be replayed)
			for _, c := range v.Calls(loop.Body, byName("SetSequence")) {
				for _, f := range v.factsAt(c, false) {
					if ifs, isIf := f.At.(*ast.IfStmt); isIf && ifs.Pos() > loop.Pos() && v.blockEndKind(ifs.Body) != "return" {
						okSet = false
					}
				}
			}
			r.check(nSet == 1 && okSet, "C19.R2", "nonce|plus-one", v.pos(loop), "the sender's nonce increases by exactly one", fmt.Sprintf("%d SetSequence calls; argument is not sequence+1", nSet))
			okStore := false
			for _, c := range v.Calls(loop.Body, byName("SetAccount")) {
				for _, s := range v.Calls(loop.Body, byName("SetSequence")) {
					if c.Pos() > s.Pos() && !v.nestedConditionally(c, loop.Body) {
						okStore = true
					}
				}
			}
			r.check(okStore, "C19.R2", "nonce|stored", v.pos(loop), "the incremented account is stored", "SetAccount does not follow SetSequence unconditionally")
		}
	}
	// ---------------------------------------------------------------- R3 / R4
	at := w.View("x/evm/keeper", "Keeper.ApplyTransaction")
	if at == nil {
		r.bad("C19.R3", "anchor|ApplyTransaction", "-", "anchor", "not found")
	} else {
		r.saw(at.ID())
		// tmpCtx, commit = ctx.CacheContext() under k.hooks != nil
		var tmpObj, commitObj types.Object
		ctxP := paramName(at, 0)
		ast.Inspect(at.Decl.Body, func(n ast.Node) bool {
			as, ok := n.(*ast.AssignStmt)
			if !ok || len(as.Lhs) != 2 || len(as.Rhs) != 1 {
				return true
			}
			if recv, nm, _, isM := methodCall(as.Rhs[0]); isM && nm == "CacheContext" && exprString(recv) == ctxP {
				if at.factsOf(as).atom(true, func(e ast.Expr) bool {
					b, ok := e.(*ast.BinaryExpr)
					return ok && b.Op == token.NEQ && lastField(b.X) == "hooks" && isNilIdent(at.Info, b.Y)
				}) {
					tmpObj, commitObj = at.objOf(as.Lhs[0]), at.objOf(as.Lhs[1])
				}
			}
			return true
		})
		r.check(tmpObj != nil && commitObj != nil, "C19.R3", "revert|cache-context", at.pos(at.Decl), "with hooks installed the transaction runs on a cache context", "ApplyTransaction does not create `tmpCtx, commit = ctx.CacheContext()` under hooks != nil")
		var apply *ast.CallExpr
		for _, c := range at.CallsNamed("ApplyMessageWithConfig") {
			apply = c
		}
		if tmpObj != nil && apply != nil {
			r.check(len(apply.Args) > 0 && at.objOf(apply.Args[0]) == tmpObj, "C19.R3", "revert|message-on-cache-context", at.pos(apply), "the message executes on the cache context", "ApplyMessageWithConfig is given "+exprString(apply.Args[0])+" instead of the cache context: a failing post-processing hook no longer reverts the EVM state")
			okHook := false
			for _, c := range at.CallsNamed("PostTxProcessing") {
				if len(c.Args) > 0 && at.objOf(c.Args[0]) == tmpObj && at.factsOf(c).call("Failed", false, nil) {
					okHook = true
				}
			}
			r.check(okHook, "C19.R3", "revert|hooks-on-cache-context", at.pos(at.Decl), "the hooks run on the same cache context and only for executions that did not fail", "PostTxProcessing is not called with the cache context under !res.Failed()")
			nCommit, okCommit := 0, false
			ast.Inspect(at.Decl.Body, func(n ast.Node) bool {
				c, ok := n.(*ast.CallExpr)
				if !ok || at.objOf(c.Fun) != commitObj {
					return true
				}
				nCommit++
				fs := at.factsOf(c)
				if fs.call("Failed", false, nil) && fs.call("PostTxProcessing", true, nil) {
					okCommit = true
				}
				return true
			})
			r.check(nCommit == 1 && okCommit, "C19.R3", "revert|commit-only-on-success", at.pos(at.Decl), "the cache context is committed only if the execution did not fail and the hooks succeeded", fmt.Sprintf("%d commit() calls; not dominated by !res.Failed() and PostTxProcessing == nil", nCommit))
		}
		if apply != nil {
			k, ifs := at.failArm(apply)
			okGas := false
			if ifs != nil {
				for _, c := range at.Calls(ifs.Body, byName("ResetGasMeterAndConsumeGas")) {
					if len(c.Args) == 2 && strings.HasSuffix(exprString(c.Args[1]), "GasMeter().Limit()") && exprString(c.Args[0]) == ctxP {
						okGas = true
					}
				}
			}
			r.check(k == "return" && okGas, "C19.R3", "revert|apply-error", at.pos(apply), "an apply error fails the tx and consumes the whole gas limit", "the failure arm of ApplyMessageWithConfig does not consume ctx.GasMeter().Limit() and return the error")
			// nothing is written to the outer context before the apply call
			okPre := true
			for _, c := range allCalls(at.Decl.Body) {
				if c.Pos() < apply.Pos() && at.callWrites(c) {
					okPre = false
				}
			}
			r.check(okPre, "C19.R3", "revert|no-write-before-apply", at.pos(apply), "nothing is written before the message executes", "a store-writing call precedes ApplyMessageWithConfig in ApplyTransaction")
		}
		// ---- R4
		var refund *ast.CallExpr
		for _, c := range at.CallsNamed("RefundGas") {
			refund = c
		}
		if refund == nil {
			r.bad("C19.R4", "refund|present", at.pos(at.Decl), "RefundGas call", "ApplyTransaction does not refund")
		} else {
			uncond := !at.nestedConditionally(refund, at.Decl.Body) || isIfInit(at, refund, at.Decl.Body)
			// every earlier exit is an error return
			for _, f := range at.FactsAt(refund, false) {
				if ifs, ok := f.At.(*ast.IfStmt); ok && at.blockEndKind(ifs.Body) != "return" {
					uncond = false
				}
			}
			r.check(uncond, "C19.R4", "refund|every-response", at.pos(refund), "every transaction that gets a response is refunded its unused gas (successful, reverted, hook-failed alike)", "RefundGas is conditional in ApplyTransaction")
			okArgs := len(refund.Args) == 4 && exprString(refund.Args[0]) == ctxP
			if okArgs {
				b, ok := stripParens(refund.Args[2]).(*ast.BinaryExpr)
				okArgs = ok && b.Op == token.SUB && strings.HasSuffix(exprString(b.X), ".Gas()") && lastField(b.Y) == "GasUsed" && apply != nil && rootFromCallV(at, b.Y, "ApplyMessageWithConfig")
			}
			r.check(okArgs, "C19.R4", "refund|limit-minus-used", at.pos(refund), "the refunded gas is gas limit - gas used, booked on the transaction's own context", "RefundGas is not called with (ctx, msg, msg.Gas() - res.GasUsed, denom)")
			k, _ := at.failArm(refund)
			r.check(k == "return", "C19.R4", "refund|failure-fails-tx", at.pos(refund), "a failing refund fails the transaction", "the result of RefundGas does not decide the transaction's outcome")
			okGasBook := false
			for _, c := range at.CallsNamed("AddTransientGasUsed") {
				if len(c.Args) == 2 && lastField(c.Args[1]) == "GasUsed" {
					for _, rc := range at.CallsNamed("ResetGasMeterAndConsumeGas") {
						if rc.Pos() > c.Pos() && len(rc.Args) == 2 && resolvesToCallV(at, rc.Args[1], "AddTransientGasUsed") {
							okGasBook = true
						}
					}
				}
			}
			r.check(okGasBook, "C19.R4", "refund|gas-meter", at.pos(at.Decl), "the tx gas meter ends at the block's cumulative EVM gas used", "AddTransientGasUsed(res.GasUsed) / ResetGasMeterAndConsumeGas(total) missing")
		}
	}
	if v := w.View("x/evm/keeper", "Keeper.RefundGas"); v == nil {
		r.bad("C19.R4", "anchor|RefundGas", "-", "anchor", "not found")
	} else {
		r.saw(v.ID())
		msgP, leftP := paramName(v, 1), paramName(v, 2)
		okPrice := false
		var remObj types.Object
		ast.Inspect(v.Decl.Body, func(n ast.Node) bool {
			as, ok := n.(*ast.AssignStmt)
			if !ok || len(as.Rhs) != 1 {
				return true
			}
			if _, nm, args, isM := methodCall(as.Rhs[0]); isM && nm == "Mul" && len(args) == 2 {
				a, b := exprString(args[0]), exprString(args[1])
				if strings.Contains(a, leftP) && b == msgP+".GasPrice()" || strings.Contains(b, leftP) && a == msgP+".GasPrice()" {
					okPrice = true
					remObj = v.objOf(as.Lhs[0])
				}
			}
			return true
		})
		r.check(okPrice, "C19.R4", "refund|purchase-price", v.pos(v.Decl), "unused gas is refunded at the price it was bought for: leftover x msg.GasPrice() (the effective price)", "RefundGas does not compute leftoverGas x msg.GasPrice()")
		okSend := false
		for _, c := range v.CallsNamed("SendCoinsFromModuleToAccount") {
			if len(c.Args) == 4 && strings.HasSuffix(exprString(c.Args[1]), "FeeCollectorName") && strings.HasPrefix(exprString(c.Args[2]), msgP+".From()") {
				// coins built from `remaining`
				for _, d := range v.resolveDefs(c.Args[3], 0) {
					if remObj != nil && v.usesObj(d, remObj) {
						okSend = true
					}
				}
			}
		}
		r.check(okSend, "C19.R4", "refund|collector-to-sender", v.pos(v.Decl), "the refund moves exactly that amount from the fee collector to the sender", "RefundGas does not send `remaining` from the fee collector to msg.From()")
	}
	// ---------------------------------------------------------------- R5 / R7
	// R2 (execution side): the ante handler advances the nonce once per message of the tx before any message
	// runs; whatever the execution writes to the sender's nonce afterwards must not fall behind that value
	if v := w.View("x/evm/keeper", "Keeper.ApplyMessageWithConfig"); v == nil {
		r.bad("C19.R2", "anchor|ApplyMessageWithConfig", "-", "anchor", "not found")
	} else {
		sets := v.CallsNamed("SetNonce")
		if len(sets) == 0 {
			r.ok("C19.R2", "nonce|execution-keeps-ante-value", v.pos(v.Decl), "the execution never writes the sender's nonce")
		} else {
			last := sets[len(sets)-1]
			first := sets[0]
			// the value the ante handler left, read before the first reset
			var before types.Object
			ast.Inspect(v.Decl.Body, func(n ast.Node) bool {
				as, ok := n.(*ast.AssignStmt)
				if ok && len(as.Lhs) == 1 && len(as.Rhs) == 1 && as.End() < first.Pos() && v.calleeName2(as.Rhs[0]) == "GetNonce" && within(as, v.innermostBlock(first)) {
					before = v.objOf(as.Lhs[0])
				}
				return true
			})
			okKeep, why := false, "the nonce is not read (GetNonce) before the reset for evm.Create"
			if before != nil && len(last.Args) == 2 {
				why = "the last SetNonce stores `" + exprString(last.Args[1]) + "`, which is not the larger of the value read before the reset and msg.Nonce()+1"
				arg := stripParens(last.Args[1])
				if c, isC := arg.(*ast.CallExpr); isC && exprString(c.Fun) == "max" && len(c.Args) == 2 && (v.objOf(c.Args[0]) == before || v.objOf(c.Args[1]) == before) {
					okKeep = true
				}
				if o := v.objOf(arg); o != nil {
					// x := msg.Nonce()+1; if before > x { x = before }
					plus, raised := false, false
					ast.Inspect(v.Decl.Body, func(n ast.Node) bool {
						as, ok := n.(*ast.AssignStmt)
						if !ok || len(as.Lhs) != 1 || len(as.Rhs) != 1 || v.objOf(as.Lhs[0]) != o || as.Pos() > last.Pos() {
							return true
						}
						if b, isB := stripParens(as.Rhs[0]).(*ast.BinaryExpr); isB && b.Op == token.ADD && exprString(b.Y) == "1" && strings.HasSuffix(exprString(b.X), ".Nonce()") {
							plus = true
							return true
						}
						if v.objOf(as.Rhs[0]) == before {
							if v.factsOf(as).cmp(func(c cmp) bool { return c.Op == ">" && v.objOf(c.L) == before && v.objOf(c.R) == o }) {
								// nothing else conditions the raise
								only := true
								for _, f := range v.FactsAt(as, false) {
									if f.At != nil && f.At.Pos() > first.Pos() {
										if c, isC := factCmp(f); !isC || !((v.objOf(c.L) == before && v.objOf(c.R) == o) || (v.objOf(c.L) == o && v.objOf(c.R) == before)) {
											only = false
										}
									}
								}
								raised = only
							}
							return true
						}
						plus, raised = false, false // some other definition
						return false
					})
					if plus && raised {
						okKeep = true
					}
				}
			}
			r.check(okKeep, "C19.R2", "nonce|execution-keeps-ante-value", v.pos(last), "after a contract creation the sender's nonce is the larger of the value the ante handler left and msg.Nonce()+1", "ApplyMessageWithConfig: "+why+": in a transaction with a creation (nonce n) followed by another message (nonce n+1) the account ends at n+1 although both were included, and the second message can be included again")
		}
	}
	if v := w.View("x/evm/keeper", "Keeper.ApplyMessageWithConfig"); v == nil {
		r.bad("C19.R5", "anchor|ApplyMessageWithConfig", "-", "anchor", "not found")
	} else {
		r.saw(v.ID())
		// gasUsed := LegacyMaxDec(minimumGasUsed, Dec(temporaryGasUsed))…
		var gasUsedObj, tmpUsedObj types.Object
		var gasUsedDef *ast.AssignStmt
		ast.Inspect(v.Decl.Body, func(n ast.Node) bool {
			as, ok := n.(*ast.AssignStmt)
			if !ok || len(as.Lhs) != 1 || len(as.Rhs) != 1 {
				return true
			}
			var maxCall *ast.CallExpr
			ast.Inspect(as.Rhs[0], func(m ast.Node) bool {
				if c, ok := m.(*ast.CallExpr); ok && (strings.HasSuffix(exprString(c.Fun), "LegacyMaxDec") || strings.HasSuffix(exprString(c.Fun), "MaxDec")) && len(c.Args) == 2 {
					maxCall = c
				}
				return true
			})
			if maxCall != nil {
				gasUsedObj = v.objOf(as.Lhs[0])
				gasUsedDef = as
				// operands: minimum (gas limit x multiplier) and the refund-adjusted usage
				for _, a := range maxCall.Args {
					ast.Inspect(a, func(m ast.Node) bool {
						if id, ok := m.(*ast.Ident); ok {
							if o := v.Info.ObjectOf(id); o != nil {
								if _, isVar := o.(*types.Var); isVar && isNumericExact(o.Type()) {
									tmpUsedObj = o
								}
							}
						}
						return true
					})
				}
			}
			return true
		})
		if gasUsedDef == nil || gasUsedObj == nil {
			r.bad("C19.R5", "gasused|max", v.pos(v.Decl), "gas used = max(minimum, usage)", "no MaxDec(minimumGasUsed, usage) in ApplyMessageWithConfig")
		} else {
			okMin, okCeil := false, false
			for _, a := range gasUsedDefArgs(gasUsedDef) {
				for _, d := range v.resolveDefs(a, 0) {
					// the product, rounded up to a whole gas unit: (...).Mul(multiplier).Ceil()
					ceil := false
					if recv0, nm0, args0, isM0 := methodCall(d); isM0 && nm0 == "Ceil" && len(args0) == 0 {
						d, ceil = stripParens(recv0), true
					}
					recv, nm, args, isM := methodCall(d)
					if isM && nm == "Mul" && len(args) == 1 && resolvesToCallV(v, args[0], "GetMinGasMultiplier") {
						for _, d2 := range v.resolveDefs(recv, 0) {
							if strings.Contains(exprString(d2), ".Gas()") {
								okMin = true
								okCeil = ceil
							}
						}
					}
				}
			}
			r.check(okMin, "C19.R5", "gasused|minimum", v.pos(gasUsedDef), "the minimum is gas limit x the minimum-gas multiplier", "the first operand of the max is not Dec(msg.Gas()).Mul(GetMinGasMultiplier(ctx))")
			r.check(okMin && okCeil, "C19.R5", "gasused|minimum-rounded-up", v.pos(gasUsedDef), "the minimum is rounded up to a whole gas unit before the max (the later truncation cannot take the charged gas below it)", "the product gas limit x multiplier enters the max without .Ceil(): for an odd gas limit the truncated result (0.5 x 100001 -> 50000) is below the configured minimum")
			// the refund counter is subtracted from the raw usage before the max
			okRefund := false
			if tmpUsedObj != nil {
				ast.Inspect(v.Decl.Body, func(n ast.Node) bool {
					as, ok := n.(*ast.AssignStmt)
					if ok && as.Tok == token.SUB_ASSIGN && len(as.Lhs) == 1 && v.objOf(as.Lhs[0]) == tmpUsedObj && as.Pos() < gasUsedDef.Pos() && !v.nestedConditionally(as, v.Decl.Body) {
						if resolvesToCallV(v, as.Rhs[0], "GasToRefund") {
							for _, d := range v.resolveDefs(as.Rhs[0], 0) {
								if c, ok := stripParens(d).(*ast.CallExpr); ok && len(c.Args) == 3 && strings.HasSuffix(exprString(c.Args[0]), ".GetRefund()") && v.objOf(c.Args[1]) == tmpUsedObj {
									okRefund = true
								}
							}
						}
					}
					return true
				})
			}
			r.check(okRefund, "C19.R5", "gasused|refund-before-floor", v.pos(gasUsedDef), "the EVM refund counter (capped on the raw usage) is applied before the minimum-gas floor", "the raw usage is not reduced by GasToRefund(stateDB.GetRefund(), raw, quotient) before the max with the minimum")
			// nothing changes gasUsed afterwards
			changed := ""
			ast.Inspect(v.Decl.Body, func(n ast.Node) bool {
				switch x := n.(type) {
				case *ast.AssignStmt:
					if x != gasUsedDef {
						for _, l := range x.Lhs {
							if v.objOf(l) == gasUsedObj {
								changed = v.pos(x)
							}
						}
					}
				case *ast.IncDecStmt:
					if v.objOf(x.X) == gasUsedObj {
						changed = v.pos(x)
					}
				}
				return true
			})
			r.check(changed == "", "C19.R5", "gasused|fixed-after-floor", v.pos(gasUsedDef), "gas used is not changed after the floor was applied (it stays >= the minimum)", "gasUsed is modified at "+changed+" after max(minimum, usage): it can drop below the minimum")
			okResp := false
			for _, cl := range v.compositeLits(v.Decl.Body, "MsgEthereumTxResponse") {
				if g := compositeField(cl, "GasUsed"); g != nil && v.objOf(g) == gasUsedObj {
					okResp = true
				}
			}
			r.check(okResp, "C19.R5", "gasused|reported", v.pos(gasUsedDef), "the response reports that value", "MsgEthereumTxResponse.GasUsed is not gasUsed")
			// raw usage = msg.Gas() - leftoverGas
			okRaw := false
			if tmpUsedObj != nil {
				for _, d := range v.defsOf(tmpUsedObj) {
					if b, ok := stripParens(d).(*ast.BinaryExpr); ok && b.Op == token.SUB && strings.HasSuffix(exprString(b.X), ".Gas()") {
						okRaw = true
					}
				}
			}
			r.check(okRaw, "C19.R5", "gasused|raw", v.pos(gasUsedDef), "raw usage = gas limit - leftover gas", "the usage operand is not msg.Gas() - leftoverGas")
		}
		// R7
		okCtx := false
		ctxP := paramName(v, 0)
		var withVal *ast.AssignStmt
		ast.Inspect(v.Decl.Body, func(n ast.Node) bool {
			if as, ok := n.(*ast.AssignStmt); ok && len(as.Lhs) == 1 && exprString(as.Lhs[0]) == ctxP && len(as.Rhs) == 1 {
				if _, nm, args, isM := methodCall(as.Rhs[0]); isM && nm == "WithValue" && len(args) == 2 && strings.HasSuffix(exprString(args[0]), "CtxKeyTxHash") && lastField(args[1]) == "TxHash" && !v.nestedConditionally(as, v.Decl.Body) {
					withVal = as
				}
			}
			return true
		})
		if withVal != nil {
			okCtx = true
			for _, c := range v.CallsNamed("New", "NewEVM") {
				if len(c.Args) > 0 && exprString(c.Args[0]) == ctxP && c.Pos() < withVal.Pos() {
					okCtx = false
				}
			}
		}
		r.check(okCtx, "C19.R7", "txhash|before-evm", v.pos(v.Decl), "the EVM and its StateDB are built from a context that carries the tx hash (precompiles key their records by it)", "ctx.WithValue(CtxKeyTxHash, txConfig.TxHash) does not precede statedb.New / NewEVM")
	}
	// ---------------------------------------------------------------- R6
	if v := w.View("app/ante/evm", "EthGasConsumeDecorator.AnteHandle"); v == nil {
		r.bad("C19.R6", "anchor|gasconsume", "-", "anchor", "not found")
	} else {
		r.saw(v.ID())
		var loop *ast.RangeStmt
		ast.Inspect(v.Decl.Body, func(n ast.Node) bool {
			if rs, ok := n.(*ast.RangeStmt); ok && resolvesToMethod(v, rs.X, "GetMsgs") {
				loop = rs
			}
			return true
		})
		if loop == nil {
			r.bad("C19.R6", "fee|every-message", v.pos(v.Decl), "loop over all messages", "no loop over tx.GetMsgs()")
		} else {
			var ded *ast.CallExpr
			for _, c := range v.Calls(loop.Body, byName("DeductTxCostsFromUserBalance")) {
				ded = c
			}
			okDed := false
			if ded != nil && len(ded.Args) == 3 && !v.nestedConditionally(ded, loop.Body) {
				fs := v.factsOf(ded)
				feesFrom := resolvesToCallV(v, ded.Args[1], "VerifyFee")
				okDed = feesFrom && fs.call("VerifyFee", true, nil) && strings.Contains(exprString(ded.Args[2]), ".From")
				// sender and data belong to the loop's message
				if okDed {
					okDed = v.derivesFromIter(ded.Args[2], map[types.Object]bool{v.objOf(loop.Value): true}, loop.Body, 0)
				}
			}
			r.check(okDed, "C19.R6", "fee|deducted", v.pos(loop), "for every message the fee computed by VerifyFee is deducted from that message's sender", "DeductTxCostsFromUserBalance(ctx, VerifyFee(...), sender of the message) is not called unconditionally for every message")
			if ded != nil {
				k, _ := v.failArm(ded)
				r.check(k == "return", "C19.R6", "fee|failure-rejects", v.pos(ded), "a sender who cannot pay is rejected", "the result of DeductTxCostsFromUserBalance does not reject the tx")
			}
			okVF := false
			for _, c := range v.Calls(loop.Body, byName("VerifyFee")) {
				if len(c.Args) == 6 && resolvesToCallV(v, c.Args[0], "UnpackTxData") && resolvesToCallV(v, c.Args[2], "GetBaseFee") {
					okVF = true
				}
			}
			r.check(okVF, "C19.R6", "fee|of-this-tx", v.pos(loop), "the fee is computed from the message's own data and the current base fee", "VerifyFee is not given the message's tx data and GetBaseFee's result")
		}
		okLimit := v.rejectsWhen(v.Decl.Body, func(f Fact) bool {
			c, ok := factCmp(f)
			return ok && c.Op == ">" && strings.Contains(strings.ToLower(exprString(c.L)), "gaswanted") && resolvesToCallV(v, c.R, "BlockGasLimit")
		}, func(f Fact) bool {
			// the limit was already enforced at CheckTx time for a rechecked tx
			o := v.outcome(f)
			return o != nil && o.Callee.Name() == "IsReCheckTx" && !o.Success
		})
		r.check(okLimit, "C19.R6", "limit|block-gas", v.pos(v.Decl), "a tx whose gas exceeds the block gas limit is rejected", "the decorator does not reject gasWanted > BlockGasLimit(ctx)")
	}
	if v := w.View("app/ante/evm", "EthMinGasPriceDecorator.AnteHandle"); v == nil {
		r.bad("C19.R6", "anchor|mingasprice", "-", "anchor", "not found")
	} else {
		r.saw(v.ID())
		okMin := v.rejectsWhen(v.Decl.Body, func(f Fact) bool {
			c, ok := factCmp(f)
			return ok && c.Op == "<" && strings.Contains(strings.ToLower(exprString(c.L)), "fee") && strings.Contains(strings.ToLower(exprString(c.R)), "requiredfee")
		}, func(f Fact) bool {
			// the only way past the check: the minimum gas price parameter is zero
			if c, ok := stripParens(f.Atom).(*ast.CallExpr); ok && !f.Truth {
				_, nm, _, isM := methodCall(c)
				return isM && nm == "IsZero" && strings.Contains(strings.ToLower(exprString(c)), "mingasprice")
			}
			return false
		})
		r.check(okMin, "C19.R6", "mingasprice|every-mode", v.pos(v.Decl), "a tx priced below the global minimum gas price is rejected in every execution mode (block inclusion too)", "EthMinGasPriceDecorator does not reject fee < minGasPrice x gasLimit unconditionally (apart from a zero minimum): a proposer can include under-priced transactions")
	}
	if v := w.View("app/ante/evm", "EthMinGasPriceDecorator.AnteHandle"); v != nil {
		// the threshold of the comparison is the exact product minimum price x gas limit: rounding it
		// down to whole coins before comparing admits a price just below a fractional minimum
		found, rounded := false, ""
		ast.Inspect(v.Decl.Body, func(n ast.Node) bool {
			ifs, ok := n.(*ast.IfStmt)
			if !ok || !v.blockEndsInErrorReturn(ifs.Body) {
				return true
			}
			recv, nm, args, isM := methodCall(ifs.Cond)
			if !isM || len(args) != 1 {
				return true
			}
			var required ast.Expr
			switch nm {
			case "LT", "LTE":
				required = args[0]
			case "GT", "GTE":
				required = recv
			default:
				return true
			}
			if !v.derivesFromMinGasPrice(required, 0) {
				return true
			}
			found = true
			if at := v.roundsDownAt(required, 0); at != nil {
				rounded = v.pos(at) + " " + exprString(at)
			}
			return true
		})
		r.check(found && rounded == "", "C19.R6", "mingasprice|threshold-not-rounded-down", v.pos(v.Decl), "the fee is compared with the exact product minimum gas price x gas limit (not with that product rounded down to whole coins)", "the rejection threshold derived from the minimum gas price is "+map[bool]string{true: "rounded down before the comparison at " + rounded + ": with a fractional minimum gas price a fee up to one base unit below minimum x gas limit is admitted", false: "not found as the bound of a rejecting LT/GT comparison"}[found])
	}
	if v := w.View("app/ante/evm", "EthAccountVerificationDecorator.AnteHandle"); v == nil {
		r.bad("C19.R6", "anchor|accountverification", "-", "anchor", "not found")
	} else {
		r.saw(v.ID())
		var loop *ast.RangeStmt
		ast.Inspect(v.Decl.Body, func(n ast.Node) bool {
			if rs, ok := n.(*ast.RangeStmt); ok && resolvesToMethod(v, rs.X, "GetMsgs") && !v.nestedConditionally(rs, v.Decl.Body) {
				loop = rs
			}
			return true
		})
		okBal := loop != nil && v.rejectsWhen(v.Decl.Body, func(f Fact) bool {
			o := v.outcome(f)
			return o != nil && o.Callee.Name() == "CheckSenderBalance" && !o.Success && within(o.Call, loop.Body)
		}, nil)
		// the balance handed to the check is the sender's current one
		okArg := false
		if loop != nil {
			for _, c := range v.Calls(loop.Body, byName("CheckSenderBalance")) {
				if len(c.Args) == 2 && balanceOfSender(v, c.Args[0]) {
					okArg = true
				}
			}
		}
		r.check(okBal && okArg, "C19.R6", "balance|every-mode", v.pos(v.Decl), "for every message, a sender whose balance is below the transaction cost is rejected in every execution mode (block inclusion too)", "EthAccountVerificationDecorator does not reject every message with CheckSenderBalance(<sender's balance>, txData) != nil unconditionally (an earlier exit for some execution mode, say): in a block a transaction whose fee and value are each covered but not both is admitted, fails in the EVM with 'insufficient balance for transfer', and is charged")
	}
	if v := w.View("x/evm/keeper", "VerifyFee"); v == nil {
		r.bad("C19.R6", "anchor|VerifyFee", "-", "anchor", "not found")
	} else {
		r.saw(v.ID())
		okCap := v.rejectsWhen(v.Decl.Body, func(f Fact) bool {
			c, ok := factCmp(f)
			if !ok || c.Op != "<" || exprString(c.R) != "0" {
				return false
			}
			recv, nm, args, isM := methodCall(c.L)
			return isM && nm == "Cmp" && len(args) == 1 && strings.HasSuffix(exprString(recv), "GetGasFeeCap()") && exprString(args[0]) == paramName(v, 2)
		}, func(f Fact) bool {
			b, ok := stripParens(f.Atom).(*ast.BinaryExpr)
			return ok && b.Op == token.NEQ && f.Truth && isNilIdent(v.Info, b.Y)
		})
		r.check(okCap, "C19.R6", "verifyfee|cap-below-base-fee", v.pos(v.Decl), "a fee cap below the base fee is rejected", "VerifyFee does not reject GetGasFeeCap() < baseFee")
		okEff := false
		ast.Inspect(v.Decl.Body, func(n ast.Node) bool {
			rs, ok := n.(*ast.ReturnStmt)
			if !ok || len(rs.Results) != 2 || !isNilIdent(v.Info, rs.Results[1]) {
				return true
			}
			// the returned amount derives from EffectiveFee(baseFee)
			ast.Inspect(rs.Results[0], func(m ast.Node) bool {
				if id, ok := m.(*ast.Ident); ok && v.objOf(id) != nil && resolvesToMethod(v, id, "EffectiveFee") {
					okEff = true
				}
				return true
			})
			return true
		})
		r.check(okEff, "C19.R6", "verifyfee|effective-fee", v.pos(v.Decl), "the fee bought up front is gas limit x effective price", "VerifyFee does not return txData.EffectiveFee(baseFee)")
	}
}

func gasUsedDefArgs(as *ast.AssignStmt) []ast.Expr {
	var out []ast.Expr
	ast.Inspect(as.Rhs[0], func(m ast.Node) bool {
		if c, ok := m.(*ast.CallExpr); ok && (strings.HasSuffix(exprString(c.Fun), "LegacyMaxDec") || strings.HasSuffix(exprString(c.Fun), "MaxDec")) && len(c.Args) == 2 {
			out = c.Args
		}
		return true
	})
	return out
}

// rootFromCallV: the root identifier of a selector chain was defined by a call to name.
func rootFromCallV(v *FnView, e ast.Expr, name string) bool {
	id := rootIdent(e)
	if id == nil {
		return false
	}
	return resolvesToCallV(v, id, name)
}

func c19Balances(r *Run) {
	w := r.W
	sa := w.View("x/evm/keeper", "Keeper.SetAccount")
	sb := w.View("x/evm/keeper", "Keeper.SetBalance")
	if sa == nil || sb == nil {
		r.bad("C19.R8", "anchor|SetAccount/SetBalance", "-", "anchor", "x/evm/keeper SetAccount or SetBalance not found")
		return
	}
	r.saw(sa.ID())
	r.saw(sb.ID())
	acctP := paramName(sa, 2)
	ok := false
	for _, c := range sa.CallsNamed("SetBalance") {
		if len(c.Args) != 3 || exprString(c.Args[2]) != acctP+".Balance" || !isParamOf(sa, c.Args[1]) {
			continue
		}
		uncond := true
		for _, f := range sa.FactsAt(c, false) {
			if sa.isSuccessOutcome(f) {
				continue
			}
			if sa.isExpandedAlias(f) {
				continue
			}
			uncond = false
		}
		if k, _ := sa.failArm(c); k == "return" && uncond {
			ok = true
		}
	}
	r.check(ok, "C19.R8", "SetAccount|balance-always-written", sa.pos(sa.Decl), "every committed account's balance is written to the bank, whatever its value", "SetAccount does not call SetBalance(ctx, addr, account.Balance) unconditionally with its error returned: a balance that is skipped (e.g. one that became exactly zero) stays in the bank, so the sender keeps what the recipient was credited")
	// SetBalance: delta = amount - current; mint on +, burn on -
	okMint, okBurn := false, false
	ast.Inspect(sb.Decl.Body, func(n ast.Node) bool {
		cc, isCC := n.(*ast.CaseClause)
		if !isCC || len(cc.List) != 1 {
			return true
		}
		sw, isSw := sb.parent(sb.parent(cc)).(*ast.SwitchStmt)
		if !isSw || sw.Tag == nil || !strings.HasSuffix(exprString(sw.Tag), ".Sign()") {
			return true
		}
		has := func(name string) bool {
			for _, c := range allCalls(cc) {
				if sb.calleeName(c) == name {
					return true
				}
			}
			return false
		}
		switch exprString(cc.List[0]) {
		case "1":
			okMint = has("MintCoins") && has("SendCoinsFromModuleToAccount") && !has("BurnCoins")
		case "-1":
			okBurn = has("SendCoinsFromAccountToModule") && has("BurnCoins") && !has("MintCoins")
		}
		return true
	})
	okDelta := false
	ast.Inspect(sb.Decl.Body, func(n ast.Node) bool {
		if c, isC := n.(*ast.CallExpr); isC {
			if sel, isS := c.Fun.(*ast.SelectorExpr); isS && sel.Sel.Name == "Sub" && len(c.Args) == 2 && isParamOf(sb, c.Args[0]) && !isParamOf(sb, c.Args[1]) {
				okDelta = true
			}
		}
		return true
	})
	r.check(okMint && okBurn, "C19.R8", "SetBalance|mint-and-burn", sb.pos(sb.Decl), "a positive difference is minted to the account, a negative one is taken from it and burnt", "SetBalance does not mint on a positive and burn on a negative difference")
	r.check(okDelta, "C19.R8", "SetBalance|difference", sb.pos(sb.Decl), "the difference is new balance minus current bank balance", "SetBalance does not compute new(big.Int).Sub(amount, balance)")
}

// balanceOfSender: the expression reads .Balance of an account obtained from GetAccount (or the empty account
// substituted for a missing one) -- possibly wrapped in conversions.
func balanceOfSender(v *FnView, e ast.Expr) bool {
	found := false
	ast.Inspect(e, func(n ast.Node) bool {
		sel, ok := n.(*ast.SelectorExpr)
		if !ok || sel.Sel.Name != "Balance" {
			return true
		}
		for _, d := range v.resolveDefs(sel.X, 0) {
			if c, isC := stripParens(d).(*ast.CallExpr); isC && (v.calleeName(c) == "GetAccount" || v.calleeName(c) == "NewEmptyAccount") {
				found = true
			}
		}
		return true
	})
	return found
}

// derivesFromMinGasPrice: e (following local definitions) mentions the fee-market minimum gas price.
func (v *FnView) derivesFromMinGasPrice(e ast.Expr, depth int) bool {
	if depth > 4 {
		return false
	}
	hit := false
	ast.Inspect(e, func(n ast.Node) bool {
		if hit {
			return false
		}
		switch x := n.(type) {
		case *ast.SelectorExpr:
			if x.Sel.Name == "MinGasPrice" || x.Sel.Name == "GetMinGasPrice" {
				hit = true
			}
		case *ast.Ident:
			if o, ok := v.Info.ObjectOf(x).(*types.Var); ok && o.Pos() >= v.Decl.Pos() && o.Pos() <= v.Decl.End() {
				for _, as := range v.assignmentsTo(o) {
					for _, rhs := range as.Rhs {
						if rhs.Pos() <= x.Pos() && x.End() <= rhs.End() {
							continue
						}
						if v.derivesFromMinGasPrice(rhs, depth+1) {
							hit = true
						}
					}
				}
			}
		}
		return !hit
	})
	return hit
}

// roundsDownAt: the first call inside e (following local definitions) that rounds a decimal down or to
// the nearest integer (anything but Ceil loses part of the threshold).
func (v *FnView) roundsDownAt(e ast.Expr, depth int) ast.Expr {
	if depth > 4 {
		return nil
	}
	var at ast.Expr
	ast.Inspect(e, func(n ast.Node) bool {
		if at != nil {
			return false
		}
		switch x := n.(type) {
		case *ast.CallExpr:
			if _, nm, _, isM := methodCall(x); isM {
				switch nm {
				case "TruncateInt", "TruncateInt64", "TruncateDec", "RoundInt", "RoundInt64", "QuoTruncate", "QuoInt", "QuoInt64":
					at = x
				}
			}
		case *ast.Ident:
			if o, ok := v.Info.ObjectOf(x).(*types.Var); ok && o.Pos() >= v.Decl.Pos() && o.Pos() <= v.Decl.End() {
				for _, as := range v.assignmentsTo(o) {
					for _, rhs := range as.Rhs {
						if rhs.Pos() <= x.Pos() && x.End() <= rhs.End() {
							continue
						}
						if a := v.roundsDownAt(rhs, depth+1); a != nil {
							at = a
						}
					}
				}
			}
		}
		return at == nil
	})
	return at
}
