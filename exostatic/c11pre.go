package main

import (
	"fmt"
	"go/ast"
	"go/constant"
	"go/token"
	"go/types"
	"strings"
)

// C11.R7p -- decoded precompile arguments are not indexed beyond their checked length.
//
// The argument parsers of the precompiles take slices out of the ABI-decoded arguments (uint64[] params, the
// comma-separated oracle info) and read fixed positions. A read beyond the length panics inside the EVM call;
// baseapp recovers it, so the chain goes on, but the property counts a panic during transaction delivery too.
// Decided: every constant-index read x[k] of a local slice in a precompile package (other than the ABI argument
// list itself, whose length is compared with the method's input count) is dominated by a length fact that covers
// k: len(x) == N with N > k, len(x) >= N with N > k, or len(x) > N with N >= k.
func c11PrecompileIndexes(r *Run) {
	w := r.W
	n := 0
	for _, v := range w.allViews() {
		rel := w.relFile(v.Decl.Pos())
		if v.Decl.Body == nil || !strings.HasPrefix(rel, "precompiles/") || strings.HasPrefix(rel, "precompiles/testutil/") || strings.HasSuffix(rel, "_test.go") {
			continue
		}
		seen := map[string]bool{}
		ast.Inspect(v.Decl.Body, func(m ast.Node) bool {
			ix, ok := m.(*ast.IndexExpr)
			if !ok {
				return true
			}
			id, isID := stripParens(ix.X).(*ast.Ident)
			if !isID || id.Name == "args" {
				return true
			}
			t := v.Info.TypeOf(id)
			if t == nil || !strings.HasPrefix(t.Underlying().String(), "[]") {
				return true
			}
			cv := v.constOf(ix.Index)
			if cv == nil {
				return true
			}
			k, exact := constant.Int64Val(constant.ToInt(cv))
			if !exact {
				return true
			}
			// an assignment x[k] = ... into a slice made with a constant length is not a read of decoded input
			if as, isAs := v.parent(ix).(*ast.AssignStmt); isAs {
				for _, l := range as.Lhs {
					if l == ast.Expr(ix) {
						return true
					}
				}
			}
			n++
			covered := v.factsOf(ix).cmp(func(c cmp) bool {
				call, isC := stripParens(c.L).(*ast.CallExpr)
				if !isC || exprString(call.Fun) != "len" || len(call.Args) != 1 || v.objOf(call.Args[0]) != v.Info.ObjectOf(id) {
					return false
				}
				rv := v.constOf(c.R)
				if rv == nil {
					return false
				}
				nn, _ := constant.Int64Val(constant.ToInt(rv))
				switch c.Op {
				case "==", ">=":
					return nn > k
				case ">":
					return nn >= k
				}
				return false
			})
			if !covered {
				covered = switchLenCovers(v, ix, v.Info.ObjectOf(id), k)
			}
			key := fmt.Sprintf("precompile-index|%s|%s[%d]", v.ID(), id.Name, k)
			if seen[key] {
				key += "#" + v.pos(ix)
			}
			seen[key] = true
			r.check(covered, "C11.R7p", key, v.pos(ix), fmt.Sprintf("%s[%d] is read under a length test that covers the index", id.Name, k),
				fmt.Sprintf("%s reads %s[%d] at %s without a dominating test that len(%s) exceeds %d: a shorter argument makes the precompile panic with an index out of range during transaction delivery", v.ID(), id.Name, k, v.pos(ix), id.Name, k))
			return true
		})
	}
	if n < 10 {
		r.bad("C11.R7p", "precompile-index|matcher", "-", "at least 10 constant-index reads in the precompile argument parsers", fmt.Sprintf("only %d found", n))
	}
}

// switchLenCovers: the read sits in a clause of a tagless switch over the slice's length (`l := len(x); switch {
// case l > 5: ...; fallthrough; case l >= 5: ...}`): the length guaranteed on entry to a clause is the smaller of
// its own bound and the bounds of the clauses that fall through into it.
func switchLenCovers(v *FnView, ix *ast.IndexExpr, slice types.Object, k int64) bool {
	var cc *ast.CaseClause
	var sw *ast.SwitchStmt
	for p := v.parent(ix); p != nil; p = v.parent(p) {
		if c, ok := p.(*ast.CaseClause); ok && cc == nil {
			cc = c
		}
		if s, ok := p.(*ast.SwitchStmt); ok && cc != nil {
			sw = s
			break
		}
	}
	if cc == nil || sw == nil || sw.Tag != nil {
		return false
	}
	isLen := func(e ast.Expr) bool {
		for _, d := range v.resolveDefs(e, 0) {
			if c, ok := stripParens(d).(*ast.CallExpr); ok && exprString(c.Fun) == "len" && len(c.Args) == 1 && v.objOf(c.Args[0]) == slice {
				continue
			}
			return false
		}
		return true
	}
	bound := func(c *ast.CaseClause) (int64, bool) {
		if len(c.List) != 1 {
			return 0, false
		}
		b, ok := stripParens(c.List[0]).(*ast.BinaryExpr)
		if !ok || !isLen(b.X) {
			return 0, false
		}
		cv := v.constOf(b.Y)
		if cv == nil {
			return 0, false
		}
		n, _ := constant.Int64Val(constant.ToInt(cv))
		switch b.Op {
		case token.GEQ, token.EQL:
			return n, true
		case token.GTR:
			return n + 1, true
		}
		return 0, false
	}
	guaranteed := int64(-1)
	for i, st := range sw.Body.List {
		c, ok := st.(*ast.CaseClause)
		if !ok {
			return false
		}
		m, okB := bound(c)
		fallsIn := false
		if i > 0 {
			if prev, isC := sw.Body.List[i-1].(*ast.CaseClause); isC && len(prev.Body) > 0 {
				if br, isBr := prev.Body[len(prev.Body)-1].(*ast.BranchStmt); isBr && br.Tok == token.FALLTHROUGH {
					fallsIn = true
				}
			}
		}
		switch {
		case !okB:
			guaranteed = -1
			if c == cc {
				return false
			}
		case fallsIn && guaranteed >= 0:
			if m < guaranteed {
				guaranteed = m
			}
		case fallsIn:
			guaranteed = -1
		default:
			guaranteed = m
		}
		if c == cc {
			return guaranteed > k
		}
	}
	return false
}
