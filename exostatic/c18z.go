package main

import (
	"fmt"
	"go/ast"
	"go/constant"
	"go/types"
	"strings"
)

// C18.R8 -- three agreements between genesis code and live code found by seeded changes:
//
//	joined-key|...   an exporter GetAll<X> that writes a genesis key as GetJoinedStoreKey(a0, a1, ...) and the
//	                 importer SetAll<X> that parses it agree on the number of parts and on which positions hold a
//	                 bech32 account address;
//	valset-bound     dogfood's genesis validation rejects a validator set only when it is LARGER than
//	                 max_validators (EndBlock fills the set up to the maximum);
//	empty-staker-list the live code stores an operator's staker list even when the last staker left
//	                 (DeleteStakerForOperator writes the shortened list back and never deletes the entry), so
//	                 genesis validation must not reject an empty list.
func c18Agreements(r *Run) {
	w := r.W
	// ---- joined keys
	nPairs := 0
	for _, gv := range w.allViews() {
		rel := w.relFile(gv.Decl.Pos())
		if gv.Decl.Body == nil || !strings.HasPrefix(rel, "x/") || !strings.Contains(rel, "/keeper/") || !strings.HasPrefix(gv.Obj.Name(), "GetAll") {
			continue
		}
		// exporter side: Key: string(GetJoinedStoreKey(...))
		var parts []ast.Expr
		ast.Inspect(gv.Decl.Body, func(n ast.Node) bool {
			kv, ok := n.(*ast.KeyValueExpr)
			if !ok || exprString(kv.Key) != "Key" {
				return true
			}
			ast.Inspect(kv.Value, func(m ast.Node) bool {
				if c, isC := m.(*ast.CallExpr); isC && gv.calleeName(c) == "GetJoinedStoreKey" && parts == nil {
					parts = c.Args
				}
				return true
			})
			return true
		})
		if len(parts) == 0 {
			continue
		}
		sv := w.View(w.relPkg(gv.Obj.Pkg().Path()), "Keeper.SetAll"+strings.TrimPrefix(gv.Obj.Name(), "GetAll"))
		if sv == nil {
			continue
		}
		// importer side: keys := ParseJoinedStoreKey([]byte(x.Key), n); AccAddressFromBech32(keys[i])
		var keysObj types.Object
		nParts := int64(-1)
		ast.Inspect(sv.Decl.Body, func(n ast.Node) bool {
			as, ok := n.(*ast.AssignStmt)
			if !ok || len(as.Rhs) != 1 || len(as.Lhs) < 1 {
				return true
			}
			if c, isC := stripParens(as.Rhs[0]).(*ast.CallExpr); isC && sv.calleeName(c) == "ParseJoinedStoreKey" && len(c.Args) == 2 && strings.Contains(exprString(c.Args[0]), ".Key") {
				keysObj = sv.objOf(as.Lhs[0])
				if cv := sv.constOf(c.Args[1]); cv != nil {
					nParts, _ = constant.Int64Val(constant.ToInt(cv))
				}
			}
			return true
		})
		if keysObj == nil {
			continue
		}
		nPairs++
		isAddr := func(v *FnView, e ast.Expr) bool {
			recv, nm, _, isM := methodCall(e)
			if !isM || nm != "String" {
				return false
			}
			t := v.Info.TypeOf(recv)
			return t != nil && strings.HasSuffix(t.String(), "cosmos-sdk/types.AccAddress")
		}
		expAddr := map[int64]bool{}
		for i, a := range parts {
			if isAddr(gv, a) {
				expAddr[int64(i)] = true
			}
		}
		impAddr := map[int64]bool{}
		for _, c := range sv.CallsNamed("AccAddressFromBech32", "MustAccAddressFromBech32") {
			if len(c.Args) != 1 {
				continue
			}
			for _, d := range sv.resolveDefs(c.Args[0], 0) {
				if ix, isIx := stripParens(d).(*ast.IndexExpr); isIx && sv.objOf(ix.X) == keysObj {
					if cv := sv.constOf(ix.Index); cv != nil {
						k, _ := constant.Int64Val(constant.ToInt(cv))
						impAddr[k] = true
					}
				}
			}
		}
		same := nParts == int64(len(parts))
		for k := range impAddr {
			if !expAddr[k] {
				same = false
			}
		}
		// an exported address position that the importer decodes nowhere is fine only if it decodes no address at all
		if len(impAddr) > 0 {
			for k := range expAddr {
				if !impAddr[k] {
					same = false
				}
			}
		}
		r.check(same, "C18.R8", "joined-key|"+gv.ID(), gv.pos(gv.Decl), "exporter and importer agree on the parts of the joined genesis key and on which of them are account addresses",
			fmt.Sprintf("%s writes a key of %d parts with addresses at %v, %s parses %d parts and decodes addresses at %v: the exported genesis validates but cannot be imported (or lands under another key)", gv.ID(), len(parts), keysOfInt(expAddr), sv.ID(), nParts, keysOfInt(impAddr)))
	}
	if nPairs < 2 {
		r.bad("C18.R8", "joined-key|matcher", "-", "at least 2 GetAll/SetAll pairs with joined keys", fmt.Sprintf("only %d found", nPairs))
	}
	// ---- exported identifiers are relative to the family prefix: an exporter that iterates the module store itself
	// (not a prefix store) with a non-empty prefix gets absolute keys from iterator.Key(); writing string(Key())
	// into the exported element hands the importer an identifier that already contains the prefix, and the
	// importer's key constructor adds it once more
	{
		nIter := 0
		for _, gv := range w.allViews() {
			rel := w.relFile(gv.Decl.Pos())
			nm := gv.Obj.Name()
			if gv.Decl.Body == nil || !strings.HasPrefix(rel, "x/") || !strings.Contains(rel, "/keeper/") || !(strings.HasPrefix(nm, "GetAll") || (strings.HasPrefix(nm, "All") && len(nm) > 3 && nm[3] >= 'A' && nm[3] <= 'Z')) {
				continue
			}
			for _, ic := range gv.CallsNamed("KVStorePrefixIterator") {
				if len(ic.Args) != 2 {
					continue
				}
				nIter++
				raw := false
				for _, d := range gv.resolveDefs(ic.Args[0], 0) {
					if _, name, _, isM := methodCall(d); isM && name == "KVStore" {
						raw = true
					}
				}
				// the store variable may be re-assigned to a prefix store before the iterator is made
				if o := gv.objOf(ic.Args[0]); o != nil {
					for _, as := range gv.assignmentsTo(o) {
						if as.End() < ic.Pos() && len(as.Rhs) == 1 && strings.HasSuffix(gv.calleeName2(as.Rhs[0]), "NewStore") {
							raw = false
						}
					}
				}
				emptyPrefix := isNilIdent(gv.Info, ic.Args[1])
				if cl, isCL := stripParens(ic.Args[1]).(*ast.CompositeLit); isCL && len(cl.Elts) == 0 {
					emptyPrefix = true
				}
				if !raw || emptyPrefix {
					continue
				}
				// the iterator variable
				var iterObj types.Object
				if as, isAs := gv.parent(ic).(*ast.AssignStmt); isAs && len(as.Lhs) == 1 {
					iterObj = gv.objOf(as.Lhs[0])
				}
				bad := ""
				ast.Inspect(gv.Decl.Body, func(n ast.Node) bool {
					c, ok := n.(*ast.CallExpr)
					if !ok || len(c.Args) != 1 || exprString(c.Fun) != "string" {
						return true
					}
					if recv, name, _, isM := methodCall(c.Args[0]); isM && name == "Key" && iterObj != nil && gv.objOf(recv) == iterObj {
						// handed on to a function (TrimPrefix, a key parser) it is processed further; used as a value
						// (a field of the exported element, an assignment) it is exported as it is
						if pc, isArg := gv.parent(c).(*ast.CallExpr); isArg && pc.Fun != ast.Expr(c) {
							return true
						}
						bad = gv.pos(c)
					}
					return true
				})
				r.check(bad == "", "C18.R8", "exported-key-relative|"+gv.ID(), gv.pos(ic), "an exporter iterating the module store itself does not export the absolute store key as an identifier", gv.ID()+" iterates the module store (no prefix store) under a prefix and writes string(iterator.Key()) at "+bad+" into the exported element: the identifier contains the family prefix, the importer's key constructor adds the prefix again, and after a round trip the entry sits under a doubled prefix where no reader looks")
			}
		}
		if nIter < 10 {
			r.bad("C18.R8", "exported-key-relative|matcher", "-", "at least 10 iterators in exporters", fmt.Sprintf("only %d found", nIter))
		}
	}
	// ---- an operator value record can exist without its AVS's value record (opting in writes the operator's zero
	// record only; the AVS record is written by the voting-power update at the epoch end), so validation may demand
	// the AVS record only for an operator record that carries a value
	{
		iv := w.View("x/operator/keeper", "Keeper.InitOperatorUSDValue")
		vv := w.View("x/operator/types", "GenesisState.ValidateOperatorUSDValues")
		if iv == nil || vv == nil {
			r.bad("C18.R8", "operator-value-without-avs-value", "-", "anchor", "InitOperatorUSDValue or ValidateOperatorUSDValues not found")
		} else {
			writesAlone := len(iv.CallsNamed("Set")) >= 1 && len(iv.CallsNamed("SetAVSUSDValue", "UpdateAVSUSDValue", "InitAVSUSDValue")) == 0
			offending := ""
			nMissing := 0
			ast.Inspect(vv.Decl.Body, func(n ast.Node) bool {
				rs, ok := n.(*ast.ReturnStmt)
				if !ok || !returnsErr(vv, rs) {
					return true
				}
				missing, valued := false, false
				for _, f := range vv.FactsAt(rs, false) {
					// `ok` of the comma-ok lookup in the AVS value map is false
					if id, isID := stripParens(f.Atom).(*ast.Ident); isID && !f.Truth {
						for _, d := range vv.defsOf(vv.Info.ObjectOf(id)) {
							if ix, isIx := stripParens(d).(*ast.IndexExpr); isIx && strings.Contains(strings.ToLower(exprString(ix.X)), "avsusdvalue") {
								missing = true
							}
						}
					}
					if c, isC := stripParens(f.Atom).(*ast.CallExpr); isC && !f.Truth && strings.HasSuffix(exprString(c.Fun), "TotalUSDValue.IsZero") {
						valued = true
					}
				}
				if missing {
					nMissing++
					if !valued {
						offending = vv.pos(rs)
					}
				}
				return true
			})
			r.check(!writesAlone || (offending == "" && nMissing >= 0), "C18.R8", "operator-value-without-avs-value", vv.pos(vv.Decl), "genesis validation demands an AVS value record only for an operator value record that is not zero", "ValidateOperatorUSDValues rejects at "+offending+" every operator value record whose AVS has no value record, but InitOperatorUSDValue (opt-in) writes the operator's zero record without an AVS record: the export taken between an opt-in and the AVS's first epoch end fails the module's own validation")
		}
	}
	// ---- recorded slash amounts: the execution appends an entry for every pool it visits and for every
	// undelegation it touches, with whatever the slashed fraction rounds down to - zero for small amounts. Genesis
	// validation may therefore refuse negative amounts only.
	{
		sv := w.View("x/operator/keeper", "Keeper.SlashAssets")
		uv := w.View("x/operator/keeper", "SlashFromUndelegation")
		vv := w.View("x/operator/types", "GenesisState.ValidateSlashStates")
		if sv == nil || uv == nil || vv == nil {
			r.bad("C18.R8", "slash-record|zero-amount-admitted", "-", "anchor", "SlashAssets, SlashFromUndelegation or ValidateSlashStates not found")
		} else {
			// does the live code filter zero amounts? SlashFromUndelegation returns its entry with whatever the
			// fraction rounded down to, unless the return sits under a positivity test of that amount
			filters := true
			ast.Inspect(uv.Decl.Body, func(n ast.Node) bool {
				rs, ok := n.(*ast.ReturnStmt)
				if !ok || len(rs.Results) != 1 || isNilIdent(uv.Info, rs.Results[0]) {
					return true
				}
				pos := false
				for _, f := range uv.FactsAt(rs, false) {
					if cc, isC := stripParens(f.Atom).(*ast.CallExpr); isC && strings.Contains(strings.ToLower(exprString(cc.Fun)), "slashamount") && ((strings.HasSuffix(exprString(cc.Fun), ".IsPositive") && f.Truth) || (strings.HasSuffix(exprString(cc.Fun), ".IsZero") && !f.Truth)) {
						pos = true
					}
				}
				if !pos {
					filters = false
				}
				return true
			})
			_ = sv
			offending := ""
			ast.Inspect(vv.Decl.Body, func(n ast.Node) bool {
				rs, ok := n.(*ast.ReturnStmt)
				if !ok || !returnsErr(vv, rs) {
					return true
				}
				ifs, isIf := vv.parent(vv.parent(rs)).(*ast.IfStmt)
				if !isIf {
					return true
				}
				for _, d := range disjuncts(ifs.Cond) {
					c, isC := stripParens(d).(*ast.CallExpr)
					if !isC {
						continue
					}
					fn := exprString(c.Fun)
					if !(strings.Contains(fn, "slashFromUndelegation.Amount.") || strings.Contains(fn, "slashFromAssetsPool.Amount.")) {
						continue
					}
					if strings.HasSuffix(fn, ".LTE") || strings.HasSuffix(fn, ".IsZero") || (strings.HasSuffix(fn, ".LT") && len(c.Args) == 1 && !strings.Contains(exprString(c.Args[0]), "(0)")) {
						offending = vv.pos(rs) + " (" + exprString(d) + ")"
					}
				}
				return true
			})
			r.check(filters || offending == "", "C18.R8", "slash-record|zero-amount-admitted", vv.pos(vv.Decl), "genesis validation accepts the zero amounts that a slash of small pools and undelegations records", "ValidateSlashStates rejects a recorded amount of zero at "+offending+", but SlashAssets records every pool it visits and every undelegation it touches with whatever the fraction rounds down to: after a slash that meets a small amount the module's export fails its own validation")
		}
	}
	// ---- dogfood validator set bound
	if dv := w.View("x/dogfood/types", "GenesisState.Validate"); dv == nil {
		r.bad("C18.R8", "valset-bound", "-", "anchor", "dogfood GenesisState.Validate not found")
	} else {
		strict, loose := false, false
		ast.Inspect(dv.Decl.Body, func(n ast.Node) bool {
			ifs, ok := n.(*ast.IfStmt)
			if !ok {
				return true
			}
			var fs []Fact
			decompose(ifs.Cond, true, ifs, &fs)
			for _, f := range fs {
				c, isC := factCmp(f)
				if !isC {
					continue
				}
				l, rr, op := c.L, c.R, c.Op
				if !strings.Contains(exprString(l), "len(") {
					l, rr, op = rr, l, flipOp(op)
				}
				if !strings.HasPrefix(exprString(l), "len(") || !strings.HasSuffix(exprString(l), ".ValSet)") {
					continue
				}
				isMax := false
				for _, d := range dv.resolveDefs(rr, 0) {
					if strings.Contains(exprString(d), "MaxValidators") {
						isMax = true
					}
				}
				if !isMax || dv.blockEndKind(ifs.Body) != "return" {
					continue
				}
				if op == ">" {
					strict = true
				} else {
					loose = true
				}
			}
			return true
		})
		r.check(strict && !loose, "C18.R8", "valset-bound", dv.pos(dv.Decl), "the exported validator set is rejected only when it is larger than max_validators", "dogfood genesis validation rejects a validator set whose size equals max_validators (or does not bound it): EndBlock fills the set up to the maximum, so the export of a full set cannot be imported")
	}
	// ---- empty staker lists
	{
		dv := w.View("x/delegation/keeper", "Keeper.DeleteStakerForOperator")
		vv := w.View("x/delegation/types", "GenesisState.ValidateStakerList")
		if dv == nil || vv == nil {
			r.bad("C18.R8", "empty-staker-list", "-", "anchor", "DeleteStakerForOperator or ValidateStakerList not found")
		} else {
			keepsEmpty := len(dv.CallsNamed("Set")) >= 1 && len(dv.CallsNamed("Delete")) == 0
			rejectsEmpty := ""
			ast.Inspect(vv.Decl.Body, func(n ast.Node) bool {
				rs, ok := n.(*ast.ReturnStmt)
				if !ok || !returnsErr(vv, rs) {
					return true
				}
				for _, f := range vv.FactsAt(rs, false) {
					c, isC := factCmp(f)
					if !isC {
						continue
					}
					for _, side := range [][2]ast.Expr{{c.L, c.R}, {c.R, c.L}} {
						if strings.HasPrefix(exprString(side[0]), "len(") && strings.HasSuffix(exprString(side[0]), ".Stakers)") && exprString(side[1]) == "0" && (c.Op == "==" || c.Op == "<=" || c.Op == ">=") && vv.innermostLoopDepth(rs) <= 1 {
							if c.Op == "==" || (c.Op == "<=" && side[0] == c.L) || (c.Op == ">=" && side[0] == c.R) {
								rejectsEmpty = vv.pos(rs)
							}
						}
					}
				}
				return true
			})
			r.check(!keepsEmpty || rejectsEmpty == "", "C18.R8", "empty-staker-list", vv.pos(vv.Decl), "genesis validation accepts the empty staker list that the live code keeps after the last staker left", "ValidateStakerList rejects an empty staker list at "+rejectsEmpty+", but DeleteStakerForOperator writes the shortened list back and never removes the entry: after the only delegator of an operator left, the exported delegation genesis fails its own validation")
		}
	}
}

func keysOfInt(m map[int64]bool) []int64 {
	var out []int64
	for k := range m {
		out = append(out, k)
	}
	for i := range out {
		for j := i + 1; j < len(out); j++ {
			if out[j] < out[i] {
				out[i], out[j] = out[j], out[i]
			}
		}
	}
	return out
}

func (v *FnView) innermostLoopDepth(n ast.Node) int {
	d := 0
	for p := v.parent(n); p != nil; p = v.parent(p) {
		switch p.(type) {
		case *ast.ForStmt, *ast.RangeStmt:
			d++
		}
	}
	return d
}
