package main

import (
	"go/ast"
	"go/token"
	"go/types"
)

// Small pattern helpers over the type-checked AST.

// defsOf returns the right-hand sides assigned to obj anywhere in the function
// (`x := e`, `x = e`, `var x = e`; multi-value calls yield the call expression).
func (v *FnView) defsOf(obj types.Object) []ast.Expr {
	var out []ast.Expr
	ast.Inspect(v.Decl, func(n ast.Node) bool {
		switch s := n.(type) {
		case *ast.AssignStmt:
			for i, l := range s.Lhs {
				id, ok := l.(*ast.Ident)
				if !ok || v.Info.ObjectOf(id) != obj {
					continue
				}
				if len(s.Rhs) == len(s.Lhs) {
					out = append(out, s.Rhs[i])
				} else if len(s.Rhs) == 1 {
					out = append(out, s.Rhs[0])
				}
			}
		case *ast.ValueSpec:
			for i, nm := range s.Names {
				if v.Info.ObjectOf(nm) == obj {
					if i < len(s.Values) {
						out = append(out, s.Values[i])
					} else if len(s.Values) == 1 {
						out = append(out, s.Values[0])
					}
				}
			}
		}
		return true
	})
	return out
}

// objOf returns the object of an identifier expression (nil otherwise).
func (v *FnView) objOf(e ast.Expr) types.Object {
	if id, ok := stripParens(e).(*ast.Ident); ok {
		return v.Info.ObjectOf(id)
	}
	return nil
}

// methodCall destructures recv.Name(args...).
func methodCall(e ast.Expr) (recv ast.Expr, name string, args []ast.Expr, ok bool) {
	c, isCall := stripParens(e).(*ast.CallExpr)
	if !isCall {
		return nil, "", nil, false
	}
	sel, isSel := c.Fun.(*ast.SelectorExpr)
	if !isSel {
		return nil, "", nil, false
	}
	return sel.X, sel.Sel.Name, c.Args, true
}

// funcCallName: name of a called function for pkg.F(...) or F(...).
func funcCallName(e ast.Expr) (string, []ast.Expr, bool) {
	c, ok := stripParens(e).(*ast.CallExpr)
	if !ok {
		return "", nil, false
	}
	switch f := c.Fun.(type) {
	case *ast.Ident:
		return f.Name, c.Args, true
	case *ast.SelectorExpr:
		return f.Sel.Name, c.Args, true
	}
	return "", nil, false
}

// lastField: the final selector name of x.a.b ("" if not a selector chain).
func lastField(e ast.Expr) string {
	if sel, ok := stripParens(e).(*ast.SelectorExpr); ok {
		return sel.Sel.Name
	}
	return ""
}

// isObjOrAlias: e is the identifier obj, or an identifier whose only definition is (an alias of) obj.
func (v *FnView) isObjOrAlias(e ast.Expr, obj types.Object, depth int) bool {
	o := v.objOf(e)
	if o == nil || depth > 4 {
		return false
	}
	if o == obj {
		return true
	}
	defs := v.defsOf(o)
	if len(defs) != 1 {
		return false
	}
	return v.isObjOrAlias(defs[0], obj, depth+1)
}

// assignmentsToField lists `X.<field> = rhs` statements in node (any X).
func (v *FnView) assignmentsToField(node ast.Node, field string) []*ast.AssignStmt {
	var out []*ast.AssignStmt
	ast.Inspect(node, func(n ast.Node) bool {
		if as, ok := n.(*ast.AssignStmt); ok {
			for _, l := range as.Lhs {
				if sel, ok := l.(*ast.SelectorExpr); ok && sel.Sel.Name == field {
					out = append(out, as)
				}
			}
		}
		return true
	})
	return out
}

// compositeField returns the value of Key: in a composite literal.
func compositeField(cl *ast.CompositeLit, key string) ast.Expr {
	for _, e := range cl.Elts {
		if kv, ok := e.(*ast.KeyValueExpr); ok {
			if id, ok := kv.Key.(*ast.Ident); ok && id.Name == key {
				return kv.Value
			}
		}
	}
	return nil
}

// compositeLits finds composite literals whose type name is typeName.
func (v *FnView) compositeLits(node ast.Node, typeName string) []*ast.CompositeLit {
	var out []*ast.CompositeLit
	ast.Inspect(node, func(n ast.Node) bool {
		if cl, ok := n.(*ast.CompositeLit); ok {
			t := v.Info.TypeOf(cl)
			if t != nil {
				if p, ok := t.(*types.Pointer); ok {
					t = p.Elem()
				}
				if nt, ok := t.(*types.Named); ok && nt.Obj().Name() == typeName {
					out = append(out, cl)
				}
			}
		}
		return true
	})
	return out
}

// cmpNormal normalises a comparison fact to (lhs, op, rhs) with the fact's
// truth folded in: (a < b, false) becomes (a, >=, b). Supports binary operators
// and the sdk Int/Dec methods LT/LTE/GT/GTE/Equal and time Before/After.
type cmp struct {
	L, R ast.Expr
	Op   string // "<", "<=", ">", ">=", "==", "!="
}

func negOp(op string) string {
	switch op {
	case "<":
		return ">="
	case "<=":
		return ">"
	case ">":
		return "<="
	case ">=":
		return "<"
	case "==":
		return "!="
	case "!=":
		return "=="
	}
	return op
}

func flipOp(op string) string {
	switch op {
	case "<":
		return ">"
	case "<=":
		return ">="
	case ">":
		return "<"
	case ">=":
		return "<="
	}
	return op
}

func factCmp(f Fact) (cmp, bool) {
	e := stripParens(f.Atom)
	var c cmp
	switch x := e.(type) {
	case *ast.BinaryExpr:
		switch x.Op {
		case token.LSS:
			c = cmp{x.X, x.Y, "<"}
		case token.LEQ:
			c = cmp{x.X, x.Y, "<="}
		case token.GTR:
			c = cmp{x.X, x.Y, ">"}
		case token.GEQ:
			c = cmp{x.X, x.Y, ">="}
		case token.EQL:
			c = cmp{x.X, x.Y, "=="}
		case token.NEQ:
			c = cmp{x.X, x.Y, "!="}
		default:
			return c, false
		}
	case *ast.CallExpr:
		recv, name, args, ok := methodCall(x)
		if !ok || len(args) != 1 {
			return c, false
		}
		switch name {
		case "LT", "Before":
			c = cmp{recv, args[0], "<"}
		case "LTE":
			c = cmp{recv, args[0], "<="}
		case "GT", "After":
			c = cmp{recv, args[0], ">"}
		case "GTE":
			c = cmp{recv, args[0], ">="}
		case "Equal", "Equals":
			c = cmp{recv, args[0], "=="}
		default:
			return c, false
		}
	default:
		return c, false
	}
	if !f.Truth {
		c.Op = negOp(c.Op)
	}
	return c, true
}

// resolveDefs follows single-definition identifier aliases and returns the
// defining expressions of e (e itself if it is not an identifier).
func (v *FnView) resolveDefs(e ast.Expr, depth int) []ast.Expr {
	o := v.objOf(e)
	if o == nil || depth > 5 {
		return []ast.Expr{e}
	}
	if _, isVar := o.(*types.Var); !isVar {
		return []ast.Expr{e}
	}
	defs := v.defsOf(o)
	if len(defs) == 0 {
		return []ast.Expr{e}
	}
	var out []ast.Expr
	for _, d := range defs {
		if v.objOf(d) != nil && len(defs) == 1 {
			out = append(out, v.resolveDefs(d, depth+1)...)
		} else {
			out = append(out, d)
		}
	}
	return out
}
