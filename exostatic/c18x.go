package main

import (
	"go/ast"
	"go/types"
	"sort"
	"strings"

	"golang.org/x/tools/go/ssa"
)

// exportReachable: repository functions reachable from the ExportGenesis entry points.
func exportReachable(w *World) map[*types.Func]bool {
	cat := catalogue(w)
	roots := cat.Fns("exportgenesis")
	parent := w.Reach(roots, func(f *ssa.Function) bool { return !w.fnInScope(f) && f.Pkg != nil })
	out := map[*types.Func]bool{}
	for f := range parent {
		if !w.fnInScope(f) {
			continue
		}
		root := f
		for root.Parent() != nil {
			root = root.Parent()
		}
		if fo, ok := root.Object().(*types.Func); ok && w.declOf[fo] != nil {
			out[fo] = true
		}
	}
	return out
}

type condAppend struct {
	V     *FnView
	As    *ast.AssignStmt
	Conds []string
}

// conditionalAppendsInIterations: appends to a slice inside an iteration (range/for loop or an Iterate*
// callback) whose path, from the start of the iteration step, carries a condition other than the
// error/decoding success of a call.
func conditionalAppendsInIterations(v *FnView) []condAppend {
	var out []condAppend
	ast.Inspect(v.Decl.Body, func(n ast.Node) bool {
		as, ok := n.(*ast.AssignStmt)
		if !ok || len(as.Lhs) != 1 || len(as.Rhs) != 1 {
			return true
		}
		c, isC := stripParens(as.Rhs[0]).(*ast.CallExpr)
		if !isC || exprString(c.Fun) != "append" || len(c.Args) < 2 || !sameExpr(c.Args[0], as.Lhs[0]) {
			return true
		}
		// the enclosing iteration step: innermost loop body or function literal body
		var step ast.Node
		if l := v.innermostLoop(as); l != nil {
			step = l
		}
		if fl := v.enclosingFuncLit(as); fl != nil && (step == nil || fl.Pos() > step.Pos()) {
			step = fl
		}
		if step == nil {
			return true
		}
		var conds []string
		for _, f := range v.factsAt(as, false) {
			if f.At == nil || f.At.Pos() < step.Pos() || f.At.End() > step.End() || f.LoopCond {
				continue
			}
			if v.isSuccessOutcome(f) {
				continue // success of a call (err == nil, found, ok)
			}
			conds = append(conds, ifNot(f.Truth)+exprString(f.Atom))
		}
		if len(conds) > 0 {
			sort.Strings(conds)
			out = append(out, condAppend{v, as, conds})
		}
		return true
	})
	return out
}

func dumpExportFilters(w *World) {
	var fos []*types.Func
	for fo := range exportReachable(w) {
		fos = append(fos, fo)
	}
	sort.Slice(fos, func(i, j int) bool { return funcID(fos[i]) < funcID(fos[j]) })
	for _, fo := range fos {
		v := w.ViewOf(fo)
		if v == nil || strings.HasSuffix(w.relFile(v.Decl.Pos()), ".pb.go") {
			continue
		}
		for _, ca := range conditionalAppendsInIterations(v) {
			println(v.pos(ca.As), v.ID(), exprString(ca.As.Lhs[0]), "| under:", strings.Join(ca.Conds, " && "))
		}
	}
}

// isSuccessOutcome: the fact says that an earlier call succeeded -- its error result is nil, or its
// comma-ok / found flag (a variable) is set. A boolean method used directly as a condition
// (val.IsJailed(), amount.IsZero()) is a condition on the data, not a success outcome.
func (v *FnView) isSuccessOutcome(f Fact) bool {
	o := v.outcome(f)
	if o == nil {
		return false
	}
	if _, isCall := stripParens(f.Atom).(*ast.CallExpr); isCall {
		return false
	}
	return true
}
