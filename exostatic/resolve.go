package main

import (
	"go/ast"
	"go/types"
	"sort"
	"strings"

	"golang.org/x/tools/go/ssa"
)

var implCache = map[*types.Func][]*ssa.Function{}

// implsOf resolves an interface method to the repo's concrete implementations
// (CHA-style, over repo types only).
func (w *World) implsOf(m *types.Func) []*ssa.Function {
	if r, ok := implCache[m]; ok {
		return r
	}
	sig := m.Type().(*types.Signature)
	var out []*ssa.Function
	if sig.Recv() == nil {
		return nil
	}
	iface, _ := sig.Recv().Type().Underlying().(*types.Interface)
	if iface == nil {
		if f := w.Prog.FuncValue(m); f != nil {
			out = []*ssa.Function{f}
		}
		implCache[m] = out
		return out
	}
	for _, p := range w.Pkgs {
		if strings.Contains(p.PkgPath, "/testutil") || strings.Contains(p.PkgPath, "/mock") {
			continue
		}
		for _, nt := range namedTypes(p.Types) {
			if !implements(nt, iface) {
				continue
			}
			sel := types.NewMethodSet(types.NewPointer(nt)).Lookup(m.Pkg(), m.Name())
			if sel == nil {
				continue
			}
			if fo, ok := sel.Obj().(*types.Func); ok {
				if f := w.Prog.FuncValue(fo); f != nil {
					out = append(out, f)
				}
			}
		}
	}
	sort.Slice(out, func(i, j int) bool { return out[i].String() < out[j].String() })
	// dedup
	var d []*ssa.Function
	for i, f := range out {
		if i == 0 || out[i-1] != f {
			d = append(d, f)
		}
	}
	implCache[m] = d
	return d
}

// targetsOf resolves a source-level call to SSA functions.
func (v *FnView) targetsOf(call *ast.CallExpr) []*ssa.Function {
	f := v.callee(call)
	if f == nil {
		return nil
	}
	return v.W.implsOf(f)
}

var effCache *Effects

func effects(w *World) *Effects {
	if effCache == nil {
		effCache = computeEffects(w)
	}
	return effCache
}

// callEffects: the union of the effect summaries of a call's targets, filtered by kinds.
func (v *FnView) callEffects(call *ast.CallExpr, kinds string) []string {
	e := effects(v.W)
	set := map[string]bool{}
	for _, t := range v.targetsOf(call) {
		skip := map[string]bool{}
		for idx := range e.Cond[t] {
			// SSA parameter idx of a method = source argument idx-1
			ai := idx
			if t.Signature.Recv() != nil {
				ai = idx - 1
			}
			if ai >= 0 && ai < len(call.Args) {
				if id, ok := stripParens(call.Args[ai]).(*ast.Ident); ok && id.Name == "false" {
					if _, isConst := v.Info.ObjectOf(id).(*types.Const); isConst {
						for k := range e.condOnly(t, idx) {
							skip[k] = true
						}
					}
				}
			}
		}
		for _, k := range e.List(t, kinds) {
			if !skip[k] {
				set[k] = true
			}
		}
	}
	// closures handed to the call (Iterate*-style helpers run them synchronously)
	for _, fn := range v.closureArgs(call) {
		for _, k := range e.List(fn, kinds) {
			set[k] = true
		}
	}
	// external keeper table for interface calls with no repo implementation
	if f := v.callee(call); f != nil {
		if eff, ok := extEffectByName[f.Name()]; ok {
			if sig := f.Type().(*types.Signature); sig.Recv() != nil && strings.Contains(sig.Recv().Type().String(), "eeper") {
				if strings.ContainsRune(kinds, rune(eff[0])) {
					set[eff] = true
				}
			}
		}
	}
	var out []string
	for k := range set {
		out = append(out, k)
	}
	sort.Strings(out)
	return out
}

func (v *FnView) callWrites(call *ast.CallExpr) bool {
	return len(v.callEffects(call, "WD")) > 0
}

// allCalls lists every call expression under node in source order.
func allCalls(node ast.Node) []*ast.CallExpr {
	var out []*ast.CallExpr
	ast.Inspect(node, func(n ast.Node) bool {
		if c, ok := n.(*ast.CallExpr); ok {
			out = append(out, c)
		}
		return true
	})
	return out
}

// paramOfType returns the parameter objects of the function whose type string
// ends with suffix (e.g. "vm.Contract").
func (v *FnView) paramsOfType(suffix string) []types.Object {
	var out []types.Object
	for _, fl := range v.Decl.Type.Params.List {
		t := v.Info.TypeOf(fl.Type)
		if t == nil || !strings.HasSuffix(t.String(), suffix) {
			continue
		}
		for _, n := range fl.Names {
			if o := v.Info.ObjectOf(n); o != nil {
				out = append(out, o)
			}
		}
	}
	return out
}

// isFieldOfParam: e is `<param>.<field>` (optionally followed by .String()/[:]…
// conversions when allowWrap), where param is one of objs.
func (v *FnView) isFieldOfParam(e ast.Expr, objs []types.Object, field string, allowWrap bool) bool {
	e = stripParens(e)
	if allowWrap {
		if c, ok := e.(*ast.CallExpr); ok {
			if sel, ok := c.Fun.(*ast.SelectorExpr); ok && (sel.Sel.Name == "String" || sel.Sel.Name == "Hex" || sel.Sel.Name == "Bytes") && len(c.Args) == 0 {
				return v.isFieldOfParam(sel.X, objs, field, false)
			}
		}
	}
	sel, ok := e.(*ast.SelectorExpr)
	if !ok || sel.Sel.Name != field {
		return false
	}
	id, ok := stripParens(sel.X).(*ast.Ident)
	if !ok {
		return false
	}
	o := v.Info.ObjectOf(id)
	for _, p := range objs {
		if p == o {
			return true
		}
	}
	return false
}

// rootIdent returns the leftmost identifier of a selector/index/call chain.
func rootIdent(e ast.Expr) *ast.Ident {
	for {
		switch x := stripParens(e).(type) {
		case *ast.Ident:
			return x
		case *ast.SelectorExpr:
			e = x.X
		case *ast.IndexExpr:
			e = x.X
		case *ast.CallExpr:
			e = x.Fun
		case *ast.StarExpr:
			e = x.X
		case *ast.UnaryExpr:
			e = x.X
		case *ast.SliceExpr:
			e = x.X
		case *ast.TypeAssertExpr:
			e = x.X
		default:
			return nil
		}
	}
}

// closureArgs resolves function-literal arguments of a call (directly, or through
// a local variable assigned a function literal) to their SSA functions.
func (v *FnView) closureArgs(call *ast.CallExpr) []*ssa.Function {
	var lits []*ast.FuncLit
	for _, a := range call.Args {
		switch x := stripParens(a).(type) {
		case *ast.FuncLit:
			lits = append(lits, x)
		case *ast.Ident:
			obj := v.Info.ObjectOf(x)
			if _, isSig := obj.Type().Underlying().(*types.Signature); !isSig {
				continue
			}
			ast.Inspect(v.Decl.Body, func(n ast.Node) bool {
				if as, ok := n.(*ast.AssignStmt); ok {
					for i, l := range as.Lhs {
						if lid, ok := l.(*ast.Ident); ok && v.Info.ObjectOf(lid) == obj && i < len(as.Rhs) {
							if fl, ok := as.Rhs[i].(*ast.FuncLit); ok {
								lits = append(lits, fl)
							}
						}
					}
				}
				return true
			})
		}
	}
	if len(lits) == 0 {
		return nil
	}
	root := v.W.Prog.FuncValue(v.Obj)
	if root == nil {
		return nil
	}
	var out []*ssa.Function
	for _, fn := range withAnon(root) {
		for _, fl := range lits {
			if fn.Pos() == fl.Type.Func || fn.Pos() == fl.Pos() {
				out = append(out, fn)
			}
		}
	}
	return out
}
