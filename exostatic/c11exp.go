package main

import (
	"fmt"
	"go/ast"
	"go/constant"
	"go/token"
	"go/types"
	"strings"
)

// C11.R10 -- powers of ten built as 256-bit integers have a bounded exponent.
//
// sdkmath.NewIntWithDecimal(n, e) panics when n*10^e needs more than 256 bits (e >= 78 for n = 1). The voting
// power update computes 10^(asset decimal + price decimal) at every epoch end (BeginBlock, unrecovered). Decided:
//   - every exponent in scope is a sum of asset decimals (AssetInfo.Decimals, GetAssetsDecimal) and price
//     decimals (oracle types.Price.Decimal), traced through conversions, locals, parameters (all callers) and
//     results of in-scope helpers;
//   - asset decimals above MaxDecimal and token decimals outside [0, MaxTokenDecimal] are rejected where they are
//     stored, every token of a params value is validated, final prices carry the token's decimal, and the
//     constants add up to at most 77.
func c11Exponents(r *Run) {
	w := r.W
	// ---- sites
	nSites := 0
	for _, v := range w.allViews() {
		if v.Decl.Body == nil || !inScopeFile(w.relFile(v.Decl.Pos())) {
			continue
		}
		for _, c := range v.CallsNamed("NewIntWithDecimal") {
			fo := v.callee(c)
			if fo == nil || fo.Pkg() == nil || fo.Pkg().Path() != "cosmossdk.io/math" || len(c.Args) != 2 {
				continue
			}
			nSites++
			kinds, bad := decimalSource(w, v, c.Args[1], 0)
			key := "exp|" + v.ID() + "|" + exprString(c.Args[1])
			if bad == "" && len(kinds) > 0 {
				r.ok("C11.R10", key, v.pos(c), "exponent is a sum of bounded decimals: "+strings.Join(kinds, " + "))
			} else {
				r.bad("C11.R10", key, v.pos(c), "the exponent of NewIntWithDecimal is a sum of asset decimals and price decimals (both bounded where they are stored)",
					"the exponent `"+exprString(c.Args[1])+"` of NewIntWithDecimal in "+v.ID()+" is not traced to bounded decimals ("+bad+"): beyond 10^77 the constructor panics, in block processing that halts the chain")
			}
		}
	}
	if nSites < 4 {
		r.bad("C11.R10", "exp|matcher", "-", "at least 4 NewIntWithDecimal sites", fmt.Sprintf("only %d found", nSites))
	}
	// ---- constants
	maxAsset, okA := constInt(w, "x/assets/types", "MaxDecimal")
	maxToken, okT := constInt(w, "x/oracle/types", "MaxTokenDecimal")
	defPrice, okD := constInt(w, "x/oracle/types", "DefaultPriceDecimal")
	r.check(okA && okT && okD && maxAsset+maxToken <= 77 && defPrice >= 0 && defPrice <= maxToken, "C11.R10", "bound|constants", "-",
		fmt.Sprintf("MaxDecimal (%d) + MaxTokenDecimal (%d) <= 77 and DefaultPriceDecimal (%d) is within the token bound", maxAsset, maxToken, defPrice),
		fmt.Sprintf("assets MaxDecimal=%d (found %v), oracle MaxTokenDecimal=%d (found %v), DefaultPriceDecimal=%d (found %v): 10^(asset decimal + price decimal) can exceed 256 bits", maxAsset, okA, maxToken, okT, defPrice, okD))
	// ---- token decimal validated
	if tv := w.View("x/oracle/types", "Token.validate"); tv == nil {
		r.bad("C11.R10", "bound|token-decimal", "-", "anchor", "Token.validate not found")
	} else {
		isDec := func(e ast.Expr) bool {
			return lastField(e) == "Decimal" && isParamOf(tv, rootIdent(e)) || lastField(e) == "Decimal" && isRecv(tv, rootIdent(e))
		}
		lo := tv.rejectsWhen(tv.Decl.Body, func(f Fact) bool {
			c, ok := factCmp(f)
			return ok && c.Op == "<" && isDec(c.L) && exprString(c.R) == "0"
		}, nil)
		hi := tv.rejectsWhen(tv.Decl.Body, func(f Fact) bool {
			c, ok := factCmp(f)
			return ok && c.Op == ">" && isDec(c.L) && strings.HasSuffix(exprString(c.R), "MaxTokenDecimal")
		}, nil)
		r.check(lo && hi, "C11.R10", "bound|token-decimal", tv.pos(tv.Decl), "a token decimal below 0 or above MaxTokenDecimal is rejected", fmt.Sprintf("Token.validate: rejects Decimal < 0: %v, rejects Decimal > MaxTokenDecimal: %v (a negative decimal becomes 255 in the uint8 price decimal)", lo, hi))
	}
	// ---- every token validated
	if pv := w.View("x/oracle/types", "Params.Validate"); pv == nil {
		r.bad("C11.R10", "bound|every-token", "-", "anchor", "Params.Validate not found")
	} else {
		ok := false
		ast.Inspect(pv.Decl.Body, func(n ast.Node) bool {
			rs, isR := n.(*ast.RangeStmt)
			if !isR || lastField(rs.X) != "Tokens" || pv.nestedConditionally(rs, pv.Decl.Body) {
				return true
			}
			key := pv.objOf(rs.Key)
			if pv.rejectsWhen(rs.Body, func(f Fact) bool {
				o := pv.outcome(f)
				if o == nil || o.Callee.Name() != "validate" || o.Success {
					return false
				}
				recv, _, _, isM := methodCall(o.Call)
				return isM && pv.objOf(recv) == pv.objOf(rs.Value)
			}, func(f Fact) bool {
				// the reserved entry 0 is skipped
				c, isC := factCmp(f)
				return isC && key != nil && pv.objOf(c.L) == key && exprString(c.R) == "0" && (c.Op == "!=" || c.Op == ">")
			}) {
				ok = true
			}
			return true
		})
		r.check(ok, "C11.R10", "bound|every-token", pv.pos(pv.Decl), "Params.Validate validates every token but the reserved entry 0", "Params.Validate does not reject params in which some token (other than entry 0) fails Token.validate")
	}
	// ---- final prices carry the token's decimal; Price values carry the stored decimal or the default
	{
		n, okAll := 0, true
		var why []string
		for _, v := range w.allViews() {
			rel := w.relFile(v.Decl.Pos())
			if v.Decl.Body == nil || !strings.HasPrefix(rel, "x/oracle/keeper/") || strings.HasSuffix(rel, "genesis.go") {
				continue
			}
			ast.Inspect(v.Decl.Body, func(m ast.Node) bool {
				cl, isCL := m.(*ast.CompositeLit)
				if !isCL {
					return true
				}
				nt := namedOf(v.Info.TypeOf(cl))
				if nt == nil || !strings.HasSuffix(nt.Obj().Pkg().Path(), "x/oracle/types") {
					return true
				}
				tn := nt.Obj().Name()
				if tn != "PriceTimeRound" && tn != "Price" {
					return true
				}
				for _, el := range cl.Elts {
					kv, isKV := el.(*ast.KeyValueExpr)
					if !isKV || exprString(kv.Key) != "Decimal" {
						continue
					}
					n++
					val := stripTypeConv(v, kv.Value)
					good := false
					switch tn {
					case "PriceTimeRound":
						// GetTokenInfo(...).Decimal, or a copy of a stored price's decimal
						if sel, isSel := val.(*ast.SelectorExpr); isSel && sel.Sel.Name == "Decimal" {
							if c, isC := stripParens(sel.X).(*ast.CallExpr); isC && v.calleeName(c) == "GetTokenInfo" {
								good = true
							}
							if nt2 := namedOf(v.Info.TypeOf(sel.X)); nt2 != nil && nt2.Obj().Name() == "PriceTimeRound" {
								good = true
							}
						}
					case "Price":
						if lastField(val) == "DefaultPriceDecimal" {
							good = true
						}
						if sel, isSel := val.(*ast.SelectorExpr); isSel && sel.Sel.Name == "Decimal" {
							if nt2 := namedOf(v.Info.TypeOf(sel.X)); nt2 != nil && nt2.Obj().Name() == "PriceTimeRound" {
								good = true
							}
						}
					}
					if !good {
						okAll = false
						why = append(why, v.pos(kv)+": "+tn+"{Decimal: "+exprString(kv.Value)+"}")
					}
				}
				return true
			})
		}
		r.check(okAll && n >= 4, "C11.R10", "bound|price-decimal-sources", "-", fmt.Sprintf("the %d price values built in x/oracle/keeper carry the token's decimal, a stored price's decimal or the default", n),
			"price values with a decimal from elsewhere: "+strings.Join(why, "; "))
	}
	// ---- asset decimals validated where assets are stored
	{
		ok := false
		var at string
		for _, v := range w.allViews() {
			if v.Decl.Body == nil || w.relPkg(v.Obj.Pkg().Path()) != "x/assets/keeper" || len(v.CallsNamed("Set")) == 0 {
				continue
			}
			if v.rejectsWhen(v.Decl.Body, func(f Fact) bool {
				c, isC := factCmp(f)
				return isC && c.Op == ">" && lastField(c.L) == "Decimals" && strings.HasSuffix(exprString(c.R), "MaxDecimal")
			}, nil) {
				ok, at = true, v.ID()
			}
		}
		r.check(ok, "C11.R10", "bound|asset-decimal", "-", "an asset whose decimals exceed MaxDecimal is rejected where staking assets are stored ("+at+")", "no asset store function of x/assets/keeper rejects Decimals > MaxDecimal")
	}
}

func isRecv(v *FnView, id *ast.Ident) bool {
	if id == nil || v.Decl.Recv == nil || len(v.Decl.Recv.List) == 0 || len(v.Decl.Recv.List[0].Names) == 0 {
		return false
	}
	return v.Info.ObjectOf(id) == v.Info.ObjectOf(v.Decl.Recv.List[0].Names[0])
}

func constInt(w *World, relPkg, name string) (int64, bool) {
	p := w.Pkg(relPkg)
	if p == nil {
		return 0, false
	}
	c, ok := p.Types.Scope().Lookup(name).(*types.Const)
	if !ok {
		return 0, false
	}
	return constant.Int64Val(constant.ToInt(c.Val()))
}

// stripTypeConv removes parentheses and type conversions.
func stripTypeConv(v *FnView, e ast.Expr) ast.Expr {
	for {
		e = stripParens(e)
		c, ok := e.(*ast.CallExpr)
		if !ok || len(c.Args) != 1 {
			return e
		}
		if tv, isT := v.Info.Types[c.Fun]; !isT || !tv.IsType() {
			return e
		}
		e = c.Args[0]
	}
}

// decimalSource classifies the leaves of an exponent expression. It returns the kinds found and, if some leaf is
// of no accepted kind, a description of that leaf.
func decimalSource(w *World, v *FnView, e ast.Expr, depth int) ([]string, string) {
	if depth > 4 {
		return nil, "tracing depth exceeded at " + exprString(e)
	}
	e = stripTypeConv(v, e)
	switch x := e.(type) {
	case *ast.BinaryExpr:
		if x.Op == token.ADD {
			l, bl := decimalSource(w, v, x.X, depth)
			rr, br := decimalSource(w, v, x.Y, depth)
			if bl != "" {
				return nil, bl
			}
			if br != "" {
				return nil, br
			}
			return append(l, rr...), ""
		}
	case *ast.BasicLit:
		if x.Kind == token.INT {
			return []string{"literal " + x.Value}, ""
		}
	case *ast.SelectorExpr:
		if fo, ok := v.Info.Uses[x.Sel].(*types.Var); ok && fo.IsField() && fo.Pkg() != nil {
			pkg := fo.Pkg().Path()
			if fo.Name() == "Decimals" && strings.HasSuffix(pkg, "x/assets/types") {
				return []string{"asset decimal"}, ""
			}
			if fo.Name() == "Decimal" && strings.HasSuffix(pkg, "x/oracle/types") {
				if nt := namedOf(v.Info.TypeOf(x.X)); nt != nil && nt.Obj().Name() == "Price" {
					return []string{"price decimal"}, ""
				}
			}
		}
	case *ast.IndexExpr:
		if resolvesToCallV(v, x.X, "GetAssetsDecimal") {
			return []string{"asset decimal"}, ""
		}
		// a map handed in by the callers: each of them passes GetAssetsDecimal's result
		if id, isID := stripParens(x.X).(*ast.Ident); isID && isParamObj(v, v.Info.ObjectOf(id)) {
			idx := paramIndex(v, v.Info.ObjectOf(id))
			n := 0
			for _, cv := range w.allViews() {
				if cv.Decl.Body == nil {
					continue
				}
				for _, c := range cv.CallsNamed(v.Obj.Name()) {
					if cv.callee(c) != v.Obj || idx < 0 || idx >= len(c.Args) || strings.HasSuffix(w.relFile(c.Pos()), "_test.go") {
						continue
					}
					n++
					if isNilIdent(cv.Info, c.Args[idx]) {
						continue // a nil map has no entries
					}
					if !resolvesToCallV(cv, c.Args[idx], "GetAssetsDecimal") {
						return nil, "the map passed at " + cv.pos(c) + " is not GetAssetsDecimal's result"
					}
				}
			}
			if n > 0 {
				return []string{"asset decimal"}, ""
			}
		}
	case *ast.Ident:
		o := v.Info.ObjectOf(x)
		if o == nil {
			break
		}
		if isParamObj(v, o) {
			idx := paramIndex(v, o)
			var kinds []string
			n := 0
			for _, cv := range w.allViews() {
				if cv.Decl.Body == nil {
					continue
				}
				for _, c := range cv.CallsNamed(v.Obj.Name()) {
					if cv.callee(c) != v.Obj || idx < 0 || idx >= len(c.Args) {
						continue
					}
					if strings.HasSuffix(w.relFile(c.Pos()), "_test.go") {
						continue
					}
					n++
					k, bad := decimalSource(w, cv, c.Args[idx], depth+1)
					if bad != "" {
						return nil, "argument at " + cv.pos(c) + ": " + bad
					}
					kinds = append(kinds, k...)
				}
			}
			if n == 0 {
				return nil, "parameter " + x.Name + " of " + v.ID() + " has no caller in scope"
			}
			return uniq(kinds), ""
		}
		// a local: its definitions
		var kinds []string
		found := false
		bad := ""
		ast.Inspect(v.Decl.Body, func(n ast.Node) bool {
			as, ok := n.(*ast.AssignStmt)
			if !ok {
				return true
			}
			for i, l := range as.Lhs {
				if id, isID := l.(*ast.Ident); !isID || v.Info.ObjectOf(id) != o {
					continue
				}
				found = true
				if len(as.Rhs) == len(as.Lhs) {
					k, b := decimalSource(w, v, as.Rhs[i], depth+1)
					if b != "" {
						bad = b
					}
					kinds = append(kinds, k...)
					continue
				}
				// a tuple-returning in-scope helper: result i of every return
				if ix, isIx := stripParens(as.Rhs[0]).(*ast.IndexExpr); isIx && i == 0 {
					// value, present := m[key]
					k, b := decimalSource(w, v, ix, depth+1)
					if b != "" {
						bad = b
					}
					kinds = append(kinds, k...)
					continue
				}
				call, isC := stripParens(as.Rhs[0]).(*ast.CallExpr)
				if !isC {
					bad = "defined by " + exprString(as.Rhs[0])
					continue
				}
				fo := v.callee(call)
				hv := w.ViewOf(fo)
				if fo == nil || hv == nil {
					bad = "defined by a call the analysis cannot enter: " + exprString(call.Fun)
					continue
				}
				ast.Inspect(hv.Decl.Body, func(m ast.Node) bool {
					if _, isLit := m.(*ast.FuncLit); isLit {
						return false
					}
					rs, isR := m.(*ast.ReturnStmt)
					if !isR || len(rs.Results) <= i {
						return true
					}
					if returnsErr(hv, rs) {
						return true // the caller rejects on the error before using the value
					}
					k, b := decimalSource(w, hv, rs.Results[i], depth+1)
					if b != "" {
						bad = b
					}
					kinds = append(kinds, k...)
					return true
				})
			}
			return true
		})
		if bad != "" {
			return nil, bad
		}
		if found && len(kinds) > 0 {
			return uniq(kinds), ""
		}
	}
	return nil, "`" + exprString(e) + "` is neither an asset decimal nor a price decimal"
}

func paramIndex(v *FnView, o types.Object) int {
	i := 0
	for _, fl := range v.Decl.Type.Params.List {
		if len(fl.Names) == 0 {
			i++
			continue
		}
		for _, n := range fl.Names {
			if v.Info.ObjectOf(n) == o {
				return i
			}
			i++
		}
	}
	return -1
}
