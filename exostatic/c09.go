package main

import (
	"go/ast"
	"go/token"
	"go/types"
	"strings"

	"golang.org/x/tools/go/ssa"
)

func init() { register("C09", runC09) }

// wbfInfeasible: write-before-failure pairs that reading shows cannot happen.
// Key: "<precompile>.<ABI method or *>|<failing callee>|<first written family or *>".
// Every line carries the one-sentence reason; a pair in neither this table nor the
// known-findings file is a violation.
var wbfInfeasible = []struct{ pat, why string }{
	{"*|Pack|*", "method.Outputs.Pack of a fixed ABI output tuple with values of exactly the declared Go types cannot fail"},
	{"avs.createTask|EmitCreateAVSTaskEvent|*", "event packing of the fixed createTask ABI event from typed fields; the only error is an ABI mismatch that the unit tests exercise"},
	{"assets.registerToken|SetStakingAssetInfo|oracle:*", "the handler rejects a duplicate asset (IsStakingAsset) and decimals > MaxDecimal before the oracle registration (witnessed by C09.R1w); StakingTotalAmount is the literal 0"},
	{"avs.*|GetAVSSlashContract|operator:*", "OptIn rejects an unregistered AVS (IsAVS) before anything is written, so the AVS info read cannot miss"},
	{"avs.*|SetOptedInfo|operator:*", "SetOptedInfo fails only on an operator address that is not bech32; the argument is AccAddress.String()"},
	{"avs.*|HandleOptedInfo|operator:*", "HandleOptedInfo fails only on a missing opted-in record or a non-bech32 operator; OptOut requires IsActive (record exists) and passes AccAddress.String()"},
	{"avs.createTask|SetTaskInfo|avs:*", "SetTaskInfo fails only on a task-contract address that is not hex; the precompile sets it from contract.CallerAddress.String()"},
	{"delegation.delegate|CalculateShare|*", "after the staker-side debit the operator pool read can only miss for a non-operator, rejected by IsOperator first; SharesFromTokens fails only on negative input (amount is checked positive)"},
	{"delegation.delegate|UpdateOperatorAssetState|*", "all deltas are positive (amount checked positive, share derived from it); UpdateAssetValue refuses only subtraction below zero"},
	{"delegation.delegate|UpdateDelegationState|*", "positive share delta; the operator address is AccAddress.String()"},
	{"delegation.undelegate|UpdateStakerAssetState|*", "credits the pending amount just removed from the pool (positive delta)"},
	{"delegation.undelegate|UpdateDelegationState|*", "the share removed was validated <= the staker's share by ValidateUndelegationAmount before RemoveShare"},
	{"delegation.undelegate|DeleteStakerForOperator|*", "reached only when the staker's share became zero, i.e. the staker was in the operator's list (appended by every delegation)"},
	{"delegation.undelegate|SetUndelegationRecords|*", "rejects only a completion height below the current height; it is current height + a positive constant"},
	{"delegation.undelegate|AfterUndelegationStarted|*", "the hook fails only on uint64 overflow of the hold count"},
	{"delegation.undelegate|IncrementUndelegationHoldCount|*", "fails only on uint64 overflow of the hold count"},
	{"delegation.associateOperatorWithStaker|IterateDelegationsForStaker|*", "the callback adds a non-negative share to OperatorShare; keys were written by the module itself"},
	{"delegation.associateOperatorWithStaker|SetAssociatedOperator|*", "fails only on a non-bech32 operator; the argument is AccAddress.String()"},
	{"delegation.dissociateOperatorFromStaker|IterateDelegationsForStaker|*", "subtracts the staker's own share from OperatorShare, which contains it by the association invariant (C02); keys were written by the module itself"},
}

func globMatch(pat, s string) bool {
	if pat == "*" {
		return true
	}
	if strings.HasSuffix(pat, "*") {
		return strings.HasPrefix(s, strings.TrimSuffix(pat, "*"))
	}
	return pat == s
}

func wbfInfeasibleReason(entry, src, after string) (string, bool) {
	for _, row := range wbfInfeasible {
		parts := strings.Split(row.pat, "|")
		if len(parts) == 3 && globMatch(parts[0], entry) && globMatch(parts[1], src) && globMatch(parts[2], after) {
			return row.why, true
		}
	}
	return "", false
}

func runC09(r *Run) {
	w := r.W
	r.Explain = "Static decision of structural necessary conditions of C09 (failed operations are atomic): " +
		"(R1) for every precompile transaction whose error Run converts into a `false` return value, the interprocedural write-before-failure analysis (origin-keyed) finds no path that performs a store write and later reports failure, except pairs proven infeasible by reading (table with reasons) - writes made through a cache context count only at its commit; " +
		"(R3) cache-context discipline d1-d4 at every CacheContext() site; (R4) the same write-before-failure obligation at every call in Begin/EndBlock-reachable code whose failure is logged and skipped; (R5) deferred effects are guarded by the named error result."
	r.NotDec = []string{"EVM inner-frame revert semantics of successful precompile calls (evmos StateDB)", "byte-level state equality", "Msg handlers: store atomicity is provided by baseapp's message cache (trusted base); only the oracle's in-memory effects are a separate obligation (see C14)",
		"feasibility of the pairs listed as infeasible is argued by reading, not decided"}
	r.Assume = []string{"baseapp.runTx discards the message cache when a Msg handler returns an error and recovers panics", "sdk.Context.CacheContext writes nothing to the parent until the returned function is called",
		"effect summaries over-approximate store writes (VTA + repo-type CHA for interface calls)"}
	r.rule("C09.R1", "precompile transactions whose failure is reported as a `false` return value (error swallowed by Run): no store write (outside an uncommitted cache context) precedes a reported failure; pairs are keyed <precompile.method>|<failing callee>|<first written family>", 30)
	r.rule("C09.R1w", "witness for the registerToken infeasibility row: decimals > MaxDecimal and an existing asset lead to an error return before RegisterNewTokenAndSetTokenFeeder", 2)
	r.rule("C09.R3", "cache-context discipline at every CacheContext() site in consensus code: (d1) no store write through the parent context while the cache is open, (d2) commit reachable only if every fallible step using the cache context succeeded, (d3) no failure reported after the commit, (d4) one cache context per committed item", 40)
	r.rule("C09.R4", "Begin/EndBlock-reachable code: a call whose failure is logged and skipped (not propagated) must have no write-before-failure pair of its own (its partial effects would survive)", 10)
	r.rule("C09.R5", "a deferred function that performs a store write is guarded by `<named error result> == nil`", 1)
	r.rule("C09.R6", "oracle params are modified on a copy read from the store, never on the in-memory aggregator's params (a rejected update would leave the process-local state changed)", 2)
	r.rule("C09.R7", "a failed Ethereum transaction leaves no precompile effect: the message runs on the per-transaction cache context that is committed only on success (C19.R3 obligations)", 4)
	// a message naming several operators is all-or-nothing: its handler opens one cache context before the loop
	// over the operators and commits it after the loop
	for _, nm := range []string{"Keeper.DelegateAssetToOperator", "Keeper.UndelegateAssetFromOperator"} {
		hv := w.View("x/delegation/keeper", nm)
		if hv == nil {
			r.bad("C09.R3", "msg-cache|"+nm, "-", "anchor", nm+" not found")
			continue
		}
		okOne := true
		nCC, nW := 0, 0
		for _, c := range hv.CallsNamed("CacheContext") {
			nCC++
			if hv.innermostLoop(c) != nil {
				okOne = false
			}
		}
		ast.Inspect(hv.Decl.Body, func(n ast.Node) bool {
			c, isC := n.(*ast.CallExpr)
			if !isC || len(c.Args) != 0 {
				return true
			}
			if id, isID := c.Fun.(*ast.Ident); isID && resolvesToCallV(hv, id, "CacheContext") {
				nW++
				if hv.innermostLoop(c) != nil {
					okOne = false
				}
			}
			return true
		})
		r.check(okOne && nCC == 1 && nW == 1, "C09.R3", "msg-cache|"+nm, hv.pos(hv.Decl), "one cache context spans all operators of the message and is committed once, after the loop", nm+" does not use a single cache context around its loop over the operators: when a later operator's part fails, the earlier parts are already written although the message reports the failure")
	}
	if r.Prop == "C09" {
		sub := NewRun(r.W, "C19", r.Tier, r.Seed)
		runC19(sub)
		n := 0
		for _, o := range sub.Obs {
			if o.Rule != "C19.R3" {
				continue
			}
			n++
			if o.Status == "ok" {
				r.ok("C09.R7", o.Key, o.Pos, o.Desc)
			} else {
				r.bad("C09.R7", o.Key, o.Pos, o.Desc, o.Detail)
			}
		}
		if n == 0 {
			r.bad("C09.R7", "evm|none", "-", "C19.R3 obligations present", "no obligations")
		}
	}
	for _, nm := range []string{"msgServer.UpdateParams", "Keeper.RegisterNewTokenAndSetTokenFeeder"} {
		pv := w.View("x/oracle/keeper", nm)
		if pv == nil {
			r.bad("C09.R6", "anchor|"+nm, "-", "anchor", nm+" not found")
			continue
		}
		r.saw(pv.ID())
		// the value handed to SetParams: all of its definitions are Keeper.GetParams(ctx) or results of pure
		// Params methods applied to it
		okSrc, why := false, "no SetParams call"
		for _, c := range pv.CallsNamed("SetParams") {
			if len(c.Args) != 2 {
				continue
			}
			obj := pv.objOf(c.Args[1])
			if obj == nil {
				why = "SetParams is not given a local variable"
				continue
			}
			okSrc, why = true, ""
			for _, d := range pv.defsOf(obj) {
				dc, isC := stripParens(d).(*ast.CallExpr)
				if !isC {
					okSrc, why = false, "the params variable is defined by "+exprString(d)
					continue
				}
				recv, mname, _, isM := methodCall(dc)
				if !isM {
					okSrc, why = false, "the params variable is defined by "+exprString(d)
					continue
				}
				if mname == "GetParams" {
					// must be the keeper's store read (takes a context), not the aggregator context's in-memory copy
					cal := pv.callee(dc)
					fromStore := cal != nil && cal.Pkg() != nil && strings.HasSuffix(cal.Pkg().Path(), "x/oracle/keeper") && len(dc.Args) == 1
					if !fromStore {
						okSrc, why = false, "the params to modify come from "+exprString(dc)+" (the in-memory aggregator context shares its Token/TokenFeeder objects with this copy)"
					}
					continue
				}
				// p, err = p.AddSources(...) etc.: method on the same variable
				if pv.objOf(recv) == obj {
					continue
				}
				okSrc, why = false, "the params variable is defined by "+exprString(d)
			}
		}
		r.check(okSrc, "C09.R6", "oracle-params|from-store|"+nm, pv.pos(pv.Decl), "the params being modified are a fresh copy from the store", nm+": "+why)
	}

	a := newWBF(w)
	// R1
	for _, t := range precompileTable(w) {
		for _, m := range t.Methods {
			if !m.IsTx {
				continue
			}
			entry := t.Name + "." + m.ABIName
			hv := w.ViewOf(m.HandlerObj)
			if hv != nil {
				r.saw(hv.ID())
			}
			if !m.Swallow {
				// error propagates to the EVM, which reverts the call frame
				r.ok("C09.R1", entry+"|propagates", "-", "handler error is returned to the EVM (frame reverted)")
				continue
			}
			pairs := a.After(m.HandlerObj)
			if len(pairs) == 0 {
				r.ok("C09.R1", entry+"|none", w.pos(m.HandlerObj.Pos()), "no write-before-failure pair")
			}
			for _, p := range pairs {
				key := entry + "|" + p.Src + "|" + p.After
				if why, ok := wbfInfeasibleReason(entry, p.Src, p.After); ok {
					r.ok("C09.R1", key, p.Where, "infeasible: "+why)
					continue
				}
				r.bad("C09.R1", key, p.Where, "write-before-failure pair", "a store write ("+p.After+" at "+p.WPos+") precedes a failure of "+p.Src+" (origin "+p.Origin+") in "+p.Via+"; Run reports it as `false` without reverting")
			}
		}
	}
	// R1w
	if v := w.View("precompiles/assets", "Precompile.RegisterToken"); v != nil {
		for _, c := range v.CallsNamed("RegisterNewTokenAndSetTokenFeeder") {
			okDec, okDup := false, false
			for _, f := range v.FactsAt(c, false) {
				if be, ok := stripParens(f.Atom).(*ast.BinaryExpr); ok && be.Op == token.GTR && !f.Truth {
					if sp := selectorPath(be.X); len(sp) > 0 && sp[len(sp)-1] == "Decimals" && strings.Contains(exprString(be.Y), "MaxDecimal") {
						okDec = true
					}
				}
				if o := v.outcome(f); o != nil && o.Callee.Name() == "IsStakingAsset" && !o.Success {
					okDup = true
				}
			}
			r.check(okDec, "C09.R1w", "registerToken|decimals", v.pos(c), "Decimals > MaxDecimal is rejected before the oracle registration", "the decimals bound is not checked before RegisterNewTokenAndSetTokenFeeder writes")
			r.check(okDup, "C09.R1w", "registerToken|duplicate", v.pos(c), "an existing asset is rejected before the oracle registration", "IsStakingAsset is not checked before RegisterNewTokenAndSetTokenFeeder writes")
		}
	} else {
		r.bad("C09.R1w", "registerToken|anchor", "-", "anchor", "precompiles/assets.Precompile.RegisterToken not found")
	}
	// R3
	sites := ccSites(w, func(rf string) bool {
		return !strings.HasPrefix(rf, "x/appchain/") && !strings.HasPrefix(rf, "x/evm/") && !strings.HasPrefix(rf, "app/ante/")
	})
	cacheCtxRule(r, "C09.R3", sites)
	// R4
	br := blockReachable(w)
	nSwallow := 0
	for f := range br {
		v := w.ViewOf(f)
		if v == nil || strings.HasPrefix(funcID(f), "x/appchain") || strings.HasPrefix(funcID(f), "x/evm") {
			continue
		}
		for _, c := range allCalls(v.Decl.Body) {
			if !lastResultIsError(v, c) {
				continue
			}
			k, _ := v.failArm(c)
			if k == "return" || k == "panic" {
				continue
			}
			nSwallow++
			ccArg := false
			for _, s := range a.sitesOf(v) {
				if s.CC != nil && v.argIsObj(c, s.CC) {
					ccArg = true
				}
			}
			cal := v.calleeName(c)
			key := funcID(f) + "|" + cal
			if ccArg {
				r.ok("C09.R4", key, v.pos(c), "skipped failure runs inside a cache context that is discarded")
				continue
			}
			var bad []string
			for _, t := range v.targetsOf(c) {
				fo, _ := t.Object().(*types.Func)
				if fo == nil {
					continue
				}
				for _, p := range a.After(fo) {
					if _, ok := wbfInfeasibleReason("block."+cal, p.Src, p.After); ok {
						continue
					}
					bad = append(bad, p.String())
				}
			}
			r.check(len(bad) == 0, "C09.R4", key, v.pos(c), "logged-and-skipped failure of "+cal+" (arm: "+k+") leaves no partial effect",
				"the failure of "+cal+" is skipped by its caller but it can fail after a store write: "+strings.Join(bad, " ;; "))
		}
	}
	r.note("C09.R4: %d logged-and-skipped fallible calls in %d block-reachable functions", nSwallow, len(br))
	// R5
	live := entryReachable(w)
	for _, p := range w.Pkgs {
		for _, f := range p.Syntax {
			rf := w.relFile(f.Pos())
			if !inScopeFile(rf) || !strings.HasPrefix(rf, "x/") || strings.HasPrefix(rf, "x/evm/") || strings.HasPrefix(rf, "x/appchain/") {
				continue
			}
			for _, d := range f.Decls {
				fd, ok := d.(*ast.FuncDecl)
				if !ok || fd.Body == nil {
					continue
				}
				obj, _ := p.TypesInfo.Defs[fd.Name].(*types.Func)
				v := w.ViewOf(obj)
				if v == nil {
					continue
				}
				sig := obj.Type().(*types.Signature)
				if _, isLive := live[obj]; !isLive || sig.Results().Len() == 0 || !isErrorType(sig.Results().At(sig.Results().Len()-1).Type()) {
					continue // only functions that can report failure, on live paths
				}
				ast.Inspect(fd.Body, func(n ast.Node) bool {
					ds, ok := n.(*ast.DeferStmt)
					if !ok {
						return true
					}
					for _, c := range allCalls(ds.Call) {
						if c == ds.Call {
							if _, isLit := c.Fun.(*ast.FuncLit); isLit {
								continue
							}
						}
						if !v.callWrites(c) {
							continue
						}
						// commit functions of cache contexts are R3's subject
						key := funcID(obj) + "|" + exprString(c.Fun)
						r.check(v.inGuardedDefer(c), "C09.R5", key, v.pos(c), "deferred write is guarded by the named error result",
							"a deferred call with a store-write effect runs even when the function reports failure")
					}
					return true
				})
			}
		}
	}
}

// blockReachable: repo functions (with source) reachable from Begin/EndBlock roots,
// epoch hooks, and the SDK callbacks invoked from slashing/evidence BeginBlockers.
func blockReachable(w *World) map[*types.Func]string {
	cat := catalogue(w)
	roots := cat.Fns("beginblock", "endblock", "epochhook")
	for _, e := range cat.Cat("sdkcallback") {
		roots = append(roots, e.Fn)
	}
	parent := w.Reach(roots, func(f *ssa.Function) bool { return !w.fnInScope(f) && f.Pkg != nil })
	out := map[*types.Func]string{}
	for f := range parent {
		if !w.fnInScope(f) {
			continue
		}
		root := f
		for root.Parent() != nil {
			root = root.Parent()
		}
		if fo, ok := root.Object().(*types.Func); ok && w.declOf[fo] != nil {
			if _, seen := out[fo]; !seen {
				out[fo] = pathTo(parent, f)
			}
		}
	}
	return out
}
